From Coq Require Import List NArith Bool Arith Lia ZifyN ZifyNat ZifyBool.
Import ListNotations.
From GM Require Import Base.Topic Base.Msg Model.SubTrie Model.SubSpec Model.RetTrie Model.FedQueue Model.FedRoute
  Oracle.C02O Oracle.C17O Proofs.TopicP Proofs.SubTrieP Proofs.RetTrieP Proofs.FedRouteP.
Open Scope N_scope.

(* ------------------------------------------------------------------ *)
(* a share group that spans nodes, outside the known-finding class     *)
(* ------------------------------------------------------------------ *)

(* the flat store after a history of plain subscribes *)
Definition okey (o : op) : skey :=
  match o with OSub c s => (c, s_share s, s_filter s) | OUnsub c _ => (c, [], []) | OUnsubAll c => (c, [], []) end.
Definition is_psub (o : op) : Prop := exists c g f, o = OSub c (plain_sub g f).

Lemma spec_fold_psubs ops : forall sp k, (forall o, In o ops -> is_psub o) ->
  sp_get k (fold_left spec_step ops sp) =
  if existsb (fun o => skey_eqb k (okey o)) ops then Some (plain_sub (snd (fst k)) (snd k)) else sp_get k sp.
Proof.
  induction ops as [|o r IH]; intros sp k H; cbn [fold_left existsb]; [reflexivity|].
  rewrite IH by (intros o' Ho'; apply H; now right).
  destruct (H o (or_introl eq_refl)) as (c & g & f & ->). cbn [spec_step okey plain_sub s_share s_filter].
  destruct (existsb (fun o => skey_eqb k (okey o)) r); [now rewrite orb_true_r|]. rewrite orb_false_r, sp_get_set.
  destruct (skey_eqb_spec k (c, g, f)) as [->|_]; reflexivity.
Qed.

Lemma spec_run_psubs ops k : (forall o, In o ops -> is_psub o) ->
  sp_get k (spec_run ops) =
  if existsb (fun o => skey_eqb k (okey o)) ops then Some (plain_sub (snd (fst k)) (snd k)) else None.
Proof. intros H. unfold spec_run. now rewrite spec_fold_psubs. Qed.

(* well-formed federation description *)
Definition wf_lsub (s : lsub) : bool := negb (is_empty (fst (fst s))) && no_slash (snd (fst s)).
Definition wf_case (c : rcase) : bool :=
  negb (mem_str (rc_node c) (rc_peers c)) &&
  forallb (fun n => negb (is_empty n) && forallb wf_lsub (subs_of n c)) (rc_node c :: rc_peers c).

Lemma wf_case_subs c n s : wf_case c = true -> In n (rc_node c :: rc_peers c) -> In s (subs_of n c) -> wf_lsub s = true.
Proof.
  unfold wf_case. intros H Hn Hs. apply andb_true_iff in H as [_ H]. rewrite forallb_forall in H.
  specialize (H n Hn). apply andb_true_iff in H as [_ H]. rewrite forallb_forall in H. now apply H.
Qed.

Lemma local_ops_psub c o : In o (local_ops_of c) -> is_psub o.
Proof. unfold local_ops_of. intros H. apply in_map_iff in H as ([[cl g] f] & <- & _). now exists cl, g, f. Qed.
Lemma fed_ops_psub c o : In o (fed_ops_of c) -> is_psub o.
Proof.
  unfold fed_ops_of. intros H. apply in_flat_map in H as (n & _ & H). apply in_map_iff in H as ([[cl g] f] & <- & _). now exists n, g, f.
Qed.

Lemma wf_local_ops c : wf_case c = true -> wf_ops (local_ops_of c) = true.
Proof.
  intros H. unfold wf_ops, local_ops_of. apply forallb_forall. intros o Ho. apply in_map_iff in Ho as (s & <- & Hs).
  pose proof (wf_case_subs c (rc_node c) s H (or_introl eq_refl) Hs) as Hw. exact Hw.
Qed.
Lemma wf_fed_ops c : wf_case c = true -> wf_ops (fed_ops_of c) = true.
Proof.
  intros H. unfold wf_ops, fed_ops_of. apply forallb_forall. intros o Ho. apply in_flat_map in Ho as (n & Hn & Ho).
  apply in_map_iff in Ho as (s & <- & Hs). pose proof (wf_case_subs c n s H (or_intror Hn) Hs) as Hw.
  unfold wf_lsub in Hw. apply andb_true_iff in Hw as [_ Hw]. cbn [wf_op plain_sub s_share].
  unfold wf_case in H. apply andb_true_iff in H as [_ H]. rewrite forallb_forall in H. specialize (H n (or_intror Hn)).
  apply andb_true_iff in H as [Hne _]. now rewrite Hne, Hw.
Qed.

(* the stores of the stable federation, in terms of the description *)
Lemma local_spec_get c cl g f :
  sp_get (cl, g, f) (spec_run (local_ops_of c)) <> None <-> In (cl, g, f) (subs_of (rc_node c) c).
Proof.
  rewrite (spec_run_psubs _ _ (local_ops_psub c)). cbn [fst snd].
  destruct (existsb _ (local_ops_of c)) eqn:E; split; intros H; try congruence.
  - apply existsb_exists in E as (o & Ho & Ek). unfold local_ops_of in Ho. apply in_map_iff in Ho as ([[cl' g'] f'] & <- & Hs).
    cbn [okey plain_sub s_share s_filter fst snd] in Ek. destruct (skey_eqb_spec (cl, g, f) (cl', g', f')) as [E'|]; [|discriminate]. now rewrite E'.
  - exfalso. assert (existsb (fun o => skey_eqb (cl, g, f) (okey o)) (local_ops_of c) = true); [|congruence].
    apply existsb_exists. exists (OSub cl (plain_sub g f)). split; [|cbn [okey plain_sub s_share s_filter]; apply skey_eqb_refl].
    unfold local_ops_of. apply in_map_iff. now exists (cl, g, f).
Qed.

Lemma fed_spec_get c n g f :
  sp_get (n, g, f) (spec_run (fed_ops_of c)) <> None <-> In n (rc_peers c) /\ exists cl, In (cl, g, f) (subs_of n c).
Proof.
  rewrite (spec_run_psubs _ _ (fed_ops_psub c)). cbn [fst snd].
  destruct (existsb _ (fed_ops_of c)) eqn:E; split; intros H; try congruence.
  - apply existsb_exists in E as (o & Ho & Ek). unfold fed_ops_of in Ho. apply in_flat_map in Ho as (n' & Hn' & Ho).
    apply in_map_iff in Ho as ([[cl' g'] f'] & <- & Hs).
    cbn [okey plain_sub s_share s_filter fst snd] in Ek. destruct (skey_eqb_spec (n, g, f) (n', g', f')) as [E'|]; [|discriminate].
    injection E' as -> -> ->. split; [exact Hn'|now exists cl'].
  - exfalso. destruct H as [Hn (cl & Hs)].
    assert (existsb (fun o => skey_eqb (n, g, f) (okey o)) (fed_ops_of c) = true); [|congruence].
    apply existsb_exists. exists (OSub n (plain_sub g f)). split; [|cbn [okey plain_sub s_share s_filter]; apply skey_eqb_refl].
    unfold fed_ops_of. apply in_flat_map. exists n. split; [exact Hn|]. apply in_map_iff. now exists (cl, g, f).
Qed.

Lemma sp_get_psub_val ops k v : (forall o, In o ops -> is_psub o) -> sp_get k (spec_run ops) = Some v ->
  v = plain_sub (snd (fst k)) (snd k).
Proof. intros H Hg. rewrite (spec_run_psubs _ _ H) in Hg. destruct (existsb _ ops); congruence. Qed.

Lemma has_member_intro t G l cl g f :
  In (cl, g, f) l -> g <> [] -> topic_match t f = true -> fed_full_topic g f = G -> has_member t G l = true.
Proof.
  intros Hin Hg Hlm HG. unfold has_member. apply existsb_exists. exists (cl, g, f). split; [exact Hin|].
  unfold lsub_match, lsub_full. cbn [fst snd]. apply is_empty_false in Hg. rewrite Hg, Hlm, HG. cbn [negb andb]. apply str_eqb_refl.
Qed.

Lemma has_member_elim t G l : has_member t G l = true ->
  exists cl g f, In (cl, g, f) l /\ g <> [] /\ topic_match t f = true /\ fed_full_topic g f = G.
Proof.
  unfold has_member. intros H. apply existsb_exists in H as ([[cl g] f] & Hin & H). unfold lsub_match, lsub_full in H. cbn [fst snd] in H.
  apply andb_true_iff in H as [H HG]. apply andb_true_iff in H as [Hg Hlm]. apply negb_true_iff in Hg.
  exists cl, g, f. split; [exact Hin|]. split; [now apply is_empty_false|]. split; [exact Hlm|].
  now destruct (str_eqb_spec (fed_full_topic g f) G).
Qed.

Lemma has_plain_intro t l cl f : In (cl, [], f) l -> topic_match t f = true -> has_plain t l = true.
Proof. intros Hin Hm. unfold has_plain. apply existsb_exists. exists (cl, [], f). split; [exact Hin|]. unfold lsub_match. cbn [fst snd is_empty]. now rewrite Hm. Qed.

Section Case.
  Variables (c : rcase) (t : str).
  Hypothesis Hwf : wf_case c = true.
  Hypothesis Ht : t <> [].
  Hypothesis Hnw : no_wild_levels (split t) = true.

  Let FE := ents (db_iterate (q_match true true true t) (db_run (fed_ops_of c))).

  Lemma fed_ent_shared n s : In (n, s) FE -> is_empty (s_share s) = false ->
    In n (rc_peers c) /\ has_member t (sub_full s) (subs_of n c) = true.
  Proof.
    intros Hin He. subst FE.
    destruct (lookup_all_exact (fed_ops_of c) t (wf_fed_ops c Hwf) Ht Hnw) as (lsh & lpl & Hall & _ & _ & _ & _ & Hsh & Hpl).
    rewrite Hall in Hin. apply in_app_or in Hin as [Hin|Hin].
    - apply Hsh in Hin as (Hg & Hget & Hlm).
      assert (Hnn : sp_get (n, s_share s, s_filter s) (spec_run (fed_ops_of c)) <> None) by congruence.
      apply fed_spec_get in Hnn as [Hn (cl & Hs)]. split; [exact Hn|].
      now apply (has_member_intro t _ _ cl (s_share s) (s_filter s)).
    - apply Hpl in Hin as (Hg & _). rewrite Hg in He. discriminate.
  Qed.

  Lemma fed_ent_plain n s : In (n, s) FE -> is_empty (s_share s) = true ->
    In n (rc_peers c) /\ has_plain t (subs_of n c) = true.
  Proof.
    intros Hin He. subst FE.
    destruct (lookup_all_exact (fed_ops_of c) t (wf_fed_ops c Hwf) Ht Hnw) as (lsh & lpl & Hall & _ & _ & _ & _ & Hsh & Hpl).
    rewrite Hall in Hin. apply in_app_or in Hin as [Hin|Hin].
    - apply Hsh in Hin as (Hg & _). apply is_empty_false in Hg. congruence.
    - apply Hpl in Hin as (Hg & Hget & Hm).
      assert (Hnn : sp_get (n, [], s_filter s) (spec_run (fed_ops_of c)) <> None) by congruence.
      apply fed_spec_get in Hnn as [Hn (cl & Hs)]. split; [exact Hn|]. now apply (has_plain_intro t _ cl (s_filter s)).
  Qed.

  Lemma fed_member_ent n G : In n (rc_peers c) -> has_member t G (subs_of n c) = true ->
    exists s, In (n, s) FE /\ is_empty (s_share s) = false /\ sub_full s = G.
  Proof.
    intros Hn Hm. apply has_member_elim in Hm as (cl & g & f & Hin & Hg & Hlm & HG). subst FE.
    destruct (lookup_all_exact (fed_ops_of c) t (wf_fed_ops c Hwf) Ht Hnw) as (lsh & lpl & Hall & _ & _ & _ & _ & Hsh & Hpl).
    assert (Hnn : sp_get (n, g, f) (spec_run (fed_ops_of c)) <> None) by (apply fed_spec_get; split; [exact Hn|now exists cl]).
    destruct (sp_get (n, g, f) (spec_run (fed_ops_of c))) as [v|] eqn:Hget; [|congruence].
    pose proof (sp_get_psub_val _ _ _ (fed_ops_psub c) Hget) as Hv. cbn [fst snd] in Hv. subst v.
    exists (plain_sub g f). split; [|split; [cbn [plain_sub s_share]; now apply is_empty_false|exact HG]].
    rewrite Hall. apply in_or_app. left. apply Hsh. cbn [plain_sub s_share s_filter]. now split.
  Qed.

  Let LE := ents (db_iterate (q_match false true false t) (db_run (local_ops_of c))).

  Lemma local_ent_member cl s : In (cl, s) LE -> has_member t (sub_full s) (subs_of (rc_node c) c) = true.
  Proof.
    intros Hin. subst LE.
    destruct (lookup_all_exact (local_ops_of c) t (wf_local_ops c Hwf) Ht Hnw) as (lsh & lpl & _ & Hshq & _ & _ & _ & Hsh & _).
    rewrite Hshq in Hin. apply Hsh in Hin as (Hg & Hget & Hlm).
    assert (Hnn : sp_get (cl, s_share s, s_filter s) (spec_run (local_ops_of c)) <> None) by congruence.
    apply local_spec_get in Hnn. now apply (has_member_intro t _ _ cl (s_share s) (s_filter s)).
  Qed.

  Lemma local_member_ent G : has_member t G (subs_of (rc_node c) c) = true -> exists cl s, In (cl, s) LE /\ sub_full s = G.
  Proof.
    intros Hm. apply has_member_elim in Hm as (cl & g & f & Hin & Hg & Hlm & HG). subst LE.
    destruct (lookup_all_exact (local_ops_of c) t (wf_local_ops c Hwf) Ht Hnw) as (lsh & lpl & _ & Hshq & _ & _ & _ & Hsh & _).
    assert (Hnn : sp_get (cl, g, f) (spec_run (local_ops_of c)) <> None) by now apply local_spec_get.
    destruct (sp_get (cl, g, f) (spec_run (local_ops_of c))) as [v|] eqn:Hget; [|congruence].
    pose proof (sp_get_psub_val _ _ _ (local_ops_psub c) Hget) as Hv. cbn [fst snd] in Hv. subst v.
    exists cl, (plain_sub g f). split; [|exact HG]. rewrite Hshq. apply Hsh. cbn [plain_sub s_share s_filter]. now split.
  Qed.
End Case.

(* ---- sums over the peers ---- *)
Lemma fold_sum_acc (f : str -> N) l : forall a, fold_left (fun acc p => acc + f p) l a = a + fold_left (fun acc p => acc + f p) l 0.
Proof.
  induction l as [|x r IH]; intros a; cbn [fold_left]; [lia|]. rewrite (IH (a + f x)), (IH (0 + f x)). lia.
Qed.

Lemma fold_sum_zero (f : str -> N) l : (forall p, In p l -> f p = 0) -> fold_left (fun acc p => acc + f p) l 0 = 0.
Proof.
  induction l as [|x r IH]; intros H; cbn [fold_left]; [reflexivity|].
  rewrite fold_sum_acc, (H x (or_introl eq_refl)), IH by (intros p Hp; apply H; now right). reflexivity.
Qed.

Lemma fold_sum_one (f : str -> N) l n0 : NoDup l -> In n0 l -> f n0 = 1 -> (forall p, In p l -> p <> n0 -> f p = 0) ->
  fold_left (fun acc p => acc + f p) l 0 = 1.
Proof.
  induction l as [|x r IH]; intros Hnd Hin H1 H0; [destruct Hin|]. cbn [fold_left]. rewrite fold_sum_acc.
  inversion Hnd as [|? ? Hx Hr]; subst. destruct Hin as [->|Hin].
  - rewrite H1, fold_sum_zero; [reflexivity|]. intros p Hp. apply H0; [now right|]. intros ->. contradiction.
  - rewrite (H0 x (or_introl eq_refl)) by (intros ->; contradiction). rewrite IH; [reflexivity|exact Hr|exact Hin|exact H1|].
    intros p Hp. apply H0. now right.
Qed.

(* ---- what the observation counts ---- *)
Lemma keys_push n e ps : map fst (push_event n e ps) = map fst ps.
Proof.
  unfold push_event. destruct (aget n ps) as [q|] eqn:Hq; [|reflexivity].
  induction ps as [|[k v] r IH]; [discriminate|]. cbn [aget aset] in *.
  destruct (str_eqb_spec n k) as [->|Hne]; cbn [map fst]; [reflexivity|]. now rewrite IH.
Qed.

Definition emsgs (n : str) (q : list fevent) : list (str * msg) :=
  flat_map (fun e => match e with EMsg m => [(n, m)] | _ => [] end) q.

Lemma filter_emsgs n k' q :
  filter (fun e : str * msg => str_eqb (fst e) n) (emsgs k' q) = if str_eqb k' n then emsgs k' q else [].
Proof.
  unfold emsgs. induction q as [|e q' IHq]; cbn [flat_map]; [now destruct (str_eqb k' n)|].
  rewrite filter_app, IHq. destruct e as [| |m]; cbn; destruct (str_eqb k' n); reflexivity.
Qed.

Lemma count_flat n (ps : list (str * list fevent)) : NoDup (map fst ps) ->
  length (filter (fun e : str * msg => str_eqb (fst e) n) (flat_map (fun p => emsgs (fst p) (snd p)) ps)) =
  match aget n ps with Some q => length (emsgs n q) | None => O end.
Proof.
  induction ps as [|[k q] r IH]; intros Hnd; cbn [flat_map aget map fst]; [reflexivity|].
  inversion Hnd as [|? ? Hk Hr]; subst. rewrite filter_app, app_length, (IH Hr). cbn [fst snd].
  rewrite filter_emsgs. destruct (str_eqb_spec n k) as [->|Hne].
  - rewrite str_eqb_refl. assert (aget k r = None) by (apply aget_notin; exact Hk). rewrite H. lia.
  - destruct (str_eqb_spec k n) as [E|_]; [congruence|]. reflexivity.
Qed.

(* ---- the node lists of the shared topics, precisely ---- *)
Definition LEs (st : rstate) (t : str) := ents (db_iterate (q_match false true false t) (r_local st)).
Definition FEs (st : rstate) (t : str) := ents (db_iterate (q_match true true true t) (r_fed st)).

Definition src_ok (st : rstate) (t k x : str) : Prop :=
  (x = r_node st /\ exists cl s, In (cl, s) (LEs st t) /\ sub_full s = k) \/
  (exists s, In (x, s) (FEs st t) /\ is_empty (s_share s) = false /\ sub_full s = k).

Definition list_ok (st : rstate) (t : str) (l : list (str * list str)) : Prop :=
  NoDup (map fst l) /\ forall k v, In (k, v) l -> v <> [] /\ forall x, In x v -> src_ok st t k x.

Lemma list_ok_append st t k x l : list_ok st t l -> src_ok st t k x -> list_ok st t (al_append k x l).
Proof.
  intros [Hnd Hok] Hx. split; [unfold al_append; now apply NoDup_aset|].
  intros k' v' Hin. unfold al_append in Hin. apply in_aset_pair in Hin as [E|Hin]; [|now apply Hok].
  injection E as -> ->. split; [destruct (aget k l); intros H; now apply app_eq_nil in H as [_ H]|].
  intros y Hy. apply in_app_or in Hy as [Hy|[<-|[]]]; [|exact Hx].
  destruct (aget k l) as [vs|] eqn:Hg; [|destruct Hy]. apply aget_In in Hg. now apply (Hok k vs Hg).
Qed.

Lemma shared_list_spec st t : list_ok st t (fr_shared_list st t).
Proof.
  unfold fr_shared_list. fold (LEs st t) (FEs st t).
  assert (H1 : list_ok st t (fold_left (fun acc cs => al_append (sub_full (snd cs)) (r_node st) acc) (LEs st t) [])).
  { assert (Hsub : forall cs, In cs (LEs st t) -> In cs (LEs st t)) by auto. revert Hsub.
    assert (H0 : list_ok st t []) by (split; [constructor|intros k v []]). revert H0.
    generalize (@nil (str * list str)). generalize (LEs st t) at 1 3.
    intros l. induction l as [|[cl s] r IH]; intros acc Hacc Hsub; cbn [fold_left]; [exact Hacc|].
    apply IH; [|intros cs Hc; apply Hsub; now right]. cbn [snd]. apply list_ok_append; [exact Hacc|].
    left. split; [reflexivity|]. exists cl, s. split; [apply Hsub; now left|reflexivity]. }
  revert H1. generalize (fold_left (fun acc cs => al_append (sub_full (snd cs)) (r_node st) acc) (LEs st t) []).
  assert (Hsub : forall cs, In cs (FEs st t) -> In cs (FEs st t)) by auto. revert Hsub. generalize (FEs st t) at 1 3.
  intros l. induction l as [|[n s] r IH]; intros Hsub acc Hacc; cbn [fold_left]; [exact Hacc|].
  apply IH; [intros cs Hc; apply Hsub; now right|]. cbn [fst snd].
  destruct (is_empty (s_share s)) eqn:He; [exact Hacc|]. apply list_ok_append; [exact Hacc|].
  right. exists s. split; [apply Hsub; now left|now split].
Qed.

Lemma al_append_not_nil k x l : al_append k x l <> [].
Proof. unfold al_append. apply aset_not_nil. Qed.

Lemma fold_local_not_nil (node : str) (l : list (cid * sub)) : l <> [] ->
  fold_left (fun acc cs => al_append (sub_full (snd cs)) node acc) l [] <> [].
Proof.
  assert (G : forall l acc, acc <> [] -> fold_left (fun acc (cs : cid * sub) => al_append (sub_full (snd cs)) node acc) l acc <> []).
  { intros l0. induction l0 as [|cs r IH]; intros acc H; cbn [fold_left]; [exact H|]. apply IH, al_append_not_nil. }
  destruct l as [|cs r]; [congruence|]. intros _. cbn [fold_left]. apply G, al_append_not_nil.
Qed.

Lemma fold_fed_keep (l : list (cid * sub)) : forall acc, acc <> [] ->
  fold_left (fun acc cs => if is_empty (s_share (snd cs)) then acc else al_append (sub_full (snd cs)) (fst cs) acc) l acc <> [].
Proof.
  induction l as [|[n s] r IH]; intros acc H; cbn [fold_left]; [exact H|]. apply IH. cbn [fst snd].
  destruct (is_empty (s_share s)); [exact H|apply al_append_not_nil].
Qed.

Lemma fold_fed_not_nil (l : list (cid * sub)) n s : In (n, s) l -> is_empty (s_share s) = false -> forall acc,
  fold_left (fun acc cs => if is_empty (s_share (snd cs)) then acc else al_append (sub_full (snd cs)) (fst cs) acc) l acc <> [].
Proof.
  induction l as [|[n' s'] r IH]; intros Hin He acc; [destruct Hin|]. cbn [fold_left fst snd].
  destruct Hin as [E|Hin]; [|now apply IH]. injection E as -> ->. rewrite He. apply fold_fed_keep, al_append_not_nil.
Qed.

Lemma single_key (l : list (str * list str)) G :
  NoDup (map fst l) -> (forall k v, In (k, v) l -> k = G) -> l = [] \/ exists v, l = [(G, v)].
Proof.
  intros Hnd Hk. destruct l as [|[k v] r]; [now left|right].
  assert (k = G) by (apply (Hk k v); now left). subst k. exists v. f_equal.
  destruct r as [|[k' v'] r']; [reflexivity|]. exfalso.
  assert (k' = G) by (apply (Hk k' v'); right; now left). subst k'.
  inversion Hnd as [|? ? Hx _]; subst. apply Hx. now left.
Qed.

Lemma in_dedup x l : In x (dedup_str l) <-> In x l.
Proof.
  induction l as [|y r IH]; cbn [dedup_str]; [tauto|]. destruct (mem_str y r) eqn:Hm.
  - rewrite IH. cbn [In]. split; [now right|]. intros [<-|H]; [now apply mem_str_In|exact H].
  - cbn [In]. rewrite IH. tauto.
Qed.

Lemma in_groups c t G : In G (groups t c) <-> exists n, In n (rc_node c :: rc_peers c) /\ has_member t G (subs_of n c) = true.
Proof.
  unfold groups. rewrite in_dedup, in_flat_map. split.
  - intros (n & Hn & Hin). exists n. split; [exact Hn|]. apply in_map_iff in Hin as (s & <- & Hs). apply filter_In in Hs as [Hs Hf].
    unfold has_member. apply existsb_exists. exists s. split; [exact Hs|]. rewrite Hf. apply str_eqb_refl.
  - intros (n & Hn & Hm). exists n. split; [exact Hn|]. unfold has_member in Hm. apply existsb_exists in Hm as (s & Hs & Hf).
    apply andb_true_iff in Hf as [Hf HG]. apply in_map_iff. exists s. split; [now destruct (str_eqb_spec (lsub_full s) G)|].
    apply filter_In. now split.
Qed.

Lemma aget_init_peers n (ps : list str) : aget n (map (fun x => (x, @nil fevent)) ps) = if mem_str n ps then Some [] else None.
Proof.
  induction ps as [|x r IH]; cbn [map aget mem_str]; [reflexivity|].
  destruct (str_eqb n x); cbn [orb]; [reflexivity|exact IH].
Qed.

Lemma new_events_init (st st' : rstate) :
  (forall n, match aget n (r_peers st) with Some q => q | None => [] end = []) ->
  fr_new_events st st' = r_peers st'.
Proof.
  intros H. unfold fr_new_events. rewrite <- (map_id (r_peers st')) at 2. apply map_ext. intros [n q]. cbn [fst snd].
  now rewrite H.
Qed.

Lemma keys_shared_step st m a tv : map fst (sa_peers (fr_shared_step st m a tv)) = map fst (sa_peers a).
Proof.
  destruct tv as [k v]. unfold fr_shared_step.
  repeat match goal with |- context [if ?b then _ else _] => destruct b end; cbn [sa_peers]; rewrite ?keys_push; reflexivity.
Qed.

Lemma keys_send st m : m_retained m = false -> map fst (r_peers (fst (fst (fr_send_message st m)))) = map fst (r_peers st).
Proof.
  intros Hr. unfold fr_send_message. rewrite Hr. cbn [fst r_peers].
  assert (G1 : forall l a, map fst (sa_peers (fold_left (fr_shared_step st m) l a)) = map fst (sa_peers a)).
  { intros l. induction l as [|tv r IH]; intros a; cbn [fold_left]; [reflexivity|]. now rewrite IH, keys_shared_step. }
  assert (G2 : forall (sent : list str) e l ps, map fst (fold_left (fun ps n => if mem_str n sent then ps else push_event n e ps) l ps) = map fst ps).
  { intros sent e l. induction l as [|x r IH]; intros ps; cbn [fold_left]; [reflexivity|]. rewrite IH. destruct (mem_str x sent); [reflexivity|apply keys_push]. }
  now rewrite G2, G1.
Qed.

Lemma count_sent_case c cnt m n :
  NoDup (rc_peers c) -> m_retained m = false ->
  count_sent n (case_obs c cnt m) =
  N.of_nat (match aget n (r_peers (fst (fst (fr_send_message (case_state c cnt) m)))) with
            | Some q => length (emsgs n q) | None => O end).
Proof.
  intros Hnd Hr. unfold case_obs, count_sent.
  destruct (fr_send_message (case_state c cnt) m) as [[st' drop] opts] eqn:Hs. cbn [fst].
  unfold pub_obs_of. cbn [po_sent]. rewrite new_events_init.
  - f_equal. rewrite <- count_flat; [reflexivity|].
    assert (Hk := keys_send (case_state c cnt) m Hr). rewrite Hs in Hk. cbn [fst] in Hk. rewrite Hk.
    unfold case_state. cbn [r_peers]. rewrite map_map. cbn [fst]. now rewrite map_id.
  - intros x. unfold case_state. cbn [r_peers]. rewrite aget_init_peers. now destruct (mem_str x (rc_peers c)).
Qed.

Lemma emsgs_one n m' : length (emsgs n [EMsg m']) = 1%nat.
Proof. reflexivity. Qed.

(* outside the known-finding class a share group spanning nodes is served exactly once *)
Lemma fr_shared_one_partial c cnt m :
  wf_case c = true -> NoDup (rc_peers c) ->
  m_retained m = false -> m_topic m <> [] -> no_wild_levels (split (m_topic m)) = true ->
  kf_shared_span c m = false ->
  shared_ok c m (case_obs c cnt m) = true.
Proof.
  intros Hwf Hnd Hr Ht Hnw Hkf. unfold shared_ok. set (t := m_topic m) in *.
  unfold kf_shared_span in Hkf. rewrite Hr in Hkf. cbn [negb andb] in Hkf. fold t in Hkf.
  apply orb_false_iff in Hkf as [Hlen Hmix].
  destruct (groups t c) as [|G [|G' gs']] eqn:Hgs; [reflexivity| |cbn [length] in Hlen; discriminate].
  cbn [forallb]. rewrite andb_true_r. apply N.eqb_eq.
  assert (HinG : forall G0, In G0 (groups t c) <-> G0 = G) by (intros G0; rewrite Hgs; cbn [In]; intuition).
  (* a peer holding a member has no plain match *)
  assert (Hmix' : forall p, In p (rc_peers c) -> has_member t G (subs_of p c) = true -> has_plain t (subs_of p c) = false).
  { intros p Hp Hm. destruct (has_plain t (subs_of p c)) eqn:Hpl; [|reflexivity]. exfalso.
    assert (existsb (fun p => has_plain t (subs_of p c) && existsb (fun G => has_member t G (subs_of p c)) [G]) (rc_peers c) = true); [|congruence].
    apply existsb_exists. exists p. split; [exact Hp|]. rewrite Hpl. cbn [existsb andb]. now rewrite Hm. }
  unfold wf_case in Hwf. pose proof Hwf as Hwf0. apply andb_true_iff in Hwf as [Horig _]. apply negb_true_iff in Horig.
  set (st := case_state c cnt).
  assert (HLE : LEs st t = ents (db_iterate (q_match false true false t) (db_run (local_ops_of c)))) by reflexivity.
  assert (HFE : FEs st t = ents (db_iterate (q_match true true true t) (db_run (fed_ops_of c)))) by reflexivity.
  (* the shared list is [(G, v)] *)
  destruct (shared_list_spec st t) as [Hlnd Hlok].
  assert (Hsrc : forall k x, src_ok st t k x -> k = G /\ ((x = rc_node c /\ has_member t G (subs_of (rc_node c) c) = true) \/
                                                          (In x (rc_peers c) /\ has_member t G (subs_of x c) = true))).
  { intros k x [[-> (cl & s & Hin & <-)]|(s & Hin & He & <-)].
    - rewrite HLE in Hin. pose proof (local_ent_member c t Hwf0 Ht Hnw cl s Hin) as Hm.
      assert (sub_full s = G) by (apply HinG, in_groups; exists (rc_node c); split; [now left|exact Hm]).
      split; [exact H|]. left. split; [reflexivity|now rewrite <- H].
    - rewrite HFE in Hin. destruct (fed_ent_shared c t Hwf0 Ht Hnw x s Hin He) as [Hp Hm].
      assert (sub_full s = G) by (apply HinG, in_groups; exists x; split; [now right|exact Hm]).
      split; [exact H|]. right. split; [exact Hp|now rewrite <- H]. }
  assert (Hkeys : forall k v, In (k, v) (fr_shared_list st t) -> k = G).
  { intros k v Hin. destruct (Hlok k v Hin) as [Hne Hv]. destruct v as [|x v']; [congruence|].
    now destruct (Hsrc k x (Hv x (or_introl eq_refl))). }
  destruct (single_key _ G Hlnd Hkeys) as [Hnil|[v Hlist]].
  { (* impossible: a member exists somewhere *)
    exfalso. assert (HG : In G (groups t c)) by now apply HinG. apply in_groups in HG as (n & Hn & Hm).
    unfold fr_shared_list in Hnil. destruct Hn as [<-|Hn].
    - destruct (local_member_ent c t Hwf0 Ht Hnw G Hm) as (cl & s & Hin & _).
      revert Hnil. apply fold_fed_keep. apply fold_local_not_nil. intros E. unfold st, case_state in E. cbn [r_local] in E.
      rewrite E in Hin. destruct Hin.
    - destruct (fed_member_ent c t Hwf0 Ht Hnw n G Hn Hm) as (s & Hin & He & _).
      revert Hnil. now apply (fold_fed_not_nil _ n s). }
  assert (HinL : In (G, v) (fr_shared_list st t)) by (rewrite Hlist; now left).
  destruct (Hlok G v HinL) as [Hvne Hv].
  (* the node whose turn it is *)
  set (cnt0 := match aget G cnt with Some x => x | None => 0 end).
  set (chosen := nth (N.to_nat (cnt0 mod N.of_nat (length (sort_strs v)))) (sort_strs v) []).
  assert (Hch : In chosen v).
  { apply in_sort_strs. subst chosen. apply nth_mod_in. intros E. apply Hvne. destruct v; [reflexivity|].
    apply (f_equal (@length str)) in E. rewrite length_sort_strs in E. discriminate. }
  destruct (Hsrc G chosen (Hv chosen Hch)) as [_ Hcase].
  (* the result of sendMessage *)
  set (ev := EMsg (msg_event_form m)).
  set (peers0 := map (fun n => (n, @nil fevent)) (rc_peers c)).
  assert (Hsend : fr_send_message st m =
                  let a1 := fr_shared_step st m {| sa_sent := []; sa_peers := peers0; sa_counters := cnt; sa_drop := false; sa_opts := None |} (G, v) in
                  ({| r_node := r_node st; r_local := r_local st; r_fed := r_fed st; r_sent := sa_counters a1;
                      r_peers := fold_left (fun ps n => if mem_str n (sa_sent a1) then ps else push_event n ev ps) (fr_nonshared st t) (sa_peers a1) |},
                   sa_drop a1, sa_opts a1)).
  { unfold fr_send_message. rewrite Hr. fold t. rewrite Hlist. reflexivity. }
  (* queue of a peer after the call *)
  assert (HNS : forall p, In p (rc_peers c) -> mem_str p (fr_nonshared st t) = true -> has_plain t (subs_of p c) = true).
  { intros p Hp Hm. apply mem_str_In, nonshared_in in Hm as (s & Hin & He). fold (FEs st t) in Hin. rewrite HFE in Hin.
    now destruct (fed_ent_plain c t Hwf0 Ht Hnw p s Hin He). }
  unfold group_deliveries. fold t.
  destruct Hcase as [[Hco Hmo]|[Hcp Hmp]].
  - (* the origin's turn: nothing is sent for the group, the origin's broker serves its member *)
    assert (Ha1 : fr_shared_step st m {| sa_sent := []; sa_peers := peers0; sa_counters := cnt; sa_drop := false; sa_opts := None |} (G, v) =
                  {| sa_sent := []; sa_peers := peers0; sa_counters := aset G (u64_add cnt0 1) cnt; sa_drop := false; sa_opts := None |}).
    { unfold fr_shared_step. cbn [sa_counters]. fold cnt0 chosen. rewrite Hco. change (r_node st) with (rc_node c). now rewrite str_eqb_refl. }
    rewrite Ha1 in Hsend. cbv zeta in Hsend. cbn [sa_sent sa_peers sa_counters sa_drop sa_opts] in Hsend.
    assert (Hobs : po_drop (case_obs c cnt m) = false /\ po_opts (case_obs c cnt m) = None).
    { unfold case_obs. fold st. rewrite Hsend. split; reflexivity. }
    destruct Hobs as [Hd Ho]. unfold origin_serves_shared. rewrite Hd, Ho, Hmo. cbn [negb andb].
    rewrite fold_sum_zero; [reflexivity|].
    intros p Hp. destruct (has_member t G (subs_of p c)) eqn:Hm; [|reflexivity].
    rewrite (count_sent_case c cnt m p Hnd Hr). fold st. rewrite Hsend. cbn [fst r_peers].
    rewrite nonshared_fold_queue by apply nonshared_nodup. cbn [mem_str negb]. rewrite andb_true_r.
    subst peers0. rewrite aget_init_peers. apply mem_str_In in Hp as Hp'. rewrite Hp'.
    destruct (mem_str p (fr_nonshared st t)) eqn:Hns; [|reflexivity].
    pose proof (Hmix' p Hp Hm) as E1. rewrite (HNS p Hp Hns) in E1. discriminate.
  - (* a peer's turn: one event for that peer, the origin does not serve its shared subscribers *)
    assert (Hne : chosen <> rc_node c) by (intros E; rewrite E in Hcp; apply mem_str_In in Hcp; congruence).
    assert (Hpe : ahas chosen peers0 = true).
    { unfold ahas. subst peers0. rewrite aget_init_peers. apply mem_str_In in Hcp. now rewrite Hcp. }
    set (a1 := fr_shared_step st m {| sa_sent := []; sa_peers := peers0; sa_counters := cnt; sa_drop := false; sa_opts := None |} (G, v)) in *.
    assert (Ha1 : sa_sent a1 = [chosen] /\ sa_peers a1 = push_event chosen ev peers0 /\
                  (sa_drop a1 = true \/ (sa_drop a1 = false /\ sa_opts a1 = Some (q_match true false true t)))).
    { subst a1. unfold fr_shared_step. cbn [sa_counters sa_sent sa_peers]. fold cnt0 chosen.
      destruct (str_eqb_spec chosen (r_node st)) as [E|_]; [now destruct Hne|]. cbn [mem_str]. rewrite Hpe.
      fold t ev. destruct (fr_local_plain st t); cbn [sa_sent sa_peers sa_drop sa_opts app]; (split; [reflexivity|split; [reflexivity|]]); [right; now split|now left]. }
    destruct Ha1 as (Hs1 & Hp1 & Hdo). cbv zeta in Hsend.
    assert (Hserve : origin_serves_shared t (case_obs c cnt m) = false).
    { unfold case_obs, origin_serves_shared. fold st. rewrite Hsend. cbn [pub_obs_of po_drop po_opts].
      destruct Hdo as [->|[-> ->]]; [reflexivity|]. cbn [negb andb q_match io_shared]. now rewrite andb_false_r. }
    rewrite Hserve, andb_false_r. cbn [N.add].
    apply (fold_sum_one _ _ chosen Hnd Hcp).
    + rewrite Hmp, (count_sent_case c cnt m chosen Hnd Hr). fold st. rewrite Hsend. cbn [fst r_peers].
      rewrite nonshared_fold_queue by apply nonshared_nodup. rewrite Hs1, Hp1. cbn [mem_str]. rewrite str_eqb_refl. cbn [orb negb]. rewrite andb_false_r.
      rewrite aget_push, str_eqb_refl. subst peers0. rewrite aget_init_peers. apply mem_str_In in Hcp. rewrite Hcp. reflexivity.
    + intros p Hp Hpc. destruct (has_member t G (subs_of p c)) eqn:Hm; [|reflexivity].
      rewrite (count_sent_case c cnt m p Hnd Hr). fold st. rewrite Hsend. cbn [fst r_peers].
      rewrite nonshared_fold_queue by apply nonshared_nodup. rewrite Hs1, Hp1. cbn [mem_str].
      destruct (str_eqb_spec p chosen) as [E|_]; [congruence|]. cbn [orb negb]. rewrite andb_true_r.
      rewrite aget_push. destruct (str_eqb_spec p chosen) as [E|_]; [congruence|].
      subst peers0. rewrite aget_init_peers. apply mem_str_In in Hp as Hp'. rewrite Hp'.
      destruct (mem_str p (fr_nonshared st t)) eqn:Hns; [|reflexivity].
      pose proof (Hmix' p Hp Hm) as E1. rewrite (HNS p Hp Hns) in E1. discriminate.
Qed.
