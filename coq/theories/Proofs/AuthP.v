(* Proofs about Model/Auth.v and Oracle/C19O.v (property C19).
   The digests H / bverify are universally quantified (Section variables): nothing below
   depends on what they compute. *)
From Coq Require Import List NArith Bool Arith Lia.
Import ListNotations.
From GM Require Import Base.Topic Proofs.TopicP Model.Auth Oracle.C19O.
Open Scope N_scope.

(* ------------------------------------------------------------------ tables *)

Definition keys (t : list account) : list str := map fst t.
Definition wf_tab (t : list account) : Prop := NoDup (keys t) /\ ~ In [] (keys t).
Definition lookup_eq (t1 t2 : list account) : Prop := forall u, t_get u t1 = t_get u t2.

Lemma is_empty_eq (s : str) : is_empty s = true <-> s = [].
Proof. destruct s; simpl; split; congruence. Qed.

Lemma t_get_none (u : str) (t : acctab) : t_get u t = None <-> ~ In u (keys t).
Proof.
  induction t as [|[u' h] r IH]; simpl.
  - tauto.
  - destruct (str_eqb u u') eqn:E.
    + apply str_eqb_eq in E. subst. split; [discriminate|tauto].
    + apply str_eqb_neq in E. rewrite IH. split; intros; intuition congruence.
Qed.

Lemma t_get_some_in (u h : str) (t : acctab) : t_get u t = Some h -> In (u, h) t.
Proof.
  induction t as [|[u' h'] r IH]; simpl; [discriminate|].
  destruct (str_eqb u u') eqn:E.
  - apply str_eqb_eq in E. intros [= ->]. subst. now left.
  - intros. right. auto.
Qed.

Lemma in_keys (u h : str) (t : acctab) : In (u, h) t -> In u (keys t).
Proof. intros. apply (in_map fst) in H. exact H. Qed.

Lemma in_t_get (u h : str) (t : acctab) : NoDup (keys t) -> In (u, h) t -> t_get u t = Some h.
Proof.
  induction t as [|[u' h'] r IH]; simpl; [tauto|].
  intros ND [E|I].
  - inversion E; subst. now rewrite str_eqb_refl.
  - inversion ND; subst. destruct (str_eqb u u') eqn:E.
    + apply str_eqb_eq in E. subst. exfalso. apply H1. eapply in_keys; eauto.
    + auto.
Qed.

Lemma t_get_set_same (u h : str) (t : acctab) : t_get u (t_set u h t) = Some h.
Proof.
  induction t as [|[u' h'] r IH]; simpl.
  - now rewrite str_eqb_refl.
  - destruct (str_eqb u u') eqn:E; simpl; rewrite E; auto.
Qed.

Lemma t_get_set_other (u u' h : str) (t : acctab) : u <> u' -> t_get u' (t_set u h t) = t_get u' t.
Proof.
  intros N. induction t as [|[k h'] r IH]; simpl.
  - assert (str_eqb u' u = false) as -> by (apply str_eqb_neq; congruence). reflexivity.
  - destruct (str_eqb u k) eqn:E; simpl.
    + apply str_eqb_eq in E. subst k.
      assert (str_eqb u' u = false) as -> by (apply str_eqb_neq; congruence). reflexivity.
    + now rewrite IH.
Qed.

Lemma keys_set (u h : str) (t : acctab) :
  keys (t_set u h t) = if t_get u t then keys t else keys t ++ [u].
Proof.
  induction t as [|[k h'] r IH]; simpl; [reflexivity|].
  destruct (str_eqb u k) eqn:E; simpl; [reflexivity|].
  unfold keys in *. rewrite IH. destruct (t_get u r); reflexivity.
Qed.

Lemma nodup_snoc (u : str) (l : list str) : NoDup l -> ~ In u l -> NoDup (l ++ [u]).
Proof.
  intros ND G. induction l as [|k r IH]; simpl.
  - constructor; [tauto|constructor].
  - inversion ND; subst. constructor.
    + rewrite in_app_iff. simpl. intros [I|[E|[]]]; [tauto|]. subst. apply G. now left.
    + apply IH; auto. intros I. apply G. now right.
Qed.

Lemma nodup_set (u h : str) (t : acctab) : NoDup (keys t) -> NoDup (keys (t_set u h t)).
Proof.
  intros ND. rewrite keys_set. destruct (t_get u t) eqn:G; [assumption|].
  apply nodup_snoc; [assumption|]. now apply t_get_none.
Qed.

Lemma wf_tab_set (u h : str) (t : acctab) : u <> [] -> wf_tab t -> wf_tab (t_set u h t).
Proof.
  intros NE [ND NI]. split; [now apply nodup_set|].
  rewrite keys_set. destruct (t_get u t); [assumption|].
  rewrite in_app_iff. simpl. intros [I|[E|[]]]; [tauto|congruence].
Qed.

Lemma keys_remove_incl (u k : str) (t : acctab) : In k (keys (t_remove u t)) -> In k (keys t).
Proof.
  induction t as [|[k' h'] r IH]; simpl; [tauto|].
  destruct (str_eqb u k'); simpl; tauto.
Qed.

Lemma nodup_remove (u : str) (t : acctab) : NoDup (keys t) -> NoDup (keys (t_remove u t)).
Proof.
  induction t as [|[k' h'] r IH]; simpl; [auto|].
  intros ND. inversion ND; subst. destruct (str_eqb u k'); simpl; [assumption|].
  constructor; [|auto]. intros I. apply H1. eapply keys_remove_incl; eauto.
Qed.

Lemma wf_tab_remove (u : str) (t : acctab) : wf_tab t -> wf_tab (t_remove u t).
Proof.
  intros [ND NI]. split; [now apply nodup_remove|].
  intros I. apply NI. eapply keys_remove_incl; eauto.
Qed.

Lemma t_get_remove_same (u : str) (t : acctab) : NoDup (keys t) -> t_get u (t_remove u t) = None.
Proof.
  induction t as [|[k' h'] r IH]; simpl; [reflexivity|].
  intros ND. inversion ND; subst. destruct (str_eqb u k') eqn:E; simpl.
  - apply str_eqb_eq in E. subst. now apply t_get_none.
  - rewrite E. auto.
Qed.

Lemma t_get_remove_other (u u' : str) (t : acctab) : u <> u' -> t_get u' (t_remove u t) = t_get u' t.
Proof.
  intros N. induction t as [|[k' h'] r IH]; simpl; [reflexivity|].
  destruct (str_eqb u k') eqn:E; simpl.
  - apply str_eqb_eq in E. subst k'.
    assert (str_eqb u' u = false) as -> by (apply str_eqb_neq; congruence). reflexivity.
  - now rewrite IH.
Qed.

(* the three roll-backs of Update and Delete restore every lookup *)
Lemma rollback_new (u h : str) (t : acctab) :
  NoDup (keys t) -> lookup_eq (t_remove u (t_set u h t)) (t_remove u t).
Proof.
  intros ND k. destruct (str_eqb u k) eqn:E.
  - apply str_eqb_eq in E. subst k.
    rewrite !t_get_remove_same; auto using nodup_set.
  - apply str_eqb_neq in E. rewrite !t_get_remove_other, t_get_set_other; auto.
Qed.

Lemma remove_absent (u : str) (t : acctab) : t_get u t = None -> t_remove u t = t.
Proof.
  induction t as [|[k h] r IH]; simpl; [reflexivity|].
  destruct (str_eqb u k); [discriminate|]. intros G. now rewrite IH.
Qed.

Lemma rollback_old (u h ho : str) (t : acctab) :
  t_get u t = Some ho -> lookup_eq (t_set u ho (t_set u h t)) t.
Proof.
  intros G k. destruct (str_eqb u k) eqn:E.
  - apply str_eqb_eq in E. subst k. now rewrite t_get_set_same.
  - apply str_eqb_neq in E. now rewrite !t_get_set_other.
Qed.

Lemma rollback_delete (u ho : str) (t : acctab) :
  t_get u t = Some ho -> lookup_eq (t_set u ho (t_remove u t)) t.
Proof.
  intros G k. destruct (str_eqb u k) eqn:E.
  - apply str_eqb_eq in E. subst k. now rewrite t_get_set_same.
  - apply str_eqb_neq in E. now rewrite t_get_set_other, t_get_remove_other.
Qed.

(* ------------------------------------------------------------------ file system, Load *)

Lemma path_eqb_refl (p : pwpath) : path_eqb p p = true.
Proof. destruct p. unfold path_eqb. simpl. now rewrite N.eqb_refl, str_eqb_refl. Qed.

Lemma path_eqb_eq (p q : pwpath) : path_eqb p q = true <-> p = q.
Proof.
  destruct p, q. unfold path_eqb. simpl. rewrite andb_true_iff, N.eqb_eq, str_eqb_eq.
  split; [intros [-> ->]; reflexivity|intros [= -> ->]; auto].
Qed.

Lemma fs_get_put_same (p : pwpath) (d : pwfile) (f : fsys) : fs_get p (fs_put p d f) = Some d.
Proof.
  induction f as [|[q d'] r IH]; simpl.
  - now rewrite path_eqb_refl.
  - destruct (path_eqb p q) eqn:E; simpl; rewrite E; auto.
Qed.

Lemma au_mem_in (u : str) (l : list str) : au_mem u l = true <-> In u l.
Proof.
  induction l as [|x r IH]; simpl; [split; [discriminate|tauto]|].
  rewrite orb_true_iff, IH, str_eqb_eq. split; intros [|]; auto.
Qed.

Lemma load_check_spec (seen : list str) (d : pwfile) :
  load_check seen d = true <->
  NoDup (keys d) /\ ~ In [] (keys d) /\ (forall k, In k (keys d) -> ~ In k seen).
Proof.
  revert seen. induction d as [|[u h] r IH]; intros seen; simpl.
  - split; [intros _; repeat split; [constructor|tauto|tauto]|reflexivity].
  - rewrite !andb_true_iff, !negb_true_iff, IH. split.
    + intros [[E M] [ND [NE D]]]. repeat split.
      * constructor; [|assumption]. intros I. apply (D u I). now left.
      * intros [X|X]; [|tauto]. subst. discriminate.
      * intros k [X|X] S.
        -- subst. apply au_mem_in in S. congruence.
        -- apply (D k X). now right.
    + intros [ND [NE D]]. inversion ND; subst. repeat split.
      * destruct u; [exfalso; apply NE; now left|reflexivity].
      * destruct (au_mem u seen) eqn:M; [|reflexivity]. apply au_mem_in in M.
        exfalso. apply (D u); [now left|assumption].
      * assumption.
      * tauto.
      * intros k I [X|X]; [subst; tauto|]. apply (D k); [now right|assumption].
Qed.

Lemma load_check_wf (d : pwfile) : load_check [] d = true <-> wf_tab d.
Proof. rewrite load_check_spec. unfold wf_tab. split; [tauto|intros [? ?]; repeat split; auto]. Qed.

Lemma t_set_absent (u h : str) (t : acctab) : t_get u t = None -> t_set u h t = t ++ [(u, h)].
Proof.
  induction t as [|[k h'] r IH]; simpl; [reflexivity|].
  destruct (str_eqb u k); [discriminate|]. intros G. now rewrite IH.
Qed.

Lemma load_rows_app (t : acctab) (d : pwfile) : NoDup (keys (t ++ d)) -> load_rows t d = t ++ d.
Proof.
  revert t. induction d as [|[u h] r IH]; intros t ND; simpl.
  - now rewrite app_nil_r.
  - unfold load_rows in *. simpl. rewrite t_set_absent.
    + rewrite IH; rewrite <- app_assoc; simpl; auto.
    + apply t_get_none. unfold keys in ND. rewrite map_app in ND. simpl in ND.
      apply NoDup_remove_2 in ND. rewrite in_app_iff in ND. tauto.
Qed.

Lemma load_rows_id (d : pwfile) : NoDup (keys d) -> load_rows [] d = d.
Proof. intros. now rewrite load_rows_app. Qed.

(* ------------------------------------------------------------------ accept iff *)

Section AuthProofs.
  Variable H : halg -> str -> str.
  Variable bverify : str -> str -> bool.

  Notation matches := (au_matches H bverify).
  Notation validate := (au_validate H bverify).
  Notation wrapper := (au_wrapper H bverify).
  Notation step := (au_step H bverify).
  Notation run := (au_run H bverify).

  (* the statement's condition: the user name is a stored account and the password matches
     that account's stored hash under the configured algorithm *)
  Definition valid_creds (a : halg) (t : acctab) (u p : str) : Prop :=
    exists h, t_get u t = Some h /\ matches a h p = true.

  Lemma validate_iff (a : halg) (t : acctab) (u p : str) :
    validate a t u p = true <-> valid_creds a t u p.
  Proof.
    unfold au_validate, valid_creds. destruct (t_get u t) as [h|].
    - split; [intros M; exists h; auto|intros [h' [[= ->] M]]; exact M].
    - split; [discriminate|intros [h' [[=] _]]].
  Qed.

  Lemma cred_ok_validate (a : halg) (t : acctab) (u p : str) :
    cred_ok H bverify a t u p = validate a t u p.
  Proof. reflexivity. Qed.

  (* OnBasicAuthWrapper, whatever client.Version() is *)
  Lemma wrapper_accept_iff (a : halg) (t : acctab) (pre : aconnect -> authres) (v : N) (c : aconnect) :
    wrapper a t pre v c = HkOk <->
    pre c = HkOk /\ valid_creds a t (ac_username c) (ac_password c).
  Proof.
    unfold au_wrapper. rewrite <- validate_iff.
    destruct (pre c) as [|e]; [|split; [discriminate|intros [[=] _]]].
    destruct (validate a t (ac_username c) (ac_password c)); [tauto|].
    destruct (au_v3x v); split; try discriminate; intros [_ [=]].
  Qed.

  (* the reject codes *)
  Lemma wrapper_reject_code (a : halg) (t : acctab) (v : N) (c : aconnect) (e : N) :
    wrapper a t (fun _ => HkOk) v c = HkErr e ->
    e = if au_v3x v then V3_NOT_AUTHORIZED else NOT_AUTHORIZED.
  Proof.
    unfold au_wrapper. destruct (validate a t (ac_username c) (ac_password c)); [discriminate|].
    destruct (au_v3x v); intros [= <-]; reflexivity.
  Qed.

  Lemma connack_code_none (v : N) (r : authres) : connack_code v r = None <-> r = HkOk.
  Proof. destruct r; simpl; split; congruence. Qed.

  (* the broker with this plugin: every accepted CONNECT carries the credentials of an
     account - for every flag combination, AuthMethod/AuthData presence, client id *)
  Lemma broker_accept_sound (allow0 : bool) (a : halg) (t : acctab) (c : aconnect) :
    known_version (ac_version c) = true ->
    broker_connect H bverify allow0 a t c = None ->
    valid_creds a t (ac_username c) (ac_password c).
  Proof.
    intros KV. unfold broker_connect. rewrite connack_code_none. unfold connect_handler.
    destruct (negb allow0 && is_empty (ac_cid c)); [discriminate|].
    unfold known_version in KV.
    destruct (ac_authmethod c) as [am|].
    - rewrite andb_false_r, orb_false_r, andb_true_r.
      destruct (au_v5 (ac_version c)) eqn:V5; [discriminate|].
      simpl in KV. rewrite orb_false_r in KV. rewrite KV.
      intros W. apply wrapper_accept_iff in W. tauto.
    - rewrite andb_true_r, andb_false_r. rewrite KV.
      intros W. apply wrapper_accept_iff in W. tauto.
  Qed.

  (* ... and, outside the Authentication-Method class, every servable CONNECT that carries
     them is accepted *)
  Lemma broker_accept_iff (allow0 : bool) (a : halg) (t : acctab) (c : aconnect) :
    connect_servable allow0 c = true ->
    kf_authmethod_present c = false ->
    (broker_connect H bverify allow0 a t c = None <->
     valid_creds a t (ac_username c) (ac_password c)).
  Proof.
    intros SV KF. unfold connect_servable in SV. apply andb_true_iff in SV. destruct SV as [KV CID].
    split; [now apply broker_accept_sound|].
    intros VC. unfold broker_connect. rewrite connack_code_none. unfold connect_handler.
    assert (negb allow0 && is_empty (ac_cid c) = false) as ->.
    { destruct allow0; simpl in *; [reflexivity|]. now rewrite negb_true_iff in CID. }
    unfold kf_authmethod_present in KF.
    destruct (ac_authmethod c) as [am|].
    - rewrite andb_true_r in KF. rewrite KF in *. simpl. rewrite orb_false_r in *.
      rewrite KV. apply wrapper_accept_iff. split; auto.
    - rewrite !andb_false_r, andb_true_r. rewrite KV.
      apply wrapper_accept_iff. split; auto.
  Qed.

  (* enhanced authentication fails closed: with no OnEnhancedAuth hook a v5 CONNECT with an
     Authentication Method is refused whatever the basic hook, the accounts, the credentials *)
  Lemma enhanced_fail_closed (allow0 : bool) (basic : option (N -> aconnect -> authres)) (c : aconnect) (am : str) :
    ac_version c = 5 -> ac_authmethod c = Some am ->
    allow0 || negb (is_empty (ac_cid c)) = true ->
    connect_handler allow0 basic None c = HkErr UNSPECIFIED_ERROR.
  Proof.
    intros V AM CID. unfold connect_handler. rewrite V, AM. simpl.
    assert (negb allow0 && is_empty (ac_cid c) = false) as ->.
    { destruct allow0; simpl in *; [reflexivity|]. now rewrite negb_true_iff in CID. }
    reflexivity.
  Qed.

  Lemma enhanced_never_accepted (allow0 : bool) (basic : option (N -> aconnect -> authres)) (c : aconnect) :
    kf_authmethod_present c = true -> connect_handler allow0 basic None c <> HkOk.
  Proof.
    unfold kf_authmethod_present, connect_handler. intros KF.
    destruct (negb allow0 && is_empty (ac_cid c)); [discriminate|].
    apply andb_true_iff in KF. destruct KF as [V AM]. rewrite V.
    destruct (ac_authmethod c); [simpl; discriminate|discriminate].
  Qed.

  (* the basic hook is not even consulted for such a CONNECT *)
  Lemma enhanced_skips_basic (allow0 : bool) (b1 b2 : option (N -> aconnect -> authres))
        (enh : option (aconnect -> enhres)) (c : aconnect) :
    kf_authmethod_present c = true -> connect_handler allow0 b1 enh c = connect_handler allow0 b2 enh c.
  Proof.
    unfold kf_authmethod_present, connect_handler. intros KF.
    apply andb_true_iff in KF. destruct KF as [V AM].
    assert (au_v3x (ac_version c) = false) as V3.
    { unfold au_v5, au_v3x in *. apply N.eqb_eq in V. rewrite V. reflexivity. }
    rewrite V, V3.
    destruct (ac_authmethod c); [|discriminate]. reflexivity.
  Qed.

  (* a reachable table has no empty user name: a CONNECT without the user-name flag (or with
     an empty user name) is refused *)
  Lemma no_username_rejected (allow0 : bool) (a : halg) (t : acctab) (c : aconnect) :
    wf_tab t -> known_version (ac_version c) = true -> ac_username c = [] ->
    broker_connect H bverify allow0 a t c <> None.
  Proof.
    intros [_ NE] KV U B. apply broker_accept_sound in B; [|assumption].
    destruct B as [h [G _]]. rewrite U in G. apply t_get_some_in, in_keys in G. tauto.
  Qed.

  (* ------------------------------------------------------------------ accounts = file = reload *)

  (* table and password file (at the path Load reads) hold the same accounts, and both are
     loadable: distinct, non-empty user names *)
  Definition inv (cfg : acfg) (s : austate) : Prop :=
    wf_tab (s_tab s) /\
    exists d, fs_get (load_path cfg) (s_fs s) = Some d /\ wf_tab d /\ lookup_eq (s_tab s) d.

  Lemma lookup_eq_trans (a b c : list account) : lookup_eq a b -> lookup_eq b c -> lookup_eq a c.
  Proof. intros X Y u. now rewrite X. Qed.

  Lemma au_load_some (cfg : acfg) (f : fsys) (d : pwfile) :
    fs_get (load_path cfg) f = Some d ->
    au_load cfg f = (f, if load_check [] d then Some (load_rows [] d) else None).
  Proof. intros G. unfold au_load. now rewrite G. Qed.

  Lemma au_load_wf (cfg : acfg) (f : fsys) (d : pwfile) :
    fs_get (load_path cfg) f = Some d -> wf_tab d -> au_load cfg f = (f, Some d).
  Proof.
    intros G W. rewrite (au_load_some _ _ _ G).
    assert (load_check [] d = true) as -> by now apply load_check_wf.
    rewrite load_rows_id; [reflexivity|apply W].
  Qed.

  Lemma step_inv (cfg : acfg) (s : austate) (o : aop) :
    inv cfg s -> inv cfg (fst (step cfg s o)).
  Proof.
    intros [WT [d [G [WD LE]]]].
    assert (I0 : inv cfg s) by (split; [assumption|exists d; auto]).
    destruct o as [u p g|u|u|pg sz|dd|b|u p|pre v c| |]; simpl; try exact I0.
    (* Reload: the file exists, Load does not touch it; Get; Chdir; Break *)
    all: try (destruct (s_dir_ok s); [|exact I0];
              rewrite (au_load_wf _ _ _ G WD); simpl; split; simpl; [assumption|exists d; auto]; fail).
    all: try (destruct (is_empty u); exact I0).
    all: try (split; simpl; [assumption|exists d; auto]; fail).
    - (* Update *)
      unfold au_update.
      destruct (is_empty u) eqn:EU; [exact I0|].
      assert (UNE : u <> []) by (intros ->; discriminate).
      destruct (gen_password H (a_alg cfg) p g) as [h|]; [|exact I0].
      unfold au_save. destruct (s_dir_ok s); simpl.
      + split; simpl.
        * now apply wf_tab_set.
        * exists (t_set u h (s_tab s)). rewrite fs_get_put_same. repeat split; try apply wf_tab_set; auto; try (intros k; reflexivity).
      + destruct (t_get u (s_tab s)) as [ho|] eqn:GO; simpl.
        * split; simpl; [apply wf_tab_set; auto; now apply wf_tab_set|].
          exists d. repeat split; try apply WD; auto.
          eapply lookup_eq_trans; [apply rollback_old; eassumption|exact LE].
        * split; simpl; [apply wf_tab_remove; now apply wf_tab_set|].
          exists d. repeat split; try apply WD; auto.
          eapply lookup_eq_trans; [apply rollback_new; apply WT|].
          rewrite remove_absent; assumption.
    - (* Delete *)
      unfold au_delete.
      destruct (is_empty u) eqn:EU; [exact I0|].
      assert (UNE : u <> []) by (intros ->; discriminate).
      destruct (t_get u (s_tab s)) as [ho|] eqn:GO; [|exact I0].
      unfold au_save. destruct (s_dir_ok s); simpl.
      + split; simpl.
        * now apply wf_tab_remove.
        * exists (t_remove u (s_tab s)). rewrite fs_get_put_same. repeat split; try apply wf_tab_remove; auto; try (intros k; reflexivity).
      + split; simpl; [apply wf_tab_set; auto; now apply wf_tab_remove|].
        exists d. repeat split; try apply WD; auto.
        eapply lookup_eq_trans; [apply rollback_delete; eassumption|exact LE].
  Qed.

  Lemma run_cons (cfg : acfg) (s : austate) (o : aop) (r : list aop) :
    run cfg s (o :: r) =
    (fst (run cfg (fst (step cfg s o)) r), snd (step cfg s o) :: snd (run cfg (fst (step cfg s o)) r)).
  Proof.
    simpl. destruct (step cfg s o) as [s' x]. simpl.
    destruct (run cfg s' r) as [s'' xs]. reflexivity.
  Qed.

  Lemma run_inv (cfg : acfg) (ops : list aop) : forall s,
    inv cfg s -> inv cfg (fst (run cfg s ops)).
  Proof.
    induction ops as [|o r IH]; intros s I; [exact I|].
    rewrite run_cons. simpl. apply IH. now apply step_inv.
  Qed.

  Lemma start_inv (cfg : acfg) (init : option pwfile) (cwd : N) (s0 : austate) :
    au_start cfg init cwd = Some s0 -> inv cfg s0.
  Proof.
    unfold au_start, init_fs. destruct init as [d|].
    - rewrite (au_load_some cfg [(load_path cfg, d)] d) by (simpl; now rewrite path_eqb_refl).
      destruct (load_check [] d) eqn:LC; [|discriminate].
      apply load_check_wf in LC. rewrite load_rows_id by apply LC.
      intros [= <-]. split; simpl; [exact LC|].
      exists d. rewrite path_eqb_refl. repeat split; try apply LC; try (intros k; reflexivity).
    - unfold au_load. simpl. intros [= <-]. split; simpl.
      + split; [constructor|tauto].
      + exists []. rewrite path_eqb_refl. repeat split; try constructor; try tauto; try (intros k; reflexivity).
  Qed.

  (* after any history whatsoever (updates, deletions, failing saves with their roll-backs,
     changes of the working directory): table = file = what a restarted plugin loads *)
  Theorem accounts_consistent (cfg : acfg) (init : option pwfile) (cwd : N) (ops : list aop) (s0 : austate) :
    au_start cfg init cwd = Some s0 ->
    let s := fst (run cfg s0 ops) in
    exists d, fs_get (load_path cfg) (s_fs s) = Some d
              /\ lookup_eq (s_tab s) d
              /\ snd (au_load cfg (s_fs s)) = Some d
              /\ wf_tab (s_tab s).
  Proof.
    intros ST s. subst s. destruct (run_inv cfg ops s0 (start_inv _ _ _ _ ST)) as [WT [d [G [WD LE]]]].
    exists d. repeat split; try apply WT; auto.
    now rewrite (au_load_wf _ _ _ G WD).
  Qed.

  (* the witness of the repaired defect F16 (relative password file, working directory not
     the configuration directory): the restarted plugin now sees the new account *)
  Definition f16_cfg : acfg := {| a_alg := Plain; a_pf := [112]; a_pfdir := None; a_cfgdir := 0 |}.
  Lemma f16_repaired :
    exists s0, au_start f16_cfg None 1 = Some s0 /\
      let s := fst (run f16_cfg s0 [OUpdate [117] [112] None]) in
      snd (step f16_cfg s0 (OUpdate [117] [112] None)) = XOk /\
      t_get [117] (s_tab s) = Some [112] /\
      snd (au_load f16_cfg (s_fs s)) = Some [([117], [112])].
  Proof. eexists. split; [reflexivity|]. repeat split; reflexivity. Qed.

  (* ------------------------------------------------------------------ effect of the API on the next CONNECT *)

  Lemma matches_generated (a : halg) (p h : str) (g : option str) :
    gen_password H a p g = Some h ->
    (a = Bcrypt -> bverify h p = true) ->
    matches a h p = true.
  Proof.
    destruct a; simpl; intros E B; try (injection E as <-; apply str_eqb_refl). now apply B.
  Qed.

  Lemma update_effective (cfg : acfg) (u p : str) (g : option str) (s s' : austate) :
    au_update H cfg u p g s = (s', XOk) ->
    (forall h, a_alg cfg = Bcrypt -> g = Some h -> bverify h p = true) ->
    validate (a_alg cfg) (s_tab s') u p = true.
  Proof.
    unfold au_update. destruct (is_empty u); [discriminate|].
    destruct (gen_password H (a_alg cfg) p g) as [h|] eqn:GP; [|discriminate].
    destruct (au_save cfg (t_set u h (s_tab s)) s); [|destruct (t_get u (s_tab s)); discriminate].
    intros [= <-] B. simpl. unfold au_validate. rewrite t_get_set_same.
    eapply matches_generated; [eassumption|]. intros A. apply B; [assumption|].
    destruct (a_alg cfg); try discriminate. exact GP.
  Qed.

  (* the other accounts are not touched *)
  Lemma update_frame (cfg : acfg) (u p u' p' : str) (g : option str) (s : austate) :
    u <> u' -> wf_tab (s_tab s) ->
    validate (a_alg cfg) (s_tab (fst (au_update H cfg u p g s))) u' p' = validate (a_alg cfg) (s_tab s) u' p'.
  Proof.
    intros N W. unfold au_update, au_validate. destruct (is_empty u); [reflexivity|].
    destruct (gen_password H (a_alg cfg) p g) as [h|]; [|reflexivity].
    destruct (au_save cfg (t_set u h (s_tab s)) s); simpl.
    - now rewrite t_get_set_other.
    - destruct (t_get u (s_tab s)); simpl.
      + now rewrite !t_get_set_other.
      + now rewrite t_get_remove_other, t_get_set_other.
  Qed.

  Lemma delete_effective (cfg : acfg) (u : str) (s s' : austate) :
    wf_tab (s_tab s) -> au_delete cfg u s = (s', XOk) ->
    forall p, validate (a_alg cfg) (s_tab s') u p = false.
  Proof.
    intros [ND _]. unfold au_delete. destruct (is_empty u); [discriminate|].
    destruct (t_get u (s_tab s)) as [ho|] eqn:G.
    - destruct (au_save cfg (t_remove u (s_tab s)) s); [|discriminate].
      intros [= <-] p. simpl. unfold au_validate. now rewrite t_get_remove_same.
    - intros [= <-] p. unfold au_validate. now rewrite G.
  Qed.

  (* ------------------------------------------------------------------ the model satisfies the oracle *)

  Lemma validate_lookup_eq (a : halg) (t1 t2 : list account) (u p : str) :
    lookup_eq t1 t2 -> validate a t1 u p = validate a t2 u p.
  Proof. intros L. unfold au_validate. now rewrite L. Qed.

  Lemma acc_eqb_eq (x y : account) : acc_eqb x y = true <-> x = y.
  Proof.
    destruct x, y. unfold acc_eqb. simpl. rewrite andb_true_iff, !str_eqb_eq.
    split; [intros [-> ->]; reflexivity|intros [= -> ->]; auto].
  Qed.

  Lemma acc_in_in (x : account) (l : list account) : acc_in x l = true <-> In x l.
  Proof.
    unfold acc_in. rewrite existsb_exists. split.
    - intros [y [I E]]. apply acc_eqb_eq in E. now subst.
    - intros I. exists x. split; [assumption|now apply acc_eqb_eq].
  Qed.

  Lemma nodup_keys_spec (l : list account) : nodup_keys l = true <-> NoDup (keys l).
  Proof.
    induction l as [|[u h] r IH]; simpl.
    - split; [constructor|reflexivity].
    - rewrite andb_true_iff, negb_true_iff, IH. split.
      + intros [M ND]. constructor; [|assumption]. intros I. apply au_mem_in in I. unfold keys in I. congruence.
      + intros ND. inversion ND; subst. split; [|assumption].
        destruct (au_mem u (map fst r)) eqn:M; [|reflexivity]. apply au_mem_in in M. tauto.
  Qed.

  Lemma no_empty_key_spec (l : list account) : no_empty_key l = true <-> ~ In [] (keys l).
  Proof.
    unfold no_empty_key. induction l as [|[u h] r IH]; simpl; [split; [tauto|reflexivity]|].
    rewrite andb_true_iff, negb_true_iff, IH. split.
    - intros [E NI] [X|X]; [subst; discriminate|tauto].
    - intros NI. split; [destruct u; [exfalso; apply NI; now left|reflexivity]|tauto].
  Qed.

  Lemma file_wf_spec (d : pwfile) : file_wf d = true <-> wf_tab d.
  Proof. unfold file_wf, wf_tab. now rewrite andb_true_iff, nodup_keys_spec, no_empty_key_spec. Qed.

  Lemma incl_lookup (l m : list account) :
    NoDup (keys l) -> lookup_eq l m -> forallb (fun x => acc_in x m) l = true.
  Proof.
    intros ND LE. apply forallb_forall. intros [u h] I. apply acc_in_in.
    apply t_get_some_in. rewrite <- LE. now apply in_t_get.
  Qed.

  Lemma same_accounts_ok (l m : list account) :
    NoDup (keys l) -> NoDup (keys m) -> lookup_eq l m -> same_accounts l m = true.
  Proof.
    intros NL NM LE. unfold same_accounts. rewrite !andb_true_iff. repeat split.
    - now apply nodup_keys_spec.
    - now apply incl_lookup.
    - apply incl_lookup; [assumption|]. intros u. now rewrite LE.
  Qed.

  (* the abstract map *)
  Lemma am_del_keys (u k : str) (m : amap) : In k (keys (am_del u m)) -> In k (keys m) /\ k <> u.
  Proof.
    unfold am_del. induction m as [|[k' h] r IH]; simpl; [tauto|].
    destruct (str_eqb u k') eqn:E; simpl.
    - intros I. destruct (IH I). tauto.
    - intros [X|X]; [subst; apply str_eqb_neq in E; split; [now left|congruence]|].
      destruct (IH X). tauto.
  Qed.

  Lemma am_del_nodup (u : str) (m : amap) : NoDup (keys m) -> NoDup (keys (am_del u m)).
  Proof.
    unfold am_del. induction m as [|[k' h] r IH]; simpl; [auto|].
    intros ND. inversion ND; subst. destruct (str_eqb u k'); simpl; [auto|].
    constructor; [|auto]. intros I. apply am_del_keys in I. tauto.
  Qed.

  Lemma am_del_get_same (u : str) (m : amap) : t_get u (am_del u m) = None.
  Proof. apply t_get_none. intros I. apply am_del_keys in I. tauto. Qed.

  Lemma am_del_get_other (u k : str) (m : amap) : u <> k -> t_get k (am_del u m) = t_get k m.
  Proof.
    intros N. unfold am_del. induction m as [|[k' h] r IH]; simpl; [reflexivity|].
    destruct (str_eqb u k') eqn:E; simpl.
    - apply str_eqb_eq in E. subst k'.
      assert (str_eqb k u = false) as -> by (apply str_eqb_neq; congruence). exact IH.
    - now rewrite IH.
  Qed.

  Lemma am_set_nodup (u h : str) (m : amap) : NoDup (keys m) -> NoDup (keys (am_set u h m)).
  Proof.
    intros ND. unfold am_set. simpl. constructor; [|now apply am_del_nodup].
    intros I. apply am_del_keys in I. tauto.
  Qed.

  Lemma set_sim (u h : str) (t : acctab) (m : amap) :
    lookup_eq t m -> lookup_eq (t_set u h t) (am_set u h m).
  Proof.
    intros L k. unfold am_set. simpl. destruct (str_eqb k u) eqn:E.
    - apply str_eqb_eq in E. subst k. apply t_get_set_same.
    - apply str_eqb_neq in E. rewrite t_get_set_other, am_del_get_other; auto.
  Qed.

  Lemma del_sim (u : str) (t : acctab) (m : amap) :
    NoDup (keys t) -> lookup_eq t m -> lookup_eq (t_remove u t) (am_del u m).
  Proof.
    intros ND L k. destruct (str_eqb u k) eqn:E.
    - apply str_eqb_eq in E. subst k. now rewrite t_get_remove_same, am_del_get_same.
    - apply str_eqb_neq in E. rewrite t_get_remove_other, am_del_get_other; auto.
  Qed.

  Lemma del_absent_sim (u : str) (t : acctab) (m : amap) :
    t_get u t = None -> lookup_eq t m -> lookup_eq t (am_del u m).
  Proof.
    intros G L k. destruct (str_eqb u k) eqn:E.
    - apply str_eqb_eq in E. subst k. now rewrite am_del_get_same.
    - apply str_eqb_neq in E. now rewrite am_del_get_other.
  Qed.

  (* pages of the listing *)
  Lemma in_firstn {A : Type} (n : nat) (l : list A) (x : A) : In x (firstn n l) -> In x l.
  Proof.
    revert l. induction n as [|n IH]; intros [|y r]; simpl; try tauto.
    intros [E|I]; [now left|right; auto].
  Qed.

  Lemma in_skipn {A : Type} (n : nat) (l : list A) (x : A) : In x (skipn n l) -> In x l.
  Proof.
    revert l. induction n as [|n IH]; intros [|y r]; simpl; try tauto.
    intros I. right. auto.
  Qed.

  Lemma nodup_firstn {A : Type} (n : nat) (l : list A) : NoDup l -> NoDup (firstn n l).
  Proof.
    revert l. induction n as [|n IH]; intros [|x r] ND; simpl; try constructor.
    - inversion ND; subst. intros I. apply in_firstn in I. tauto.
    - inversion ND; subst. auto.
  Qed.

  Lemma nodup_skipn {A : Type} (n : nat) (l : list A) : NoDup l -> NoDup (skipn n l).
  Proof.
    revert l. induction n as [|n IH]; intros [|x r] ND; simpl; auto.
    inversion ND; subst. auto.
  Qed.

  Lemma page_nodup (n k : nat) (t : acctab) : NoDup (keys t) -> NoDup (keys (firstn n (skipn k t))).
  Proof.
    intros ND. unfold keys. rewrite <- firstn_map, <- skipn_map. now apply nodup_firstn, nodup_skipn.
  Qed.

  Lemma page_in (n k : nat) (t : acctab) (m : amap) :
    NoDup (keys t) -> lookup_eq t m -> forallb (fun x => acc_in x m) (firstn n (skipn k t)) = true.
  Proof.
    intros ND LE. apply forallb_forall. intros [u h] I. apply in_firstn, in_skipn in I.
    apply acc_in_in, t_get_some_in. rewrite <- LE. now apply in_t_get.
  Qed.

  Lemma lookup_eq_sym (a b : list account) : lookup_eq a b -> lookup_eq b a.
  Proof. intros X u. now rewrite X. Qed.

  Lemma list_page_ok (pg sz : N) (t : acctab) (m : amap) :
    NoDup (keys t) -> NoDup (keys m) -> lookup_eq t m ->
    nodup_keys (list_page pg sz t) &&
    forallb (fun acc : account => acc_in acc m) (list_page pg sz t) &&
    (N.of_nat (length (list_page pg sz t)) <=? (if sz =? 0 then 20 else sz)) &&
    (if (pg <=? 1) && (N.of_nat (length (list_page pg sz t)) <? (if sz =? 0 then 20 else sz))
     then forallb (fun acc : account => acc_in acc (list_page pg sz t)) m else true) = true.
  Proof.
    intros NT NM LE. unfold list_page.
    set (sz' := if sz =? 0 then 20 else sz). set (pg' := if pg =? 0 then 1 else pg).
    rewrite !andb_true_iff. repeat split.
    - apply nodup_keys_spec. now apply page_nodup.
    - now apply page_in.
    - apply N.leb_le. pose proof (firstn_le_length (N.to_nat sz') (skipn (N.to_nat ((pg' - 1) * sz')) t)). lia.
    - destruct (pg <=? 1) eqn:P; simpl; [|reflexivity].
      destruct (N.of_nat (length (firstn (N.to_nat sz') (skipn (N.to_nat ((pg' - 1) * sz')) t))) <? sz') eqn:L; [|reflexivity].
      apply N.leb_le in P. apply N.ltb_lt in L.
      assert (pg' = 1) as E1.
      { unfold pg'. destruct (pg =? 0) eqn:Z; [reflexivity|]. apply N.eqb_neq in Z. lia. }
      rewrite E1 in *. replace ((1 - 1) * sz') with 0 in * by lia. simpl in *.
      rewrite firstn_length in L.
      rewrite firstn_all2 by lia.
      apply incl_lookup; [assumption|]. now apply lookup_eq_sym.
  Qed.

  (* simulation between the model state and the abstract accounts of the statement *)
  Definition R (cfg : acfg) (s : austate) (m : amap) : Prop :=
    inv cfg s /\ NoDup (keys m) /\ lookup_eq (s_tab s) m.

  Definition op_gen (a : halg) (o : aop) : Prop :=
    match o with OUpdate _ p (Some h) => a = Bcrypt -> bverify h p = true | _ => True end.

  Lemma step_refines (cfg : acfg) (s : austate) (m : amap) (o : aop) :
    R cfg s m -> op_gen (a_alg cfg) o ->
    exists m', o_step H bverify (a_alg cfg) (s_dir_ok s) m o (snd (step cfg s o)) = Some m'
               /\ R cfg (fst (step cfg s o)) m'
               /\ s_dir_ok (fst (step cfg s o)) = o_avail (s_dir_ok s) o.
  Proof.
    intros [I [NM LE]] GS.
    pose proof (step_inv cfg s o I) as I'.
    destruct I as [WT [d [G [WD LD]]]].
    destruct o as [u p g|u|u|pg sz|dd|b|u p|pre v c| |]; simpl in *.
    - (* Update *)
      unfold au_update in *. destruct (is_empty u) eqn:EU; simpl in *.
      { exists m. split; [reflexivity|]. repeat split; try apply I'; assumption. }
      destruct (gen_password H (a_alg cfg) p g) as [h|] eqn:GP; simpl in *.
      2:{ exists m. split; [reflexivity|]. repeat split; try apply I'; assumption. }
      destruct (au_save cfg (t_set u h (s_tab s)) s) as [f'|]; simpl in *.
      + assert (matches (a_alg cfg) h p = true) as ->.
        { eapply matches_generated; [exact GP|]. intros A. rewrite A in GP. simpl in GP. subst g. now apply GS. }
        exists (am_set u h m). split; [reflexivity|]. repeat split; try apply I'.
        * now apply am_set_nodup.
        * now apply set_sim.
      + destruct (t_get u (s_tab s)) as [ho|] eqn:GO; simpl in *.
        * exists m. split; [reflexivity|]. repeat split; try apply I'; auto.
          eapply lookup_eq_trans; [apply rollback_old; eassumption|exact LE].
        * exists m. split; [reflexivity|]. repeat split; try apply I'; auto.
          eapply lookup_eq_trans; [apply rollback_new; apply WT|].
          rewrite remove_absent; assumption.
    - (* Delete *)
      unfold au_delete in *. destruct (is_empty u) eqn:EU; simpl in *.
      { exists m. split; [reflexivity|]. repeat split; try apply I'; assumption. }
      destruct (t_get u (s_tab s)) as [ho|] eqn:GO; simpl in *.
      2:{ exists (am_del u m). split; [reflexivity|]. repeat split; try apply I'.
          - now apply am_del_nodup.
          - now apply del_absent_sim. }
      destruct (au_save cfg (t_remove u (s_tab s)) s) as [f'|]; simpl in *.
      + exists (am_del u m). split; [reflexivity|]. repeat split; try apply I'.
        * now apply am_del_nodup.
        * apply del_sim; [apply WT|assumption].
      + exists m. split; [reflexivity|]. repeat split; try apply I'; auto.
        eapply lookup_eq_trans; [apply rollback_delete; eassumption|exact LE].
    - (* Get *)
      destruct (is_empty u) eqn:EU; simpl in *.
      { exists m. split; [reflexivity|]. repeat split; try apply I'; assumption. }
      rewrite <- LE. destruct (t_get u (s_tab s)) as [h|]; simpl.
      + rewrite str_eqb_refl. exists m. split; [reflexivity|]. repeat split; try apply I'; assumption.
      + exists m. split; [reflexivity|]. repeat split; try apply I'; assumption.
    - (* List *)
      rewrite list_page_ok by (try apply WT; assumption).
      exists m. split; [reflexivity|]. repeat split; try apply I'; assumption.
    - (* Chdir *)
      exists m. split; [reflexivity|]. repeat split; try apply I'; assumption.
    - (* Break *)
      exists m. split; [reflexivity|]. repeat split; try apply I'; assumption.
    - (* Validate *)
      replace (cred_ok H bverify (a_alg cfg) m u p) with (validate (a_alg cfg) (s_tab s) u p)
        by (rewrite (validate_lookup_eq _ _ _ _ _ LE); reflexivity).
      rewrite eqb_reflx.
      exists m. split; [reflexivity|]. repeat split; try apply I'; assumption.
    - (* Auth *)
      replace (cred_ok H bverify (a_alg cfg) m (ac_username c) (ac_password c))
        with (validate (a_alg cfg) (s_tab s) (ac_username c) (ac_password c))
        by (rewrite (validate_lookup_eq _ _ _ _ _ LE); reflexivity).
      assert (eqb (is_ok (wrapper (a_alg cfg) (s_tab s) (fun _ : aconnect => pre) v c))
                  (is_ok pre && validate (a_alg cfg) (s_tab s) (ac_username c) (ac_password c)) = true) as ->.
      { unfold au_wrapper. destruct pre; simpl; [|reflexivity].
        destruct (validate (a_alg cfg) (s_tab s) (ac_username c) (ac_password c)); [reflexivity|].
        destruct (au_v3x v); reflexivity. }
      exists m. split; [reflexivity|]. repeat split; try apply I'; assumption.
    - (* Reload *)
      destruct (s_dir_ok s) eqn:DK; simpl in *.
      2:{ exists m. split; [reflexivity|]. repeat split; try apply I'; assumption. }
      rewrite (au_load_wf _ _ _ G WD) in *. simpl in *.
      rewrite same_accounts_ok; [|apply WD|assumption|].
      + exists m. split; [reflexivity|]. repeat split; try apply I'; assumption.
      + eapply lookup_eq_trans; [apply lookup_eq_sym; exact LD|exact LE].
    - (* File *)
      destruct (s_dir_ok s) eqn:DK; simpl in *.
      2:{ exists m. split; [reflexivity|]. repeat split; try apply I'; assumption. }
      rewrite G. rewrite same_accounts_ok; [|apply WD|assumption|].
      + exists m. split; [reflexivity|]. repeat split; try apply I'; assumption.
      + eapply lookup_eq_trans; [apply lookup_eq_sym; exact LD|exact LE].
  Qed.

  Lemma gen_sound_cons (a : halg) (o : aop) (r : list aop) :
    gen_sound bverify a (o :: r) = true -> op_gen a o /\ gen_sound bverify a r = true.
  Proof.
    unfold gen_sound, op_gen. destruct a; simpl.
    1-3: (intros _; split; [|reflexivity]; destruct o as [? ? [?|]| | | | | | | | |]; try exact I; discriminate).
    intros E. apply andb_true_iff in E. destruct E as [E1 E2]. split; [|exact E2].
    destruct o as [? ? [?|]| | | | | | | | |]; try exact I. intros _. exact E1.
  Qed.

  Lemma run_refines (cfg : acfg) (ops : list aop) : forall (s : austate) (m : amap),
    R cfg s m ->
    gen_sound bverify (a_alg cfg) ops = true ->
    o_run H bverify (a_alg cfg) (s_dir_ok s) m ops (snd (run cfg s ops)) = true.
  Proof.
    induction ops as [|o r IH]; intros s m RR GS; [reflexivity|].
    rewrite run_cons. simpl.
    apply gen_sound_cons in GS. destruct GS as [G1 G2].
    destruct (step_refines cfg s m o RR G1) as [m' [E [R' A']]].
    rewrite E, <- A'. now apply IH.
  Qed.

  Lemma start_some_wf (cfg : acfg) (d : pwfile) (cwd : N) :
    wf_tab d ->
    au_start cfg (Some d) cwd =
    Some {| s_tab := d; s_fs := [(load_path cfg, d)]; s_cwd := cwd; s_dir_ok := true |}.
  Proof.
    intros W. unfold au_start, init_fs. rewrite (au_load_wf cfg [(load_path cfg, d)] d); auto.
    simpl. now rewrite path_eqb_refl.
  Qed.

  Lemma start_some_not_wf (cfg : acfg) (d : pwfile) (cwd : N) :
    ~ wf_tab d -> au_start cfg (Some d) cwd = None.
  Proof.
    intros W. unfold au_start, init_fs.
    rewrite (au_load_some cfg [(load_path cfg, d)] d) by (simpl; now rewrite path_eqb_refl).
    destruct (load_check [] d) eqn:LC; [|reflexivity]. apply load_check_wf in LC. tauto.
  Qed.

  (* every answer of the model, at every step of every history, is one the statement allows *)
  Theorem model_refines_oracle (cfg : acfg) (init : option pwfile) (cwd : N) (ops : list aop) :
    gen_sound bverify (a_alg cfg) ops = true ->
    c19_ok H bverify cfg init ops (au_model_outs H bverify cfg init cwd ops) = true.
  Proof.
    intros GS. unfold c19_ok, au_model_outs in *.
    destruct init as [d|].
    - destruct (file_wf d) eqn:FW.
      + apply file_wf_spec in FW. rewrite (start_some_wf cfg d cwd FW) in *.
        apply (run_refines cfg ops {| s_tab := d; s_fs := [(load_path cfg, d)]; s_cwd := cwd; s_dir_ok := true |}); auto.
        split; [eapply start_inv; apply (start_some_wf cfg d cwd FW)|].
        split; [apply FW|]. intros k; reflexivity.
      + rewrite start_some_not_wf; [reflexivity|]. intros W. apply file_wf_spec in W. congruence.
    - destruct (au_start cfg None cwd) as [s0|] eqn:ST.
      + pose proof (start_inv _ _ _ _ ST) as I0.
        assert (s_dir_ok s0 = true) as DK.
        { revert ST. unfold au_start, init_fs, au_load. simpl. now intros [= <-]. }
        assert (RR : R cfg s0 []).
        { split; [exact I0|]. split; [constructor|].
          revert ST. unfold au_start, init_fs, au_load. simpl. intros [= <-]. intros k; reflexivity. }
        pose proof (run_refines cfg ops s0 [] RR GS) as X. rewrite DK in X. exact X.
      + revert ST. unfold au_start, init_fs, au_load. simpl. discriminate.
  Qed.

  (* the witness of the repaired hole of the hook: wrong credentials, client version 6 *)
  Lemma unknown_version_repaired :
    exists v c, known_version v = false /\
      wrapper Plain [] (fun _ => HkOk) v c = HkErr NOT_AUTHORIZED /\
      validate Plain [] (ac_username c) (ac_password c) = false.
  Proof.
    exists 6, {| ac_version := 6; ac_cid := [99]; ac_uflag := true; ac_pflag := true; ac_user := [117];
                 ac_pass := [112]; ac_authmethod := None; ac_authdata := None |}.
    repeat split; reflexivity.
  Qed.

  (* a v5 CONNECT with the right credentials and an Authentication Method is refused *)
  Lemma accept_iff_full_refuted :
    exists (t : acctab) (c : aconnect),
      connect_servable false c = true /\
      validate Plain t (ac_username c) (ac_password c) = true /\
      broker_connect H bverify false Plain t c = Some UNSPECIFIED_ERROR.
  Proof.
    exists [([117], [112])],
      {| ac_version := 5; ac_cid := [99]; ac_uflag := true; ac_pflag := true; ac_user := [117];
         ac_pass := [112]; ac_authmethod := Some [120]; ac_authdata := None |}.
    repeat split; reflexivity.
  Qed.
End AuthProofs.
