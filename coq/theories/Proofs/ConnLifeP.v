(* C15 - the reachable set of Model/ConnLife.v computed inside Coq (breadth-first search with a
   visited set of state codes, fuel = number of levels) and the theorems over it.

   Bounds of the instance: the peer delivers at most rx0 = 3 packets, the queue at most
   msgs0 = 2 messages, channel capacity 1, search depth <= 400 levels (the search returns
   None when the fuel does not suffice; `explored_some` states that it sufficed). *)
From Coq Require Import List Arith Bool PArith MSets.MSetPositive Lia.
Import ListNotations.
From GM Require Import Model.ConnLife.

Module PS := PositiveSet.

(* ---------------------------------------------------------------- the code is injective *)

Lemma iter_xI_xO_inj n : forall m a b, Nat.iter n xI (xO a) = Nat.iter m xI (xO b) -> n = m /\ a = b.
Proof.
  induction n as [|n IH]; intros [|m] a b H; cbn in H.
  - inversion H. auto.
  - discriminate.
  - discriminate.
  - inversion H as [H']. apply IH in H' as [-> ->]. auto.
Qed.

Lemma iter_xI_xO_not_xH n a : Nat.iter n xI (xO a) <> xH.
Proof. destruct n; cbn; discriminate. Qed.

Lemma enc_inj : forall l1 l2, enc l1 = enc l2 -> l1 = l2.
Proof.
  induction l1 as [|n l1 IH]; intros [|m l2] H; cbn in H.
  - reflexivity.
  - symmetry in H. now apply iter_xI_xO_not_xH in H.
  - now apply iter_xI_xO_not_xH in H.
  - apply iter_xI_xO_inj in H as [-> H]. f_equal. now apply IH.
Qed.

Lemma b2n_inj b b' : Nat.b2n b = Nat.b2n b' -> b = b'.
Proof. destruct b, b'; cbn; congruence. Qed.

Lemma code_inj s s' : code s = code s' -> s = s'.
Proof.
  unfold code. intros H. apply enc_inj in H. destruct s, s'. cbn in H.
  injection H. intros.
  repeat match goal with H : Nat.b2n _ = Nat.b2n _ |- _ => apply b2n_inj in H end.
  subst. reflexivity.
Qed.

(* ---------------------------------------------------------------- search *)

Definition add_new (acc : PS.t * list st) (s : st) : PS.t * list st :=
  let '(seen, fresh) := acc in
  if PS.mem (code s) seen then acc else (PS.add (code s) seen, s :: fresh).

Fixpoint bfs (fuel : nat) (frontier : list st) (seen : PS.t) (all : list st) : option (list st) :=
  match fuel with
  | 0 => match frontier with [] => Some all | _ => None end
  | S f =>
      match frontier with
      | [] => Some all
      | _ =>
          let '(seen', fresh) := fold_left add_new (flat_map next frontier) (seen, []) in
          bfs f fresh seen' (fresh ++ all)
      end
  end.

Definition rx0 := 3.
Definition msgs0 := 2.
Definition init0 : st := init rx0 msgs0.
Definition fuel0 := 400.

Definition explored : option (list st) := bfs fuel0 [init0] (PS.singleton (code init0)) [init0].

Definition reach_list : list st := match explored with Some l => l | None => [] end.

Definition set_of (l : list st) : PS.t := fold_left (fun acc s => PS.add (code s) acc) l PS.empty.

Definition reach_set : PS.t := set_of reach_list.

(* the checks, all by computation over the finite list *)
Definition closedb : bool :=
  PS.mem (code init0) reach_set
  && forallb (fun s => forallb (fun s' => PS.mem (code s') reach_set) (next s)) reach_list.

Definition kf_any (s : st) : bool := kf_reader_blocked_on_in s || kf_once_blocked_on_out s.

Definition no_stuckb : bool :=
  forallb (fun s => negb (stuck s) || final s || kf_any s) reach_list.

Definition measureb : bool :=
  forallb (fun s => forallb (fun s' => Nat.ltb (measure s') (measure s)) (next s)) reach_list.

(* at most one of the once-protected effects: `close` is closed only by the Once *)
Definition latch_okb : bool :=
  forallb (fun s => Bool.eqb (chClose s) (Nat.eqb (latch s) 2)) reach_list.

Lemma explored_some : explored <> None.
Proof. vm_compute. discriminate. Qed.

Lemma closedb_ok : closedb = true.
Proof. vm_compute. reflexivity. Qed.

Lemma no_stuckb_ok : no_stuckb = true.
Proof. vm_compute. reflexivity. Qed.

Lemma measureb_ok : measureb = true.
Proof. vm_compute. reflexivity. Qed.

Lemma latch_okb_ok : latch_okb = true.
Proof. vm_compute. reflexivity. Qed.

(* ---------------------------------------------------------------- from checks to statements *)

Inductive reachable : st -> Prop :=
| reach_init : reachable init0
| reach_step : forall s s', reachable s -> In s' (next s) -> reachable s'.

Lemma set_of_spec_gen l : forall acc p,
  PS.mem p (fold_left (fun acc s => PS.add (code s) acc) l acc) = true ->
  PS.mem p acc = true \/ In p (map code l).
Proof.
  induction l as [|s l IH]; intros acc p H; cbn in *; [auto|].
  apply IH in H as [H|H]; [|auto].
  apply PS.mem_spec in H. apply PS.add_spec in H as [H|H].
  - right. left. now subst.
  - left. now apply PS.mem_spec.
Qed.

Lemma set_of_spec l p : PS.mem p (set_of l) = true -> In p (map code l).
Proof.
  intros H. apply set_of_spec_gen in H as [H|H]; [|exact H].
  apply PS.mem_spec in H. now apply PS.empty_spec in H.
Qed.

Lemma mem_reach s : PS.mem (code s) reach_set = true -> In s reach_list.
Proof.
  intros H. apply set_of_spec in H. apply in_map_iff in H as [s0 [E Hin]].
  apply code_inj in E. now subst.
Qed.

(* every state reachable by ANY run is in the computed list *)
Theorem reach_complete : forall s, reachable s -> In s reach_list.
Proof.
  pose proof closedb_ok as C. unfold closedb in C. apply andb_true_iff in C as [Ci Cs].
  induction 1 as [|s s' _ IH Hin].
  - now apply mem_reach.
  - rewrite forallb_forall in Cs. specialize (Cs s IH). rewrite forallb_forall in Cs.
    apply mem_reach. now apply Cs.
Qed.

Lemma reach_list_closed s s' : In s reach_list -> In s' (next s) -> In s' reach_list.
Proof.
  pose proof closedb_ok as C. unfold closedb in C. apply andb_true_iff in C as [_ Cs].
  intros Hs Hn. rewrite forallb_forall in Cs. specialize (Cs s Hs). rewrite forallb_forall in Cs.
  apply mem_reach. now apply Cs.
Qed.

(* a state without enabled transition is final, or one of the two known blocked states *)
Theorem stuck_classified : forall s, reachable s -> next s = [] ->
  final s = true \/ kf_reader_blocked_on_in s = true \/ kf_once_blocked_on_out s = true.
Proof.
  intros s R Hn. apply reach_complete in R. pose proof no_stuckb_ok as N. unfold no_stuckb in N.
  rewrite forallb_forall in N. specialize (N s R). unfold stuck in N. rewrite Hn in N. cbn in N.
  apply orb_true_iff in N as [N|N]; [left; exact N|]. unfold kf_any in N.
  apply orb_true_iff in N as [N|N]; auto.
Qed.

Theorem measure_decreases : forall s s', reachable s -> In s' (next s) -> measure s' < measure s.
Proof.
  intros s s' R Hn. apply reach_complete in R. pose proof measureb_ok as M. unfold measureb in M.
  rewrite forallb_forall in M. specialize (M s R). rewrite forallb_forall in M.
  specialize (M s' Hn). now apply Nat.ltb_lt in M.
Qed.

(* every maximal run from s ends, and ends in a state satisfying P *)
Inductive ends_in (P : st -> Prop) : st -> Prop :=
| ends_here : forall s, next s = [] -> P s -> ends_in P s
| ends_step : forall s, next s <> [] -> (forall s', In s' (next s) -> ends_in P s') -> ends_in P s.

Definition good_end (s : st) : Prop :=
  final s = true \/ kf_reader_blocked_on_in s = true \/ kf_once_blocked_on_out s = true.

Theorem all_runs_end : forall s, reachable s -> ends_in good_end s.
Proof.
  intros s. remember (measure s) as n eqn:E. revert s E.
  induction n as [n IH] using lt_wf_ind. intros s E R.
  destruct (next s) as [|x xs] eqn:Hn.
  - apply ends_here; [exact Hn|]. now apply stuck_classified.
  - apply ends_step; [rewrite Hn; discriminate|]. intros s' Hin.
    apply (IH (measure s')).
    + subst n. apply measure_decreases; [exact R|exact Hin].
    + reflexivity.
    + eapply reach_step; eassumption.
Qed.

(* a run has at most `measure init0` steps *)
Theorem run_length_bounded : forall s, reachable s -> measure s <= measure init0.
Proof.
  induction 1 as [|s s' R IH Hin]; [lia|]. pose proof (measure_decreases s s' R Hin). lia.
Qed.

(* `close` is closed exactly when the Once has completed: setError's once-semantics *)
Theorem close_iff_once_done : forall s, reachable s -> chClose s = Nat.eqb (latch s) 2.
Proof.
  intros s R. apply reach_complete in R. pose proof latch_okb_ok as Lk. unfold latch_okb in Lk.
  rewrite forallb_forall in Lk. specialize (Lk s R). now apply Bool.eqb_prop in Lk.
Qed.

(* ---------------------------------------------------------------- witnesses: explicit runs *)

(* a run given by the index of the chosen successor at every step *)
Fixpoint replay (choices : list nat) (s : st) : option st :=
  match choices with
  | [] => Some s
  | c :: tl => match nth_error (next s) c with Some s' => replay tl s' | None => None end
  end.

Lemma replay_reachable : forall choices s s', reachable s -> replay choices s = Some s' -> reachable s'.
Proof.
  induction choices as [|c tl IH]; intros s s' R H; cbn in H.
  - inversion H. now subst.
  - destruct (nth_error (next s) c) as [x|] eqn:E; [|discriminate].
    eapply IH; [|exact H]. eapply reach_step; [exact R|]. eapply nth_error_In; exact E.
Qed.
