(* C15 - the reachable set of Model/ConnLife.v computed inside Coq and the theorems over it.

   Bounds of the instance: the peer delivers at most rx0 = 3 packets, the queue at most
   msgs0 = 2 messages, channel capacity 1, search depth <= fuel0 = 400 levels (the search
   returns None when the fuel does not suffice; `explored_some` states that it sufficed).
   Model of the code after the repairs 6670bb6 (readLoop) and b002260 (setError). *)
From Coq Require Import List Arith Bool PArith Lia.
Import ListNotations.
From GM Require Import Model.ConnLife Proofs.FiniteSys.

Definition code (s : st) : positive := enc (fields s).

Lemma code_inj s s' : code s = code s' -> s = s'.
Proof.
  unfold code. intros H. apply enc_inj in H. destruct s, s'. cbn in H.
  injection H. intros.
  repeat match goal with H : Nat.b2n _ = Nat.b2n _ |- _ => apply b2n_inj in H end.
  subst. reflexivity.
Qed.

Definition rx0 := 3.
Definition msgs0 := 2.
Definition init0 : st := init rx0 msgs0.
Definition fuel0 := 400.

Definition explored : option (list st) := explore next code fuel0 init0.
Definition reach_list : list st := match explored with Some l => l | None => [] end.

Definition stuckb (s : st) : bool := stuck next s.

(* where a run may end: everything exited and `closed` closed *)
Definition good_endb (s : st) : bool := final s.

(* `close` is closed exactly when the Once has completed *)
Definition latch_inv (s : st) : bool := Bool.eqb (chClose s) (Nat.eqb (latch s) 2).

(* internalClose (close(closed)) only after every other goroutine has exited *)
Definition closed_inv (s : st) : bool :=
  negb (chClosed s)
  || (Nat.eqb (pR s) R5 && Nat.eqb (pW s) W3 && (Nat.eqb (pP s) PN || Nat.eqb (pP s) P3)
      && (Nat.eqb (pH s) HN || Nat.eqb (pH s) H4) && negb (sock s)).

Lemma explored_some : is_some explored = true.
Proof. vm_compute. reflexivity. Qed.

Lemma closedb_ok : closedb_of next code init0 reach_list = true.
Proof. vm_compute. reflexivity. Qed.

Lemma no_stuckb_ok : no_stuckb_of next good_endb reach_list = true.
Proof. vm_compute. reflexivity. Qed.

Lemma measureb_ok : measureb_of next measure reach_list = true.
Proof. vm_compute. reflexivity. Qed.

Lemma latch_inv_ok : invb_of latch_inv reach_list = true.
Proof. vm_compute. reflexivity. Qed.

Lemma closed_inv_ok : invb_of closed_inv reach_list = true.
Proof. vm_compute. reflexivity. Qed.

Definition reachable : st -> Prop := reachable_from next init0.

Definition good_end (s : st) : Prop := final s = true.

Lemma good_endb_spec s : good_endb s = true -> good_end s.
Proof. exact (fun H => H). Qed.

(* every state reachable by any run is in the computed list *)
Theorem reach_complete : forall s, reachable s -> In s reach_list.
Proof. exact (reach_complete_gen next code code_inj init0 reach_list closedb_ok). Qed.

(* a state without enabled transition is the final state: no stuck non-final state *)
Theorem stuck_classified : forall s, reachable s -> next s = [] -> good_end s.
Proof.
  intros s R Hn. apply good_endb_spec.
  exact (stuck_classified_gen next code code_inj init0 reach_list closedb_ok good_endb no_stuckb_ok s R Hn).
Qed.

Theorem measure_decreases : forall s s', reachable s -> In s' (next s) -> measure s' < measure s.
Proof. exact (measure_decreases_gen next code code_inj init0 reach_list closedb_ok measure measureb_ok). Qed.

Lemma ends_in_weaken (P Q : st -> Prop) : (forall s, P s -> Q s) -> forall s, ends_in next P s -> ends_in next Q s.
Proof.
  intros PQ s H. induction H as [s Hn Hp | s Hn _ IH].
  - apply ends_here; auto.
  - apply ends_step; auto.
Qed.

(* every maximal run, from every reachable state, is finite and ends in a good end state *)
Theorem all_runs_end : forall s, reachable s -> ends_in next good_end s.
Proof.
  intros s R. eapply ends_in_weaken; [exact good_endb_spec|].
  exact (all_runs_end_gen next code code_inj init0 reach_list closedb_ok measure measureb_ok good_endb no_stuckb_ok s R).
Qed.

(* a run has at most `measure init0` steps *)
Theorem run_length_bounded : forall s, reachable s -> measure s <= measure init0.
Proof. exact (run_length_bounded_gen next code code_inj init0 reach_list closedb_ok measure measureb_ok). Qed.

(* `close` is closed exactly when the Once has completed: setError's once-semantics *)
Theorem close_iff_once_done : forall s, reachable s -> chClose s = Nat.eqb (latch s) 2.
Proof.
  intros s R. pose proof (inv_gen next code code_inj init0 reach_list closedb_ok latch_inv latch_inv_ok s R) as H.
  now apply Bool.eqb_prop in H.
Qed.

(* close(closed) happens only after all other goroutines of the connection have exited and
   the socket has been closed *)
Theorem closed_after_all_exited : forall s, reachable s -> closed_inv s = true.
Proof. exact (inv_gen next code code_inj init0 reach_list closedb_ok closed_inv closed_inv_ok). Qed.

(* ---------------------------------------------------------------- the full statement *)

(* every maximal run from every reachable state is finite (at most `measure init0` = 84 steps)
   and ends in the final state: all goroutines exited, `closed` closed *)
Theorem conn_no_stuck :
  forall s, reachable s -> ends_in next (fun s => final s = true) s /\ measure s <= measure init0.
Proof. intros s R. split; [exact (all_runs_end s R) | exact (run_length_bounded s R)]. Qed.

(* in particular from every reachable state in which `close` has been closed *)
Corollary conn_no_stuck_after_close :
  forall s, reachable s -> chClose s = true -> ends_in next (fun s => final s = true) s.
Proof. intros s R _. exact (all_runs_end s R). Qed.

Theorem conn_once_and_order :
  forall s, reachable s -> chClose s = Nat.eqb (latch s) 2 /\ closed_inv s = true.
Proof. intros s R. split; [exact (close_iff_once_done s R) | exact (closed_after_all_exited s R)]. Qed.

(* ---------------------------------------------------------------- witnesses: explicit runs *)

(* the situations of the two repaired findings still ARISE - they are no longer blocked states.
   [fields] order: pS pR pW pP pH inN inClosed outN close connected closed latch sock qclosed okc spawn rx msgs *)

(* the connect phase times out, the peer sends two more packets: `in` is full when the reader
   wants to hand over the second one; `close` is closed, so the packet is dropped *)
Definition run_full_in : list nat := [0; 0; 1; 0; 1; 1; 1].

(* a connected v5 client; the writer has failed on the socket and waits for setError, `out` is
   full, the handler is about to call setError with a *codes.Error: the DISCONNECT is dropped *)
Definition run_full_out : list nat := [1; 1; 1; 0; 0; 1; 1; 0; 0; 1; 0; 2; 3; 2; 6; 2].

(* a clean run of a connected client to the final state *)
Definition run_ok : list nat := [1; 1; 1; 0; 1; 3; 1; 1; 0; 1; 0; 1; 0; 2; 0; 1; 0; 0; 0; 0].

Definition reaches (p : st -> bool) (choices : list nat) : bool :=
  match replay next choices init0 with Some s => p s | None => false end.

Lemma reaches_spec p choices : reaches p choices = true -> exists s, reachable s /\ p s = true.
Proof.
  unfold reaches. destruct (replay next choices init0) as [s|] eqn:E; [|discriminate].
  intros H. exists s. split; [|exact H]. eapply replay_reachable; [apply reach_init | exact E].
Qed.

Lemma run_full_in_ok :
  reaches (fun s => reader_waits_on_full_in s && chClose s && negb (stuckb s)) run_full_in = true.
Proof. vm_compute. reflexivity. Qed.

Lemma run_full_out_ok :
  reaches (fun s => Nat.eqb (pH s) H3q && Nat.eqb (outN s) cap && Nat.eqb (latch s) 0 && Nat.eqb (pW s) W2
                    && negb (stuckb s)) run_full_out = true.
Proof. vm_compute. reflexivity. Qed.

Lemma run_ok_ok : reaches (fun s => final s && okc s && chClosed s) run_ok = true.
Proof. vm_compute. reflexivity. Qed.

(* non-vacuity *)
Theorem former_blocked_states_reachable :
  (exists s, reachable s /\ reader_waits_on_full_in s = true /\ chClose s = true /\ next s <> []) /\
  (exists s, reachable s /\ pH s = H3q /\ outN s = cap /\ latch s = 0 /\ pW s = W2 /\ next s <> []).
Proof.
  split.
  - destruct (reaches_spec _ _ run_full_in_ok) as [s [R H]].
    apply andb_true_iff in H as [H Hs]. apply andb_true_iff in H as [H1 H2].
    exists s. repeat split; try assumption. intro E. unfold stuckb, stuck in Hs. rewrite E in Hs. discriminate.
  - destruct (reaches_spec _ _ run_full_out_ok) as [s [R H]].
    apply andb_true_iff in H as [H Hs]. apply andb_true_iff in H as [H H4]. apply andb_true_iff in H as [H H3].
    apply andb_true_iff in H as [H1 H2].
    apply Nat.eqb_eq in H1. apply Nat.eqb_eq in H2. apply Nat.eqb_eq in H3. apply Nat.eqb_eq in H4.
    exists s. repeat split; try assumption. intro E. unfold stuckb, stuck in Hs. rewrite E in Hs. discriminate.
Qed.

Theorem final_reachable : exists s, reachable s /\ final s = true /\ okc s = true.
Proof.
  destruct (reaches_spec _ _ run_ok_ok) as [s [R H]].
  apply andb_true_iff in H as [H _]. apply andb_true_iff in H as [Hf Ho]. exists s. auto.
Qed.
