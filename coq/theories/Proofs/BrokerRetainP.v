(* C07 (broker level) - retained messages in the broker model Model/Broker.v, for all states:
   what `retain_update` does to the retained store, that an accepted PUBLISH applies exactly
   `retain_update` to it, the gate of the retained replay in `handle_subscribe`, the contents
   of the replay (`replay_retained`), the RETAIN flag of replayed and of live copies.
   The store itself (last value per topic, lookups by filter) is Proofs/RetTrieP.v; its
   refinement relation `R` (trie database against flat map topic -> message) is used here
   for arbitrary databases, so that the statements hold of every state whose retained store
   is related to a flat map - every reachable state (section 7: `reachable_ret_history`, `ret_inv_run`). *)
From Coq Require Import List NArith ZArith Bool Arith Lia ZifyN ZifyNat ZifyBool.
Import ListNotations.
From GM Require Import Base.Topic Base.Msg Model.SubTrie Model.RetTrie Model.Queue Model.Limiter
  Model.TopicMatch Model.Broker Proofs.TopicP Proofs.RetTrieP.
Open Scope N_scope.

(* ================================================================== *)
(* 0. association lists, record setters                                *)
(* ================================================================== *)

Lemma rr_nget_nset_same {V} (c : N) (k : V) (l : list (N * V)) : nget c l = Some k -> nset c k l = l.
Proof.
  induction l as [|[c0 v0] r IH]; cbn [nget nset]; intros H; [discriminate|].
  destruct (c =? c0) eqn:E.
  - apply N.eqb_eq in E. congruence.
  - now rewrite IH.
Qed.

Lemma rr_conn_eta (k : conn) :
  {| k_cid := k_cid k; k_v := k_v k; k_phase := k_phase k; k_max_inflight := k_max_inflight k;
     k_client_max_packet := k_client_max_packet k; k_client_alias_max := k_client_alias_max k;
     k_server_alias_max := k_server_alias_max k; k_recv_max := k_recv_max k; k_keepalive := k_keepalive k;
     k_session_expiry := k_session_expiry k; k_retain_avail := k_retain_avail k; k_wildcard := k_wildcard k;
     k_subid := k_subid k; k_shared := k_shared k; k_lim := k_lim k; k_held := k_held k;
     k_alias_out := k_alias_out k; k_alias_in := k_alias_in k; k_alias_in_size := k_alias_in_size k;
     k_quota := k_quota k; k_clean_will := k_clean_will k; k_disc_sei := k_disc_sei k;
     k_got_disconnect := k_got_disconnect k; k_force_remove := k_force_remove k; k_drained := k_drained k |} = k.
Proof. destruct k; reflexivity. Qed.

Lemma rr_upd_conn_same (c : N) (k : conn) (s : st) : nget c (b_conns s) = Some k -> upd_conn c k s = s.
Proof. intros H. unfold upd_conn. rewrite (rr_nget_nset_same _ _ _ H). destruct s; reflexivity. Qed.

Lemma rr_aset_aset {V} (k : str) (v v' : V) (l : list (str * V)) : aset k v (aset k v' l) = aset k v l.
Proof.
  induction l as [|[k0 v0] r IH]; cbn [aset].
  - now rewrite str_eqb_refl.
  - destruct (str_eqb k k0) eqn:E; cbn [aset].
    + now rewrite str_eqb_refl.
    + now rewrite E, IH.
Qed.

Lemma rr_aset_same {V} (k : str) (v : V) (l : list (str * V)) : aget k l = Some v -> aset k v l = l.
Proof.
  induction l as [|[k0 v0] r IH]; cbn [aget aset]; intros H; [discriminate|].
  destruct (str_eqb k k0) eqn:E.
  - apply str_eqb_eq in E. congruence.
  - now rewrite IH.
Qed.

Lemma rr_aget_aset_same {V} (k : str) (v : V) (l : list (str * V)) : aget k (aset k v l) = Some v.
Proof. rewrite aget_aset. now rewrite str_eqb_refl. Qed.

Lemma rr_aget_aset_other {V} (k k' : str) (v : V) (l : list (str * V)) : k' <> k -> aget k' (aset k v l) = aget k' l.
Proof. intros H. rewrite aget_aset. apply str_eqb_neq in H. now rewrite H. Qed.

(* what the queue notifier does with the events of one Add: only an expired in-flight entry matters *)
Lemma rr_fold_lim_noop (evs : list qev) : forall (l : lim),
  (forall el, ~ In (EvDropped el DExpiredInflight) evs) ->
  fold_left (fun l e => match e with
                        | EvDropped el DExpiredInflight => lim_release (e_id el) l
                        | _ => l
                        end) evs l = l.
Proof.
  induction evs as [|e r IH]; intros l H; cbn [fold_left]; [reflexivity|].
  assert (Hr : forall el, ~ In (EvDropped el DExpiredInflight) r).
  { intros el Hin. apply (H el). now right. }
  destruct e as [el rs| |]; try now apply IH.
  destruct rs; try now apply IH.
  exfalso. apply (H el). now left.
Qed.

Lemma rr_release_dropped_noop cid evs s :
  (forall el, ~ In (EvDropped el DExpiredInflight) evs) -> release_dropped cid evs s = s.
Proof.
  intros H. unfold release_dropped. destruct (aget cid (b_online s)) as [c|]; [|reflexivity].
  destruct (nget c (b_conns s)) as [k|] eqn:E; [|reflexivity].
  rewrite (rr_fold_lim_noop evs (k_lim k) H). rewrite rr_conn_eta. now apply rr_upd_conn_same.
Qed.

(* release_dropped touches nothing but the connection table *)
Lemma rr_release_dropped_frame cid evs s :
  let s' := release_dropped cid evs s in
  b_cfg s' = b_cfg s /\ b_hooks s' = b_hooks s /\ b_now s' = b_now s /\ b_rt s' = b_rt s /\
  b_sessions s' = b_sessions s /\ b_online s' = b_online s /\ b_offline s' = b_offline s /\
  b_wills s' = b_wills s /\ b_subs s' = b_subs s /\ b_ret s' = b_ret s /\ b_queues s' = b_queues s /\
  b_unacks s' = b_unacks s /\ b_picks s' = b_picks s /\ b_tag s' = b_tag s /\ b_auto s' = b_auto s /\
  b_npick s' = b_npick s.
Proof.
  unfold release_dropped. destruct (aget cid (b_online s)) as [c|]; [|cbn; repeat split].
  destruct (nget c (b_conns s)) as [k|] eqn:E; [|cbn; repeat split].
  cbn. repeat split.
Qed.

Lemma rr_q_add_room now e q :
  (length (q_l q) < q_max q)%nat ->
  q_add now e q = QOk (q_set (q_l q ++ [e]) (q_cur q) (q_drained q) q, [EvQueue 1]).
Proof.
  intros H. unfold q_add. destruct (q_max q <=? length (q_l q))%nat eqn:E; [|reflexivity].
  apply Nat.leb_le in E. lia.
Qed.

(* ================================================================== *)
(* 1. retain_update                                                    *)
(* ================================================================== *)

(* the retained store after a message: only RETAIN=1 touches it *)
Definition ret_after (m : msg) (d : rdb) : rdb := if m_retained m then rdb_step d (retain_op m) else d.

(* the flat view (topic -> message) after a message *)
Definition flat_after (m : msg) (sp : rspec) : rspec :=
  if m_retained m then match m_payload m with [] => adel (m_topic m) sp | _ => aset (m_topic m) m sp end else sp.

Lemma flat_after_step m sp : flat_after m sp = if m_retained m then rspec_step sp (retain_op m) else sp.
Proof. unfold flat_after, retain_op. destruct (m_retained m); [|reflexivity]. now destruct (m_payload m). Qed.

(* retain_update changes only b_ret *)
Lemma retain_update_set m s : retain_update m s = set_ret (ret_after m (b_ret s)) s.
Proof. unfold retain_update, ret_after. destruct (m_retained m); [reflexivity|]. destruct s; reflexivity. Qed.

Lemma ret_after_cases m d :
  (m_retained m = false -> ret_after m d = d) /\
  (m_retained m = true -> m_payload m <> [] -> ret_after m d = rdb_step d (RetTrie.RAdd m)) /\
  (m_retained m = true -> m_payload m = [] -> ret_after m d = rdb_step d (RetTrie.RRemove (m_topic m))).
Proof.
  unfold ret_after, retain_op. repeat split; intros H; rewrite H; [reflexivity| |].
  - intros Hp. destruct (m_payload m); [contradiction|reflexivity].
  - intros Hp. now rewrite Hp.
Qed.

(* the refinement relation of RetTrieP is kept, with the flat view updated at that one topic *)
Lemma R_ret_after m d sp : R d sp -> R (ret_after m d) (flat_after m sp).
Proof.
  intros H. rewrite flat_after_step. unfold ret_after. destruct (m_retained m); [|exact H]. now apply R_step.
Qed.

Lemma R_get d sp t : R d sp -> rdb_get t d = aget t sp.
Proof. intros (_ & _ & Hget). unfold rdb_get. rewrite r_find_msg_at. apply Hget. Qed.

Lemma aget_flat_after m sp t :
  NoDup (map fst sp) ->
  aget t (flat_after m sp) =
  if m_retained m && str_eqb t (m_topic m)
  then match m_payload m with [] => None | _ => Some m end
  else aget t sp.
Proof.
  intros Hnd. unfold flat_after. destruct (m_retained m); [|reflexivity]. cbn [andb].
  destruct (m_payload m).
  - now apply aget_adel.
  - apply aget_aset.
Qed.

(* lookups by filter, for every database related to a flat map (ret_matched_exact of RetTrieP
   is this statement for the databases `rdb_run ops`) *)
Lemma R_matched d sp f :
  R d sp -> valid_filter_spec f = true ->
  (forall m, In m (rdb_matched f d) <-> (aget (m_topic m) sp = Some m /\ topic_match (m_topic m) f = true)) /\
  NoDup (map m_topic (rdb_matched f d)).
Proof.
  intros HR Hv. unfold valid_filter_spec in Hv. apply andb_true_iff in Hv as [_ Hv].
  apply valid_filter_hash_last in Hv.
  pose proof HR as (Hinv & Hnd & Hget).
  unfold rdb_matched. rewrite (r_match_match' _ _ (split_nonempty f)), rdb_trie_of.
  destruct (Hinv (starts_dollar f)) as [Hwf Hp].
  split.
  - intros m. rewrite (in_match' (split f) _ Hwf Hv). split.
    + intros (p & Hm & Hl). destruct (Hp p m Hm) as [Hs Hb]. split.
      * exact (R_stored d sp _ p m HR Hm).
      * rewrite (topic_match_same_kind _ _ Hb), Hs. exact Hl.
    + intros [Ha Hm]. exists (split (m_topic m)).
      destruct (Bool.eqb (starts_dollar (m_topic m)) (starts_dollar f)) eqn:Eb.
      * apply eqb_prop in Eb. rewrite (topic_match_same_kind _ _ Eb) in Hm. split; [|exact Hm].
        rewrite <- Eb, <- rdb_trie_of, Hget. exact Ha.
      * exfalso. apply eqb_false_iff in Eb.
        destruct (starts_dollar (m_topic m)) eqn:E1, (starts_dollar f) eqn:E2; try congruence.
        -- rewrite (dollar_topic_plain_filter _ _ E1 E2) in Hm. discriminate.
        -- rewrite (plain_topic_dollar_filter _ _ E1 E2) in Hm. discriminate.
  - apply nodup_topics. apply (nodup_match' (split f) _ Hwf Hv). exact (R_keyed d sp _ HR).
Qed.

(* target 1 *)
Theorem retain_update_spec m s :
  let d := b_ret s in
  let d' := b_ret (retain_update m s) in
  (* only b_ret changes *)
  retain_update m s = set_ret d' s /\
  (* RETAIN=0: nothing; RETAIN=1: add-or-replace under the topic, or remove the topic *)
  (m_retained m = false -> d' = d) /\
  (m_retained m = true -> m_payload m <> [] -> d' = rdb_step d (RetTrie.RAdd m)) /\
  (m_retained m = true -> m_payload m = [] -> d' = rdb_step d (RetTrie.RRemove (m_topic m))) /\
  (* the flat view: that one topic updated *)
  (forall sp, R d sp ->
     R d' (flat_after m sp) /\
     forall t, rdb_get t d' =
               if m_retained m && str_eqb t (m_topic m)
               then match m_payload m with [] => None | _ => Some m end
               else rdb_get t d).
Proof.
  cbv zeta. rewrite retain_update_set. cbn [set_ret b_ret].
  destruct (ret_after_cases m (b_ret s)) as (H0 & H1 & H2).
  split; [reflexivity|]. split; [exact H0|]. split; [exact H1|]. split; [exact H2|].
  intros sp H. split.
  - now apply R_ret_after.
  - intros t. rewrite (R_get _ _ t (R_ret_after m _ _ H)), (R_get _ _ t H).
    apply aget_flat_after. now destruct H as (_ & Hnd & _).
Qed.

(* ================================================================== *)
(* 2. replay_retained: the contents of the replay                      *)
(* ================================================================== *)

(* the copy of a stored message queued for the subscription sb *)
Definition replay_copy (sb : sub) (m : msg) : msg :=
  let qos := if s_qos sb <? m_qos m then s_qos sb else m_qos m in
  if s_id sb =? 0 then with_qos_etc m qos [] (m_retained m && s_rap sb)
  else with_qos_etc (as_dup m) qos [s_id sb] (m_retained m && s_rap sb).

Definition replay_elem (sb : sub) (now tag : N) (m : msg) : elem :=
  {| e_tag := tag; e_at := now;
     e_expiry := if m_expiry m =? 0 then None else Some (now + m_expiry m * 1000);
     e_body := QPub (replay_copy sb m) |}.

Definition replay_step (cid : str) (sb : sub) (acc : st * list out) (m : msg) : st * list out :=
  let '(s0, o0) := acc in
  match aget cid (b_queues s0) with
  | None => (s0, o0)
  | Some q =>
      match q_add (b_now s0) (replay_elem sb (b_now s0) (b_tag s0) m) q with
      | QOk (q', evs) =>
          (release_dropped cid evs (set_picks_tag (b_picks s0) (b_tag s0 + 1) (set_queues (aset cid q' (b_queues s0)) s0)),
           o0 ++ drops_of cid evs)
      | _ => (s0, o0)
      end
  end.

Lemma replay_retained_unfold c k sb s :
  replay_retained c k sb s = fold_left (replay_step (k_cid k) sb) (rdb_matched (s_filter sb) (b_ret s)) (s, []).
Proof. reflexivity. Qed.

(* the fields of a replayed copy *)
Lemma replay_copy_qos sb m : m_qos (replay_copy sb m) = N.min (m_qos m) (s_qos sb).
Proof.
  unfold replay_copy. cbv zeta. destruct (s_id sb =? 0); cbn [with_qos_etc m_qos];
    destruct (s_qos sb <? m_qos m) eqn:E; lia.
Qed.
Lemma replay_copy_dup sb m : m_dup (replay_copy sb m) = false.
Proof. unfold replay_copy. cbv zeta. now destruct (s_id sb =? 0). Qed.
Lemma replay_copy_retained sb m : m_retained (replay_copy sb m) = m_retained m && s_rap sb.
Proof. unfold replay_copy. cbv zeta. now destruct (s_id sb =? 0). Qed.
Lemma replay_copy_subids sb m : m_subids (replay_copy sb m) = if s_id sb =? 0 then m_subids m else [s_id sb].
Proof.
  unfold replay_copy. cbv zeta. destruct (s_id sb =? 0); cbn [with_qos_etc as_dup m_subids]; [apply app_nil_r|reflexivity].
Qed.
Lemma replay_copy_rest sb m :
  m_topic (replay_copy sb m) = m_topic m /\ m_payload (replay_copy sb m) = m_payload m /\
  m_pid (replay_copy sb m) = m_pid m /\ m_ctype (replay_copy sb m) = m_ctype m /\
  m_corr (replay_copy sb m) = m_corr m /\ m_expiry (replay_copy sb m) = m_expiry m /\
  m_pfmt (replay_copy sb m) = m_pfmt m /\ m_resp (replay_copy sb m) = m_resp m /\
  m_uprops (replay_copy sb m) = m_uprops m.
Proof. unfold replay_copy. cbv zeta. destruct (s_id sb =? 0); repeat split. Qed.

(* the elements appended for a list of stored messages: consecutive ghost tags *)
Fixpoint replay_elems (sb : sub) (now tag : N) (msgs : list msg) : list elem :=
  match msgs with
  | [] => []
  | m :: r => replay_elem sb now tag m :: replay_elems sb now (tag + 1) r
  end.

Lemma replay_elems_bodies sb now msgs : forall tag,
  map e_body (replay_elems sb now tag msgs) = map (fun m => QPub (replay_copy sb m)) msgs.
Proof. induction msgs as [|m r IH]; intros tag; cbn [replay_elems map]; [reflexivity|]. now rewrite IH. Qed.

Lemma replay_elems_length sb now msgs : forall tag, length (replay_elems sb now tag msgs) = length msgs.
Proof. induction msgs as [|m r IH]; intros tag; cbn [replay_elems length]; [reflexivity|]. now rewrite IH. Qed.

Lemma replay_elems_nth sb now msgs : forall tag i m,
  nth_error msgs i = Some m -> nth_error (replay_elems sb now tag msgs) i = Some (replay_elem sb now (tag + N.of_nat i) m).
Proof.
  induction msgs as [|m0 r IH]; intros tag i m H; [destruct i; discriminate|].
  destruct i as [|i]; cbn [nth_error replay_elems] in *.
  - injection H as <-. now rewrite N.add_0_r.
  - rewrite (IH _ _ _ H). do 2 f_equal. lia.
Qed.

Definition q_extend (l : list elem) (q : queue) : queue := q_set (q_l q ++ l) (q_cur q) (q_drained q) q.

Lemma q_extend_nil q : q_extend [] q = q.
Proof. unfold q_extend, q_set. rewrite app_nil_r. destruct q; reflexivity. Qed.

Lemma q_extend_push e l q : q_extend l (q_set (q_l q ++ [e]) (q_cur q) (q_drained q) q) = q_extend (e :: l) q.
Proof. unfold q_extend, q_set. cbn. now rewrite <- app_assoc. Qed.

Lemma st_eta_tag_queues s : set_picks_tag (b_picks s) (b_tag s) (set_queues (b_queues s) s) = s.
Proof. destruct s; reflexivity. Qed.

(* room for all of them: every copy is appended, nothing is dropped, nothing else moves *)
Lemma replay_fold_room cid sb msgs : forall s o q,
  aget cid (b_queues s) = Some q -> (length (q_l q) + length msgs <= q_max q)%nat ->
  fold_left (replay_step cid sb) msgs (s, o) =
  (set_picks_tag (b_picks s) (b_tag s + N.of_nat (length msgs))
     (set_queues (aset cid (q_extend (replay_elems sb (b_now s) (b_tag s) msgs) q) (b_queues s)) s), o).
Proof.
  induction msgs as [|m r IH]; intros s o q Hq Hroom; cbn [fold_left length replay_elems].
  - rewrite q_extend_nil, (rr_aset_same _ _ _ Hq). cbn [N.of_nat]. rewrite N.add_0_r. now rewrite st_eta_tag_queues.
  - cbn [length] in Hroom. unfold replay_step at 2. rewrite Hq.
    rewrite rr_q_add_room by lia.
    rewrite rr_release_dropped_noop by (intros el [H|[]]; discriminate).
    cbn [drops_of flat_map]. rewrite app_nil_r.
    set (q1 := q_set (q_l q ++ [replay_elem sb (b_now s) (b_tag s) m]) (q_cur q) (q_drained q) q).
    set (s1 := set_picks_tag (b_picks s) (b_tag s + 1) (set_queues (aset cid q1 (b_queues s)) s)).
    assert (Hq1 : aget cid (b_queues s1) = Some q1) by (cbn; apply rr_aget_aset_same).
    rewrite (IH s1 o q1 Hq1) by (cbn; rewrite app_length; cbn; lia).
    f_equal. subst s1. unfold set_picks_tag, set_queues.
    cbn [b_cfg b_hooks b_now b_rt b_sessions b_online b_offline b_wills b_subs b_ret b_queues b_unacks b_conns
         b_picks b_tag b_auto b_npick].
    rewrite rr_aset_aset. subst q1. rewrite q_extend_push.
    replace (b_tag s + 1 + N.of_nat (length r)) with (b_tag s + N.of_nat (S (length r))) by lia.
    reflexivity.
Qed.

(* no queue (the session is gone): nothing happens *)
Lemma replay_fold_noqueue cid sb msgs : forall s o,
  aget cid (b_queues s) = None -> fold_left (replay_step cid sb) msgs (s, o) = (s, o).
Proof.
  induction msgs as [|m r IH]; intros s o Hq; cbn [fold_left]; [reflexivity|].
  unfold replay_step at 2. rewrite Hq. now apply IH.
Qed.

(* the boolean no-drop condition: the session queue can take one more element per stored match *)
Definition replay_room (k : conn) (sb : sub) (s : st) : bool :=
  match aget (k_cid k) (b_queues s) with
  | Some q => (length (q_l q) + length (rdb_matched (s_filter sb) (b_ret s)) <=? q_max q)%nat
  | None => false
  end.

Lemma replay_retained_room c k sb s q :
  aget (k_cid k) (b_queues s) = Some q -> replay_room k sb s = true ->
  let msgs := rdb_matched (s_filter sb) (b_ret s) in
  replay_retained c k sb s =
  (set_picks_tag (b_picks s) (b_tag s + N.of_nat (length msgs))
     (set_queues (aset (k_cid k) (q_extend (replay_elems sb (b_now s) (b_tag s) msgs) q) (b_queues s)) s), []).
Proof.
  intros Hq Hr. cbv zeta. unfold replay_room in Hr. rewrite Hq in Hr. apply Nat.leb_le in Hr.
  rewrite replay_retained_unfold. now apply replay_fold_room.
Qed.

Lemma replay_retained_noqueue c k sb s :
  aget (k_cid k) (b_queues s) = None -> replay_retained c k sb s = (s, []).
Proof. intros Hq. rewrite replay_retained_unfold. now apply replay_fold_noqueue. Qed.

(* target 4 *)
Theorem replay_contents c k sb s q :
  aget (k_cid k) (b_queues s) = Some q -> replay_room k sb s = true ->
  let cid := k_cid k in
  let msgs := rdb_matched (s_filter sb) (b_ret s) in
  let s' := fst (replay_retained c k sb s) in
  exists els,
    (* one element per stored match, in the order of the lookup, appended to the client's queue *)
    aget cid (b_queues s') = Some (q_extend els q) /\
    map e_body els = map (fun m => QPub (replay_copy sb m)) msgs /\
    (forall i m, nth_error msgs i = Some m ->
       nth_error els i = Some (replay_elem sb (b_now s) (b_tag s + N.of_nat i) m)) /\
    (* nothing is dropped, nothing is written *)
    snd (replay_retained c k sb s) = [] /\
    (* nothing else changes *)
    (forall c', c' <> cid -> aget c' (b_queues s') = aget c' (b_queues s)) /\
    b_subs s' = b_subs s /\ b_ret s' = b_ret s /\ b_sessions s' = b_sessions s /\ b_online s' = b_online s /\
    b_offline s' = b_offline s /\ b_wills s' = b_wills s /\ b_unacks s' = b_unacks s /\ b_conns s' = b_conns s /\
    b_cfg s' = b_cfg s /\ b_hooks s' = b_hooks s /\ b_now s' = b_now s /\ b_rt s' = b_rt s /\
    b_picks s' = b_picks s /\ b_auto s' = b_auto s /\ b_npick s' = b_npick s /\
    b_tag s' = b_tag s + N.of_nat (length msgs).
Proof.
  intros Hq Hr. cbv zeta. rewrite (replay_retained_room c k sb s q Hq Hr). cbn [fst snd].
  exists (replay_elems sb (b_now s) (b_tag s) (rdb_matched (s_filter sb) (b_ret s))).
  split; [cbn; apply rr_aget_aset_same|].
  split; [apply replay_elems_bodies|].
  split; [intros i m; apply replay_elems_nth|].
  split; [reflexivity|].
  split; [intros c' Hc; cbn; now apply rr_aget_aset_other|].
  cbn. repeat split.
Qed.

(* with the store theorem: the replayed messages are exactly the kept messages whose topic matches the
   filter, each once *)
Theorem replay_exact c k sb s q sp :
  aget (k_cid k) (b_queues s) = Some q -> replay_room k sb s = true ->
  R (b_ret s) sp -> valid_filter_spec (s_filter sb) = true ->
  exists msgs,
    aget (k_cid k) (b_queues (fst (replay_retained c k sb s))) =
      Some (q_extend (replay_elems sb (b_now s) (b_tag s) msgs) q) /\
    (forall m, In m msgs <-> (aget (m_topic m) sp = Some m /\ topic_match (m_topic m) (s_filter sb) = true)) /\
    NoDup (map m_topic msgs).
Proof.
  intros Hq Hr HR Hv. exists (rdb_matched (s_filter sb) (b_ret s)).
  rewrite (replay_retained_room c k sb s q Hq Hr). cbn [fst].
  split; [cbn; apply rr_aget_aset_same|]. now apply R_matched.
Qed.

(* ================================================================== *)
(* 3. the RETAIN flag of replayed and of live copies                   *)
(* ================================================================== *)

(* what every reachable retained store satisfies (section 7): it is related to a flat map, and every
   kept message was stored by a RETAIN=1 publication *)
Definition ret_inv (d : rdb) : Prop :=
  exists sp, R d sp /\ forall t m, aget t sp = Some m -> m_retained m = true.

Lemma ret_inv_init : ret_inv rdb_init.
Proof. exists []. split; [exact R_init|]. intros t m H. discriminate. Qed.

Lemma ret_inv_after m d : ret_inv d -> ret_inv (ret_after m d).
Proof.
  intros (sp & HR & Hall). exists (flat_after m sp). split; [now apply R_ret_after|].
  intros t m' H. rewrite aget_flat_after in H by (now destruct HR as (_ & Hnd & _)).
  destruct (m_retained m) eqn:Em; cbn [andb] in H; [|now apply (Hall t)].
  destruct (str_eqb t (m_topic m)); [|now apply (Hall t)].
  destruct (m_payload m); [discriminate|]. injection H as <-. exact Em.
Qed.

Lemma ret_inv_matched d f m :
  ret_inv d -> valid_filter_spec f = true -> In m (rdb_matched f d) -> m_retained m = true.
Proof.
  intros (sp & HR & Hall) Hv Hin. destruct (R_matched d sp f HR Hv) as [Hm _].
  apply Hm in Hin as [Ha _]. exact (Hall _ _ Ha).
Qed.

Lemma replay_elems_forall (P : elem -> Prop) sb now msgs :
  (forall tag m, In m msgs -> P (replay_elem sb now tag m)) ->
  forall tag, Forall P (replay_elems sb now tag msgs).
Proof.
  induction msgs as [|m r IH]; intros H tag; cbn [replay_elems]; constructor.
  - apply H. now left.
  - apply IH. intros tag' m' Hin. apply H. now right.
Qed.

(* target 5, the true statement: every replayed copy carries RETAIN exactly when the subscription has
   Retain-As-Published; so RETAIN=1 under Retain-As-Published, RETAIN=0 without it *)
Theorem replay_retain_flag c k sb s q :
  aget (k_cid k) (b_queues s) = Some q -> replay_room k sb s = true ->
  ret_inv (b_ret s) -> valid_filter_spec (s_filter sb) = true ->
  exists els,
    aget (k_cid k) (b_queues (fst (replay_retained c k sb s))) = Some (q_extend els q) /\
    length els = length (rdb_matched (s_filter sb) (b_ret s)) /\
    Forall (fun e => exists m', e_body e = QPub m' /\ m_retained m' = s_rap sb) els.
Proof.
  intros Hq Hr Hinv Hv. rewrite (replay_retained_room c k sb s q Hq Hr). cbn [fst].
  exists (replay_elems sb (b_now s) (b_tag s) (rdb_matched (s_filter sb) (b_ret s))).
  split; [cbn; apply rr_aget_aset_same|]. split; [apply replay_elems_length|].
  apply replay_elems_forall. intros tag m Hin. exists (replay_copy sb m). split; [reflexivity|].
  rewrite replay_copy_retained, (ret_inv_matched _ _ _ Hinv Hv Hin). reflexivity.
Qed.

Corollary replay_retain_flag_partial c k sb s q :
  aget (k_cid k) (b_queues s) = Some q -> replay_room k sb s = true ->
  ret_inv (b_ret s) -> valid_filter_spec (s_filter sb) = true ->
  s_rap sb = true ->
  exists els,
    aget (k_cid k) (b_queues (fst (replay_retained c k sb s))) = Some (q_extend els q) /\
    length els = length (rdb_matched (s_filter sb) (b_ret s)) /\
    Forall (fun e => exists m', e_body e = QPub m' /\ m_retained m' = true) els.
Proof.
  intros Hq Hr Hinv Hv Hrap. destruct (replay_retain_flag c k sb s q Hq Hr Hinv Hv) as (els & H1 & H2 & H3).
  exists els. rewrite Hrap in H3. now repeat split.
Qed.

(* ---- live forwarding: add_to_queue ---- *)

(* the copy queued for the subscription sb of a message that is being published *)
Definition live_copy (m : msg) (sb : sub) (ids : list N) : msg :=
  with_qos_etc m (if s_qos sb <? m_qos m then s_qos sb else m_qos m)
               (filter (fun i => negb (i =? 0)) ids) (m_retained m && s_rap sb).

Lemma live_copy_retained m sb ids :
  m_retained (live_copy m sb ids) = true <-> (m_retained m = true /\ s_rap sb = true).
Proof. cbn [live_copy with_qos_etc m_retained]. apply andb_true_iff. Qed.

(* whatever add_to_queue does, the element it offers to the session queue is the live copy *)
Lemma add_to_queue_offers cid m sb ids s :
  add_to_queue cid m sb ids s = (s, []) \/
  exists q e q' evs,
    aget cid (b_queues s) = Some q /\ e_body e = QPub (live_copy m sb ids) /\
    q_add (b_now s) e q = QOk (q', evs) /\
    add_to_queue cid m sb ids s =
      (release_dropped cid evs (set_picks_tag (b_picks s) (b_tag s + 1) (set_queues (aset cid q' (b_queues s)) s)),
       drops_of cid evs).
Proof.
  unfold add_to_queue. destruct (aget cid (b_queues s)) as [q|] eqn:Hq; [|now left].
  destruct (negb (c_queue_qos0 (b_cfg s)) && negb (ahas cid (b_online s)) && (m_qos m =? 0)); [now left|].
  cbv zeta.
  match goal with |- context [q_add ?n ?e q] => destruct (q_add n e q) as [[q' evs]| | |] eqn:Ea; [|now left..];
    right; exists q, e, q', evs end.
  split; [reflexivity|]. split; [reflexivity|]. split; [exact Ea|reflexivity].
Qed.

(* target 6 *)
Theorem live_retain_flag cid m sb ids s q :
  aget cid (b_queues s) = Some q ->
  negb (c_queue_qos0 (b_cfg s)) && negb (ahas cid (b_online s)) && (m_qos m =? 0) = false ->
  (length (q_l q) < q_max q)%nat ->
  exists e,
    aget cid (b_queues (fst (add_to_queue cid m sb ids s))) = Some (q_extend [e] q) /\
    snd (add_to_queue cid m sb ids s) = [] /\
    e_body e = QPub (live_copy m sb ids) /\
    (m_retained (live_copy m sb ids) = true <-> (m_retained m = true /\ s_rap sb = true)).
Proof.
  intros Hq Hskip Hroom. unfold add_to_queue. rewrite Hq, Hskip. cbv zeta.
  rewrite rr_q_add_room by exact Hroom.
  rewrite rr_release_dropped_noop by (intros el [H|[]]; discriminate).
  eexists. cbn [fst snd]. split; [cbn; apply rr_aget_aset_same|].
  split; [reflexivity|]. split; [reflexivity|]. apply live_copy_retained.
Qed.

(* ================================================================== *)
(* 4. the gate of the replay in handle_subscribe                       *)
(* ================================================================== *)

Definition sub_subid (k : conn) (props : list prop) : N :=
  if (k_v k =? 5) && k_subid k then match p_subids props with i :: _ => i | [] => 0 end else 0.

Definition sub_action_of (k : conn) (t : topic_req) (s : st) : sub_action :=
  opt_or (match find (fun e => str_eqb (fst (fst e)) (k_cid k) && str_eqb (snd (fst e)) (tq_name t)) (h_sub (b_hooks s)) with
          | Some e => Some (snd e) | None => None end) SAccept.

(* the subscription made for the entry t of a SUBSCRIBE listing `topics` *)
Definition entry_sub (k : conn) (subid : N) (topics : list topic_req) (t : topic_req) (s : st) : sub :=
  let sb0 := sub_of_req (last_with_name (tq_name t) topics t) subid in
  match sub_action_of k t s with
  | SQos q => {| s_share := s_share sb0; s_filter := s_filter sb0; s_id := s_id sb0; s_qos := q;
                 s_nl := s_nl sb0; s_rap := s_rap sb0; s_rh := s_rh sb0 |}
  | _ => sb0
  end.

(* the reason code of the entry *)
Definition entry_code (k : conn) (subid : N) (topics : list topic_req) (t : topic_req) (s : st) : N :=
  let v5 := k_v k =? 5 in
  let sb := entry_sub k subid topics t s in
  let shared := negb (is_empty (s_share sb)) in
  let code := s_qos sb in
  let code := if v5 && shared && negb (k_shared k) then 158 else code in
  let code := if v5 && negb (k_subid k) && negb (subid =? 0) then 161 else code in
  let code := if v5 && negb (k_wildcard k) && has_wildcard (s_filter sb) then 162 else code in
  match sub_action_of k t s with SReject cd => if v5 then cd else 128 | _ => code end.

(* the gate: is the retained replay done for a granted entry *)
Definition replay_gate (shared existed : bool) (rh : N) : bool :=
  negb shared && ((negb existed && negb (rh =? 2)) || (rh =? 0)).

Lemma replay_gate_spec shared existed rh :
  replay_gate shared existed rh = true <->
  (shared = false /\ ((existed = false /\ rh <> 2) \/ rh = 0)).
Proof.
  unfold replay_gate.
  rewrite andb_true_iff, orb_true_iff, andb_true_iff, !negb_true_iff, N.eqb_neq, N.eqb_eq. reflexivity.
Qed.

(* one entry of the SUBSCRIBE *)
Definition sub_entry_step (c : N) (k : conn) (subid : N) (topics : list topic_req)
                          (acc : st * list out * list N) (t : topic_req) : st * list out * list N :=
  let '(s0, o0, cs) := acc in
  let sb := entry_sub k subid topics t s0 in
  let code := entry_code k subid topics t s0 in
  if code <? 128 then
    let '(d', existed) := db_subscribe (k_cid k) sb (b_subs s0) in
    let s1 := set_subs d' s0 in
    let '(s2, o2) := if replay_gate (negb (is_empty (s_share sb))) existed (tq_rh t)
                     then replay_retained c k sb s1 else (s1, []) in
    (s2, o0 ++ o2, cs ++ [code])
  else (s0, o0, cs ++ [code]).

(* handle_subscribe is the fold of the entry steps (by computation) *)
Lemma handle_subscribe_unfold c k pid props topics s :
  handle_subscribe c k pid props topics s =
  let v5 := k_v k =? 5 in
  let subid := sub_subid k props in
  if v5 && negb (c_subid (b_cfg s)) && negb (subid =? 0) then HErr s [] (Some 161)
  else
    match h_sub_all (b_hooks s) with
    | Some code => HOk s [OSend c (KSuback pid (map (fun _ => if v5 then code else 128) topics) [])]
    | None =>
        let '(s', o, codes) := fold_left (sub_entry_step c k subid topics) topics (s, [], []) in
        HOk s' (o ++ [OSend c (KSuback pid codes [])])
    end.
Proof. reflexivity. Qed.

(* target 3: the entry step, case by case *)
Theorem replay_gate_entry c k subid topics s0 o0 cs t :
  let sb := entry_sub k subid topics t s0 in
  let code := entry_code k subid topics t s0 in
  let shared := negb (is_empty (s_share sb)) in
  let d' := fst (db_subscribe (k_cid k) sb (b_subs s0)) in
  let existed := snd (db_subscribe (k_cid k) sb (b_subs s0)) in
  (* refused: no subscription, no replay *)
  (128 <= code -> sub_entry_step c k subid topics (s0, o0, cs) t = (s0, o0, cs ++ [code])) /\
  (* granted, gate open: subscribed, then the replay *)
  (code < 128 -> replay_gate shared existed (tq_rh t) = true ->
     sub_entry_step c k subid topics (s0, o0, cs) t =
       (fst (replay_retained c k sb (set_subs d' s0)), o0 ++ snd (replay_retained c k sb (set_subs d' s0)), cs ++ [code])) /\
  (* granted, gate closed: subscribed, nothing else *)
  (code < 128 -> replay_gate shared existed (tq_rh t) = false ->
     sub_entry_step c k subid topics (s0, o0, cs) t = (set_subs d' s0, o0, cs ++ [code])) /\
  (* the gate *)
  (replay_gate shared existed (tq_rh t) = true <->
     (shared = false /\ ((existed = false /\ tq_rh t <> 2) \/ tq_rh t = 0))).
Proof.
  cbv zeta. unfold sub_entry_step.
  destruct (db_subscribe (k_cid k) (entry_sub k subid topics t s0) (b_subs s0)) as [d' existed].
  cbn [fst snd]. split; [|split; [|split]].
  - intros H. destruct (entry_code k subid topics t s0 <? 128) eqn:E; [lia|reflexivity].
  - intros H Hg. destruct (entry_code k subid topics t s0 <? 128) eqn:E; [|lia]. rewrite Hg.
    now destruct (replay_retained c k (entry_sub k subid topics t s0) (set_subs d' s0)).
  - intros H Hg. destruct (entry_code k subid topics t s0 <? 128) eqn:E; [|lia]. rewrite Hg.
    now rewrite app_nil_r.
  - apply replay_gate_spec.
Qed.

(* the clauses of the property, on the gate *)
Corollary replay_gate_clauses shared existed rh :
  (* never for a shared subscription *)
  (shared = true -> replay_gate shared existed rh = false) /\
  (* Retain Handling 0 (all a v3 client can ask for): always *)
  (shared = false -> rh = 0 -> replay_gate shared existed rh = true) /\
  (* Retain Handling 1: only if the subscription is new *)
  (shared = false -> rh = 1 -> replay_gate shared existed rh = negb existed) /\
  (* Retain Handling 2: never *)
  (rh = 2 -> replay_gate shared existed rh = false).
Proof.
  unfold replay_gate. repeat split.
  - now intros ->.
  - intros -> ->. cbn. now rewrite orb_true_r.
  - intros -> ->. cbn. now rewrite orb_false_r, andb_true_r.
  - intros ->. cbn. now rewrite andb_false_r, andb_false_r.
Qed.

(* a SUBSCRIBE with one entry, no subscribe hooks: the whole handler *)
Lemma last_with_name_single t : last_with_name (tq_name t) [t] t = t.
Proof. cbn. now destruct (str_eqb (tq_name t) (tq_name t)). Qed.

Theorem subscribe_single c k pid props t s :
  let v5 := k_v k =? 5 in
  let subid := sub_subid k props in
  let sb := entry_sub k subid [t] t s in
  let code := entry_code k subid [t] t s in
  let shared := negb (is_empty (s_share sb)) in
  let d' := fst (db_subscribe (k_cid k) sb (b_subs s)) in
  let existed := snd (db_subscribe (k_cid k) sb (b_subs s)) in
  v5 && negb (c_subid (b_cfg s)) && negb (subid =? 0) = false ->
  h_sub_all (b_hooks s) = None ->
  code < 128 ->
  handle_subscribe c k pid props [t] s =
  if replay_gate shared existed (tq_rh t)
  then HOk (fst (replay_retained c k sb (set_subs d' s)))
           (snd (replay_retained c k sb (set_subs d' s)) ++ [OSend c (KSuback pid [code] [])])
  else HOk (set_subs d' s) [OSend c (KSuback pid [code] [])].
Proof.
  cbv zeta. intros H1 H2 Hc. rewrite handle_subscribe_unfold. cbv zeta. rewrite H1, H2. cbn [fold_left].
  pose proof (replay_gate_entry c k (sub_subid k props) [t] s [] [] t) as G. cbv zeta in G.
  destruct G as (_ & Gopen & Gclosed & _).
  destruct (replay_gate _ _ (tq_rh t)) eqn:Eg.
  - rewrite (Gopen Hc eq_refl). reflexivity.
  - rewrite (Gclosed Hc eq_refl). reflexivity.
Qed.

(* ================================================================== *)
(* 5. deliver does not touch the retained store                        *)
(* ================================================================== *)

Lemma add_to_queue_ret cid m sb ids s : b_ret (fst (add_to_queue cid m sb ids s)) = b_ret s.
Proof.
  destruct (add_to_queue_offers cid m sb ids s) as [E|(q & e & q' & evs & _ & _ & _ & E)]; rewrite E; [reflexivity|].
  cbn [fst]. pose proof (rr_release_dropped_frame cid evs
    (set_picks_tag (b_picks s) (b_tag s + 1) (set_queues (aset cid q' (b_queues s)) s))) as F.
  cbv zeta in F. destruct F as (_&_&_&_&_&_&_&_&_&F&_). rewrite F. reflexivity.
Qed.

Lemma take_pick_ret n s : b_ret (snd (take_pick n s)) = b_ret s.
Proof. unfold take_pick. now destruct (b_picks s). Qed.

Lemma fold_ret {A} (f : st * list out -> A -> st * list out) (l : list A) :
  (forall acc a, b_ret (fst (f acc a)) = b_ret (fst acc)) ->
  forall acc, b_ret (fst (fold_left f l acc)) = b_ret (fst acc).
Proof.
  intros H. induction l as [|a r IH]; intros acc; cbn [fold_left]; [reflexivity|]. now rewrite IH, H.
Qed.

Definition plain_step (m : msg) (acc : st * list out) (e : cid * sub) : st * list out :=
  let '(s0, o0) := acc in
  let '(s', o') := add_to_queue (fst e) m (snd e) [s_id (snd e)] s0 in (s', o0 ++ o').

Definition shared_step (m : msg) (acc : st * list out) (g : str * list (cid * sub)) : st * list out :=
  let '(s0, o0) := acc in
  let members := snd g in
  let '(i, s0') := match members with [_] => (0%nat, s0) | _ => take_pick (length members) s0 end in
  match nth_error members i with
  | Some (c, s_) => let '(s', o') := add_to_queue c m s_ [s_id s_] s0' in (s', o0 ++ o')
  | None => (s0', o0)
  end.

Definition once_step (m : msg) (acc : st * list out) (g : str * list sub) : st * list out :=
  let '(s0, o0) := acc in
  let subs := snd g in
  let best := filter (fun x => s_qos x =? max_qos_of subs) subs in
  let '(i, s0') := match best with [_] => (0%nat, s0) | _ => take_pick (length best) s0 end in
  match nth_error best i with
  | Some s_ => let '(s', o') := add_to_queue (fst g) m s_ (map s_id subs) s0' in (s', o0 ++ o')
  | None => (s0', o0)
  end.

Lemma pick_ret {A} (l : list A) (s0 : st) :
  b_ret (snd (match l with [_] => (0%nat, s0) | _ => take_pick (length l) s0 end)) = b_ret s0.
Proof. destruct l as [|x [|y r]]; try apply take_pick_ret. reflexivity. Qed.

Lemma plain_step_ret m acc e : b_ret (fst (plain_step m acc e)) = b_ret (fst acc).
Proof.
  destruct acc as [s0 o0]. unfold plain_step. cbn [fst].
  pose proof (add_to_queue_ret (fst e) m (snd e) [s_id (snd e)] s0) as H.
  destruct (add_to_queue (fst e) m (snd e) [s_id (snd e)] s0). exact H.
Qed.

Lemma shared_step_ret m acc g : b_ret (fst (shared_step m acc g)) = b_ret (fst acc).
Proof.
  destruct acc as [s0 o0]. unfold shared_step. cbv zeta. cbn [fst].
  pose proof (pick_ret (snd g) s0) as HP.
  destruct (match snd g with [_] => (0%nat, s0) | _ => take_pick (length (snd g)) s0 end) as [i s0'].
  cbn [snd] in HP. destruct (nth_error (snd g) i) as [[c' sb']|]; [|exact HP].
  pose proof (add_to_queue_ret c' m sb' [s_id sb'] s0') as H.
  destruct (add_to_queue c' m sb' [s_id sb'] s0'). cbn [fst] in *. congruence.
Qed.

Lemma once_step_ret m acc g : b_ret (fst (once_step m acc g)) = b_ret (fst acc).
Proof.
  destruct acc as [s0 o0]. unfold once_step. cbv zeta. cbn [fst].
  set (best := filter (fun x => s_qos x =? max_qos_of (snd g)) (snd g)).
  pose proof (pick_ret best s0) as HP.
  destruct (match best with [_] => (0%nat, s0) | _ => take_pick (length best) s0 end) as [i s0'].
  cbn [snd] in HP. destruct (nth_error best i) as [sb'|]; [|exact HP].
  pose proof (add_to_queue_ret (fst g) m sb' (map s_id (snd g)) s0') as H.
  destruct (add_to_queue (fst g) m sb' (map s_id (snd g)) s0'). cbn [fst] in *. congruence.
Qed.

Lemma rr_let_pair {A B C} (X : A * B) (f : A -> B -> C) : (let '(a, b) := X in f a b) = f (fst X) (snd X).
Proof. destruct X; reflexivity. Qed.

(* the three phases of deliver: overlapping copies, one member per shared group, one copy per client *)
Lemma deliver_phases src m s : exists l1 l2 l3 b,
  deliver src m s =
  let r1 := if c_onlyonce (b_cfg s) then (s, []) else fold_left (plain_step m) l1 (s, []) in
  let r2 := fold_left (shared_step m) l2 r1 in
  let r3 := if c_onlyonce (b_cfg s) then fold_left (once_step m) l3 r2 else r2 in
  (fst r3, snd r3, b).
Proof.
  do 4 eexists. unfold deliver. cbn zeta.
  destruct (c_onlyonce (b_cfg s)); rewrite !rr_let_pair; rewrite <- !surjective_pairing; reflexivity.
Qed.

Lemma deliver_ret src m s : b_ret (fst (fst (deliver src m s))) = b_ret s.
Proof.
  destruct (deliver_phases src m s) as (l1 & l2 & l3 & b & E). rewrite E. cbv zeta. cbn [fst].
  destruct (c_onlyonce (b_cfg s)).
  - now rewrite (fold_ret _ _ (once_step_ret m)), (fold_ret _ _ (shared_step_ret m)).
  - now rewrite (fold_ret _ _ (shared_step_ret m)), (fold_ret _ _ (plain_step_ret m)).
Qed.

(* ================================================================== *)
(* 6. an accepted PUBLISH applies retain_update, a refused one nothing  *)
(* ================================================================== *)

Definition hres_st (r : hres) : st := match r with HOk s _ => s | HErr s _ _ => s | HErrRead s _ => s end.

(* the stages of handle_publish, cut out of its text; handle_publish_stages shows that their
   composition IS handle_publish (by computation) *)
Definition rp_alias (v5 : bool) (k : conn) (topic : str) (props : list prop) (m0 : msg) : option (conn * msg) + N :=
  match (if v5 then p_alias props else None) with
  | None => inl (Some (k, m0))
  | Some a =>
      if (a =? 0) || (k_server_alias_max k <? a) then inr 148
      else
        match topic with
        | [] => match nget a (k_alias_in k) with
                | Some name => match name with [] => inr 148 | _ => inl (Some (k, with_topic name m0)) end
                | None => inr 148
                end
        | _ => inl (Some (set_alias_in (nset a topic (k_alias_in k)) k, m0))
        end
  end.

Definition rp_mark (c : N) (k : conn) (v5 : bool) (qos pid : N) (s : st) : st * bool :=
  if qos =? 2 then
    let u := opt_or (aget (k_cid k) (b_unacks s)) [] in
    let '(u', ex) := unack_set pid u in
    let s := set_unacks (aset (k_cid k) u' (b_unacks s)) s in
    let s := if ex && v5 then
               match nget c (b_conns s) with
               | Some k1 => if k_quota k1 <? k_recv_max k1 then upd_conn c (set_quota (k_quota k1 + 1) k1) s else s
               | None => s
               end
             else s in
    (s, ex)
  else (s, false).

Definition rp_action (m : msg) (s : st) : msg_action :=
  if h_msg_on (b_hooks s) then opt_or (aget (m_topic m) (h_msg (b_hooks s))) MAccept else MAccept.

Definition rp_fwd (k : conn) (m : msg) (isdup : bool) (s : st) : st * list out * bool * option N :=
  if isdup then (s, [], false, None)
  else
    match rp_action m s with
    | MReject code => (s, [], false, Some code)
    | MDrop => (s, [], false, None)
    | MAccept => let '(s', o, mt) := deliver (k_cid k) m (retain_update m s) in (s', o, mt, None)
    | MRewrite t p q => let m' := rewrite_msg t p q m in
                        let '(s', o, mt) := deliver (k_cid k) m' (retain_update m' s) in (s', o, mt, None)
    end.

Definition rp_finish (c : N) (k : conn) (v5 : bool) (qos pid : N) (r : st * list out * bool * option N) : hres :=
  let '(s, o, matched, err) := r in
  let code := if v5 then match err with Some cd => cd | None => if matched then 0 else 16 end else 0 in
  let s := if (qos =? 2) && (128 <=? code)
           then set_unacks (aset (k_cid k) (unack_remove pid (opt_or (aget (k_cid k) (b_unacks s)) [])) (b_unacks s)) s
           else s in
  let ack := if qos =? 1 then [OSend c (KPuback pid code [])]
             else if qos =? 2 then [OSend c (KPubrec pid code [])] else [] in
  let s := match nget c (b_conns s) with
           | Some k1 =>
               if v5 && ((qos =? 1) || ((qos =? 2) && (128 <=? code))) && (k_quota k1 <? k_recv_max k1)
               then upd_conn c (set_quota (k_quota k1 + 1) k1) s else s
           | None => s
           end in
  HOk s (o ++ ack).

Lemma handle_publish_stages c k dup qos retain topic payload pid props s :
  handle_publish c k dup qos retain topic payload pid props s =
  let v5 := k_v k =? 5 in
  if negb (k_retain_avail k) && retain then HErr s [] (Some 154)
  else
    match rp_alias v5 k topic props (msg_of_publish v5 dup qos retain topic payload pid props) with
    | inr code => HErr s [] (Some code)
    | inl None => HErr s [] None
    | inl (Some (k', m)) =>
        let '(s1, isdup) := rp_mark c k' v5 qos pid (upd_conn c k' s) in
        rp_finish c k' v5 qos pid (rp_fwd k' m isdup s1)
    end.
Proof. reflexivity. Qed.

(* is this QoS 2 PUBLISH a retransmission: its packet id is in the client's unack set *)
Definition rp_isdup (k : conn) (qos pid : N) (s : st) : bool :=
  if qos =? 2 then snd (unack_set pid (opt_or (aget (k_cid k) (b_unacks s)) [])) else false.

Lemma rp_mark_spec c k v5 qos pid s :
  snd (rp_mark c k v5 qos pid s) = rp_isdup k qos pid s /\
  b_ret (fst (rp_mark c k v5 qos pid s)) = b_ret s /\
  b_hooks (fst (rp_mark c k v5 qos pid s)) = b_hooks s.
Proof.
  unfold rp_mark, rp_isdup. destruct (qos =? 2); [|now repeat split]. cbv zeta.
  destruct (unack_set pid (opt_or (aget (k_cid k) (b_unacks s)) [])) as [u' ex]. cbn [fst snd].
  split; [reflexivity|].
  destruct (ex && v5); [|now split].
  match goal with |- context [nget c ?l] => destruct (nget c l) as [k1|] end; [|now split].
  destruct (k_quota k1 <? k_recv_max k1); now split.
Qed.

Lemma rp_finish_ret c k v5 qos pid s o mt err :
  b_ret (hres_st (rp_finish c k v5 qos pid (s, o, mt, err))) = b_ret s.
Proof.
  unfold rp_finish. cbv zeta. cbn [hres_st].
  match goal with |- context [nget c (b_conns ?S)] => set (s4 := S) end.
  assert (H4 : b_ret s4 = b_ret s).
  { subst s4. match goal with |- context [if ?b then set_unacks _ _ else _] => destruct b end; reflexivity. }
  destruct (nget c (b_conns s4)) as [k1|]; [|exact H4].
  match goal with |- context [if ?b then upd_conn _ _ _ else _] => destruct b end; exact H4.
Qed.

(* what the PUBLISH does to the retained store: nothing, or retain_update of this message *)
Inductive pub_verdict := PubRefused | PubStored (m : msg).

Definition pub_verdict_of (k : conn) (dup : bool) (qos : N) (retain : bool) (topic payload : str) (pid : N)
                          (props : list prop) (s : st) : pub_verdict :=
  let v5 := k_v k =? 5 in
  if negb (k_retain_avail k) && retain then PubRefused        (* 0x9A: retain not supported *)
  else
    match rp_alias v5 k topic props (msg_of_publish v5 dup qos retain topic payload pid props) with
    | inl (Some (k', m)) =>
        if rp_isdup k' qos pid s then PubRefused                (* a QoS 2 retransmission: acknowledged, not forwarded *)
        else match rp_action m s with
             | MAccept => PubStored m
             | MRewrite t p q => PubStored (rewrite_msg t p q m)
             | MReject _ | MDrop => PubRefused
             end
    | _ => PubRefused                                           (* topic alias errors *)
    end.

Lemma rp_fwd_ret k m isdup s :
  b_ret (fst (fst (fst (rp_fwd k m isdup s)))) =
  if isdup then b_ret s
  else match rp_action m s with
       | MAccept => ret_after m (b_ret s)
       | MRewrite t p q => ret_after (rewrite_msg t p q m) (b_ret s)
       | _ => b_ret s
       end.
Proof.
  unfold rp_fwd. destruct isdup; [reflexivity|]. destruct (rp_action m s) as [|code| |t p q]; try reflexivity.
  - pose proof (deliver_ret (k_cid k) m (retain_update m s)) as H.
    destruct (deliver (k_cid k) m (retain_update m s)) as [[s' o] mt]. cbn [fst] in *.
    now rewrite H, retain_update_set.
  - cbv zeta. pose proof (deliver_ret (k_cid k) (rewrite_msg t p q m) (retain_update (rewrite_msg t p q m) s)) as H.
    destruct (deliver (k_cid k) (rewrite_msg t p q m) (retain_update (rewrite_msg t p q m) s)) as [[s' o] mt].
    cbn [fst] in *. now rewrite H, retain_update_set.
Qed.

(* target 2 *)
Theorem publish_updates_retained c k dup qos retain topic payload pid props s :
  b_ret (hres_st (handle_publish c k dup qos retain topic payload pid props s)) =
  match pub_verdict_of k dup qos retain topic payload pid props s with
  | PubRefused => b_ret s
  | PubStored m => b_ret (retain_update m s)
  end.
Proof.
  rewrite handle_publish_stages. unfold pub_verdict_of. cbv zeta.
  destruct (negb (k_retain_avail k) && retain); [reflexivity|].
  destruct (rp_alias _ k topic props _) as [[[k' m]|]|code]; try reflexivity.
  destruct (rp_mark_spec c k' (k_v k =? 5) qos pid (upd_conn c k' s)) as (Hd & Hr & Hh).
  destruct (rp_mark c k' (k_v k =? 5) qos pid (upd_conn c k' s)) as [s1 isdup]. cbn [fst snd] in *.
  change (rp_isdup k' qos pid (upd_conn c k' s)) with (rp_isdup k' qos pid s) in Hd.
  pose proof (rp_fwd_ret k' m isdup s1) as Hf.
  destruct (rp_fwd k' m isdup s1) as [[[s2 o] mt] err]. cbn [fst] in Hf.
  rewrite rp_finish_ret, Hf, <- Hd.
  destruct isdup; [exact Hr|].
  assert (Ha : rp_action m s1 = rp_action m s) by (unfold rp_action; now rewrite Hh).
  rewrite Ha, Hr. cbn [upd_conn b_ret].
  destruct (rp_action m s); try reflexivity; now rewrite retain_update_set.
Qed.

(* the readable forms *)
Corollary publish_accepted_updates c k dup qos retain topic payload pid props s k' m :
  let v5 := k_v k =? 5 in
  negb (k_retain_avail k) && retain = false ->
  rp_alias v5 k topic props (msg_of_publish v5 dup qos retain topic payload pid props) = inl (Some (k', m)) ->
  rp_isdup k' qos pid s = false ->
  (h_msg_on (b_hooks s) = false \/ rp_action m s = MAccept) ->
  b_ret (hres_st (handle_publish c k dup qos retain topic payload pid props s)) = b_ret (retain_update m s).
Proof.
  cbv zeta. intros H1 H2 H3 H4. rewrite publish_updates_retained. unfold pub_verdict_of. cbv zeta.
  rewrite H1, H2, H3.
  assert (Ha : rp_action m s = MAccept).
  { destruct H4 as [H4|H4]; [|exact H4]. unfold rp_action. now rewrite H4. }
  now rewrite Ha.
Qed.

Corollary publish_rewritten_updates c k dup qos retain topic payload pid props s k' m t p q :
  let v5 := k_v k =? 5 in
  negb (k_retain_avail k) && retain = false ->
  rp_alias v5 k topic props (msg_of_publish v5 dup qos retain topic payload pid props) = inl (Some (k', m)) ->
  rp_isdup k' qos pid s = false ->
  rp_action m s = MRewrite t p q ->
  b_ret (hres_st (handle_publish c k dup qos retain topic payload pid props s)) =
    b_ret (retain_update (rewrite_msg t p q m) s).
Proof.
  cbv zeta. intros H1 H2 H3 H4. rewrite publish_updates_retained. unfold pub_verdict_of. cbv zeta.
  now rewrite H1, H2, H3, H4.
Qed.

Corollary publish_refused_keeps c k dup qos retain topic payload pid props s :
  let v5 := k_v k =? 5 in
  (negb (k_retain_avail k) && retain = true \/
   (forall k' m, rp_alias v5 k topic props (msg_of_publish v5 dup qos retain topic payload pid props) <> inl (Some (k', m))) \/
   (exists k' m, rp_alias v5 k topic props (msg_of_publish v5 dup qos retain topic payload pid props) = inl (Some (k', m)) /\
                 (rp_isdup k' qos pid s = true \/ (exists code, rp_action m s = MReject code) \/ rp_action m s = MDrop))) ->
  b_ret (hres_st (handle_publish c k dup qos retain topic payload pid props s)) = b_ret s.
Proof.
  cbv zeta. intros H. rewrite publish_updates_retained. unfold pub_verdict_of. cbv zeta.
  destruct (negb (k_retain_avail k) && retain); [reflexivity|].
  destruct H as [H|[H|(k' & m & H & H')]]; [discriminate| |].
  - destruct (rp_alias _ k topic props _) as [[[k' m]|]|code]; try reflexivity. now destruct (H k' m).
  - rewrite H. destruct (rp_isdup k' qos pid s); [reflexivity|].
    destruct H' as [H'|[(code & H')|H']]; [discriminate| |]; now rewrite H'.
Qed.

(* without the alias property (every v3 publish) the message is the packet's *)
Lemma rp_alias_none (v5 : bool) k topic props m0 :
  (if v5 then p_alias props else @None N) = None -> rp_alias v5 k topic props m0 = inl (Some (k, m0)).
Proof. unfold rp_alias. now intros ->. Qed.

(* ================================================================== *)
(* 7. every step moves the retained store by retain_update only         *)
(* ================================================================== *)

(* d' is d after a sequence of RETAIN=1 publications *)
Definition ret_trace (d d' : rdb) : Prop :=
  exists msgs, Forall (fun m => m_retained m = true) msgs /\ d' = fold_left rdb_step (map retain_op msgs) d.

Lemma ret_trace_refl d : ret_trace d d.
Proof. exists []. split; [constructor|reflexivity]. Qed.

Lemma ret_trace_trans a b c : ret_trace a b -> ret_trace b c -> ret_trace a c.
Proof.
  intros (l1 & F1 & E1) (l2 & F2 & E2). exists (l1 ++ l2). split; [now apply Forall_app|].
  now rewrite map_app, fold_left_app, <- E1.
Qed.

Lemma ret_trace_after m d : ret_trace d (ret_after m d).
Proof.
  unfold ret_after. destruct (m_retained m) eqn:E; [|apply ret_trace_refl].
  exists [m]. split; [now constructor|reflexivity].
Qed.

Definition rt (s s' : st) : Prop := ret_trace (b_ret s) (b_ret s').

Lemma rt_eq s s' : b_ret s' = b_ret s -> rt s s'.
Proof. unfold rt. intros ->. apply ret_trace_refl. Qed.

Lemma rt_trans a b c : rt a b -> rt b c -> rt a c.
Proof. apply ret_trace_trans. Qed.

Lemma rt_eq_l s s0 s' : b_ret s0 = b_ret s -> rt s0 s' -> rt s s'.
Proof. unfold rt. now intros ->. Qed.

Lemma fold_rt {A} (f : st * list out -> A -> st * list out) (l : list A) :
  (forall acc a, rt (fst acc) (fst (f acc a))) ->
  forall acc, rt (fst acc) (fst (fold_left f l acc)).
Proof.
  intros H. induction l as [|a r IH]; intros acc; cbn [fold_left]; [now apply rt_eq|].
  eapply rt_trans; [apply H|apply IH].
Qed.

Lemma deliver_after_update_rt src m s : rt s (fst (fst (deliver src m (retain_update m s)))).
Proof.
  unfold rt. rewrite deliver_ret, retain_update_set. cbn [set_ret b_ret]. apply ret_trace_after.
Qed.

Lemma send_will_rt cid m s : rt s (fst (send_will cid m s)).
Proof.
  unfold send_will. destruct (will_action cid s) as [|code| |t p q]; try (now apply rt_eq).
  - pose proof (deliver_after_update_rt cid m s) as H.
    destruct (deliver cid m (retain_update m s)) as [[s' o] mt]. exact H.
  - cbv zeta. pose proof (deliver_after_update_rt cid (with_topic_payload_qos t p q m) s) as H.
    destruct (deliver cid (with_topic_payload_qos t p q m) (retain_update (with_topic_payload_qos t p q m) s)) as [[s' o] mt].
    exact H.
Qed.

Lemma release_will_rt cid s : rt s (fst (release_will cid s)).
Proof.
  unfold release_will. destruct (aget cid (b_wills s)) as [[w at_]|]; [|now apply rt_eq].
  eapply rt_eq_l; [|apply send_will_rt]. reflexivity.
Qed.

Lemma remove_session_ret cid s : b_ret (remove_session cid s) = b_ret s.
Proof. reflexivity. Qed.

Lemma unregister_rt c k s : rt s (fst (unregister c k s)).
Proof.
  unfold unregister. destruct (aget (k_cid k) (b_sessions s)) as [se|]; [|now apply rt_eq].
  cbv zeta.
  destruct (se_will se) as [w|]; [destruct (k_clean_will k)|].
  2: match goal with |- context [if ?b then (?a, ?o) else send_will ?x ?y ?z] => destruct b end.
  1,2,4: (cbv beta iota; match goal with |- context [if ?b then _ else _] => destruct b end; now apply rt_eq).
  pose proof (send_will_rt (k_cid k) w s) as H. destruct (send_will (k_cid k) w s) as [s1 o1]. cbn [fst] in H.
  match goal with |- context [if ?b then _ else _] => destruct b end; cbn [fst];
    (eapply rt_trans; [exact H|now apply rt_eq]).
Qed.

Lemma conn_gone_rt c s : rt s (fst (conn_gone c s)).
Proof.
  unfold conn_gone. destruct (nget c (b_conns s)) as [k|]; [|now apply rt_eq].
  destruct (k_phase k); try (now apply rt_eq).
  - cbv zeta.
    match goal with |- context [unregister c ?K ?S] => pose proof (unregister_rt c K S) as H;
      destruct (unregister c K S) as [s' o'] end.
    cbn [fst] in *. eapply rt_eq_l; [|exact H]. destruct (aget (k_cid k) (b_queues s)); reflexivity.
  - cbv zeta.
    match goal with |- context [unregister c ?K ?S] => pose proof (unregister_rt c K S) as H;
      destruct (unregister c K S) as [s' o'] end.
    cbn [fst] in *. eapply rt_eq_l; [|exact H]. destruct (aget (k_cid k) (b_queues s)); reflexivity.
Qed.

Lemma fail_conn_rt c code by_reader s : rt s (fst (fail_conn c code by_reader s)).
Proof.
  unfold fail_conn. destruct (nget c (b_conns s)) as [k|]; [|now apply rt_eq].
  destruct (k_phase k); try (now apply rt_eq). cbv zeta.
  match goal with |- context [if ?b then _ else _] => destruct b end; [|now apply rt_eq].
  pose proof (conn_gone_rt c s) as H. destruct (conn_gone c s) as [s' o]. exact H.
Qed.

Lemma rr_let_triple {A B C D} (X : A * B * C) (f : A -> B -> C -> D) :
  (let '(a, b, c) := X in f a b c) = f (fst (fst X)) (snd (fst X)) (snd X).
Proof. destruct X as [[a b] c]; reflexivity. Qed.

Lemma handle_connect_rt c cn s : rt s (fst (handle_connect c cn s)).
Proof.
  unfold handle_connect. cbv zeta.
  destruct (negb (c_allow_zero_len (b_cfg s)) && is_empty (cn_cid cn)); [now apply rt_eq|].
  match goal with |- context [if negb (?code =? 0) then _ else _] => destruct (negb (code =? 0)) end; [now apply rt_eq|].
  set (cid := if is_empty (cn_cid cn) then AUTO_PREFIX ++ dec_str (b_auto s + 1) else cn_cid cn).
  set (sa := if is_empty (cn_cid cn) then set_auto (b_auto s + 1) s else s).
  assert (Hsa : b_ret sa = b_ret s) by (subst sa; now destruct (is_empty (cn_cid cn))).
  set (X := match aget cid (b_online sa) with Some oldc => conn_gone oldc sa | None => (sa, []) end).
  assert (HX : rt s (fst X)).
  { subst X. destruct (aget cid (b_online sa)) as [oldc|]; [|now apply rt_eq].
    eapply rt_eq_l; [exact Hsa|apply conn_gone_rt]. }
  destruct X as [s1 o_dup]. cbn [fst] in HX.
  rewrite rr_let_triple.
  match goal with |- context [snd (fst ?Y)] => set (Y2 := Y) end.
  assert (HY : b_ret (fst (fst Y2)) = b_ret s1).
  { subst Y2. destruct (aget cid (b_sessions s1)) as [se|]; [|reflexivity].
    match goal with |- context [if ?b then _ else _] => destruct b end.
    - destruct (aget cid (b_queues s1)); [|reflexivity]. destruct (aget cid (b_unacks s1)); reflexivity.
    - destruct (aget cid (b_wills (remove_session cid s1))) as [[w at_]|]; reflexivity. }
  destruct Y2 as [[s2 o_will] resume]. cbn [fst snd] in *.
  rewrite rr_let_pair.
  match goal with |- context [fold_left ?f o_will (?S, [])] =>
    pose proof (fold_rt f o_will) as HF; specialize (HF (fun acc cw => ltac:(
      destruct acc as [s0 o0]; cbn [fst];
      pose proof (send_will_rt (fst cw) (snd cw) s0) as H;
      destruct (send_will (fst cw) (snd cw) s0); exact H)) (S, []));
    destruct (fold_left f o_will (S, [])) as [s4 o_w] end.
  cbn [fst] in *. eapply rt_trans; [exact HX|]. eapply rt_eq_l; [|exact HF].
  rewrite <- HY. destruct resume; reflexivity.
Qed.

(* the poll loops *)
Lemma poll_once_ret c s s' o : poll_once c s = Some (s', o) -> b_ret s' = b_ret s.
Proof.
  unfold poll_once. destruct (nget c (b_conns s)) as [k|]; [|discriminate].
  destruct (k_phase k); try discriminate.
  all: destruct (aget (k_cid k) (b_queues s)) as [q|]; [|discriminate].
  all: destruct (negb (k_drained k)).
  all: try (destruct (q_read_inflight (b_now s) (N.to_nat (k_max_inflight k)) q) as [q' rs];
            destruct rs as [|r0 rs];
            [intros H; injection H as <- _; reflexivity|];
            match goal with |- context [fold_left ?f ?l ?a] => destruct (fold_left f l a) as [k' o'] end;
            intros H; injection H as <- _; reflexivity).
  all: destruct (k_held k) as [ids|].
  all: try (destruct (q_read (b_now s) ids q) as [[[q' rs] evs]| | |]; try discriminate;
            match goal with |- context [fold_left ?f ?l ?a] => destruct (fold_left f l a) as [k' o'] end;
            intros H; injection H as <- _; reflexivity).
  all: match goal with |- context [lim_poll ?m ?l] => destruct (lim_poll m l) as [l' [| | |ids]] end;
    try discriminate; intros H; injection H as <- _; reflexivity.
Qed.

Lemma poll_conn_ret fuel c : forall s, b_ret (fst (poll_conn fuel c s)) = b_ret s.
Proof.
  induction fuel as [|f IH]; intros s; cbn [poll_conn]; [reflexivity|].
  destruct (poll_once c s) as [[s' o]|] eqn:E; [|reflexivity].
  pose proof (IH s') as H. destruct (poll_conn f c s') as [s'' o']. cbn [fst] in *.
  rewrite H. exact (poll_once_ret c s s' o E).
Qed.

Lemma poll_all_ret s : b_ret (fst (poll_all s)) = b_ret s.
Proof.
  unfold poll_all. rewrite fold_ret; [reflexivity|].
  intros [s0 o0] ck. cbn [fst]. pose proof (poll_conn_ret 400 (fst ck) s0) as H.
  destruct (poll_conn 400 (fst ck) s0). exact H.
Qed.

(* the replay, in every case (drops included), and the SUBSCRIBE / UNSUBSCRIBE handlers *)
Lemma replay_step_ret cid sb acc m : b_ret (fst (replay_step cid sb acc m)) = b_ret (fst acc).
Proof.
  destruct acc as [s0 o0]. unfold replay_step. cbn [fst].
  destruct (aget cid (b_queues s0)) as [q|]; [|reflexivity].
  destruct (q_add _ _ q) as [[q' evs]| | |]; try reflexivity. cbn [fst].
  pose proof (rr_release_dropped_frame cid evs
    (set_picks_tag (b_picks s0) (b_tag s0 + 1) (set_queues (aset cid q' (b_queues s0)) s0))) as F.
  cbv zeta in F. destruct F as (_&_&_&_&_&_&_&_&_&F&_). rewrite F. reflexivity.
Qed.

Lemma replay_retained_ret c k sb s : b_ret (fst (replay_retained c k sb s)) = b_ret s.
Proof. rewrite replay_retained_unfold. now rewrite (fold_ret _ _ (replay_step_ret (k_cid k) sb)). Qed.

Lemma sub_entry_step_ret c k subid topics acc t :
  b_ret (fst (fst (sub_entry_step c k subid topics acc t))) = b_ret (fst (fst acc)).
Proof.
  destruct acc as [[s0 o0] cs]. unfold sub_entry_step. cbv zeta. cbn [fst].
  destruct (entry_code k subid topics t s0 <? 128); [|reflexivity].
  destruct (db_subscribe (k_cid k) (entry_sub k subid topics t s0) (b_subs s0)) as [d' existed].
  destruct (replay_gate _ existed (tq_rh t)); [|reflexivity].
  pose proof (replay_retained_ret c k (entry_sub k subid topics t s0) (set_subs d' s0)) as H.
  destruct (replay_retained c k (entry_sub k subid topics t s0) (set_subs d' s0)). exact H.
Qed.

Lemma handle_subscribe_ret c k pid props topics s : b_ret (hres_st (handle_subscribe c k pid props topics s)) = b_ret s.
Proof.
  rewrite handle_subscribe_unfold. cbv zeta.
  match goal with |- context [if ?b then HErr s [] (Some 161) else _] => destruct b end; [reflexivity|].
  destruct (h_sub_all (b_hooks s)); [reflexivity|].
  assert (H : forall l acc, b_ret (fst (fst (fold_left (sub_entry_step c k (sub_subid k props) topics) l acc))) = b_ret (fst (fst acc))).
  { induction l as [|t r IH]; intros acc; cbn [fold_left]; [reflexivity|]. now rewrite IH, sub_entry_step_ret. }
  specialize (H topics (s, [], [])).
  destruct (fold_left (sub_entry_step c k (sub_subid k props) topics) topics (s, [], [])) as [[s' o] codes]. exact H.
Qed.

Lemma queue_op_ret cid f s : b_ret (queue_op cid f s) = b_ret s.
Proof. unfold queue_op. now destruct (aget cid (b_queues s)). Qed.

Lemma release_id_ret c pid s : b_ret (release_id c pid s) = b_ret s.
Proof. unfold release_id. now destruct (nget c (b_conns s)). Qed.

(* one packet on a connected socket: the store moves only by the PUBLISH rule *)
Lemma publish_rt c k dup qos retain topic payload pid props s :
  rt s (hres_st (handle_publish c k dup qos retain topic payload pid props s)).
Proof.
  unfold rt. rewrite publish_updates_retained.
  destruct (pub_verdict_of k dup qos retain topic payload pid props s) as [|m]; [apply ret_trace_refl|].
  rewrite retain_update_set. cbn [set_ret b_ret]. apply ret_trace_after.
Qed.

Lemma handle_packet_rt c k p s : rt s (hres_st (handle_packet c k p s)).
Proof.
  unfold handle_packet. destruct p; try (now apply rt_eq).
  - (* PUBLISH *)
    destruct (has_wild topic); [now apply rt_eq|].
    match goal with |- context [if ?b then HErrRead s (Some 148) else _] => destruct b end; [now apply rt_eq|].
    match goal with |- context [if ?b then HErrRead s (Some 130) else _] => destruct b end; [now apply rt_eq|].
    match goal with |- context [if ?b then HErrRead s (Some 147) else _] => destruct b end; [now apply rt_eq|].
    cbv zeta. eapply rt_eq_l; [|apply publish_rt]. reflexivity.
  - (* PUBACK *) apply rt_eq. cbn [hres_st]. now rewrite release_id_ret, queue_op_ret.
  - (* PUBREC *)
    match goal with |- context [if ?b then _ else _] => destruct b end; apply rt_eq; cbn [hres_st].
    + now rewrite release_id_ret, queue_op_ret.
    + cbv zeta. now rewrite queue_op_ret.
  - (* PUBREL *)
    apply rt_eq. cbv zeta. cbn [hres_st].
    match goal with |- context [nget c ?l] => destruct (nget c l) as [k1|] end; [|reflexivity].
    match goal with |- context [if ?b then _ else _] => destruct b end; reflexivity.
  - (* PUBCOMP *) apply rt_eq. cbn [hres_st]. now rewrite release_id_ret, queue_op_ret.
  - (* SUBSCRIBE *)
    match goal with |- context [if ?b then _ else _] => destruct b end; [|now apply rt_eq].
    apply rt_eq. apply handle_subscribe_ret.
  - (* DISCONNECT *)
    destruct (k_v k =? 5); [|now apply rt_eq]. cbv zeta.
    destruct (aget (k_cid k) (b_sessions s)) as [se|]; [|now apply rt_eq].
    match goal with |- context [if ?b then HErr s [] None else _] => destruct b end; [now apply rt_eq|].
    apply rt_eq. cbn [hres_st upd_conn b_ret]. destruct (p_sei props) as [x|]; [|reflexivity].
    now destruct (x =? 0).
Qed.

Lemma handle_packet_sz_rt c k p n s : rt s (hres_st (handle_packet_sz c k p n s)).
Proof.
  unfold handle_packet_sz. destruct (too_big k n s); [|apply handle_packet_rt].
  destruct p; try (now apply rt_eq).
  - destruct (has_wild topic); [now apply rt_eq|].
    match goal with |- context [if ?b then HErrRead s (Some 148) else _] => destruct b end; [now apply rt_eq|].
    match goal with |- context [if ?b then HErrRead s (Some 130) else _] => destruct b end; [now apply rt_eq|].
    match goal with |- context [if ?b then HErrRead s (Some 147) else _] => destruct b end; now apply rt_eq.
  - match goal with |- context [if ?b then _ else _] => destruct b end; now apply rt_eq.
Qed.

Lemma send_unconnected_rt c k p s : rt s (fst (send_unconnected c k p s)).
Proof.
  unfold send_unconnected. destruct (k_phase k); try (now apply rt_eq).
  - destruct p; try (now apply rt_eq).
    match goal with |- context [if ?b then _ else (s, [])] => destruct b end; [|now apply rt_eq].
    destruct (k_quota k =? 0); [apply conn_gone_rt|now apply rt_eq].
  - destruct p; try (now apply rt_eq).
    match goal with |- context [if ?b then _ else (s, [])] => destruct b end; [apply conn_gone_rt|now apply rt_eq].
Qed.

Lemma hres_dispatch_rt c s (r : hres) :
  rt s (hres_st r) ->
  rt s (fst (match r with
             | HOk s' o => (s', o)
             | HErr s' o code => let '(s'', o') := fail_conn c code false s' in (s'', o ++ o')
             | HErrRead s' code => fail_conn c code true s'
             end)).
Proof.
  destruct r as [s' o|s' o code|s' code]; cbn [hres_st]; intros H; [exact H| |].
  - pose proof (fail_conn_rt c code false s') as F. destruct (fail_conn c code false s'). cbn [fst] in *.
    eapply rt_trans; [exact H|exact F].
  - eapply rt_trans; [exact H|apply fail_conn_rt].
Qed.

Lemma fire_wills_rt s : rt s (fst (fire_wills s)).
Proof.
  unfold fire_wills. apply (fold_rt _ (b_wills s)).
  intros [s0 o0] [cid [m at_]]. cbn [fst].
  destruct (at_ <=? b_rt s0); [|now apply rt_eq].
  destruct (aget cid (b_wills s0)); [|now apply rt_eq].
  match goal with |- context [send_will cid m ?S] => pose proof (send_will_rt cid m S) as H; destruct (send_will cid m S) end.
  cbn [fst] in *. eapply rt_eq_l; [|exact H]. reflexivity.
Qed.

Lemma step_event_rt s e : rt s (fst (step_event s e)).
Proof.
  destruct e; cbn [step_event].
  - (* EConnect *)
    pose proof (conn_gone_rt c s) as H0. destruct (conn_gone c s) as [s0 o0].
    pose proof (handle_connect_rt c cn s0) as H1. destruct (handle_connect c cn s0) as [s1 o1].
    cbn [fst] in *. eapply rt_trans; eassumption.
  - (* EOpen *)
    pose proof (conn_gone_rt c s) as H0. destruct (conn_gone c s) as [s0 o0]. cbn [fst] in *.
    eapply rt_trans; [exact H0|now apply rt_eq].
  - (* ESend *)
    destruct (nget c (b_conns s)) as [k|]; [|now apply rt_eq].
    destruct (k_phase k); try apply send_unconnected_rt.
    apply hres_dispatch_rt. apply handle_packet_rt.
  - (* ESendSz *)
    destruct (nget c (b_conns s)) as [k|]; [|now apply rt_eq].
    destruct (k_phase k); try apply send_unconnected_rt.
    apply hres_dispatch_rt. apply handle_packet_sz_rt.
  - (* EClose *)
    pose proof (conn_gone_rt c s) as H0. destruct (conn_gone c s) as [s0 o0]. exact H0.
  - (* EApiPublish *)
    pose proof (deliver_ret [] m s) as H. destruct (deliver [] m s) as [[s' o] mt]. cbn [fst] in *. now apply rt_eq.
  - (* ETerminate *)
    destruct (aget cid (b_online s)) as [c|].
    + destruct (nget c (b_conns s)) as [k|]; [|now apply rt_eq].
      eapply rt_eq_l; [|apply conn_gone_rt]. reflexivity.
    + destruct (ahas cid (b_offline s)); [|now apply rt_eq].
      eapply rt_eq_l; [|apply release_will_rt]. reflexivity.
  - (* EAdvance *) now apply rt_eq.
  - (* EExpireCheck *)
    match goal with |- context [fold_left ?f ?l (?S, [])] =>
      eapply (rt_eq_l s S); [|apply (fold_rt f l)] end.
    + set (l := filter _ (b_offline s)). clearbody l. revert s. induction l as [|cd r IH]; intros s; cbn [fold_left]; [reflexivity|].
      now rewrite IH.
    + intros [s0 o0] cd. cbn [fst]. pose proof (release_will_rt (fst cd) s0) as H.
      destruct (release_will (fst cd) s0). exact H.
  - (* ESleep *)
    cbv zeta.
    match goal with |- context [fold_left ?f ?l (?S, [])] =>
      pose proof (fold_rt f l) as HF; specialize (HF (fun acc ck => ltac:(
        destruct acc as [sa oa]; cbn [fst];
        destruct (k_phase (snd ck)); try (now apply rt_eq);
        (match goal with |- context [if ?b then _ else (sa, oa)] => destruct b end; [|now apply rt_eq]);
        pose proof (conn_gone_rt (fst ck) sa) as H; destruct (conn_gone (fst ck) sa); exact H)) (S, []));
      destruct (fold_left f l (S, [])) as [s1 o1] end.
    pose proof (fire_wills_rt s1) as H2. destruct (fire_wills s1) as [s2 o2]. cbn [fst] in *.
    eapply rt_trans; [|exact H2]. eapply rt_eq_l; [|exact HF]. reflexivity.
  - (* EInspect *) now apply rt_eq.
Qed.

Lemma step_rt s e : rt s (fst (step s e)).
Proof.
  unfold step. pose proof (step_event_rt s e) as H1. destruct (step_event s e) as [s1 o1].
  pose proof (poll_all_ret s1) as H2. destruct (poll_all s1) as [s2 o2]. cbn [fst] in *.
  eapply rt_trans; [exact H1|now apply rt_eq].
Qed.

Lemma run_rt es : forall s, rt s (fst (run s es)).
Proof.
  induction es as [|e r IH]; intros s; cbn [run]; [now apply rt_eq|].
  pose proof (step_rt s e) as H1. destruct (step s e) as [s' o].
  pose proof (IH s') as H2. destruct (run s' r) as [s'' os]. cbn [fst] in *.
  eapply rt_trans; eassumption.
Qed.

(* the retained store of every reachable state is the store after the RETAIN=1 publications made so far:
   with C07_last_value / C07_lookup (Props/C07.v) it holds, per topic, exactly the last of them with a
   non-empty payload, and lookups by filter return exactly those *)
Theorem reachable_ret_history cf h picks es :
  exists msgs, Forall (fun m => m_retained m = true) msgs /\
               b_ret (fst (run (st_init cf h picks) es)) = rdb_run (map retain_op msgs).
Proof.
  destruct (run_rt es (st_init cf h picks)) as (msgs & F & E). exists msgs. split; [exact F|exact E].
Qed.

Lemma ret_trace_inv d d' : ret_trace d d' -> ret_inv d -> ret_inv d'.
Proof.
  intros (msgs & F & ->). revert d. induction F as [|m r Hm F IH]; intros d H; cbn [map fold_left]; [exact H|].
  apply IH. pose proof (ret_inv_after m d H) as H'. unfold ret_after in H'. now rewrite Hm in H'.
Qed.

Theorem ret_inv_run cf h picks es : ret_inv (b_ret (fst (run (st_init cf h picks) es))).
Proof. apply (ret_trace_inv rdb_init); [apply (run_rt es (st_init cf h picks))|apply ret_inv_init]. Qed.

Theorem ret_inv_step s e : ret_inv (b_ret s) -> ret_inv (b_ret (fst (step s e))).
Proof. apply ret_trace_inv. apply step_rt. Qed.

(* ================================================================== *)
(* 8. the replay in a reachable state, against the publication history  *)
(* ================================================================== *)

(* In every reachable state there is a history `hist` of RETAIN=1 publications such that a replay with room
   appends exactly one copy per topic that matches the filter and whose last publication in `hist` has a
   non-empty payload - the copy of that last publication. *)
Theorem replay_exact_reachable cf h picks es c k sb q :
  let s := fst (run (st_init cf h picks) es) in
  aget (k_cid k) (b_queues s) = Some q -> replay_room k sb s = true ->
  valid_filter_spec (s_filter sb) = true ->
  exists hist msgs,
    Forall (fun m => m_retained m = true) hist /\
    aget (k_cid k) (b_queues (fst (replay_retained c k sb s))) =
      Some (q_extend (replay_elems sb (b_now s) (b_tag s) msgs) q) /\
    (forall m, In m msgs <->
               (last_retained (m_topic m) hist None = Some m /\ topic_match (m_topic m) (s_filter sb) = true)) /\
    NoDup (map m_topic msgs).
Proof.
  cbv zeta. intros Hq Hr Hv.
  destruct (reachable_ret_history cf h picks es) as (hist & F & E).
  set (s := fst (run (st_init cf h picks) es)) in *.
  assert (HR : R (b_ret s) (rspec_run (map retain_op hist))) by (rewrite E; apply R_run).
  destruct (replay_exact c k sb s q _ Hq Hr HR Hv) as (msgs & H1 & H2 & H3).
  exists hist, msgs. split; [exact F|]. split; [exact H1|]. split; [|exact H3].
  intros m. rewrite H2, ret_last_value. reflexivity.
Qed.

(* ================================================================== *)
(* 9. concrete scenarios (non-vacuity, refutation witnesses)            *)
(* ================================================================== *)

Definition ex_cfg : cfg :=
  {| c_onlyonce := false; c_max_inflight := 10; c_max_queued := 10; c_queue_qos0 := true;
     c_session_expiry := 100; c_message_expiry := 0; c_recv_max := 10; c_alias_max := 0; c_max_packet := 1000;
     c_max_qos := 2; c_retain_avail := true; c_wildcard := true; c_subid := true; c_shared := true;
     c_max_keepalive := 60; c_allow_zero_len := true; c_inflight_expiry := 0 |}.

Definition ex_cn (v : N) (cid : str) : connect :=
  {| cn_ver := v; cn_cid := cid; cn_clean := true; cn_keepalive := 0; cn_user := None; cn_pass := None;
     cn_will := None; cn_props := [] |}.

(* a SUBSCRIBE entry for QoS 1 *)
Definition ex_tq (name : str) (rap : bool) (rh : N) : topic_req :=
  {| tq_name := name; tq_qos := 1; tq_nl := false; tq_rap := rap; tq_rh := rh |}.

(* "x" published to "t" with RETAIN=1, QoS 1 *)
Definition ex_pub : pkt := KPublish false 1 true [116] [120] 7 [].
Definition ex_m : msg := msg_of_publish false false 1 true [116] [120] 7 [].

(* publisher "p" (v3.1.1) on socket 1 has published ex_pub; subscriber "b" (v5) is connected on socket 2 *)
Definition ex_s0 : st := fst (run (st_init ex_cfg no_hooks []) [EConnect 1 (ex_cn 4 [112])]).
Definition ex_s1 : st := fst (run ex_s0 [ESend 1 ex_pub; EConnect 2 (ex_cn 5 [98])]).
Definition ex_k1 : conn := opt_or (nget 1 (b_conns ex_s0)) (fresh_conn [] 0).
Definition ex_k2 : conn := opt_or (nget 2 (b_conns ex_s1)) (fresh_conn [] 0).
Definition ex_q2 : queue := opt_or (aget [98] (b_queues ex_s1)) (q_new 0 0).
Definition ex_sb (rap : bool) : sub := sub_of_req (ex_tq [116] rap 0) 0.
(* "$share/g/t" *)
Definition ex_shared_name : str := [36; 115; 104; 97; 114; 101; 47; 103; 47; 116].

Lemma replay_copy_fields sb m :
  m_qos (replay_copy sb m) = N.min (m_qos m) (s_qos sb) /\
  m_dup (replay_copy sb m) = false /\
  m_retained (replay_copy sb m) = m_retained m && s_rap sb /\
  m_subids (replay_copy sb m) = (if s_id sb =? 0 then m_subids m else [s_id sb]) /\
  m_topic (replay_copy sb m) = m_topic m /\ m_payload (replay_copy sb m) = m_payload m /\
  m_pid (replay_copy sb m) = m_pid m /\ m_ctype (replay_copy sb m) = m_ctype m /\
  m_corr (replay_copy sb m) = m_corr m /\ m_expiry (replay_copy sb m) = m_expiry m /\
  m_pfmt (replay_copy sb m) = m_pfmt m /\ m_resp (replay_copy sb m) = m_resp m /\
  m_uprops (replay_copy sb m) = m_uprops m.
Proof.
  split; [apply replay_copy_qos|]. split; [apply replay_copy_dup|]. split; [apply replay_copy_retained|].
  split; [apply replay_copy_subids|]. apply replay_copy_rest.
Qed.

Lemma ex_s1_reachable :
  ex_s1 = fst (run (st_init ex_cfg no_hooks []) [EConnect 1 (ex_cn 4 [112]); ESend 1 ex_pub; EConnect 2 (ex_cn 5 [98])]).
Proof. vm_compute. reflexivity. Qed.

Lemma ex_s1_ret_inv : ret_inv (b_ret ex_s1).
Proof. rewrite ex_s1_reachable. apply ret_inv_run. Qed.

Lemma ex_s0_R : R (b_ret ex_s0) [].
Proof. assert (E : b_ret ex_s0 = rdb_init) by (vm_compute; reflexivity). rewrite E. exact R_init. Qed.

(* the hypotheses of the replay theorems hold of "b" subscribing to "t" in ex_s1, with one stored match *)
Lemma ex_replay_hyps rap :
  aget (k_cid ex_k2) (b_queues ex_s1) = Some ex_q2 /\ replay_room ex_k2 (ex_sb rap) ex_s1 = true /\
  ret_inv (b_ret ex_s1) /\ valid_filter_spec (s_filter (ex_sb rap)) = true /\ s_rap (ex_sb rap) = rap /\
  length (rdb_matched (s_filter (ex_sb rap)) (b_ret ex_s1)) = 1%nat.
Proof.
  split; [vm_compute; reflexivity|]. split; [destruct rap; vm_compute; reflexivity|].
  split; [exact ex_s1_ret_inv|]. split; [destruct rap; vm_compute; reflexivity|].
  split; [destruct rap; reflexivity|]. destruct rap; vm_compute; reflexivity.
Qed.

(* target 5, the refutation: "every replayed copy carries RETAIN=1" is false of the model (and of the code:
   known finding kf_retained_replay_rap0) - a subscription without Retain-As-Published gets RETAIN=0 *)
Theorem replay_retain_flag_refuted :
  ~ (forall c k sb s q,
       aget (k_cid k) (b_queues s) = Some q -> replay_room k sb s = true ->
       ret_inv (b_ret s) -> valid_filter_spec (s_filter sb) = true ->
       forall q', aget (k_cid k) (b_queues (fst (replay_retained c k sb s))) = Some q' ->
       Forall (fun e => match e_body e with QPub m' => m_retained m' = true | QRel _ => True end)
              (skipn (length (q_l q)) (q_l q'))).
Proof.
  intros H. destruct (ex_replay_hyps false) as (H1 & H2 & H3 & H4 & _).
  pose (q' := opt_or (aget (k_cid ex_k2) (b_queues (fst (replay_retained 2 ex_k2 (ex_sb false) ex_s1)))) ex_q2).
  assert (E : aget (k_cid ex_k2) (b_queues (fst (replay_retained 2 ex_k2 (ex_sb false) ex_s1))) = Some q')
    by (vm_compute; reflexivity).
  specialize (H 2 ex_k2 (ex_sb false) ex_s1 ex_q2 H1 H2 H3 H4 q' E).
  vm_compute in H. inversion H as [|x l Hx Hl]. discriminate Hx.
Qed.
