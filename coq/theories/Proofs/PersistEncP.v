(* Lemmas about Model/PersistEnc.v: every reader reads back what its writer wrote and stops there;
   DecodeMessage (EncodeMessage m) = m, Elem.Decode (Elem.Encode e) = e (up to the ghost tag),
   DecodeSubscription (EncodeSubscription s) = s, for every value the broker can store; hence the
   encodings are injective (the bytes LREM compares are equal iff the decoded values are);
   no decoder panics or runs out of fuel on any byte string. *)
From Coq Require Import List NArith ZArith Bool Lia ZifyN ZifyNat ZifyBool.
Import ListNotations.
From GM Require Import Base.Topic Base.Msg Model.CodecBase Model.SubTrie Model.Queue Model.Redis Gen.Consts
  Model.PersistEnc Proofs.CodecBaseP.
From GM Require Proofs.TopicP.
Open Scope N_scope.

Ltac Zify.zify_post_hook ::= Z.div_mod_to_equations.

Ltac pk_consts :=
  unfold pk_PropPayloadFormat, pk_PropMessageExpiry, pk_PropContentType, pk_PropResponseTopic,
    pk_PropCorrelationData, pk_PropSubscriptionIdentifier, pk_PropUser.

(* ---------------------------------------------------------------- binary.go *)
Lemma rd_bool_wr : forall b rest, rd_bool (wr_bool b ++ rest) = Ok (b, rest).
Proof. intros [|] rest; reflexivity. Qed.

Lemma shorter_app_false : forall (s rest : list N), shorter (s ++ rest) (len s) = false.
Proof. intros. rewrite shorter_spec, len_app. lia. Qed.

Lemma rd_string_wr : forall s rest, len s < 65536 -> rd_string (wr_string s ++ rest) = Ok (s, rest).
Proof.
  intros s rest H. unfold rd_string, wr_string. rewrite <- app_assoc.
  replace (len s mod 65536) with (len s) by lia.
  rewrite read_uint16_put16 by assumption. cbn [perr remap bind].
  rewrite shorter_app_false, takeN_app_exact, dropN_app_exact. reflexivity.
Qed.

Lemma rd_bytes_wr : forall s rest, len s < 4294967296 -> rd_bytes (wr_bytes s ++ rest) = Ok (s, rest).
Proof.
  intros s rest H. unfold rd_bytes, wr_bytes.
  destruct (N.ltb_spec (len s) 65535) as [Hs|Hs].
  - unfold wr_string. rewrite <- app_assoc.
    replace (len s mod 65536) with (len s) by lia.
    rewrite read_uint16_put16 by lia. cbn [perr remap bind].
    replace (len s =? 65535) with false by lia.
    cbn [bind]. rewrite shorter_app_false, takeN_app_exact, dropN_app_exact. reflexivity.
  - rewrite <- !app_assoc. rewrite read_uint16_put16 by lia. cbn [perr remap bind].
    rewrite N.eqb_refl.
    replace (len s mod 4294967296) with (len s) by lia.
    rewrite read_uint32_put32 by assumption. cbn [perr remap bind].
    rewrite shorter_app_false, takeN_app_exact, dropN_app_exact. reflexivity.
Qed.

(* ---------------------------------------------------------------- the property block, entry by entry *)
Inductive pentry :=
| PCtype (v : str) | PCorr (v : str) | PExp (v : N) | PFmt (v : N) | PResp (v : str) | PSubid (v : N) | PUser (k v : str).

Definition enc_entry (e : pentry) : list N :=
  match e with
  | PCtype v => pk_PropContentType :: wr_string v
  | PCorr v => pk_PropCorrelationData :: wr_string v
  | PExp v => pk_PropMessageExpiry :: put32 v
  | PFmt v => [pk_PropPayloadFormat; v]
  | PResp v => pk_PropResponseTopic :: wr_string v
  | PSubid v => pk_PropSubscriptionIdentifier :: encode_varint_or_nil v
  | PUser k v => pk_PropUser :: wr_string k ++ wr_string v
  end.

Definition apply_entry (m : msg) (e : pentry) : msg :=
  match e with
  | PCtype v => set_ctype v m
  | PCorr v => set_corr v m
  | PExp v => set_expiry v m
  | PFmt v => set_pfmt v m
  | PResp v => set_resp v m
  | PSubid v => add_subid v m
  | PUser k v => add_uprop k v m
  end.

Definition wf_entry (e : pentry) : Prop :=
  match e with
  | PCtype v | PCorr v | PResp v => len v < 65536
  | PExp v => v < 4294967296
  | PFmt v => True
  | PSubid v => v < 268435456
  | PUser k v => len k < 65536 /\ len v < 65536
  end.

Lemma dec_props_entry : forall e k rest m, wf_entry e ->
  dec_props (S k) (enc_entry e ++ rest) m = dec_props k rest (apply_entry m e).
Proof.
  intros e k rest m H. destruct e; cbn [enc_entry app apply_entry wf_entry] in *.
  - cbn [dec_props]. rewrite N.eqb_refl. rewrite rd_string_wr by assumption. reflexivity.
  - cbn [dec_props]. replace (pk_PropCorrelationData =? pk_PropContentType) with false by reflexivity.
    rewrite N.eqb_refl. rewrite rd_string_wr by assumption. reflexivity.
  - cbn [dec_props]. replace (pk_PropMessageExpiry =? pk_PropContentType) with false by reflexivity.
    replace (pk_PropMessageExpiry =? pk_PropCorrelationData) with false by reflexivity.
    rewrite N.eqb_refl. rewrite read_uint32_put32 by assumption. reflexivity.
  - cbn [dec_props]. replace (pk_PropPayloadFormat =? pk_PropContentType) with false by reflexivity.
    replace (pk_PropPayloadFormat =? pk_PropCorrelationData) with false by reflexivity.
    replace (pk_PropPayloadFormat =? pk_PropMessageExpiry) with false by reflexivity.
    rewrite N.eqb_refl. reflexivity.
  - cbn [dec_props]. replace (pk_PropResponseTopic =? pk_PropContentType) with false by reflexivity.
    replace (pk_PropResponseTopic =? pk_PropCorrelationData) with false by reflexivity.
    replace (pk_PropResponseTopic =? pk_PropMessageExpiry) with false by reflexivity.
    replace (pk_PropResponseTopic =? pk_PropPayloadFormat) with false by reflexivity.
    rewrite N.eqb_refl. rewrite rd_string_wr by assumption. reflexivity.
  - cbn [dec_props]. replace (pk_PropSubscriptionIdentifier =? pk_PropContentType) with false by reflexivity.
    replace (pk_PropSubscriptionIdentifier =? pk_PropCorrelationData) with false by reflexivity.
    replace (pk_PropSubscriptionIdentifier =? pk_PropMessageExpiry) with false by reflexivity.
    replace (pk_PropSubscriptionIdentifier =? pk_PropPayloadFormat) with false by reflexivity.
    replace (pk_PropSubscriptionIdentifier =? pk_PropResponseTopic) with false by reflexivity.
    rewrite N.eqb_refl. rewrite encode_varint_or_nil_bytes by assumption.
    rewrite varint_roundtrip by assumption. reflexivity.
  - destruct H as [Hk Hv].
    cbn [dec_props]. replace (pk_PropUser =? pk_PropContentType) with false by reflexivity.
    replace (pk_PropUser =? pk_PropCorrelationData) with false by reflexivity.
    replace (pk_PropUser =? pk_PropMessageExpiry) with false by reflexivity.
    replace (pk_PropUser =? pk_PropPayloadFormat) with false by reflexivity.
    replace (pk_PropUser =? pk_PropResponseTopic) with false by reflexivity.
    replace (pk_PropUser =? pk_PropSubscriptionIdentifier) with false by reflexivity.
    rewrite N.eqb_refl. rewrite <- app_assoc. rewrite rd_string_wr by assumption. cbn [bind].
    rewrite rd_string_wr by assumption. reflexivity.
Qed.

Lemma dec_props_entries : forall es k rest m, Forall wf_entry es ->
  dec_props (length es + k) (flat_map enc_entry es ++ rest) m = dec_props k rest (fold_left apply_entry es m).
Proof.
  induction es as [|e es IH]; intros k rest m H.
  - reflexivity.
  - inversion H as [|? ? He Hes]; subst. cbn [length flat_map fold_left plus].
    rewrite <- app_assoc. rewrite dec_props_entry by assumption. apply IH. assumption.
Qed.

Lemma enc_entry_nonempty : forall e, (1 <= length (enc_entry e))%nat.
Proof. destruct e; cbn; lia. Qed.

Lemma flat_map_entries_length : forall es, (length es <= length (flat_map enc_entry es))%nat.
Proof.
  induction es as [|e es IH]; cbn [flat_map length]; [lia|].
  rewrite app_length. pose proof (enc_entry_nonempty e). lia.
Qed.

Lemma dec_props_block : forall es m, Forall wf_entry es ->
  dec_props (S (length (flat_map enc_entry es))) (flat_map enc_entry es) m = Ok (fold_left apply_entry es m).
Proof.
  intros es m H. pose proof (flat_map_entries_length es) as Hl.
  replace (S (length (flat_map enc_entry es)))
    with (length es + S (length (flat_map enc_entry es) - length es))%nat by lia.
  rewrite <- (app_nil_r (flat_map enc_entry es)) at 2.
  rewrite dec_props_entries by assumption. reflexivity.
Qed.

(* ---------------------------------------------------------------- the entries of a message *)
Definition entries_of (m : msg) : list pentry :=
  (if len (m_ctype m) =? 0 then [] else [PCtype (m_ctype m)]) ++
  (if len (m_corr m) =? 0 then [] else [PCorr (m_corr m)]) ++
  (if m_expiry m =? 0 then [] else [PExp (m_expiry m)]) ++
  [PFmt (m_pfmt m)] ++
  (if len (m_resp m) =? 0 then [] else [PResp (m_resp m)]) ++
  map PSubid (m_subids m) ++ map (fun kv => PUser (fst kv) (snd kv)) (m_uprops m).

Lemma flat_map_map : forall A B C (f : A -> B) (g : B -> list C) l, flat_map g (map f l) = flat_map (fun x => g (f x)) l.
Proof. induction l as [|x l IH]; cbn; [reflexivity|]. now rewrite IH. Qed.

Lemma enc_msg_entries : forall m,
  enc_msg m = wr_bool (m_dup m) ++ [m_qos m] ++ wr_bool (m_retained m) ++ wr_string (m_topic m) ++
              wr_bytes (m_payload m) ++ put16 (m_pid m) ++ flat_map enc_entry (entries_of m).
Proof.
  intros m. unfold enc_msg, entries_of. repeat (f_equal; []).
  rewrite !flat_map_app, !flat_map_map. unfold enc_subids, enc_uprops.
  destruct (len (m_ctype m) =? 0), (len (m_corr m) =? 0), (m_expiry m =? 0), (len (m_resp m) =? 0);
    cbn [flat_map enc_entry app]; rewrite ?app_nil_r; reflexivity.
Qed.

Lemma len_zero_nil : forall (s : str), len s = 0 -> s = [].
Proof. destruct s; [reflexivity|]. rewrite len_cons. lia. Qed.

Lemma fold_subids : forall l m,
  fold_left apply_entry (map PSubid l) m =
  {| m_dup := m_dup m; m_qos := m_qos m; m_retained := m_retained m; m_topic := m_topic m; m_payload := m_payload m;
     m_pid := m_pid m; m_ctype := m_ctype m; m_corr := m_corr m; m_expiry := m_expiry m; m_pfmt := m_pfmt m;
     m_resp := m_resp m; m_subids := m_subids m ++ l; m_uprops := m_uprops m |}.
Proof.
  induction l as [|x l IH]; intros m.
  - cbn. rewrite app_nil_r. destruct m; reflexivity.
  - cbn [map fold_left apply_entry]. rewrite IH. unfold add_subid. cbn. now rewrite <- app_assoc.
Qed.

Lemma fold_uprops : forall l m,
  fold_left apply_entry (map (fun kv => PUser (fst kv) (snd kv)) l) m =
  {| m_dup := m_dup m; m_qos := m_qos m; m_retained := m_retained m; m_topic := m_topic m; m_payload := m_payload m;
     m_pid := m_pid m; m_ctype := m_ctype m; m_corr := m_corr m; m_expiry := m_expiry m; m_pfmt := m_pfmt m;
     m_resp := m_resp m; m_subids := m_subids m; m_uprops := m_uprops m ++ l |}.
Proof.
  induction l as [|[k v] l IH]; intros m.
  - cbn. rewrite app_nil_r. destruct m; reflexivity.
  - cbn [map fold_left apply_entry fst snd]. rewrite IH. unfold add_uprop. cbn. now rewrite <- app_assoc.
Qed.

Lemma fold_entries_of : forall m,
  fold_left apply_entry (entries_of m)
    {| m_dup := m_dup m; m_qos := m_qos m; m_retained := m_retained m; m_topic := m_topic m; m_payload := m_payload m;
       m_pid := m_pid m; m_ctype := []; m_corr := []; m_expiry := 0; m_pfmt := 0; m_resp := []; m_subids := [];
       m_uprops := [] |} = m.
Proof.
  intros m. unfold entries_of. rewrite !fold_left_app. rewrite fold_uprops, fold_subids.
  destruct m as [dup qos ret topic payload pid ctype corr expiry pfmt resp subids uprops]. cbn [m_dup m_qos m_retained m_topic m_payload m_pid m_ctype m_corr m_expiry m_pfmt m_resp m_subids m_uprops].
  destruct (N.eqb_spec (len ctype) 0) as [E1|E1]; [apply len_zero_nil in E1; subst ctype|];
  destruct (N.eqb_spec (len corr) 0) as [E2|E2]; [apply len_zero_nil in E2; subst corr| |apply len_zero_nil in E2; subst corr|];
  destruct (N.eqb_spec expiry 0) as [E3|E3]; try subst expiry;
  destruct (N.eqb_spec (len resp) 0) as [E4|E4]; try (apply len_zero_nil in E4; subst resp);
  cbn; reflexivity.
Qed.

Lemma wf_str16_len : forall s, wf_str16 s = true -> len s < 65536.
Proof. unfold wf_str16. intros s H. apply andb_prop in H. lia. Qed.

Lemma wf_entries_of : forall m, wf_pmsg m = true -> Forall wf_entry (entries_of m).
Proof.
  intros m H. unfold wf_pmsg in H.
  repeat match type of H with (_ && _ = true) => apply andb_prop in H; destruct H as [H ?] end.
  unfold entries_of.
  apply Forall_app; split; [|apply Forall_app; split; [|apply Forall_app; split; [|apply Forall_app; split; [|apply Forall_app; split; [|apply Forall_app; split]]]]].
  - destruct (len (m_ctype m) =? 0); constructor; [|constructor]. cbn. now apply wf_str16_len.
  - destruct (len (m_corr m) =? 0); constructor; [|constructor]. cbn. now apply wf_str16_len.
  - destruct (m_expiry m =? 0); constructor; [|constructor]. cbn. lia.
  - constructor; [exact I|constructor].
  - destruct (len (m_resp m) =? 0); constructor; [|constructor]. cbn. now apply wf_str16_len.
  - apply Forall_map. apply Forall_forall. intros v Hv.
    match goal with Hf : forallb _ (m_subids m) = true |- _ => rewrite forallb_forall in Hf; specialize (Hf v Hv) end.
    cbn. lia.
  - apply Forall_map. apply Forall_forall. intros [k v] Hv.
    match goal with Hf : forallb _ (m_uprops m) = true |- _ => rewrite forallb_forall in Hf; specialize (Hf _ Hv) end.
    cbn in *. match goal with Hf : _ && _ = true |- _ => apply andb_prop in Hf; destruct Hf end.
    split; now apply wf_str16_len.
Qed.

(* ---------------------------------------------------------------- DecodeMessage (EncodeMessage m) = m *)
Lemma dec_enc_msg : forall m, wf_pmsg m = true -> dec_msg (enc_msg m) = Ok m.
Proof.
  intros m H. pose proof (wf_entries_of m H) as He.
  unfold wf_pmsg in H.
  repeat match type of H with (_ && _ = true) => apply andb_prop in H; destruct H as [H ?] end.
  rewrite enc_msg_entries. unfold dec_msg.
  rewrite rd_bool_wr. cbn [bind app perr remap read_byte].
  rewrite rd_bool_wr. cbn [bind].
  rewrite rd_string_wr by (now apply wf_str16_len). cbn [bind].
  rewrite rd_bytes_wr by lia. cbn [bind].
  rewrite read_uint16_put16 by lia. cbn [bind perr remap].
  rewrite dec_props_block by assumption. f_equal. apply fold_entries_of.
Qed.

(* ---------------------------------------------------------------- uint64 *)
Lemma be64_put64 : forall x rest, x < 18446744073709551616 -> be64 (put64 x ++ rest) = Ok x.
Proof.
  intros. unfold put64, be64. cbn [app]. f_equal.
  replace (x / 72057594037927936) with (x/256/256/256/256/256/256/256) by (rewrite !N.div_div by lia; reflexivity).
  replace (x / 281474976710656) with (x/256/256/256/256/256/256) by (rewrite !N.div_div by lia; reflexivity).
  replace (x / 1099511627776) with (x/256/256/256/256/256) by (rewrite !N.div_div by lia; reflexivity).
  replace (x / 4294967296) with (x/256/256/256/256) by (rewrite !N.div_div by lia; reflexivity).
  replace (x / 16777216) with (x/256/256/256) by (rewrite !N.div_div by lia; reflexivity).
  replace (x / 65536) with (x/256/256) by (rewrite !N.div_div by lia; reflexivity).
  Time lia. Qed.

Lemma elem_hdr : forall a x k body, a < 18446744073709551616 -> x < 18446744073709551616 ->
  let b := put64 a ++ [0] ++ put64 x ++ [0] ++ [k] ++ body in
  shorter b 19 = false /\ be64 (takeN 9 b) = Ok a /\ be64 (takeN 10 (dropN 9 b)) = Ok x /\ idx b 18 = Ok k /\ dropN 19 b = body.
Proof.
  intros a x k body Ha Hx b. subst b.
  split; [|split; [|split; [|split]]].
  - rewrite shorter_spec. repeat rewrite len_app. change (len (put64 a)) with 8. change (len (put64 x)) with 8. change (len [0]) with 1. change (len [k]) with 1. lia.
  - transitivity (be64 (put64 a ++ [0])); [unfold put64; reflexivity|]. now apply be64_put64.
  - transitivity (be64 (put64 x ++ [0; k])); [unfold put64; reflexivity|]. now apply be64_put64.
  - unfold put64. reflexivity.
  - destruct body; unfold put64; reflexivity.
Qed.

Lemma len_put64 : forall x, len (put64 x) = 8. Proof. reflexivity. Qed.

Lemma u64_expiry_roundtrip : forall x, match x with None => True | Some v => v < 9223372036854775808 end ->
  u64_expiry (expiry_u64 x) = x.
Proof.
  intros [v|] H; unfold u64_expiry, expiry_u64, ZERO_TIME_U64; [|reflexivity].
  replace (v mod 18446744073709551616) with v by lia.
  replace (v =? 18446744011573954816) with false by lia. reflexivity.
Qed.

(* ---------------------------------------------------------------- Elem.Decode (Elem.Encode e) *)
Definition untag (e : elem) : elem := {| e_tag := 0; e_at := e_at e; e_expiry := e_expiry e; e_body := e_body e |}.

Lemma dec_enc_elem : forall e, wf_pelem e = true -> dec_elem (enc_elem e) = Ok (untag e).
Proof.
  intros e H. unfold wf_pelem in H.
  apply andb_prop in H; destruct H as [H Hb]. apply andb_prop in H; destruct H as [Hat Hex].
  assert (HX : expiry_u64 (e_expiry e) < 18446744073709551616)
    by (unfold expiry_u64, ZERO_TIME_U64; destruct (e_expiry e); lia).
  assert (HA : e_at e mod 18446744073709551616 < 18446744073709551616) by lia.
  assert (HE : u64_expiry (expiry_u64 (e_expiry e)) = e_expiry e)
    by (apply u64_expiry_roundtrip; destruct (e_expiry e); [lia|exact I]).
  unfold dec_elem, enc_elem.
  destruct (e_body e) as [m|p] eqn:Eb.
  - destruct (elem_hdr _ _ 0 (enc_msg m) HA HX) as (h1 & h2 & h3 & h4 & h5). cbv zeta in h1, h2, h3, h4, h5.
    rewrite h1, h2, h3, h4, h5. cbn [bind]. rewrite N.eqb_refl.
    rewrite dec_enc_msg by assumption. cbn [bind]. unfold untag. rewrite Eb, HE. f_equal. f_equal. lia.
  - destruct (elem_hdr _ _ 1 (put16 p) HA HX) as (h1 & h2 & h3 & h4 & h5). cbv zeta in h1, h2, h3, h4, h5.
    rewrite h1, h2, h3, h4, h5. cbn [bind]. replace (1 =? 0) with false by reflexivity. rewrite N.eqb_refl.
    rewrite <- (app_nil_r (put16 p)). rewrite read_uint16_put16 by lia. cbn [bind perr remap].
    unfold untag. rewrite Eb, HE. f_equal. f_equal. lia.
Qed.

(* ---------------------------------------------------------------- subscriptions *)
Lemma dec_enc_sub : forall s, wf_psub s = true -> dec_sub (enc_sub s) = Ok s.
Proof.
  intros s H. unfold wf_psub in H.
  repeat match type of H with (_ && _ = true) => apply andb_prop in H; destruct H as [H ?] end.
  unfold dec_sub, enc_sub.
  rewrite rd_string_wr by (now apply wf_str16_len). cbn [bind].
  rewrite rd_string_wr by (now apply wf_str16_len). cbn [bind].
  rewrite read_uint32_put32 by lia. cbn [bind perr remap app read_byte].
  rewrite rd_bool_wr. cbn [bind]. rewrite rd_bool_wr. cbn [bind app perr remap read_byte].
  destruct s; reflexivity.
Qed.

(* ---------------------------------------------------------------- injectivity: stored bytes equal iff values equal *)
Lemma Ok_inj : forall A (x y : A), @Ok A x = Ok y -> x = y.
Proof. intros A x y H. now injection H. Qed.

Lemma enc_msg_inj : forall a b, wf_pmsg a = true -> wf_pmsg b = true -> enc_msg a = enc_msg b -> a = b.
Proof.
  intros a b Ha Hb E. apply (f_equal dec_msg) in E. rewrite !dec_enc_msg in E by assumption. now apply Ok_inj in E.
Qed.

Lemma enc_elem_inj : forall a b, wf_pelem a = true -> wf_pelem b = true -> enc_elem a = enc_elem b -> untag a = untag b.
Proof.
  intros a b Ha Hb E. apply (f_equal dec_elem) in E. rewrite !dec_enc_elem in E by assumption. now apply Ok_inj in E.
Qed.

Lemma enc_sub_inj : forall a b, wf_psub a = true -> wf_psub b = true -> enc_sub a = enc_sub b -> a = b.
Proof.
  intros a b Ha Hb E. apply (f_equal dec_sub) in E. rewrite !dec_enc_sub in E by assumption. now apply Ok_inj in E.
Qed.

(* elem_eqb (Model/Redis.v: what the model's LREM compares) is equality up to the tag *)
Lemma str_eqb_refl : forall s, str_eqb s s = true.
Proof. induction s as [|x s IH]; cbn; [reflexivity|]. now rewrite N.eqb_refl, IH. Qed.

Lemma list_eqb_refl : forall A (eqb : A -> A -> bool), (forall x, eqb x x = true) -> forall l, list_eqb eqb l l = true.
Proof. intros A eqb H. induction l as [|x l IH]; cbn; [reflexivity|]. now rewrite H, IH. Qed.

Lemma msg_eqb_refl : forall m, msg_eqb m m = true.
Proof.
  intros m. unfold msg_eqb. rewrite !Bool.eqb_reflx, !N.eqb_refl, !str_eqb_refl.
  rewrite (list_eqb_refl _ N.eqb N.eqb_refl).
  rewrite list_eqb_refl; [reflexivity|]. intros [k v]. cbn. now rewrite !str_eqb_refl.
Qed.

Lemma elem_eqb_untag : forall a b, untag a = untag b -> elem_eqb a b = true.
Proof.
  intros a b E. unfold untag in E. inversion E as [[E1 E2 E3]]. unfold elem_eqb. rewrite E1, E2, E3.
  rewrite N.eqb_refl. cbn [andb].
  replace (optN_eqb (e_expiry b) (e_expiry b)) with true by (destruct (e_expiry b); cbn; now rewrite ?N.eqb_refl).
  cbn [andb]. destruct (e_body b); cbn; [apply msg_eqb_refl|apply N.eqb_refl].
Qed.

Lemma stored_bytes_equal_elem_eqb : forall a b, wf_pelem a = true -> wf_pelem b = true ->
  enc_elem a = enc_elem b -> elem_eqb a b = true.
Proof. intros. apply elem_eqb_untag. now apply enc_elem_inj. Qed.

(* ---------------------------------------------------------------- no panic, no fuel exhaustion *)
Lemma rd_string_safe : forall b, safe_rd1 b (rd_string b).
Proof.
  intros b. unfold rd_string. pose proof (read_uint16_safe b) as H.
  destruct (read_uint16 b) as [[n r]| | |]; cbn in *; try exact I; try contradiction.
  destruct (shorter r n); cbn; [exact I|]. pose proof (dropN_length _ r n). lia.
Qed.

Lemma rd_bytes_safe : forall b, safe_rd1 b (rd_bytes b).
Proof.
  intros b. unfold rd_bytes. pose proof (read_uint16_safe b) as H.
  destruct (read_uint16 b) as [[l r]| | |]; cbn in *; try exact I; try contradiction.
  destruct (l =? 65535).
  - pose proof (read_uint32_safe r) as H2.
    destruct (read_uint32 r) as [[n r1]| | |]; cbn in *; try exact I; try contradiction.
    destruct (shorter r1 n); cbn; [exact I|]. pose proof (dropN_length _ r1 n). lia.
  - cbn. destruct (shorter r l); cbn; [exact I|]. pose proof (dropN_length _ r l). lia.
Qed.

Lemma rd_bool_safe : forall b, safe_rd1 b (rd_bool b).
Proof. intros [|x r]; cbn; [exact I|lia]. Qed.

Lemma dec_props_safe : forall fuel b m, (length b < fuel)%nat -> safe (dec_props fuel b m).
Proof.
  induction fuel as [|k IH]; intros b m Hf; [lia|].
  destruct b as [|pt r]; [exact I|]. cbn [dec_props]. cbn [length] in Hf.
  repeat match goal with |- safe (if ?c then _ else _) => destruct c end.
  - pose proof (rd_string_safe r) as H. destruct (rd_string r) as [[v r']| | |]; cbn in *; try exact I; try contradiction. apply IH. lia.
  - pose proof (rd_string_safe r) as H. destruct (rd_string r) as [[v r']| | |]; cbn in *; try exact I; try contradiction. apply IH. lia.
  - pose proof (read_uint32_safe r) as H. destruct (read_uint32 r) as [[v r']| | |]; cbn in *; try exact I; try contradiction. apply IH. lia.
  - pose proof (read_byte_safe r) as H. destruct (read_byte r) as [[v r']| | |]; cbn in *; try exact I; try contradiction. apply IH. lia.
  - pose proof (rd_string_safe r) as H. destruct (rd_string r) as [[v r']| | |]; cbn in *; try exact I; try contradiction. apply IH. lia.
  - pose proof (read_varint_safe r) as H. destruct (read_varint r) as [[v r']| | |]; cbn in *; try exact I; try contradiction. apply IH. lia.
  - pose proof (rd_string_safe r) as H. destruct (rd_string r) as [[v r1]| | |]; cbn in *; try exact I; try contradiction.
    pose proof (rd_string_safe r1) as H2. destruct (rd_string r1) as [[v2 r']| | |]; cbn in *; try exact I; try contradiction.
    apply IH. lia.
  - apply IH. lia.
Qed.

Lemma dec_msg_safe : forall b, safe (dec_msg b).
Proof.
  intros b. unfold dec_msg.
  destruct (rd_bool b) as [[dup r]| | |] eqn:E1; cbn [bind perr remap read_byte]; try exact I;
    try (pose proof (rd_bool_safe b) as H; rewrite E1 in H; contradiction).
  destruct r as [|qos r]; cbn [bind perr remap read_byte]; [exact I|].
  destruct (rd_bool r) as [[ret r2]| | |] eqn:E2; cbn [bind perr remap read_byte]; try exact I;
    try (pose proof (rd_bool_safe r) as H; rewrite E2 in H; contradiction).
  destruct (rd_string r2) as [[topic r3]| | |] eqn:E3; cbn [bind perr remap read_byte]; try exact I;
    try (pose proof (rd_string_safe r2) as H; rewrite E3 in H; contradiction).
  destruct (rd_bytes r3) as [[payload r4]| | |] eqn:E4; cbn [bind perr remap read_byte]; try exact I;
    try (pose proof (rd_bytes_safe r3) as H; rewrite E4 in H; contradiction).
  destruct (read_uint16 r4) as [[pid r5]| | |] eqn:E5; cbn [bind perr remap read_byte]; try exact I;
    try (pose proof (read_uint16_safe r4) as H; rewrite E5 in H; contradiction).
  apply dec_props_safe. lia.
Qed.

Lemma takeN_length_ge : forall (b : list N) n, shorter b n = false -> len (takeN n b) = n.
Proof. intros b n H. rewrite shorter_spec in H. rewrite takeN_len. lia. Qed.

Lemma be64_safe_len : forall l, 8 <= len l -> safe (be64 l).
Proof.
  intros l H. do 8 (destruct l as [|? l]; [rewrite ?len_cons, len_nil in H; lia|]). exact I.
Qed.

Lemma dec_elem_safe : forall b, safe (dec_elem b).
Proof.
  intros b. unfold dec_elem. destruct (shorter b 19) eqn:Es; [exact I|].
  rewrite shorter_spec in Es.
  assert (H9 : 8 <= len (takeN 9 b)) by (rewrite takeN_len; lia).
  assert (H10 : 8 <= len (takeN 10 (dropN 9 b))) by (rewrite takeN_len, dropN_len; lia).
  pose proof (be64_safe_len _ H9) as S1. destruct (be64 (takeN 9 b)) as [at_| | |]; cbn in S1; try contradiction; [|exact I].
  pose proof (be64_safe_len _ H10) as S2. destruct (be64 (takeN 10 (dropN 9 b))) as [ex| | |]; cbn in S2; try contradiction; [|exact I].
  cbn [bind]. unfold idx.
  destruct (dropN 18 b) as [|kind tl] eqn:Ed.
  { apply (f_equal len) in Ed. rewrite dropN_len in Ed. cbn in Ed. lia. }
  cbn [bind]. destruct (kind =? 0).
  - pose proof (dec_msg_safe (dropN 19 b)) as Sm. destruct (dec_msg (dropN 19 b)); cbn in *; try exact I; contradiction.
  - destruct (kind =? 1); [|exact I].
    pose proof (read_uint16_safe (dropN 19 b)) as Sr.
    destruct (read_uint16 (dropN 19 b)) as [[p r]| | |]; cbn in *; try exact I; contradiction.
Qed.

Lemma dec_sub_safe : forall b, safe (dec_sub b).
Proof.
  intros b. unfold dec_sub.
  destruct (rd_string b) as [[share r1]| | |] eqn:E1; cbn [bind perr remap read_byte]; try exact I;
    try (pose proof (rd_string_safe b) as H; rewrite E1 in H; contradiction).
  destruct (rd_string r1) as [[filter r2]| | |] eqn:E2; cbn [bind perr remap read_byte]; try exact I;
    try (pose proof (rd_string_safe r1) as H; rewrite E2 in H; contradiction).
  destruct (read_uint32 r2) as [[id r3]| | |] eqn:E3; cbn [bind perr remap read_byte]; try exact I;
    try (pose proof (read_uint32_safe r2) as H; rewrite E3 in H; contradiction).
  destruct r3 as [|qos r3]; cbn [bind perr remap read_byte]; [exact I|].
  destruct (rd_bool r3) as [[nl r4]| | |] eqn:E4; cbn [bind perr remap read_byte]; try exact I;
    try (pose proof (rd_bool_safe r3) as H; rewrite E4 in H; contradiction).
  destruct (rd_bool r4) as [[rap r5]| | |] eqn:E5; cbn [bind perr remap read_byte]; try exact I;
    try (pose proof (rd_bool_safe r4) as H; rewrite E5 in H; contradiction).
  destruct r5 as [|rh r5]; cbn [bind perr remap read_byte]; exact I.
Qed.

(* ---------------------------------------------------------------- what the repair changed *)
(* the pre-repair code wrote the payload with WriteString: for every payload of 65536 bytes or more the
   reader does not give the payload back (it stops after len mod 65536 bytes, or fails) *)
Lemma old_payload_writer_refuted : forall s rest, 65536 <= len s -> rd_string (wr_string s ++ rest) <> Ok (s, rest).
Proof.
  intros s rest H. unfold rd_string, wr_string. rewrite <- app_assoc.
  rewrite read_uint16_put16 by lia. cbn [perr remap bind].
  destruct (shorter (s ++ rest) (len s mod 65536)); [discriminate|].
  intros E. apply Ok_inj in E. apply (f_equal fst) in E. cbn [fst] in E.
  apply (f_equal len) in E. rewrite takeN_len in E. lia.
Qed.

(* ---------------------------------------------------------------- elem_eqb is equality of the stored bytes, both ways *)
Lemma list_eqb_eq {A} (eqb : A -> A -> bool) (H : forall x y, eqb x y = true -> x = y) :
  forall a b, list_eqb eqb a b = true -> a = b.
Proof.
  induction a as [|x a IH]; destruct b as [|y b]; cbn [list_eqb]; try discriminate; [reflexivity|].
  intros E. apply andb_prop in E. destruct E as [E1 E2]. f_equal; [now apply H|now apply IH].
Qed.

Lemma pair_eqb_eq (x y : str * str) : str_eqb (fst x) (fst y) && str_eqb (snd x) (snd y) = true -> x = y.
Proof.
  destruct x as [x1 x2], y as [y1 y2]. cbn [fst snd]. intros E. apply andb_prop in E. destruct E as [A B].
  apply TopicP.str_eqb_eq in A. apply TopicP.str_eqb_eq in B. now subst.
Qed.

Lemma msg_eqb_eq a b : msg_eqb a b = true -> a = b.
Proof.
  unfold msg_eqb. destruct a as [d1 q1 r1 t1 p1 i1 c1 k1 e1 f1 s1 b1 u1], b as [d2 q2 r2 t2 p2 i2 c2 k2 e2 f2 s2 b2 u2].
  simpl. intros E.
  repeat match type of E with (_ && _ = true) => apply andb_prop in E; let E2 := fresh "E" in destruct E as [E E2] end.
  repeat match goal with
         | H : Bool.eqb _ _ = true |- _ => apply Bool.eqb_prop in H
         | H : N.eqb _ _ = true |- _ => apply N.eqb_eq in H
         | H : str_eqb _ _ = true |- _ => apply TopicP.str_eqb_eq in H
         end.
  match goal with H : list_eqb N.eqb _ _ = true |- _ => apply (list_eqb_eq N.eqb (fun x y => proj1 (N.eqb_eq x y))) in H end.
  match goal with H : list_eqb _ _ _ = true |- _ => apply (list_eqb_eq _ pair_eqb_eq) in H end.
  subst. reflexivity.
Qed.

(* the converse of stored_bytes_equal_elem_eqb: what the store model treats as equal is stored as the same bytes *)
Lemma elem_eqb_same_bytes a b : elem_eqb a b = true -> enc_elem a = enc_elem b.
Proof.
  unfold elem_eqb. intros E. apply andb_prop in E. destruct E as [E Eb]. apply andb_prop in E. destruct E as [Ea Ee].
  apply N.eqb_eq in Ea. unfold enc_elem. rewrite Ea.
  assert (Hx : e_expiry a = e_expiry b).
  { unfold optN_eqb in Ee. destruct (e_expiry a), (e_expiry b); try discriminate; [apply N.eqb_eq in Ee; now subst|reflexivity]. }
  rewrite Hx. do 4 f_equal.
  unfold qbody_eqb in Eb. destruct (e_body a) as [m|p], (e_body b) as [m'|p']; try discriminate.
  - apply msg_eqb_eq in Eb. now subst.
  - apply N.eqb_eq in Eb. now subst.
Qed.
