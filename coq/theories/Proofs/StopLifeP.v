(* C15 - theorems about Model/StopLife.v, over the reachable set computed in Coq.
   Two instances (ctx_may_expire false / true); two callers, two connections; search depth
   <= sfuel = 100 levels. *)
From Coq Require Import List Arith Bool PArith Lia.
Import ListNotations.
From GM Require Import Model.StopLife Proofs.FiniteSys Proofs.ConnLifeP.

Definition scode (s : sst) : positive := enc (sfields s).

Lemma scode_inj s s' : scode s = scode s' -> s = s'.
Proof.
  unfold scode. intros H. apply enc_inj in H. destruct s, s'. cbn in H.
  injection H. intros.
  repeat match goal with H : Nat.b2n _ = Nat.b2n _ |- _ => apply b2n_inj in H end.
  subst. reflexivity.
Qed.

Definition sfuel := 100.
Definition sexplored (expire : bool) := explore snext scode sfuel (sinit expire).
Definition sreach (expire : bool) : list sst :=
  match sexplored expire with Some l => l | None => [] end.

Definition sreachable (expire : bool) : sst -> Prop := reachable_from snext (sinit expire).

Definition all2 (f : bool -> bool) : bool := f false && f true.

Lemma all2_spec f : all2 f = true -> forall b, f b = true.
Proof. unfold all2. intros H b. apply andb_true_iff in H as [H1 H2]. destruct b; assumption. Qed.

Lemma sexplored_some : all2 (fun b => is_some (sexplored b)) = true.
Proof. vm_compute. reflexivity. Qed.

Lemma sclosed_ok : all2 (fun b => closedb_of snext scode (sinit b) (sreach b)) = true.
Proof. vm_compute. reflexivity. Qed.

Lemma smeasure_ok : all2 (fun b => measureb_of snext smeasure (sreach b)) = true.
Proof. vm_compute. reflexivity. Qed.

Definition sinv (s : sst) : bool :=
  at_most_once s && exactly_once_on_return s && order_ok s && registered_closed_on_return s.

Lemma sinv_ok : all2 (fun b => invb_of sinv (sreach b)) = true.
Proof. vm_compute. reflexivity. Qed.

(* every maximal run ends with both Stop calls returned *)
Lemma sno_stuck_ok : all2 (fun b => no_stuckb_of snext both_returned (sreach b)) = true.
Proof. vm_compute. reflexivity. Qed.

(* a context that cannot expire never "expires" *)
Definition ctx_inv (s : sst) : bool := negb (ctx s).

Lemma sctx_ok : invb_of ctx_inv (sreach false) = true.
Proof. vm_compute. reflexivity. Qed.

Lemma sclosed b : closedb_of snext scode (sinit b) (sreach b) = true.
Proof. exact (all2_spec _ sclosed_ok b). Qed.

Theorem stop_invariants : forall expire s, sreachable expire s ->
  at_most_once s = true /\ exactly_once_on_return s = true /\ order_ok s = true /\ registered_closed_on_return s = true.
Proof.
  intros b s R.
  pose proof (inv_gen snext scode scode_inj (sinit b) (sreach b) (sclosed b) sinv (all2_spec _ sinv_ok b) s R) as H.
  unfold sinv in H. apply andb_true_iff in H as [H H4]. apply andb_true_iff in H as [H H3].
  apply andb_true_iff in H as [H1 H2]. auto.
Qed.

(* Unload and OnStop run at most once in any run, whatever the number of Stop calls *)
Theorem stop_at_most_once : forall expire s, sreachable expire s -> unl s <= 1 /\ ons s <= 1.
Proof.
  intros b s R. destruct (stop_invariants b s R) as [H _]. unfold at_most_once in H.
  apply andb_true_iff in H as [H1 H2]. apply Nat.leb_le in H1. apply Nat.leb_le in H2. auto.
Qed.

(* once some Stop call has returned without context expiry, each has run exactly once *)
Theorem stop_exactly_once : forall expire s, sreachable expire s ->
  returned s = true -> ctx s = false -> unl s = 1 /\ ons s = 1 /\ exited s = true /\ lst s = false.
Proof.
  intros b s R Hr Hc. destruct (stop_invariants b s R) as [_ [H _]]. unfold exactly_once_on_return in H.
  rewrite Hr, Hc in H. cbn in H. apply andb_true_iff in H as [H H2]. apply andb_true_iff in H as [H Hl].
  apply andb_true_iff in H as [_ He]. apply andb_true_iff in H2 as [Hu Ho].
  apply Nat.eqb_eq in Hu. apply Nat.eqb_eq in Ho. apply negb_true_iff in Hl. auto.
Qed.

Theorem stop_once :
  forall expire s, sreachable expire s ->
    (unl s <= 1 /\ ons s <= 1) /\
    (returned s = true -> ctx s = false -> unl s = 1 /\ ons s = 1 /\ exited s = true /\ lst s = false).
Proof.
  intros b s R. split; [exact (stop_at_most_once b s R)|]. exact (stop_exactly_once b s R).
Qed.

(* every maximal run is finite and ends with every Stop call returned *)
Theorem stop_terminates : forall expire s, sreachable expire s ->
  ends_in snext (fun s => both_returned s = true) s.
Proof.
  intros b s R.
  exact (all_runs_end_gen snext scode scode_inj (sinit b) (sreach b) (sclosed b) smeasure
           (all2_spec _ smeasure_ok b) both_returned (all2_spec _ sno_stuck_ok b) s R).
Qed.

(* with a context that does not expire, Stop always returns nil: every maximal run ends with both
   calls returned, no timeout, Unload and OnStop exactly once, listeners and exitedChan closed *)
Definition nil_end (s : sst) : bool :=
  both_returned s && negb (ctx s) && Nat.eqb (unl s) 1 && Nat.eqb (ons s) 1 && exited s && negb (lst s).

Lemma snil_end_ok : no_stuckb_of snext nil_end (sreach false) = true.
Proof. vm_compute. reflexivity. Qed.

Theorem stop_returns_nil : forall s, sreachable false s -> ends_in snext (fun s => nil_end s = true) s.
Proof.
  intros s R.
  exact (all_runs_end_gen snext scode scode_inj (sinit false) (sreach false) (sclosed false) smeasure
           (all2_spec _ smeasure_ok false) nil_end snil_end_ok s R).
Qed.

Theorem stop_closes_registered :
  forall expire s, sreachable expire s -> registered_closed_on_return s = true /\ order_ok s = true.
Proof. intros b s R. destruct (stop_invariants b s R) as [_ [_ [H1 H2]]]. auto. Qed.

(* ---------------------------------------------------------------- witness runs *)

Definition find_run (p : sst -> bool) (choices : list nat) (i0 : sst) : bool :=
  match replay snext choices i0 with Some s => p s | None => false end.

Lemma find_run_spec p choices b :
  find_run p choices (sinit b) = true -> exists s, sreachable b s /\ p s = true.
Proof.
  unfold find_run. destruct (replay snext choices (sinit b)) as [s|] eqn:E; [|discriminate].
  intros H. exists s. split; [|exact H]. eapply replay_reachable; [apply reach_init | exact E].
Qed.

(* STILL A DEFECT (kf_unregistered_survives): a connection that is still connecting when Stop takes
   its snapshot is neither closed nor waited for: it is alive - here even REGISTERED - after Stop
   has returned normally *)
Definition run_unregistered : list nat := [0; 0; 0; 0; 0; 0; 0; 3].

Lemma run_unregistered_ok :
  find_run (fun s => kf_unregistered_survives s && negb (all_closed_on_return s)
                     && (Nat.eqb (k1 s) 1 || Nat.eqb (k2 s) 1) && Nat.eqb (unl s) 1)
           run_unregistered (sinit false) = true.
Proof. vm_compute. reflexivity. Qed.

Theorem stop_closes_all_refuted :
  exists s, sreachable false s /\ returned s = true /\ ctx s = false /\ all_closed_on_return s = false
            /\ kf_unregistered_survives s = true.
Proof.
  destruct (find_run_spec _ _ _ run_unregistered_ok) as [s [R H]].
  apply andb_true_iff in H as [H _]. apply andb_true_iff in H as [H _]. apply andb_true_iff in H as [Hk Ha].
  exists s. split; [exact R|]. apply negb_true_iff in Ha.
  unfold kf_unregistered_survives in Hk. pose proof Hk as Hk'.
  apply andb_true_iff in Hk as [Hk _]. apply andb_true_iff in Hk as [Hr Hc]. apply negb_true_iff in Hc. auto.
Qed.

(* not a defect, the documented "force exit": when the caller's context expires while connections
   are still winding down, Stop returns ctx.Err() and Unload / OnStop are skipped.  This is the only
   way left in the model for Stop to return an error (stop_returns_nil). *)
Definition run_stop_timeout : list nat := [1; 1; 1; 2; 1].

Lemma run_stop_timeout_ok :
  find_run (fun s => returned s && ctx s && Nat.eqb (unl s) 0 && Nat.eqb (ons s) 0) run_stop_timeout (sinit true) = true.
Proof. vm_compute. reflexivity. Qed.

Theorem stop_timeout_skips_unload :
  exists s, sreachable true s /\ returned s = true /\ ctx s = true /\ unl s = 0 /\ ons s = 0.
Proof.
  destruct (find_run_spec _ _ _ run_stop_timeout_ok) as [s [R H]].
  apply andb_true_iff in H as [H Ho]. apply andb_true_iff in H as [H Hu]. apply andb_true_iff in H as [Hr Hc].
  apply Nat.eqb_eq in Ho. apply Nat.eqb_eq in Hu. exists s. auto.
Qed.

(* non-vacuity: a run with two registered connections, two Stop calls, everything closed,
   Unload and OnStop exactly once *)
Definition run_clean : list nat := [2; 0; 3; 0; 0; 2; 1; 0; 0; 0; 0; 0].

Lemma run_clean_ok :
  find_run (fun s => both_returned s && Nat.eqb (unl s) 1 && Nat.eqb (ons s) 1 && Nat.eqb (k1 s) 3 && Nat.eqb (k2 s) 3 && w1 s && w2 s)
           run_clean (sinit false) = true.
Proof. vm_compute. reflexivity. Qed.

Theorem stop_clean_run_exists :
  exists s, sreachable false s /\ both_returned s = true /\ unl s = 1 /\ ons s = 1 /\ k1 s = 3 /\ k2 s = 3.
Proof.
  destruct (find_run_spec _ _ _ run_clean_ok) as [s [R H]].
  apply andb_true_iff in H as [H _]. apply andb_true_iff in H as [H _].
  apply andb_true_iff in H as [H K2]. apply andb_true_iff in H as [H K1].
  apply andb_true_iff in H as [H Ho]. apply andb_true_iff in H as [Hb Hu].
  apply Nat.eqb_eq in K1. apply Nat.eqb_eq in K2. apply Nat.eqb_eq in Ho. apply Nat.eqb_eq in Hu.
  exists s. repeat split; assumption.
Qed.

Lemma search_complete : is_some ConnLifeP.explored = true /\ all2 (fun b => is_some (sexplored b)) = true.
Proof. exact (conj ConnLifeP.explored_some sexplored_some). Qed.

Theorem stop_terminates_both :
  (forall expire s, sreachable expire s -> ends_in snext (fun s => both_returned s = true) s) /\
  (forall s, sreachable false s -> ends_in snext (fun s => nil_end s = true) s).
Proof. exact (conj stop_terminates stop_returns_nil). Qed.
