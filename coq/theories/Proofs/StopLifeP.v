(* C15 - theorems about Model/StopLife.v, over the reachable set computed in Coq.
   Two instances (ctx_may_expire false / true); two callers, two connections; search depth
   <= sfuel = 100 levels. *)
From Coq Require Import List Arith Bool PArith Lia.
Import ListNotations.
From GM Require Import Gen.StopOrder Model.StopLife Proofs.FiniteSys Proofs.ConnLifeP.

Definition scode (s : sst) : positive := enc (sfields s).

Lemma scode_inj s s' : scode s = scode s' -> s = s'.
Proof.
  unfold scode. intros H. apply enc_inj in H. destruct s, s'. cbn in H.
  injection H. intros.
  repeat match goal with H : Nat.b2n _ = Nat.b2n _ |- _ => apply b2n_inj in H end.
  subst. reflexivity.
Qed.

Definition sfuel := 100.
Definition sexplored (expire : bool) := explore snext scode sfuel (sinit expire).
Definition sreach (expire : bool) : list sst :=
  match sexplored expire with Some l => l | None => [] end.

Definition sreachable (expire : bool) : sst -> Prop := reachable_from snext (sinit expire).

Definition all2 (f : bool -> bool) : bool := f false && f true.

Lemma all2_spec f : all2 f = true -> forall b, f b = true.
Proof. unfold all2. intros H b. apply andb_true_iff in H as [H1 H2]. destruct b; assumption. Qed.

Lemma sexplored_some : all2 (fun b => is_some (sexplored b)) = true.
Proof. vm_compute. reflexivity. Qed.

Lemma sclosed_ok : all2 (fun b => closedb_of snext scode (sinit b) (sreach b)) = true.
Proof. vm_compute. reflexivity. Qed.

Lemma smeasure_ok : all2 (fun b => measureb_of snext smeasure (sreach b)) = true.
Proof. vm_compute. reflexivity. Qed.

Definition sinv (s : sst) : bool :=
  at_most_once s && exactly_once_on_return s && order_ok s && listed_closed_on_return s.

Definition sinv2 (s : sst) : bool :=
  registered_is_listed s && none_registered_on_return s && all_closed_or_unserved s && none_served_after_snapshot s.

Lemma sinv2_ok : all2 (fun b => invb_of sinv2 (sreach b)) = true.
Proof. vm_compute. reflexivity. Qed.

(* transition checks: nobody registers, and no connection starts being served, once exit() has run *)
Lemma no_late_registration_ok :
  all2 (fun b => forallb (fun s => forallb (fun s' => no_late_registration s s' && no_late_service s s') (snext s)) (sreach b)) = true.
Proof. vm_compute. reflexivity. Qed.

(* every maximal run ends with both calls returned AND every accepted connection closed *)
Lemma sall_over_ok : all2 (fun b => no_stuckb_of snext all_over (sreach b)) = true.
Proof. vm_compute. reflexivity. Qed.

Lemma sinv_ok : all2 (fun b => invb_of sinv (sreach b)) = true.
Proof. vm_compute. reflexivity. Qed.

(* every maximal run ends with both Stop calls returned *)
Lemma sno_stuck_ok : all2 (fun b => no_stuckb_of snext both_returned (sreach b)) = true.
Proof. vm_compute. reflexivity. Qed.

(* a context that cannot expire never "expires" *)
Definition ctx_inv (s : sst) : bool := negb (ctx s).

Lemma sctx_ok : invb_of ctx_inv (sreach false) = true.
Proof. vm_compute. reflexivity. Qed.

Lemma sclosed b : closedb_of snext scode (sinit b) (sreach b) = true.
Proof. exact (all2_spec _ sclosed_ok b). Qed.

Theorem stop_invariants : forall expire s, sreachable expire s ->
  at_most_once s = true /\ exactly_once_on_return s = true /\ order_ok s = true /\ listed_closed_on_return s = true.
Proof.
  intros b s R.
  pose proof (inv_gen snext scode scode_inj (sinit b) (sreach b) (sclosed b) sinv (all2_spec _ sinv_ok b) s R) as H.
  unfold sinv in H. apply andb_true_iff in H as [H H4]. apply andb_true_iff in H as [H H3].
  apply andb_true_iff in H as [H1 H2]. auto.
Qed.

(* Unload and OnStop run at most once in any run, whatever the number of Stop calls *)
Theorem stop_at_most_once : forall expire s, sreachable expire s -> unl s <= 1 /\ ons s <= 1.
Proof.
  intros b s R. destruct (stop_invariants b s R) as [H _]. unfold at_most_once in H.
  apply andb_true_iff in H as [H1 H2]. apply Nat.leb_le in H1. apply Nat.leb_le in H2. auto.
Qed.

(* once some Stop call has returned without context expiry, each has run exactly once *)
Theorem stop_exactly_once : forall expire s, sreachable expire s ->
  returned s = true -> ctx s = false -> unl s = 1 /\ ons s = 1 /\ exited s = true /\ lst s = false.
Proof.
  intros b s R Hr Hc. destruct (stop_invariants b s R) as [_ [H _]]. unfold exactly_once_on_return in H.
  rewrite Hr, Hc in H. cbn in H. apply andb_true_iff in H as [H H2]. apply andb_true_iff in H as [H Hl].
  apply andb_true_iff in H as [_ He]. apply andb_true_iff in H2 as [Hu Ho].
  apply Nat.eqb_eq in Hu. apply Nat.eqb_eq in Ho. apply negb_true_iff in Hl. auto.
Qed.

Theorem stop_once :
  forall expire s, sreachable expire s ->
    (unl s <= 1 /\ ons s <= 1) /\
    (returned s = true -> ctx s = false -> unl s = 1 /\ ons s = 1 /\ exited s = true /\ lst s = false).
Proof.
  intros b s R. split; [exact (stop_at_most_once b s R)|]. exact (stop_exactly_once b s R).
Qed.

(* every maximal run is finite and ends with every Stop call returned *)
Theorem stop_terminates : forall expire s, sreachable expire s ->
  ends_in snext (fun s => both_returned s = true) s.
Proof.
  intros b s R.
  exact (all_runs_end_gen snext scode scode_inj (sinit b) (sreach b) (sclosed b) smeasure
           (all2_spec _ smeasure_ok b) both_returned (all2_spec _ sno_stuck_ok b) s R).
Qed.

(* with a context that does not expire, Stop always returns nil: every maximal run ends with both
   calls returned, no timeout, Unload and OnStop exactly once, listeners and exitedChan closed *)
Definition nil_end (s : sst) : bool :=
  both_returned s && negb (ctx s) && Nat.eqb (unl s) 1 && Nat.eqb (ons s) 1 && exited s && negb (lst s).

Lemma snil_end_ok : no_stuckb_of snext nil_end (sreach false) = true.
Proof. vm_compute. reflexivity. Qed.

Theorem stop_returns_nil : forall s, sreachable false s -> ends_in snext (fun s => nil_end s = true) s.
Proof.
  intros s R.
  exact (all_runs_end_gen snext scode scode_inj (sinit false) (sreach false) (sclosed false) smeasure
           (all2_spec _ smeasure_ok false) nil_end snil_end_ok s R).
Qed.

(* FULL statement about the connections Stop is responsible for: when a Stop call has returned without
   timeout, every connection that was in srv.clients or srv.connecting when Stop listed them -
   registered or not - is closed (and Unload/OnStop came after that); after the locked block every
   registered connection is a listed one, and none is registered once Stop has returned; and no
   transition registers a connection after exit() *)
Theorem stop_closes_all :
  forall expire s, sreachable expire s ->
    listed_closed_on_return s = true /\ order_ok s = true /\
    registered_is_listed s = true /\ none_registered_on_return s = true /\
    (forall s', In s' (snext s) -> no_late_registration s s' = true).
Proof.
  intros b s R. destruct (stop_invariants b s R) as [_ [_ [H1 H2]]].
  pose proof (inv_gen snext scode scode_inj (sinit b) (sreach b) (sclosed b) sinv2 (all2_spec _ sinv2_ok b) s R) as H.
  unfold sinv2 in H. apply andb_true_iff in H as [H _]. apply andb_true_iff in H as [H _]. apply andb_true_iff in H as [H3 H4].
  repeat split; try assumption.
  intros s' Hin. pose proof (all2_spec _ no_late_registration_ok b) as N. cbv beta in N.
  rewrite forallb_forall in N. pose proof (reach_complete_gen snext scode scode_inj (sinit b) (sreach b) (sclosed b) s R) as Rs.
  specialize (N s Rs). rewrite forallb_forall in N. specialize (N s' Hin). now apply andb_true_iff in N as [N _].
Qed.

(* the strongest true form of "Stop leaves no connection behind": when a Stop call has returned
   without timeout every listed connection is closed (waited for), and every other connection is
   gone, not yet recorded (KA: the transition that records it closes it) or closed by addConnecting
   and winding down (KX); once the locked block has run NO connection is served, and no transition
   starts serving a connection after exit() *)
Theorem stop_all_closed :
  forall expire s, sreachable expire s ->
    listed_closed_on_return s = true /\ all_closed_or_unserved s = true /\
    none_served_after_snapshot s = true /\
    (forall s', In s' (snext s) -> no_late_service s s' = true).
Proof.
  intros b s R. destruct (stop_invariants b s R) as [_ [_ [_ H2]]].
  pose proof (inv_gen snext scode scode_inj (sinit b) (sreach b) (sclosed b) sinv2 (all2_spec _ sinv2_ok b) s R) as H.
  unfold sinv2 in H. apply andb_true_iff in H as [H H6]. apply andb_true_iff in H as [_ H5].
  repeat split; try assumption.
  intros s' Hin. pose proof (all2_spec _ no_late_registration_ok b) as N. cbv beta in N.
  rewrite forallb_forall in N. pose proof (reach_complete_gen snext scode scode_inj (sinit b) (sreach b) (sclosed b) s R) as Rs.
  specialize (N s Rs). rewrite forallb_forall in N. specialize (N s' Hin). now apply andb_true_iff in N as [_ N].
Qed.

(* no connection stays open for ever: every maximal run ends with both Stop calls returned and every
   accepted connection closed *)
Theorem stop_all_over : forall expire s, sreachable expire s ->
  ends_in snext (fun s => all_over s = true) s.
Proof.
  intros b s R.
  exact (all_runs_end_gen snext scode scode_inj (sinit b) (sreach b) (sclosed b) smeasure
           (all2_spec _ smeasure_ok b) all_over (all2_spec _ sall_over_ok b) s R).
Qed.

(* ---------------------------------------------------------------- witness runs *)

Definition find_run (p : sst -> bool) (choices : list nat) (i0 : sst) : bool :=
  match replay snext choices i0 with Some s => p s | None => false end.

Lemma find_run_spec p choices b :
  find_run p choices (sinit b) = true -> exists s, sreachable b s /\ p s = true.
Proof.
  unfold find_run. destruct (replay snext choices (sinit b)) as [s|] eqn:E; [|discriminate].
  intros H. exists s. split; [|exact H]. eapply replay_reachable; [apply reach_init | exact E].
Qed.

(* honest remainder (not a defect of the statement above): Stop does not WAIT for a connection that
   is recorded after its locked block - it has been closed by addConnecting, is never served, and its
   goroutines end on their own right after; so "all goroutines have exited when Stop returns" holds
   only up to these *)
Definition run_late_recorded : list nat := [2; 1; 1; 1; 1; 1; 1; 1].

Lemma run_late_recorded_ok :
  find_run (fun s => late_recorded_not_waited_for s && negb (all_closed_on_return s) && Nat.eqb (unl s) 1
                     && negb (served (k1 s)) && negb (served (k2 s)))
           run_late_recorded (sinit false) = true.
Proof. vm_compute. reflexivity. Qed.

Theorem stop_does_not_wait_for_late_recorded :
  exists s, sreachable false s /\ returned s = true /\ ctx s = false /\ all_closed_on_return s = false
            /\ late_recorded_not_waited_for s = true.
Proof.
  destruct (find_run_spec _ _ _ run_late_recorded_ok) as [s [R H]].
  apply andb_true_iff in H as [H _]. apply andb_true_iff in H as [H _]. apply andb_true_iff in H as [H _].
  apply andb_true_iff in H as [Hk Ha].
  exists s. split; [exact R|]. apply negb_true_iff in Ha.
  unfold late_recorded_not_waited_for in Hk. pose proof Hk as Hk'.
  apply andb_true_iff in Hk as [Hk _]. apply andb_true_iff in Hk as [Hr Hc]. apply negb_true_iff in Hc. auto.
Qed.

(* not a defect, the documented "force exit": when the caller's context expires while connections
   are still winding down, Stop returns ctx.Err() and Unload / OnStop are skipped.  This is the only
   way left in the model for Stop to return an error (stop_returns_nil). *)
Definition run_stop_timeout : list nat := [1; 1; 1; 2; 1].

Lemma run_stop_timeout_ok :
  find_run (fun s => returned s && ctx s && Nat.eqb (unl s) 0 && Nat.eqb (ons s) 0) run_stop_timeout (sinit true) = true.
Proof. vm_compute. reflexivity. Qed.

Theorem stop_timeout_skips_unload :
  exists s, sreachable true s /\ returned s = true /\ ctx s = true /\ unl s = 0 /\ ons s = 0.
Proof.
  destruct (find_run_spec _ _ _ run_stop_timeout_ok) as [s [R H]].
  apply andb_true_iff in H as [H Ho]. apply andb_true_iff in H as [H Hu]. apply andb_true_iff in H as [Hr Hc].
  apply Nat.eqb_eq in Ho. apply Nat.eqb_eq in Hu. exists s. auto.
Qed.

(* non-vacuity: a run with two registered connections, two Stop calls, everything closed,
   Unload and OnStop exactly once *)
Definition run_clean : list nat := [2; 0; 4; 2; 0; 4; 0; 2; 1; 0; 0; 0; 0; 0].

Lemma run_clean_ok :
  find_run (fun s => both_returned s && Nat.eqb (unl s) 1 && Nat.eqb (ons s) 1 && Nat.eqb (k1 s) KD && Nat.eqb (k2 s) KD && w1 s && w2 s)
           run_clean (sinit false) = true.
Proof. vm_compute. reflexivity. Qed.

Theorem stop_clean_run_exists :
  exists s, sreachable false s /\ both_returned s = true /\ unl s = 1 /\ ons s = 1 /\ k1 s = KD /\ k2 s = KD.
Proof.
  destruct (find_run_spec _ _ _ run_clean_ok) as [s [R H]].
  apply andb_true_iff in H as [H _]. apply andb_true_iff in H as [H _].
  apply andb_true_iff in H as [H K2]. apply andb_true_iff in H as [H K1].
  apply andb_true_iff in H as [H Ho]. apply andb_true_iff in H as [Hb Hu].
  apply Nat.eqb_eq in K1. apply Nat.eqb_eq in K2. apply Nat.eqb_eq in Ho. apply Nat.eqb_eq in Hu.
  exists s. repeat split; assumption.
Qed.

Lemma search_complete : is_some ConnLifeP.explored = true /\ all2 (fun b => is_some (sexplored b)) = true.
Proof. exact (conj ConnLifeP.explored_some sexplored_some). Qed.

Theorem stop_terminates_both :
  (forall expire s, sreachable expire s -> ends_in snext (fun s => both_returned s = true) s) /\
  (forall s, sreachable false s -> ends_in snext (fun s => nil_end s = true) s).
Proof. exact (conj stop_terminates stop_returns_nil). Qed.

(* ---------------------------------------------------------------- the order of the operations in the source *)

(* Gen/StopOrder.v is the sequence of operations of the body of stopOnce.Do in source order. *)

Definition op_code (o : stop_op) : nat :=
  match o with
  | SDeferCloseExited => 0 | SExit => 1 | SCloseListeners => 2 | SShutdownWebsockets => 3 | SLock => 4
  | SSnapshotCloseClients => 5 | SUnlock => 6 | SStartWaiter => 7 | SWait => 8 | SUnload => 9 | SOnStop => 10
  | SSnapshotCloseConnecting => 11
  end.

Lemma op_code_inj a b : op_code a = op_code b -> a = b.
Proof. destruct a, b; cbn; intros H; try reflexivity; discriminate. Qed.

Definition op_eqb (a b : stop_op) : bool := Nat.eqb (op_code a) (op_code b).

(* split l at the first occurrence of a *)
Fixpoint split_at (a : stop_op) (l : list stop_op) : option (list stop_op * list stop_op) :=
  match l with
  | [] => None
  | x :: tl => if op_eqb x a then Some ([], tl)
               else match split_at a tl with Some (l1, l2) => Some (x :: l1, l2) | None => None end
  end.

Lemma split_at_spec a : forall l l1 l2, split_at a l = Some (l1, l2) -> l = l1 ++ a :: l2.
Proof.
  induction l as [|x tl IH]; intros l1 l2 H; cbn in H; [discriminate|].
  destruct (op_eqb x a) eqn:E.
  - inversion H; subst. apply Nat.eqb_eq in E. apply op_code_inj in E. now subst.
  - destruct (split_at a tl) as [[m1 m2]|] eqn:S; [|discriminate]. inversion H; subst.
    cbn. f_equal. now apply IH.
Qed.

(* a occurs before b in l *)
Definition before (a b : stop_op) (l : list stop_op) : Prop :=
  exists l1 l2 l3, l = l1 ++ a :: l2 ++ b :: l3.

Definition beforeb (a b : stop_op) (l : list stop_op) : bool :=
  match split_at a l with
  | Some (_, r) => match split_at b r with Some _ => true | None => false end
  | None => false
  end.

Lemma beforeb_spec a b l : beforeb a b l = true -> before a b l.
Proof.
  unfold beforeb, before. destruct (split_at a l) as [[l1 r]|] eqn:S1; [|discriminate].
  destruct (split_at b r) as [[l2 l3]|] eqn:S2; [|discriminate]. intros _.
  apply split_at_spec in S1. apply split_at_spec in S2. exists l1, l2, l3. now subst.
Qed.

Definition count_op (a : stop_op) (l : list stop_op) : nat := List.length (filter (op_eqb a) l).

Definition all_ops : list stop_op :=
  [SDeferCloseExited; SExit; SCloseListeners; SShutdownWebsockets; SLock; SSnapshotCloseClients;
   SSnapshotCloseConnecting; SUnlock;
   SStartWaiter; SWait; SUnload; SOnStop].

(* the required order, as pairs (earlier, later) *)
Definition required_order : list (stop_op * stop_op) :=
  [ (SDeferCloseExited, SExit);            (* the deferred close(exitedChan) is registered first: it runs on every return *)
    (SExit, SSnapshotCloseClients);        (* no new accept loops ... *)
    (SCloseListeners, SSnapshotCloseClients);      (* ... and no new connections before the clients are listed *)
    (SShutdownWebsockets, SSnapshotCloseClients);
    (SLock, SSnapshotCloseClients); (SSnapshotCloseClients, SUnlock);   (* the snapshot is taken under srv.mu *)
    (SExit, SSnapshotCloseConnecting); (SCloseListeners, SSnapshotCloseConnecting);
    (SShutdownWebsockets, SSnapshotCloseConnecting);                    (* the same for the unregistered connections *)
    (SLock, SSnapshotCloseConnecting); (SSnapshotCloseConnecting, SUnlock);
    (SUnlock, SStartWaiter); (SStartWaiter, SWait); (SUnlock, SWait);   (* the wait is outside srv.mu *)
    (SWait, SUnload); (SUnload, SOnStop) ].                             (* plugins and OnStop after the wait *)

Definition stop_order_okb : bool :=
  forallb (fun o => Nat.eqb (count_op o stop_ops) 1) all_ops
  && forallb (fun p => beforeb (fst p) (snd p) stop_ops) required_order.

Lemma stop_order_okb_ok : stop_order_okb = true.
Proof. vm_compute. reflexivity. Qed.

Theorem stop_order :
  (forall o, count_op o stop_ops = 1) /\
  (forall a b, In (a, b) required_order -> before a b stop_ops).
Proof.
  pose proof stop_order_okb_ok as H. unfold stop_order_okb in H. apply andb_true_iff in H as [H1 H2].
  split.
  - intros o. rewrite forallb_forall in H1. apply Nat.eqb_eq. apply H1. destruct o; cbn; auto 14.
  - intros a b Hin. rewrite forallb_forall in H2. apply beforeb_spec. exact (H2 (a, b) Hin).
Qed.

(* the readable core of it *)
Corollary stop_order_core :
  before SExit SSnapshotCloseClients stop_ops /\ before SCloseListeners SSnapshotCloseClients stop_ops /\
  before SShutdownWebsockets SSnapshotCloseClients stop_ops /\
  before SLock SSnapshotCloseClients stop_ops /\ before SSnapshotCloseClients SUnlock stop_ops /\
  before SExit SSnapshotCloseConnecting stop_ops /\ before SCloseListeners SSnapshotCloseConnecting stop_ops /\
  before SShutdownWebsockets SSnapshotCloseConnecting stop_ops /\
  before SLock SSnapshotCloseConnecting stop_ops /\ before SSnapshotCloseConnecting SUnlock stop_ops /\
  before SUnlock SWait stop_ops /\ before SWait SUnload stop_ops /\ before SUnload SOnStop stop_ops.
Proof.
  destruct stop_order as [_ H]. repeat split; apply H; cbn; auto 20.
Qed.

(* the model's order IS the source's order: mapping every operation to the program counter of
   Model/StopLife.v that stands for it and merging equal neighbours gives exactly owner_phases *)
Definition phase (o : stop_op) : option nat :=
  match o with
  | SDeferCloseExited => None
  | SExit | SCloseListeners | SShutdownWebsockets => Some O1
  | SLock | SSnapshotCloseClients | SSnapshotCloseConnecting | SUnlock => Some O2
  | SStartWaiter | SWait => Some O3
  | SUnload => Some O4
  | SOnStop => Some O5
  end.

Fixpoint phases (l : list stop_op) : list nat :=
  match l with
  | [] => []
  | o :: tl => match phase o with
               | None => phases tl
               | Some p => match phases tl with
                           | q :: r => if Nat.eqb p q then q :: r else p :: q :: r
                           | [] => [p]
                           end
               end
  end.

Theorem stop_order_is_model_order : phases stop_ops = owner_phases.
Proof. vm_compute. reflexivity. Qed.

(* and the model's owner does go through owner_phases in this order *)
Lemma owner_follows_phases : forall a s s', In s' (step_caller a s) ->
  (caller a s = O1 -> caller a s' = O2) /\
  (caller a s = O2 -> caller a s' = O3) /\
  (caller a s = O3 -> caller a s' = O4 \/ caller a s' = O7) /\
  (caller a s = O4 -> caller a s' = O5 /\ unl s' = S (unl s)) /\
  (caller a s = O5 -> caller a s' = O6 /\ ons s' = S (ons s)).
Proof.
  intros a s s' Hin. unfold step_caller in Hin.
  split; [|split; [|split; [|split]]]; intros Hc; rewrite Hc in Hin; cbn in Hin.
  - destruct Hin as [<-|[]]. destruct a; reflexivity.
  - destruct Hin as [<-|[]]. destruct a; reflexivity.
  - apply in_app_or in Hin as [Hin|Hin].
    + destruct ((negb (w1 s) || Nat.eqb (k1 s) 3) && (negb (w2 s) || Nat.eqb (k2 s) 3)); cbn in Hin; [|contradiction].
      destruct Hin as [<-|[]]. left. destruct a; reflexivity.
    + destruct (ctx_may_expire s); cbn in Hin; [|contradiction].
      destruct Hin as [<-|[]]. right. destruct a; reflexivity.
  - destruct Hin as [<-|[]]. destruct a; split; reflexivity.
  - destruct Hin as [<-|[]]. destruct a; split; reflexivity.
Qed.

(* the listeners are closed (O1) before the snapshot (O2) in the model as well: a state in which the
   owner is past O1 has no open listener *)
Definition listeners_closed_inv (s : sst) : bool :=
  let past (pc : nat) := negb (Nat.eqb pc C0) && negb (Nat.eqb pc O1) && negb (Nat.eqb pc C8) && negb (Nat.eqb pc C9) in
  negb (past (cA s) || past (cB s)) || negb (lst s).

Lemma listeners_closed_ok : all2 (fun b => invb_of listeners_closed_inv (sreach b)) = true.
Proof. vm_compute. reflexivity. Qed.

Theorem stop_order_all :
  ((forall o, count_op o stop_ops = 1) /\ (forall a b, In (a, b) required_order -> before a b stop_ops)) /\
  phases stop_ops = owner_phases.
Proof. exact (conj stop_order stop_order_is_model_order). Qed.
