(* ValidTopicFilter (a loop over utf8.DecodeRune with a "previous byte") against the level-based
   specification of MQTT 4.7.1 (valid_filter_spec): equal on every byte string. *)
From Coq Require Import List NArith ZArith Bool Lia ZifyN ZifyNat ZifyBool.
Import ListNotations.
From GM Require Import Base.Topic Base.Msg Model.TopicMatch Model.CodecBase Model.CodecSpec Oracle.C06O
  Proofs.TopicP Proofs.CodecBaseP Proofs.CodecStrP Proofs.CodecUtf8P Proofs.CodecTopicP.
Open Scope N_scope.
Ltac Zify.zify_post_hook ::= Z.div_mod_to_equations.

(* ---------------------------------------------------------------- the checks of the loop, byte by byte *)
Fixpoint fb (pb : N) (p : list N) : bool :=
  match p with
  | [] => true
  | c :: t =>
      negb ((c =? HASH) && negb (is_empty t))
      && (if ((c =? PLUS) || (c =? HASH)) && negb (pb =? SLASH) then false
          else if c =? PLUS then match t with [] => true | d :: _ => d =? SLASH end else true)
      && fb c t
  end.

Lemma fb_prev_irrel : forall pb1 pb2 p, pb1 <> SLASH -> pb2 <> SLASH -> fb pb1 p = fb pb2 p.
Proof.
  intros pb1 pb2 [|c t] H1 H2; [reflexivity|]. cbn [fb].
  replace (pb1 =? SLASH) with false by lia. replace (pb2 =? SLASH) with false by lia. reflexivity.
Qed.

Lemma fb_high : forall l rest pb x, forallb (fun b => 128 <=? b) l = true -> l <> [] -> x <> SLASH ->
  fb pb (l ++ rest) = fb x rest.
Proof.
  induction l as [|a l IH]; intros rest pb x Hl Hne Hx; [congruence|].
  cbn [forallb] in Hl. apply andb_prop in Hl. destruct Hl as [Ha Hl].
  cbn [app fb]. unfold HASH, PLUS, SLASH in *.
  replace (a =? 35) with false by lia. replace (a =? 43) with false by lia. cbn [andb orb negb].
  destruct l as [|b l'].
  - cbn [app]. apply fb_prev_irrel; unfold SLASH; lia.
  - apply IH; [assumption|discriminate|assumption].
Qed.

(* ---------------------------------------------------------------- the byte checks are the level rules *)
Definition Sv (p : str) : bool := valid_filter_levels (split p).
Definition Mv (p : str) : bool :=
  match split p with
  | l :: ls => negb (has_wild l) && (match ls with [] => true | _ => valid_filter_levels ls end)
  | [] => true
  end.

Lemma vfl_cons : forall l ls, valid_filter_levels (l :: ls) =
  match ls with
  | [] => is_plus l || is_hash l || negb (has_wild l)
  | _ => (is_plus l || negb (has_wild l)) && valid_filter_levels ls
  end.
Proof. intros l [|l2 ls]; reflexivity. Qed.

Lemma first_level_empty : forall t l ls, split t = l :: ls ->
  is_empty l = match t with [] => true | d :: _ => d =? SLASH end.
Proof.
  intros [|d t'] l ls H.
  - cbn in H. inversion H. reflexivity.
  - destruct (N.eqb_spec d SLASH) as [->|Hd].
    + rewrite split_cons_slash in H. inversion H. reflexivity.
    + destruct (split_cons_ns d t') as [l' [ls' [_ E]]]; [unfold SLASH in *; lia|].
      rewrite E in H. inversion H. reflexivity.
Qed.

Lemma split_single_empty : forall t l ls, split t = l :: ls ->
  is_empty l && nil_b ls = is_empty t.
Proof.
  intros [|d t'] l ls H.
  - cbn in H. inversion H. reflexivity.
  - destruct (N.eqb_spec d SLASH) as [->|Hd].
    + rewrite split_cons_slash in H. inversion H. subst.
      destruct (split t') eqn:E; [now apply split_nonempty in E|reflexivity].
    + destruct (split_cons_ns d t') as [l' [ls' [_ E]]]; [unfold SLASH in *; lia|].
      rewrite E in H. inversion H. reflexivity.
Qed.

Lemma is_plus_cons : forall l, is_plus (PLUS :: l) = is_empty l.
Proof. intros [|x l]; reflexivity. Qed.
Lemma is_hash_cons : forall l, is_hash (HASH :: l) = is_empty l.
Proof. intros [|x l]; reflexivity. Qed.
Lemma is_plus_other : forall c l, c <> PLUS -> is_plus (c :: l) = false.
Proof. intros c l H. unfold is_plus. cbn [str_eqb]. replace (c =? PLUS) with false by (unfold PLUS in *; lia). reflexivity. Qed.
Lemma is_hash_other : forall c l, c <> HASH -> is_hash (c :: l) = false.
Proof. intros c l H. unfold is_hash. cbn [str_eqb]. replace (c =? HASH) with false by (unfold HASH in *; lia). reflexivity. Qed.
Lemma has_wild_cons : forall c l, has_wild (c :: l) = (c =? PLUS) || (c =? HASH) || has_wild l.
Proof. reflexivity. Qed.

Lemma fb_levels : forall p, fb SLASH p = Sv p /\ (forall pb, pb <> SLASH -> fb pb p = Mv p).
Proof.
  induction p as [|c t [IHS IHM]].
  - split; [reflexivity|]. intros. reflexivity.
  - destruct (N.eqb_spec c SLASH) as [->|Hc].
    + (* a level separator *)
      assert (Hfb : forall pb, fb pb (SLASH :: t) = fb SLASH t) by (intros; reflexivity).
      assert (Hs : Sv (SLASH :: t) = Sv t /\ Mv (SLASH :: t) = Sv t).
      { unfold Sv, Mv. rewrite split_cons_slash. destruct (split t) as [|l ls] eqn:E; [now apply split_nonempty in E|].
        rewrite vfl_cons. split; reflexivity. }
      destruct Hs as [Hs1 Hs2]. split; [rewrite Hfb, Hs1; exact IHS|].
      intros pb _. rewrite Hfb, Hs2. exact IHS.
    + destruct (split_cons_ns c t) as [l [ls [Est Esc]]]; [unfold SLASH in *; lia|].
      assert (HMt : Mv t = negb (has_wild l) && (match ls with [] => true | _ => valid_filter_levels ls end))
        by (unfold Mv; rewrite Est; reflexivity).
      destruct (N.eqb_spec c PLUS) as [->|Hp]; [|destruct (N.eqb_spec c HASH) as [->|Hh]].
      * (* '+' *)
        split.
        -- cbn [fb]. cbn [N.eqb Pos.eqb PLUS HASH SLASH andb orb negb].
           change (fb 43 t) with (fb PLUS t). rewrite (IHM PLUS) by (unfold PLUS, SLASH; lia). rewrite HMt.
           unfold Sv. rewrite Esc, vfl_cons. rewrite is_plus_cons, has_wild_cons. cbn [N.eqb Pos.eqb PLUS orb negb].
           rewrite <- (first_level_empty t l ls Est).
           rewrite (is_hash_other PLUS l) by (unfold PLUS, HASH; lia).
           destruct l; destruct ls; cbn [is_empty has_wild existsb negb andb orb]; reflexivity.
        -- intros pb Hpb. cbn [fb]. cbn [N.eqb Pos.eqb PLUS HASH andb orb negb].
           replace (pb =? SLASH) with false by lia. cbn [negb andb].
           unfold Mv. rewrite Esc, has_wild_cons. reflexivity.
      * (* '#' *)
        split.
        -- cbn [fb]. cbn [N.eqb Pos.eqb PLUS HASH SLASH andb orb negb].
           unfold Sv. rewrite Esc, vfl_cons. rewrite is_hash_cons, has_wild_cons.
           rewrite is_plus_other by (unfold PLUS, HASH; lia). cbn [N.eqb Pos.eqb HASH PLUS orb negb andb].
           rewrite <- (split_single_empty t l ls Est).
           destruct t as [|d t'].
           ++ cbn in Est. inversion Est. reflexivity.
           ++ cbn [is_empty negb andb]. destruct ls; [|destruct l; reflexivity].
              rewrite orb_false_r. cbn [nil_b]. rewrite andb_true_r.
              destruct l; [|reflexivity]. exfalso.
              pose proof (split_single_empty (d :: t') [] [] Est) as Hx. cbn in Hx. discriminate.
        -- intros pb Hpb. cbn [fb]. cbn [N.eqb Pos.eqb PLUS HASH andb orb negb].
           replace (pb =? SLASH) with false by lia. cbn [negb andb]. rewrite ?andb_false_r.
           unfold Mv. rewrite Esc, has_wild_cons. cbn [N.eqb Pos.eqb HASH PLUS orb negb andb]. reflexivity.
      * (* an ordinary byte *)
        assert (Hfb : forall pb, fb pb (c :: t) = Mv t).
        { intros pb. cbn [fb]. replace (c =? HASH) with false by lia. replace (c =? PLUS) with false by lia.
          cbn [andb orb negb]. apply IHM. assumption. }
        assert (Hw : has_wild (c :: l) = has_wild l).
        { rewrite has_wild_cons. replace (c =? PLUS) with false by lia. replace (c =? HASH) with false by lia. reflexivity. }
        split.
        -- rewrite Hfb, HMt. unfold Sv. rewrite Esc, vfl_cons, Hw.
           rewrite is_plus_other, is_hash_other by assumption. destruct ls; cbn [orb]; rewrite ?andb_true_r; reflexivity.
        -- intros pb _. rewrite Hfb, HMt. unfold Mv. rewrite Esc, Hw. reflexivity.
Qed.

(* ---------------------------------------------------------------- the loop computes fb *)
Lemma filter_loop_bytes : forall fuel pb p, (length p < fuel)%nat ->
  valid_topic_filter_loop fuel false (Some pb) p = Ok (fb pb p && no_nul p).
Proof.
  induction fuel; intros pb p Hf; [lia|]. cbn [valid_topic_filter_loop].
  destruct p as [|p0 t] eqn:Ep; [reflexivity|]. rewrite <- Ep in *.
  assert (Hp : p <> []) by (subst; discriminate).
  destruct (rune_step p Hp) as [Hs Hl].
  destruct (decode_rune_size p Hp) as [Hs1 Hs2].
  pose proof (decode_rune_multi p) as Hm.
  pose proof (rune_nul p0 t) as Hz. cbv zeta in Hz. rewrite <- Ep in Hz.
  destruct (decode_rune p) as [ru size]. cbn [fst snd andb] in *.
  assert (Hnn : no_nul p = negb (ru =? 0) && no_nul (dropN size p)).
  { rewrite <- (take_drop _ p size) at 1. rewrite no_nul_app, Hz. reflexivity. }
  rewrite Hnn. clear Hnn Hz.
  destruct (ru =? 0); cbn [negb andb]; [rewrite andb_false_r; reflexivity|].
  rewrite Ep at 2. cbn [fb].
  destruct ((p0 =? HASH) && negb (is_empty t)); [reflexivity|]. cbn [negb andb].
  destruct (N.eqb_spec size 1) as [->|Hsz].
  - (* a one-byte step *)
    assert (Hd : dropN 1 p = t) by (subst p; change (dropN 1 (p0 :: t)) with (dropN 0 t); apply dropN_0).
    rewrite Hd in *.
    destruct (((p0 =? PLUS) || (p0 =? HASH)) && negb (pb =? SLASH)); [reflexivity|].
    destruct t as [|d t']; cbn [is_empty negb].
    + destruct (p0 =? PLUS); cbn [bind negb]; rewrite Hs; cbn [bind]; rewrite IHfuel by (cbn; lia); reflexivity.
    + destruct (p0 =? PLUS).
      * unfold idx. rewrite Hd. cbn [bind].
        destruct (d =? SLASH); cbn [negb]; [|reflexivity].
        rewrite Hs. cbn [bind]. rewrite IHfuel by (cbn [length] in *; lia). reflexivity.
      * cbn [bind negb]. rewrite Hs. cbn [bind]. rewrite IHfuel by (cbn [length] in *; lia). reflexivity.
  - (* a multi-byte rune: bytes >= 128, no checks *)
    cbn [bind negb]. rewrite Hs. cbn [bind]. rewrite IHfuel by lia.
    assert (Hhigh : forallb (fun x => 128 <=? x) (takeN size p) = true) by (apply Hm; lia).
    assert (Hp0 : 128 <= p0).
    { subst p. cbn [takeN] in Hhigh. replace (size =? 0) with false in Hhigh by lia. cbn [forallb] in Hhigh. lia. }
    unfold PLUS, HASH in *. replace (p0 =? 43) with false by lia. replace (p0 =? 35) with false by lia.
    cbn [orb andb]. f_equal. f_equal.
    assert (Hsplit : p0 :: t = takeN size p ++ dropN size p) by (rewrite take_drop; symmetry; exact Ep).
    assert (Hfb : fb pb (p0 :: t) = fb p0 t).
    { cbn [fb]. replace (p0 =? HASH) with false by (unfold HASH; lia). replace (p0 =? PLUS) with false by (unfold PLUS; lia). reflexivity. }
    rewrite <- Hfb. rewrite Hsplit. symmetry.
    rewrite (fb_high (takeN size p) (dropN size p) pb p0); [reflexivity|assumption| |unfold SLASH; lia].
    subst p. cbn [takeN]. replace (size =? 0) with false by lia. discriminate.
Qed.

(* ValidTopicFilter(false, s) is the specification's predicate (MQTT 4.7.1 level rules, non-empty,
   no null byte), on every byte string *)
Theorem filter_bytes_exact : forall s, valid_topic_filter_impl false s = Ok (valid_filter_spec s && no_nul s).
Proof.
  intros s. unfold valid_topic_filter_impl, valid_filter_spec. destruct s as [|c t] eqn:Es; [reflexivity|].
  rewrite <- Es. rewrite filter_loop_bytes by lia. destruct (fb_levels s) as [HS _]. rewrite HS.
  unfold Sv. subst s. reflexivity.
Qed.

Lemma filter_bytes_exact' : forall s, valid_utf8_impl s = Ok true ->
  valid_topic_filter_impl false s = Ok (spec_utf8 s && valid_filter_spec s).
Proof.
  intros s Hu. rewrite filter_bytes_exact. rewrite valid_utf8_impl_spec in Hu.
  destruct (spec_utf8 s) eqn:E; [|cbn in Hu; discriminate]. rewrite (G_no_nul s E), andb_true_r. reflexivity.
Qed.

(* ---------------------------------------------------------------- ValidTopicFilter(true, s) as the decoder uses it *)
Lemma filter_loop_must : forall fuel prev p, valid_utf8_loop fuel p = Ok true ->
  valid_topic_filter_loop fuel true prev p = valid_topic_filter_loop fuel false prev p.
Proof.
  induction fuel; intros prev p H; [reflexivity|]. cbn [valid_utf8_loop valid_topic_filter_loop] in *.
  destruct p as [|p0 t] eqn:Ep; [reflexivity|]. rewrite <- Ep in *.
  assert (Hp : p <> []) by (subst; discriminate).
  destruct (decode_rune_size p Hp) as [H1 _].
  destruct (decode_rune p) as [ru size]. cbn [fst snd] in *.
  destruct (ru <=? 31); [discriminate|]. destruct ((127 <=? ru) && (ru <=? 159)); [discriminate|].
  cbn [andb] in *. destruct ((ru =? RUNE_ERROR) && (size <=? 1)); [discriminate|].
  destruct (negb (valid_rune ru)); [discriminate|].
  destruct (ru =? 0); [reflexivity|].
  destruct ((p0 =? HASH) && negb (is_empty t)); [reflexivity|].
  match goal with |- bind ?x _ = bind ?x _ => destruct x as [ok| | |]; cbn [bind]; try reflexivity end.
  destruct (negb ok); [reflexivity|].
  replace (size =? 0) with false in H by lia.
  destruct (slice_from size p) as [p'| | |] eqn:Es; cbn [bind] in *; try reflexivity.
  now apply IHfuel.
Qed.

(* on every string the decoder passes to it (ValidUTF8 accepted it),
   ValidTopicFilter(true, s) gives the verdict of the specification *)
Theorem filter_decoder_exact : forall s,
  valid_utf8_impl s = Ok true -> valid_topic_filter_impl true s = Ok (spec_topic_filter s).
Proof.
  intros s Hu. unfold spec_topic_filter. rewrite <- (filter_bytes_exact' s Hu).
  unfold valid_topic_filter_impl. destruct s as [|c t] eqn:Es; [reflexivity|]. rewrite <- Es in *.
  apply filter_loop_must; assumption.
Qed.

(* ---------------------------------------------------------------- ValidV5Topic *)
(* valid strings split at an ASCII byte into valid strings *)
Lemma G_split : forall n g a rest, (length g <= n)%nat -> a < 128 ->
  G (g ++ a :: rest) = true -> G g = true /\ G (a :: rest) = true.
Proof.
  induction n; intros g a rest Hn Ha H.
  { destruct g; [|cbn in Hn; lia]. split; [reflexivity|exact H]. }
  destruct g as [|c g1]; [split; [reflexivity|exact H]|].
  cbn [app length] in *.
  destruct (N.ltb_spec c 128) as [H1|H1].
  { rewrite G_1 in H |- * by assumption. apply andb_prop in H. destruct H as [Hc Hg].
    destruct (IHn g1 a rest ltac:(lia) Ha Hg) as [Hg1 Hr]. rewrite Hc, Hg1. auto. }
  destruct (N.ltb_spec c 194) as [H2|H2]; [rewrite G_bad_lead in H by lia; discriminate|].
  destruct (N.ltb_spec 244 c) as [H3|H3]; [rewrite G_bad_lead in H by lia; discriminate|].
  assert (Hna : cont a = false) by (unfold cont; lia).
  assert (Hr3 : forall x, r3 x a = false) by (intros x; unfold r3, cont; destruct (x =? 224), (x =? 237); lia).
  assert (Hr4 : forall x, r4 x a = false) by (intros x; unfold r4, cont; destruct (x =? 240), (x =? 244); lia).
  destruct (N.ltb_spec c 224) as [H4|H4].
  { rewrite G_2 in H |- * by lia. destruct g1 as [|b g2]; cbn [app] in H.
    - rewrite Hna in H. discriminate.
    - apply andb_prop in H. destruct H as [Hc Hg].
      destruct (IHn g2 a rest ltac:(cbn [length] in Hn; lia) Ha Hg) as [Hg2 Hr]. rewrite Hc, Hg2. auto. }
  destruct (N.ltb_spec c 240) as [H5|H5].
  { rewrite G_3 in H |- * by lia. destruct g1 as [|b [|c2 g3]]; cbn [app] in H.
    - destruct rest; [discriminate|]. rewrite Hr3 in H. discriminate.
    - rewrite Hna, andb_false_r in H. discriminate.
    - apply andb_prop in H. destruct H as [Hc Hg].
      destruct (IHn g3 a rest ltac:(cbn [length] in Hn; lia) Ha Hg) as [Hg3 Hr]. rewrite Hc, Hg3. auto. }
  rewrite G_4 in H |- * by lia. destruct g1 as [|b [|c2 [|d g4]]]; cbn [app] in H.
  - destruct rest as [|x [|y rest']]; try discriminate. rewrite Hr4 in H. discriminate.
  - destruct rest; [discriminate|]. rewrite Hna, andb_false_r in H. discriminate.
  - rewrite Hna, andb_false_r in H. discriminate.
  - apply andb_prop in H. destruct H as [Hc Hg].
    destruct (IHn g4 a rest ltac:(cbn [length] in Hn; lia) Ha Hg) as [Hg4 Hr]. rewrite Hc, Hg4. auto.
Qed.

Lemma G_utf8 : forall s, valid_utf8_impl s = Ok (G s).
Proof. intros. unfold valid_utf8_impl. apply valid_utf8_loop_G. lia. Qed.
Lemma G_spec_utf8 : forall s, G s = true -> spec_utf8 s = true.
Proof. intros s H. unfold G, spec_utf8, no0 in *. destruct (utf8_wf s), (existsb (N.eqb 0) s); cbn in *; congruence. Qed.

(* the share-name scan, byte by byte *)
Fixpoint shb (u : list N) : res bool :=
  match u with
  | [] => Ok false
  | c :: t => if c =? SLASH then valid_topic_filter_impl true t
              else if (c =? PLUS) || (c =? HASH) then Ok false else shb t
  end.

Lemma shb_high : forall l rest, forallb (fun b => 128 <=? b) l = true -> shb (l ++ rest) = shb rest.
Proof.
  induction l as [|a l IH]; intros rest H; [reflexivity|]. cbn [forallb] in H. apply andb_prop in H. destruct H as [Ha Hl].
  cbn [app shb]. unfold SLASH, PLUS, HASH. replace (a =? 47) with false by lia. replace (a =? 43) with false by lia.
  replace (a =? 35) with false by lia. cbn [orb]. now apply IH.
Qed.

Lemma share_loop_bytes : forall fuel u, (length u < fuel)%nat ->
  valid_utf8_loop fuel u = Ok true -> v5_share_loop fuel u = shb u.
Proof.
  induction fuel; intros u Hlen H; [lia|]. cbn [valid_utf8_loop v5_share_loop] in *.
  destruct u as [|c t] eqn:Eu; [reflexivity|]. rewrite <- Eu in *.
  assert (Hp : u <> []) by (subst; discriminate).
  destruct (rune_step u Hp) as [Hs Hl]. destruct (decode_rune_size u Hp) as [H1 _].
  pose proof (decode_rune_multi u) as Hm.
  destruct (decode_rune u) as [ru size]. cbn [fst snd] in *.
  destruct (N.leb_spec ru 31) as [|Hru31]; [discriminate|]. destruct ((127 <=? ru) && (ru <=? 159)); [discriminate|].
  destruct ((ru =? RUNE_ERROR) && (size <=? 1)); [discriminate|].
  destruct (negb (valid_rune ru)); [discriminate|].
  replace (ru =? 0) with false by lia.
  replace (size =? 0) with false in H by lia. rewrite Hs in *. cbn [bind] in H.
  replace (shb u) with (if c =? SLASH then valid_topic_filter_impl true t
                        else if (c =? PLUS) || (c =? HASH) then Ok false else shb t) by (rewrite Eu; reflexivity).
  destruct (N.eqb_spec size 1) as [->|Hsz]; cbn [andb].
  - assert (Hd : dropN 1 u = t) by (subst u; change (dropN 1 (c :: t)) with (dropN 0 t); apply dropN_0).
    rewrite Hd in *. destruct (c =? SLASH).
    + rewrite ?Hs. cbn [bind]. reflexivity.
    + destruct ((c =? PLUS) || (c =? HASH)); [reflexivity|]. rewrite ?Hs. cbn [bind].
      apply IHfuel; [lia|assumption].
  - assert (Hhigh : forallb (fun x => 128 <=? x) (takeN size u) = true) by (apply Hm; lia).
    assert (Hc : 128 <= c).
    { subst u. cbn [takeN] in Hhigh. replace (size =? 0) with false in Hhigh by lia. cbn [forallb] in Hhigh. lia. }
    unfold SLASH, PLUS, HASH. replace (c =? 47) with false by lia. replace (c =? 43) with false by lia.
    replace (c =? 35) with false by lia. cbn [orb bind].
    rewrite IHfuel; [|lia|assumption].
    assert (Hsplit : c :: t = takeN size u ++ dropN size u) by (rewrite take_drop; symmetry; exact Eu).
    assert (Hshb : shb (c :: t) = shb t).
    { cbn [shb]. unfold SLASH, PLUS, HASH. replace (c =? 47) with false by lia. replace (c =? 43) with false by lia.
      replace (c =? 35) with false by lia. reflexivity. }
    rewrite <- Hshb, Hsplit. symmetry. now apply shb_high.
Qed.

Lemma cut_slash_cons : forall c t, cut_slash (c :: t) =
  if c =? SLASH then ([], Some t) else (c :: fst (cut_slash t), snd (cut_slash t)).
Proof. intros. cbn [cut_slash]. destruct (c =? SLASH); [reflexivity|]. destruct (cut_slash t); reflexivity. Qed.

Lemma shb_cut : forall u, shb u =
  match cut_slash u with
  | (g, Some flt) => if has_wild g then Ok false else valid_topic_filter_impl true flt
  | (_, None) => Ok false
  end.
Proof.
  induction u as [|c t IH]; [reflexivity|]. cbn [shb]. rewrite cut_slash_cons.
  destruct (c =? SLASH); [reflexivity|]. rewrite IH. destruct (cut_slash t) as [g [flt|]]; cbn [fst snd].
  - rewrite has_wild_cons. destruct ((c =? PLUS) || (c =? HASH)); reflexivity.
  - destruct ((c =? PLUS) || (c =? HASH)); reflexivity.
Qed.

Lemma cut_slash_app : forall u g flt, cut_slash u = (g, Some flt) -> u = g ++ SLASH :: flt.
Proof.
  induction u as [|c t IH]; intros g flt H; [discriminate|]. rewrite cut_slash_cons in H.
  destruct (N.eqb_spec c SLASH) as [->|Hc].
  - inversion H; subst. reflexivity.
  - destruct (cut_slash t) as [g' r] eqn:E. cbn [fst snd] in H. inversion H; subst.
    cbn [app]. f_equal. now apply IH.
Qed.

Lemma share_prefix_inv : forall s, has_prefix SHARE_PREFIX s = true -> exists u, s = SHARE_PREFIX ++ u.
Proof.
  intros s H. unfold SHARE_PREFIX in *.
  do 7 (destruct s as [|? s]; [cbn in H; repeat (apply andb_prop in H; destruct H as [_ H]); discriminate|]).
  cbn [has_prefix] in H.
  repeat (apply andb_prop in H; let H1 := fresh in destruct H as [H1 H]; apply N.eqb_eq in H1; subst).
  eexists. reflexivity.
Qed.

(* ValidV5Topic on every string the decoder passes to it (ValidUTF8 accepted it):
   the verdict of the specification (4.7.1 filters, 4.8.2 shared subscriptions) *)
Theorem v5_decoder_exact : forall s,
  valid_utf8_impl s = Ok true -> valid_v5_topic_impl s = Ok (spec_v5_filter s).
Proof.
  intros s Hu. unfold valid_v5_topic_impl, spec_v5_filter.
  destruct s as [|s0 st] eqn:Es; [reflexivity|]. rewrite <- Es in *.
  destruct (has_prefix SHARE_PREFIX s) eqn:Hpre; [|now apply filter_decoder_exact].
  destruct (share_prefix_inv s Hpre) as [u Hs].
  assert (HG : G s = true) by (rewrite G_utf8 in Hu; congruence).
  assert (HGu : G u = true).
  { rewrite Hs in HG. change (SHARE_PREFIX ++ u) with ([36; 115; 104; 97; 114; 101] ++ 47 :: u) in HG.
    apply (G_split 6) in HG; [|cbn; lia|lia]. destruct HG as [_ HG]. rewrite G_1 in HG by lia.
    apply andb_prop in HG. tauto. }
  assert (Hd7 : dropN 7 s = u) by (rewrite Hs; apply (dropN_app_exact SHARE_PREFIX u)).
  assert (Hlen : len s = 7 + len u) by (rewrite Hs, len_app; reflexivity).
  unfold spec_shared_filter. replace (skipn 7 s) with u by (rewrite Hs; reflexivity).
  rewrite shorter_spec. destruct (N.ltb_spec (len s) 9) as [Hshort|Hlong].
  { (* fewer than two bytes after "$share/" *)
    destruct u as [|x [|y u']]; [reflexivity| |rewrite !len_cons in Hlen; lia].
    rewrite cut_slash_cons. destruct (x =? SLASH); reflexivity. }
  destruct u as [|x ut] eqn:Eu; [rewrite len_nil in Hlen; lia|]. rewrite <- Eu in *.
  unfold idx. rewrite Hd7. rewrite Eu at 1. cbn [bind].
  destruct (N.eqb_spec x SLASH) as [->|Hx]; cbn [negb].
  { rewrite Eu, cut_slash_cons. reflexivity. }
  rewrite slice_from_ok by lia. rewrite Hd7. cbn [bind].
  rewrite share_loop_bytes; [|lia|].
  2:{ rewrite valid_utf8_loop_G by lia. now rewrite HGu. }
  rewrite shb_cut. destruct (cut_slash u) as [g [flt|]] eqn:Ecut; [|reflexivity].
  assert (Hgne : is_empty g = false).
  { rewrite Eu, cut_slash_cons in Ecut. replace (x =? SLASH) with false in Ecut by lia. inversion Ecut. reflexivity. }
  rewrite Hgne. cbn [negb andb].
  pose proof (cut_slash_app u g flt Ecut) as Hug.
  assert (HGs : G g = true /\ G (SLASH :: flt) = true).
  { rewrite Hug in HGu. apply (G_split (length g)) in HGu; [exact HGu|lia|unfold SLASH; lia]. }
  destruct HGs as [HGg HGf]. rewrite G_1 in HGf by (unfold SLASH; lia).
  apply andb_prop in HGf. destruct HGf as [_ HGf].
  rewrite (G_spec_utf8 g HGg), andb_true_r.
  destruct (has_wild g); [reflexivity|]. cbn [negb andb].
  apply filter_decoder_exact. rewrite G_utf8, HGf. reflexivity.
Qed.
