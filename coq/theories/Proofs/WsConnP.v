From Coq Require Import List NArith Arith Lia.
Import ListNotations.
From GM Require Import Model.WsConn.

Lemma skipn_add {A} (n m : nat) (l : list A) : skipn (n + m) l = skipn m (skipn n l).
Proof.
  revert l; induction n as [|n IH]; intros l; cbn [Nat.add].
  - reflexivity.
  - destruct l as [|x l]; cbn [skipn].
    + now rewrite skipn_nil.
    + apply IH.
Qed.

Lemma skipn_all_ge {A} (n : nat) (l : list A) : length l <= n -> skipn n l = [].
Proof. intros H; apply skipn_all2; exact H. Qed.

(* the bytes handed out by one copy plus what stays pending = what was pending *)
Lemma copy_step_conserve b r p c s' :
  copy_step b r p = (RData c, s') -> c ++ pending s' = skipn r b.
Proof.
  unfold copy_step; intros H; inversion H; subst; clear H.
  destruct (reset_cond _ _) eqn:E; unfold pending; cbn [buf rpos ws_init].
  - unfold reset_cond in E; apply Nat.leb_le in E.
    rewrite app_nil_r.
    assert (Hs : skipn (r + length (firstn p (skipn r b))) b = []) by (apply skipn_all_ge; exact E).
    rewrite skipn_add in Hs.
    rewrite <- (firstn_skipn p (skipn r b)) at 2.
    rewrite firstn_length in Hs.
    assert (Hs' : skipn p (skipn r b) = []).
    { destruct (Nat.le_ge_cases p (length (skipn r b))) as [Hle|Hge].
      - rewrite Nat.min_l in Hs by exact Hle. exact Hs.
      - apply skipn_all_ge; exact Hge. }
    rewrite Hs', app_nil_r; reflexivity.
  - rewrite skipn_add.
    rewrite firstn_length.
    destruct (Nat.le_ge_cases p (length (skipn r b))) as [Hle|Hge].
    + rewrite Nat.min_l by exact Hle. apply firstn_skipn.
    + rewrite Nat.min_r by exact Hge.
      rewrite (skipn_all_ge (length (skipn r b)) (skipn r b)) by lia.
      rewrite app_nil_r. apply firstn_all2; exact Hge.
Qed.

Lemma copy_step_is_data b r p : exists c s', copy_step b r p = (RData c, s').
Proof. unfold copy_step; eauto. Qed.

(* longest prefix of binary messages *)
Fixpoint upto_text (msgs : list wsmsg) : list wsmsg :=
  match msgs with
  | (Binary, b) :: rest => (Binary, b) :: upto_text rest
  | _ => []
  end.

Lemma upto_text_all_binary msgs : all_binary msgs = true -> upto_text msgs = msgs.
Proof.
  induction msgs as [|[t b] rest IH]; cbn; [reflexivity|].
  destruct t; cbn; [|discriminate]. intros H; now rewrite IH.
Qed.

(* state invariant: the cursor is 0 when no message is buffered *)
Definition ws_wf (s : wsst) : Prop := buf s = None -> rpos s = 0.

Lemma copy_step_wf b r p c s' : copy_step b r p = (RData c, s') -> ws_wf s'.
Proof.
  unfold copy_step; intros H; inversion H; subst.
  destruct (reset_cond _ _); unfold ws_wf; cbn; [reflexivity|discriminate].
Qed.

Lemma ws_read_wf s p msgs r s' msgs' : ws_wf s -> ws_read s p msgs = (r, s', msgs') -> ws_wf s'.
Proof.
  unfold ws_read; intros Hwf. destruct (buf s) as [b|] eqn:Eb.
  - destruct (copy_step b (rpos s) p) as [r0 s0] eqn:Ec. intros H; inversion H; subst.
    destruct (copy_step_is_data b (rpos s) p) as (c & s1 & Hc). rewrite Hc in Ec; inversion Ec; subst.
    eapply copy_step_wf; eauto.
  - destruct msgs as [|[t b] rest].
    + intros H; inversion H; subst; exact Hwf.
    + destruct t.
      * destruct (copy_step b (rpos s) p) as [r0 s0] eqn:Ec. intros H; inversion H; subst.
        destruct (copy_step_is_data b (rpos s) p) as (c & s1 & Hc). rewrite Hc in Ec; inversion Ec; subst.
        eapply copy_step_wf; eauto.
      * intros H; inversion H; subst; exact Hwf.
Qed.

(* The fetched message is copied from offset 0 (uses ws_wf): stated separately so the
   conservation lemma above is really about the messages' payloads. *)
Lemma ws_read_fetch_from_zero s p b rest :
  ws_wf s -> buf s = None ->
  ws_read s p ((Binary, b) :: rest) =
    (let '(r, s') := copy_step b 0 p in (r, s', rest)).
Proof. intros Hwf Hb. unfold ws_read. rewrite Hb, (Hwf Hb). reflexivity. Qed.

Definition stream_of (s : wsst) (msgs : list wsmsg) : list N :=
  pending s ++ payloads (upto_text msgs).

(* pending of a state with buf=None and the conservation equation when buf = None need
   rpos = 0 for `skipn (rpos s) b = b`; we phrase conservation with a corrected pending. *)
Lemma ws_read_stream s p msgs c s' msgs' :
  ws_wf s ->
  ws_read s p msgs = (RData c, s', msgs') ->
  c ++ stream_of s' msgs' = stream_of s msgs.
Proof.
  intros Hwf H. unfold stream_of.
  unfold ws_read in H. destruct (buf s) as [b|] eqn:Eb.
  - destruct (copy_step b (rpos s) p) as [r0 s0] eqn:Ec. inversion H; subst; clear H.
    apply copy_step_conserve in Ec. rewrite app_assoc, Ec. unfold pending; now rewrite Eb.
  - destruct msgs as [|[t b] rest]; [discriminate|]. destruct t; [|discriminate].
    rewrite (Hwf Eb) in H.
    destruct (copy_step b 0 p) as [r0 s0] eqn:Ec. inversion H; subst; clear H.
    apply copy_step_conserve in Ec. cbn [skipn] in Ec.
    unfold pending at 2; rewrite Eb; cbn [app upto_text].
    unfold payloads; cbn [map concat snd]. fold (payloads (upto_text msgs')).
    rewrite app_assoc, Ec. reflexivity.
Qed.

Lemma ws_reads_stream ps : forall s msgs cs e s' msgs',
  ws_wf s ->
  ws_reads s ps msgs = (cs, e, s', msgs') ->
  ws_wf s' /\
  (e <> Some RErrType -> concat cs ++ stream_of s' msgs' = stream_of s msgs) /\
  (e = Some RErrType -> concat cs = stream_of s msgs) /\
  (e = Some RErrEOF -> stream_of s' msgs' = [] /\ msgs' = []) /\
  (forall c, e <> Some (RData c)).
Proof.
  induction ps as [|p ps IH]; intros s msgs cs e s' msgs' Hwf H; cbn [ws_reads] in H.
  - inversion H; subst; clear H. split; [exact Hwf|]. split; [reflexivity|]. split; [discriminate|]. split; [discriminate|discriminate].
  - destruct (ws_read s p msgs) as [[r s1] msgs1] eqn:Er.
    destruct r as [c| |].
    + destruct (ws_reads s1 ps msgs1) as [[[cs1 e1] s2] msgs2] eqn:Ers.
      inversion H; subst; clear H.
      pose proof (ws_read_wf _ _ _ _ _ _ Hwf Er) as Hwf1.
      pose proof (ws_read_stream _ _ _ _ _ _ Hwf Er) as Hst.
      destruct (IH _ _ _ _ _ _ Hwf1 Ers) as (Hw & Hok & Hty & Heof & Hnd).
      split; [exact Hw|]. split; [|split; [|split]].
      * intros Hne. cbn [concat]. rewrite <- app_assoc, (Hok Hne). exact Hst.
      * intros He. cbn [concat]. rewrite (Hty He). exact Hst.
      * exact Heof.
      * exact Hnd.
    + inversion H; subst; clear H.
      split; [eapply ws_read_wf; eauto|]. split; [congruence|]. split; [|split; [discriminate|discriminate]].
      intros _. cbn [concat].
      unfold ws_read in Er. destruct (buf s) as [b|] eqn:Eb.
      * destruct (copy_step_is_data b (rpos s) p) as (c & s0 & Hc). rewrite Hc in Er; discriminate.
      * destruct msgs as [|[t b] rest]; [discriminate|]. destruct t.
        -- destruct (copy_step_is_data b (rpos s) p) as (c & s0 & Hc). rewrite Hc in Er; discriminate.
        -- unfold stream_of, pending; rewrite Eb; reflexivity.
    + inversion H; subst; clear H.
      unfold ws_read in Er. destruct (buf s) as [b|] eqn:Eb.
      * destruct (copy_step_is_data b (rpos s) p) as (c & s0 & Hc). rewrite Hc in Er; discriminate.
      * destruct msgs as [|[t b] rest].
        -- inversion Er; subst; clear Er.
           split; [exact Hwf|]. split; [|split; [discriminate|split; [|discriminate]]].
           ++ intros _; reflexivity.
           ++ intros _. unfold stream_of, pending; rewrite Eb; cbn. split; reflexivity.
        -- destruct t; [|discriminate].
           destruct (copy_step_is_data b (rpos s) p) as (c & s0 & Hc). rewrite Hc in Er; discriminate.
Qed.

(* ---- the statements used by Props/C18.v ---- *)

(* For every list of binary messages and every sequence of read sizes: what Read handed
   out, followed by what is still buffered or not yet fetched, is exactly the
   concatenation of the payloads: nothing lost, duplicated or reordered; no error other
   than end-of-stream, and at end-of-stream everything has been handed out. *)
Lemma read_stream_binary msgs ps cs e s' msgs' :
  all_binary msgs = true ->
  ws_reads ws_init ps msgs = (cs, e, s', msgs') ->
  concat cs ++ pending s' ++ payloads msgs' = payloads msgs /\
  (e = None \/ e = Some RErrEOF) /\
  (e = Some RErrEOF -> concat cs = payloads msgs).
Proof.
  intros Hb H.
  assert (Hwf : ws_wf ws_init) by (unfold ws_wf; reflexivity).
  destruct (ws_reads_stream ps _ _ _ _ _ _ Hwf H) as (_ & Hok & Hty & Heof & Hnd).
  assert (Hsuffix : all_binary msgs' = true /\ e <> Some RErrType).
  { clear Hok Hty Heof Hnd Hwf. revert msgs cs e s' msgs' Hb H. generalize ws_init as s.
    induction ps as [|p ps IH]; intros s msgs cs e s' msgs' Hb H; cbn [ws_reads] in H.
    - inversion H; subst; split; [exact Hb|discriminate].
    - destruct (ws_read s p msgs) as [[r s1] msgs1] eqn:Er.
      assert (Hb1 : all_binary msgs1 = true /\ r <> RErrType).
      { unfold ws_read in Er. destruct (buf s) as [b|].
        - destruct (copy_step_is_data b (rpos s) p) as (c & s0 & Hc). rewrite Hc in Er.
          inversion Er; subst. split; [exact Hb|discriminate].
        - destruct msgs as [|[t b] rest].
          + inversion Er; subst; split; [reflexivity|discriminate].
          + cbn in Hb. destruct t; [|discriminate].
            destruct (copy_step_is_data b (rpos s) p) as (c & s0 & Hc). rewrite Hc in Er.
            inversion Er; subst. split; [exact Hb|discriminate]. }
      destruct Hb1 as [Hb1 Hr].
      destruct r as [c| |]; [|congruence|].
      + destruct (ws_reads s1 ps msgs1) as [[[cs1 e1] s2] msgs2] eqn:Ers.
        inversion H; subst. eapply IH; eauto.
      + inversion H; subst. split; [exact Hb1|discriminate]. }
  destruct Hsuffix as [Hb' Hne].
  unfold stream_of in *. rewrite (upto_text_all_binary _ Hb) in *.
  rewrite (upto_text_all_binary _ Hb') in *. cbn [pending ws_init buf app] in *.
  split; [apply Hok; exact Hne|]. split.
  - destruct e as [r|]; [|now left]. destruct r as [c| |].
    + exfalso; eapply Hnd; reflexivity.
    + congruence.
    + now right.
  - intros He. pose proof (Hok Hne) as Hc. destruct (Heof He) as [H0 _].
    rewrite H0, app_nil_r in Hc. exact Hc.
Qed.

(* A text message is rejected, and exactly the binary payloads before it are handed out:
   nothing of the text message or of anything after it. *)
Lemma read_stream_text msgs ps cs e s' msgs' :
  ws_reads ws_init ps msgs = (cs, e, s', msgs') ->
  (exists rest, payloads (upto_text msgs) = concat cs ++ rest) /\
  (e = Some RErrType -> concat cs = payloads (upto_text msgs)).
Proof.
  intros H.
  assert (Hwf : ws_wf ws_init) by (unfold ws_wf; reflexivity).
  destruct (ws_reads_stream ps _ _ _ _ _ _ Hwf H) as (_ & Hok & Hty & _ & _).
  unfold stream_of in *. cbn [pending ws_init buf app] in *.
  split; [|exact Hty].
  destruct e as [r|].
  - destruct r as [c| |].
    + eexists; symmetry; apply Hok; discriminate.
    + exists []. rewrite app_nil_r. symmetry; apply Hty; reflexivity.
    + eexists; symmetry; apply Hok; discriminate.
  - eexists; symmetry; apply Hok; discriminate.
Qed.

Lemma first_text_rejected s p x rest :
  buf s = None -> ws_read s p ((Text, x) :: rest) = (RErrType, s, rest).
Proof. intros Hb; unfold ws_read; now rewrite Hb. Qed.

Lemma write_stream ps :
  payloads (ws_writes ps) = concat ps /\ all_binary (ws_writes ps) = true /\
  forall p, snd (ws_write p) = length p.
Proof.
  split; [|split; [|reflexivity]].
  - unfold payloads, ws_writes. rewrite map_map. cbn. now rewrite map_id.
  - unfold ws_writes, all_binary. rewrite forallb_forall. intros m Hm.
    apply in_map_iff in Hm. destruct Hm as (p & <- & _). reflexivity.
Qed.
