From Coq Require Import List NArith Bool Arith Lia ZifyN ZifyNat ZifyBool.
Import ListNotations.
From GM Require Import Base.Topic Base.Msg Model.SubTrie Model.SubSpec Model.RetTrie Model.FedQueue Model.FedRoute
  Oracle.C02O Oracle.C17O Proofs.TopicP Proofs.SubTrieP Proofs.RetTrieP Proofs.FedRouteP Proofs.FedSharedP.
Open Scope N_scope.

(* ------------------------------------------------------------------ *)
(* the plain part of the statement holds for every federation, with     *)
(* share groups present                                                *)
(* ------------------------------------------------------------------ *)

Lemma has_member_any t G l : has_member t G l = true -> has_any t l = true.
Proof.
  unfold has_member, has_any. intros H. apply existsb_exists in H as (s & Hs & H). apply existsb_exists. exists s. split; [exact Hs|].
  apply andb_true_iff in H as [H _]. now apply andb_true_iff in H as [_ H].
Qed.

Lemma has_plain_any t l : has_plain t l = true -> has_any t l = true.
Proof.
  unfold has_plain, has_any. intros H. apply existsb_exists in H as (s & Hs & H). apply existsb_exists. exists s. split; [exact Hs|].
  now apply andb_true_iff in H as [_ H].
Qed.

Lemma has_plain_elim t l : has_plain t l = true -> exists cl f, In (cl, [], f) l /\ topic_match t f = true.
Proof.
  unfold has_plain. intros H. apply existsb_exists in H as ([[cl g] f] & Hin & H). unfold lsub_match in H. cbn [fst snd] in H.
  apply andb_true_iff in H as [Hg Hm]. destruct g; [|discriminate]. cbn [is_empty] in Hm. now exists cl, f.
Qed.

Section Plain.
  Variables (c : rcase) (t : str).
  Hypothesis Hwf : wf_case c = true.
  Hypothesis Ht : t <> [].
  Hypothesis Hnw : no_wild_levels (split t) = true.

  Lemma fed_plain_ent n : In n (rc_peers c) -> has_plain t (subs_of n c) = true ->
    exists s, In (n, s) (ents (db_iterate (q_match true true true t) (db_run (fed_ops_of c)))) /\ is_empty (s_share s) = true.
  Proof.
    intros Hn Hp. apply has_plain_elim in Hp as (cl & f & Hin & Hm).
    destruct (lookup_all_exact (fed_ops_of c) t (wf_fed_ops c Hwf) Ht Hnw) as (lsh & lpl & Hall & _ & _ & _ & _ & Hsh & Hpl).
    assert (Hnn : sp_get (n, [], f) (spec_run (fed_ops_of c)) <> None) by (apply fed_spec_get; split; [exact Hn|now exists cl]).
    destruct (sp_get (n, [], f) (spec_run (fed_ops_of c))) as [v|] eqn:Hget; [|congruence].
    pose proof (sp_get_psub_val _ _ _ (fed_ops_psub c) Hget) as Hv. cbn [fst snd] in Hv. subst v.
    exists (plain_sub [] f). split; [|reflexivity]. rewrite Hall. apply in_or_app. right. apply Hpl.
    cbn [plain_sub s_share s_filter]. now split.
  Qed.

  Lemma local_plain_true : has_plain t (subs_of (rc_node c) c) = true -> fr_local_plain (case_state c []) t = true.
  Proof.
    intros Hp. apply has_plain_elim in Hp as (cl & f & Hin & Hm). unfold fr_local_plain, case_state. cbn [r_local].
    destruct (lookup_all_exact (local_ops_of c) t (wf_local_ops c Hwf) Ht Hnw) as (lsh & lpl & _ & _ & Hplq & _ & _ & _ & Hpl).
    rewrite Hplq.
    assert (Hnn : sp_get (cl, [], f) (spec_run (local_ops_of c)) <> None) by now apply local_spec_get.
    destruct (sp_get (cl, [], f) (spec_run (local_ops_of c))) as [v|] eqn:Hget; [|congruence].
    pose proof (sp_get_psub_val _ _ _ (local_ops_psub c) Hget) as Hv. cbn [fst snd] in Hv. subst v.
    assert (In (cl, plain_sub [] f) lpl) by (apply Hpl; cbn [plain_sub s_share s_filter]; now split).
    destruct lpl; [destruct H|reflexivity].
  Qed.
End Plain.

Section PlainOk.
  Variables (c : rcase) (cnt : list (str * N)) (m : msg).
  Hypothesis Hwf : wf_case c = true.
  Hypothesis Hnd : NoDup (rc_peers c).
  Hypothesis Hr : m_retained m = false.
  Hypothesis Ht : m_topic m <> [].
  Hypothesis Hnw : no_wild_levels (split (m_topic m)) = true.

  Let t := m_topic m.
  Let st := case_state c cnt.
  Let ev := EMsg (msg_event_form m).

  Definition SI (a : sacc) : Prop :=
    (forall p, In p (rc_peers c) -> aget p (sa_peers a) = Some (if mem_str p (sa_sent a) then [ev] else [])) /\
    (forall p, In p (sa_sent a) -> In p (rc_peers c) -> exists G, has_member t G (subs_of p c) = true) /\
    ((sa_drop a = false /\ sa_opts a = None) \/
     (fr_local_plain st t = false /\ sa_drop a = true /\ sa_opts a = None) \/
     (fr_local_plain st t = true /\ sa_drop a = false /\ sa_opts a = Some (q_match true false true t))).

  Lemma SI_step a k v : SI a -> v <> [] -> (forall x, In x v -> src_ok st t k x) -> SI (fr_shared_step st m a (k, v)).
  Proof.
    intros (H1 & H2 & H3) Hne Hv. unfold fr_shared_step.
    set (chosen := nth _ (sort_strs v) []).
    assert (Hch : In chosen v).
    { apply in_sort_strs. subst chosen. apply nth_mod_in. intros E. apply Hne. destruct v; [reflexivity|].
      apply (f_equal (@length str)) in E. rewrite length_sort_strs in E. discriminate. }
    assert (Hsrc : chosen = r_node st \/ (In chosen (rc_peers c) /\ has_member t k (subs_of chosen c) = true)).
    { destruct (Hv chosen Hch) as [[E _]|(s & Hin & He & <-)]; [now left|right].
      exact (fed_ent_shared c t Hwf Ht Hnw chosen s Hin He). }
    destruct (str_eqb_spec chosen (r_node st)) as [E|Hne0]; [now split|].
    destruct Hsrc as [E|[Hcp Hcm]]; [congruence|].
    destruct (mem_str chosen (sa_sent a)) eqn:Hms; [now split|].
    assert (Hah : ahas chosen (sa_peers a) = true) by (unfold ahas; now rewrite (H1 chosen Hcp)).
    rewrite Hah. fold t ev.
    assert (G1 : forall p, In p (rc_peers c) ->
                 aget p (push_event chosen ev (sa_peers a)) = Some (if mem_str p (sa_sent a ++ [chosen]) then [ev] else [])).
    { intros p Hp. rewrite aget_push, (H1 p Hp).
      assert (Hmem : mem_str p (sa_sent a ++ [chosen]) = mem_str p (sa_sent a) || str_eqb p chosen).
      { clear. induction (sa_sent a) as [|x r IH]; cbn [app mem_str]; [now rewrite orb_false_r|]. rewrite IH. now rewrite orb_assoc. }
      rewrite Hmem. destruct (str_eqb_spec p chosen) as [->|_]; [rewrite Hms; reflexivity|now rewrite orb_false_r]. }
    assert (G2 : forall p, In p (sa_sent a ++ [chosen]) -> In p (rc_peers c) -> exists G, has_member t G (subs_of p c) = true).
    { intros p Hp Hpp. apply in_app_or in Hp as [Hp|[<-|[]]]; [now apply H2|now exists k]. }
    destruct (fr_local_plain st t) eqn:Hlp; cbn [sa_sent sa_peers sa_drop sa_opts]; (split; [exact G1|split; [exact G2|]]).
    - right. right. split; [first [reflexivity|exact Hlp]|]. now split.
    - right. left. split; [first [reflexivity|exact Hlp]|]. split; [reflexivity|]. destruct H3 as [[_ H]|[(_ & _ & H)|(H & _)]]; [exact H|exact H|congruence].
  Qed.

  Lemma SI_fold l : forall a, SI a -> (forall k v, In (k, v) l -> v <> [] /\ forall x, In x v -> src_ok st t k x) ->
    SI (fold_left (fr_shared_step st m) l a).
  Proof.
    induction l as [|[k v] r IH]; intros a Ha H; cbn [fold_left]; [exact Ha|].
    apply IH; [|intros k' v' Hin; apply (H k' v'); now right].
    destruct (H k v (or_introl eq_refl)) as [Hne Hv]. now apply SI_step.
  Qed.
End PlainOk.

Lemma list_eqb_refl {A} (eqb : A -> A -> bool) (l : list A) : (forall x, eqb x x = true) -> list_eqb eqb l l = true.
Proof. intros H. induction l as [|x r IH]; cbn [list_eqb]; [reflexivity|]. now rewrite H, IH. Qed.

Lemma msg_eqb_refl m : msg_eqb m m = true.
Proof.
  unfold msg_eqb. rewrite !Bool.eqb_reflx, !N.eqb_refl, !str_eqb_refl.
  rewrite (list_eqb_refl N.eqb) by apply N.eqb_refl.
  rewrite (list_eqb_refl (fun x y : str * str => str_eqb (fst x) (fst y) && str_eqb (snd x) (snd y))); [reflexivity|].
  intros x. now rewrite !str_eqb_refl.
Qed.

Lemma in_emsgs n q n' m' : In (n', m') (emsgs n q) -> n' = n /\ In (EMsg m') q.
Proof.
  unfold emsgs. intros H. apply in_flat_map in H as (e & He & H). destruct e as [g f|t|m0]; [destruct H|destruct H|].
  destruct H as [E|[]]. injection E as <- <-. now split.
Qed.

(* the plain part of the oracle holds of the model for every federation in its stable
   state, whatever share groups and round-robin counters there are *)
Lemma fr_plain_ok_general c cnt m :
  wf_case c = true -> NoDup (rc_peers c) ->
  m_retained m = false -> m_topic m <> [] -> no_wild_levels (split (m_topic m)) = true ->
  plain_ok c m (case_obs c cnt m) = true.
Proof.
  intros Hwf Hnd Hr Ht Hnw. set (t := m_topic m) in *. set (st := case_state c cnt). set (ev := EMsg (msg_event_form m)).
  set (peers0 := map (fun n => (n, @nil fevent)) (rc_peers c)).
  set (a0 := {| sa_sent := []; sa_peers := peers0; sa_counters := cnt; sa_drop := false; sa_opts := None |}).
  set (a1 := fold_left (fr_shared_step st m) (fr_shared_list st t) a0).
  assert (Hsend : fr_send_message st m =
                  ({| r_node := r_node st; r_local := r_local st; r_fed := r_fed st; r_sent := sa_counters a1;
                      r_peers := fold_left (fun ps n => if mem_str n (sa_sent a1) then ps else push_event n ev ps) (fr_nonshared st t) (sa_peers a1) |},
                   sa_drop a1, sa_opts a1)).
  { unfold fr_send_message. rewrite Hr. reflexivity. }
  assert (HSI : SI c cnt m a1).
  { apply SI_fold; try assumption.
    - split; [|split; [intros p []|left; now split]].
      intros p Hp. subst a0 peers0. cbn [sa_peers sa_sent mem_str]. rewrite aget_init_peers. apply mem_str_In in Hp. now rewrite Hp.
    - intros k v Hin. exact (proj2 (shared_list_spec st t) k v Hin). }
  destruct HSI as (H1 & H2 & H3). fold t st ev in H1, H2, H3.
  (* the queue of every peer after the call *)
  set (peers' := fold_left (fun ps n => if mem_str n (sa_sent a1) then ps else push_event n ev ps) (fr_nonshared st t) (sa_peers a1)) in *.
  assert (HQ : forall p, In p (rc_peers c) ->
               aget p peers' = Some (if mem_str p (sa_sent a1) || mem_str p (fr_nonshared st t) then [ev] else [])).
  { intros p Hp. subst peers'. rewrite nonshared_fold_queue by apply nonshared_nodup. rewrite (H1 p Hp).
    destruct (mem_str p (sa_sent a1)); cbn [orb negb]; [now rewrite andb_false_r|]. rewrite andb_true_r.
    now destruct (mem_str p (fr_nonshared st t)). }
  assert (Hcount : forall p, In p (rc_peers c) ->
                   count_sent p (case_obs c cnt m) = if mem_str p (sa_sent a1) || mem_str p (fr_nonshared st t) then 1 else 0).
  { intros p Hp. rewrite (count_sent_case c cnt m p Hnd Hr). fold st. rewrite Hsend. cbn [fst r_peers]. fold peers'. rewrite (HQ p Hp).
    now destruct (mem_str p (sa_sent a1) || mem_str p (fr_nonshared st t)). }
  assert (Hkeys : map fst peers' = rc_peers c).
  { pose proof (keys_send st m Hr) as Hk. rewrite Hsend in Hk. cbn [fst r_peers] in Hk. fold peers' in Hk. rewrite Hk.
    unfold st, case_state. cbn [r_peers]. rewrite map_map. cbn [fst]. apply map_id. }
  assert (Hobs : case_obs c cnt m = {| po_sent := flat_map (fun p => emsgs (fst p) (snd p)) peers'; po_drop := sa_drop a1; po_opts := sa_opts a1 |}).
  { unfold case_obs. fold st. rewrite Hsend. unfold pub_obs_of. rewrite new_events_init; [reflexivity|].
    intros x. unfold st, case_state. cbn [r_peers]. rewrite aget_init_peers. now destruct (mem_str x (rc_peers c)). }
  unfold plain_ok. fold t. apply andb_true_iff. split; [apply andb_true_iff; split|].
  - (* integrity *)
    unfold integrity_ok. apply forallb_forall. intros [n' m'] Hin. rewrite Hobs in Hin. cbn [po_sent] in Hin.
    apply in_flat_map in Hin as ([n q] & Hp & Hin). cbn [fst snd] in Hin. apply in_emsgs in Hin as [-> Hq].
    assert (Hn : In n (rc_peers c)) by (rewrite <- Hkeys; apply in_map_iff; now exists (n, q)).
    cbn [fst snd]. apply mem_str_In in Hn as Hn'. rewrite Hn'. cbn [andb].
    assert (Hg : aget n peers' = Some q) by (apply In_aget; [rewrite Hkeys; exact Hnd|exact Hp]).
    rewrite (HQ n Hn) in Hg. injection Hg as <-.
    destruct (mem_str n (sa_sent a1) || mem_str n (fr_nonshared st t)); [|destruct Hq].
    destruct Hq as [E|[]]. injection E as <-. apply msg_eqb_refl.
  - (* the peers *)
    apply forallb_forall. intros p Hp. rewrite (Hcount p Hp).
    assert (HNS1 : mem_str p (fr_nonshared st t) = true -> has_plain t (subs_of p c) = true).
    { intros Hm. apply mem_str_In, nonshared_in in Hm as (s & Hin & He). now destruct (fed_ent_plain c t Hwf Ht Hnw p s Hin He). }
    assert (HNS2 : has_plain t (subs_of p c) = true -> mem_str p (fr_nonshared st t) = true).
    { intros Hpl. destruct (fed_plain_ent c t Hwf Ht Hnw p Hp Hpl) as (s & Hin & He). apply mem_str_In, nonshared_in. now exists s. }
    destruct (mem_str p (sa_sent a1)) eqn:Hs; cbn [orb].
    + apply mem_str_In in Hs. destruct (H2 p Hs Hp) as [G HG]. rewrite (has_member_any t G _ HG).
      cbn [orb andb N.leb N.eqb]. now rewrite orb_true_r.
    + destruct (mem_str p (fr_nonshared st t)) eqn:Hn.
      * rewrite (has_plain_any t _ (HNS1 eq_refl)). cbn [orb andb]. now rewrite orb_true_r.
      * destruct (has_plain t (subs_of p c)) eqn:Hpl; [specialize (HNS2 eq_refl); congruence|].
        cbn [negb orb andb]. now rewrite orb_true_r.
  - (* the origin's own non-shared subscribers *)
    apply forallb_forall. intros [[cl g] f] Hin. cbn [fst snd].
    destruct (is_empty g && lsub_match t (cl, g, f)) eqn:Hm; [|reflexivity]. cbn [negb orb].
    assert (Hlp : fr_local_plain st t = true).
    { apply (local_plain_true c t Hwf Ht Hnw). unfold has_plain. apply existsb_exists. exists (cl, g, f). split; [exact Hin|exact Hm]. }
    unfold origin_serves_plain. rewrite Hobs. cbn [po_drop po_opts].
    destruct H3 as [[-> ->]|[(E & _)|(_ & -> & ->)]]; [reflexivity|congruence|].
    cbn [negb andb]. unfold opts_wf, q_match. cbn [io_topic io_client io_mt io_sys io_nonshared is_empty].
    rewrite str_eqb_refl. cbn [andb]. now destruct (starts_dollar f).
Qed.
