(* What the decoder establishes: Properties.Unpack on well-formed bytes (every byte < 256)
   returns a Properties value satisfying props_inv (Proofs/CodecPropsP.v). *)
From Coq Require Import List NArith ZArith Bool Lia ZifyN ZifyNat ZifyBool Sorted.
Import ListNotations.
From GM Require Import Base.Topic Base.Msg Model.CodecBase Model.CodecProps
  Proofs.CodecBaseP Proofs.CodecStrP Proofs.CodecTotalP Proofs.CodecPropsP.
Open Scope N_scope.

Ltac Zify.zify_post_hook ::= Z.div_mod_to_equations.

Definition bytes_ok (l : list N) : Prop := Forall (fun x => x < 256) l.

Lemma bytes_ok_nil : bytes_ok []. Proof. constructor. Qed.
Lemma bytes_ok_cons : forall x l, bytes_ok (x :: l) -> x < 256 /\ bytes_ok l.
Proof. intros x l H. inversion H; auto. Qed.
Lemma bytes_ok_app : forall a b, bytes_ok (a ++ b) <-> bytes_ok a /\ bytes_ok b.
Proof. intros. apply Forall_app. Qed.
Lemma bytes_ok_takeN : forall n l, bytes_ok l -> bytes_ok (takeN n l).
Proof. intros n l H. rewrite <- (take_drop _ l n) in H. apply bytes_ok_app in H. tauto. Qed.
Lemma bytes_ok_dropN : forall n l, bytes_ok l -> bytes_ok (dropN n l).
Proof. intros n l H. rewrite <- (take_drop _ l n) in H. apply bytes_ok_app in H. tauto. Qed.
#[export] Hint Resolve bytes_ok_nil bytes_ok_takeN bytes_ok_dropN : cbytes.

(* ---------------------------------------------------------------- primitive readers *)
Lemma read_byte_inv : forall b x r, read_byte b = Ok (x, r) -> bytes_ok b -> x < 256 /\ bytes_ok r /\ b = x :: r.
Proof. intros [|y l] x r H Hb; [discriminate|]. inversion H; subst. apply bytes_ok_cons in Hb. tauto. Qed.

Lemma read_uint16_inv : forall b x r, read_uint16 b = Ok (x, r) -> bytes_ok b -> x < 65536 /\ bytes_ok r.
Proof.
  intros b x r H Hb. unfold read_uint16 in H. destruct (shorter b 2); [discriminate|].
  destruct b as [|a [|c l]]; cbn in H; try discriminate.
  apply bytes_ok_cons in Hb. destruct Hb as [Ha Hb]. apply bytes_ok_cons in Hb. destruct Hb as [Hc Hb].
  rewrite dropN_0 in H. inversion H; subst. split; [lia|assumption].
Qed.
Lemma read_uint32_inv : forall b x r, read_uint32 b = Ok (x, r) -> bytes_ok b -> x < 4294967296 /\ bytes_ok r.
Proof.
  intros b x r H Hb. unfold read_uint32 in H. destruct (shorter b 4); [discriminate|].
  destruct b as [|a [|c [|d [|e l]]]]; cbn in H; try discriminate.
  apply bytes_ok_cons in Hb. destruct Hb as [Ha Hb]. apply bytes_ok_cons in Hb. destruct Hb as [Hc Hb].
  apply bytes_ok_cons in Hb. destruct Hb as [Hd Hb]. apply bytes_ok_cons in Hb. destruct Hb as [He Hb].
  rewrite dropN_0 in H. inversion H; subst. split; [lia|assumption].
Qed.

Lemma read_vbi_bytes : forall b vbi mult v r, read_vbi b vbi mult = Ok (v, r) -> bytes_ok b -> bytes_ok r.
Proof.
  intros b vbi mult v r H Hb. apply read_vbi_suffix in H. destruct H as [pre ->].
  apply bytes_ok_app in Hb. tauto.
Qed.

Lemma read_utf8_string_inv : forall must b s r, read_utf8_string must b = Ok (s, r) -> bytes_ok b ->
  len s <= 65535 /\ bytes_ok s /\ bytes_ok r /\ (must = true -> impl_utf8 s = true).
Proof.
  intros must b s r H Hb. unfold read_utf8_string in H. destruct (shorter b 2); [discriminate|].
  destruct b as [|a [|c l]]; cbn [buf_next takeN dropN N.eqb N.pred Pos.pred_N Pos.pred_double be16 bind] in H; try discriminate.
  rewrite !dropN_0 in H.
  apply bytes_ok_cons in Hb. destruct Hb as [Ha Hb]. apply bytes_ok_cons in Hb. destruct Hb as [Hc Hb].
  rewrite shorter_spec in H. destruct (N.ltb_spec (len l) (a * 256 + c)); [discriminate|].
  assert (Hlen : len (takeN (a * 256 + c) l) <= 65535) by (rewrite takeN_len; lia).
  destruct must.
  - destruct (valid_utf8_impl _) as [[|]| | |] eqn:Eu; cbn [bind] in H; try discriminate.
    inversion H; subst. repeat split; auto with cbytes.
    intros _. unfold impl_utf8. rewrite Eu. reflexivity.
  - inversion H; subst. repeat split; auto with cbytes. discriminate.
Qed.

(* ---------------------------------------------------------------- sorted insertion *)
Lemma ps_set_in : forall id v l e, ps_get id l = None -> (In e (ps_set id v l) <-> e = (id, v) \/ In e l).
Proof.
  induction l as [|[k w] l IH]; intros e Hg; cbn [ps_set].
  - cbn. intuition.
  - cbn [ps_get] in Hg. destruct (N.eqb_spec k id); [discriminate|].
    destruct (id <? k); [cbn; intuition|].
    replace (id =? k) with false by lia. cbn [In]. rewrite IH by assumption. intuition.
Qed.
Lemma ps_set_sorted : forall id v l, StronglySorted id_lt l -> ps_get id l = None -> StronglySorted id_lt (ps_set id v l).
Proof.
  induction l as [|[k w] l IH]; intros Hs Hg; cbn [ps_set].
  - constructor; constructor.
  - cbn [ps_get] in Hg. destruct (N.eqb_spec k id); [discriminate|].
    inversion Hs as [|a l' Hs' Hall]; subst.
    destruct (N.ltb_spec id k).
    + constructor; [assumption|]. constructor; [unfold id_lt; cbn [fst]; lia|].
      rewrite Forall_forall in *. intros x Hx. specialize (Hall x Hx). unfold id_lt in *. cbn [fst] in *. lia.
    + replace (id =? k) with false by lia. constructor; [now apply IH|].
      rewrite Forall_forall in *. intros x Hx. apply ps_set_in in Hx; [|assumption].
      destruct Hx as [->|Hx]; [unfold id_lt; cbn [fst]; lia|now apply Hall].
Qed.
Lemma ps_get_set_other : forall id v l k, k <> id -> ps_get k (ps_set id v l) = ps_get k l.
Proof.
  induction l as [|[j w] l IH]; intros k Hk; cbn [ps_set ps_get].
  - replace (id =? k) with false by lia. reflexivity.
  - destruct (N.ltb_spec id j).
    + cbn [ps_get]. replace (id =? k) with false by lia. reflexivity.
    + destruct (N.eqb_spec id j).
      * subst. cbn [ps_get]. replace (j =? k) with false by lia. reflexivity.
      * cbn [ps_get]. destruct (j =? k); [reflexivity|]. now apply IH.
Qed.
Lemma ps_get_set_same : forall id v l, ps_get id (ps_set id v l) = Some v.
Proof.
  induction l as [|[j w] l IH]; cbn [ps_set ps_get].
  - rewrite N.eqb_refl. reflexivity.
  - destruct (N.ltb_spec id j).
    + cbn [ps_get]. rewrite N.eqb_refl. reflexivity.
    + destruct (N.eqb_spec id j).
      * cbn [ps_get]. rewrite N.eqb_refl. reflexivity.
      * cbn [ps_get]. replace (j =? id) with false by lia. assumption.
Qed.

(* ---------------------------------------------------------------- the loop invariant (everything but AuthData/AuthMethod) *)
Definition props_inv0 (pt : N) (p : props) : Prop :=
  StronglySorted id_lt (pr_single p)
  /\ (forall e, In e (pr_single p) -> validate_id pt (fst e) = true /\ sval_ok (fst e) (snd e) = true)
  /\ match pr_subid p with
     | [] => True
     | [v] => validate_id pt 11 = true /\ 1 <= v < 268435456
     | _ => False
     end
  /\ (pr_user p <> [] -> validate_id pt 38 = true)
  /\ (forall kv, In kv (pr_user p) -> istr_ok (fst kv) = true /\ istr_ok (snd kv) = true).

Lemma props_inv0_empty : forall pt, props_inv0 pt props_empty.
Proof.
  intros. unfold props_inv0, props_empty. cbn [pr_single pr_subid pr_user].
  repeat split; try constructor; try contradiction; intros; try contradiction; congruence.
Qed.

(* the loop of UnpackWillProperties accepts will properties only; their ids need not be
   whitelisted for CONNECT by ValidateID, so the invariant is parameterised by the check *)
Definition props_invw (okid : N -> bool) (p : props) : Prop :=
  StronglySorted id_lt (pr_single p)
  /\ (forall e, In e (pr_single p) -> okid (fst e) = true /\ sval_ok (fst e) (snd e) = true)
  /\ match pr_subid p with
     | [] => True
     | [v] => okid 11 = true /\ 1 <= v < 268435456
     | _ => False
     end
  /\ (pr_user p <> [] -> okid 38 = true)
  /\ (forall kv, In kv (pr_user p) -> istr_ok (fst kv) = true /\ istr_ok (snd kv) = true).

Lemma props_inv0_w : forall pt p, props_inv0 pt p <-> props_invw (validate_id pt) p.
Proof. intros. reflexivity. Qed.

Lemma read_single_inv : forall okid id k p b p' r,
  prop_kind id = Some k -> okid id = true ->
  read_single id k p b = Ok (p', r) -> bytes_ok b -> props_invw okid p ->
  props_invw okid p' /\ bytes_ok r.
Proof.
  intros okid id k p b p' r Ek Hid H Hb (Hs & Hok & Hsub & Hu & Huok).
  unfold read_single in H.
  destruct (ps_get id (pr_single p)) eqn:Eg; cbn [is_some] in H; [destruct k; discriminate|].
  assert (Hfin : forall v, sval_ok id v = true -> props_invw okid (set_single id v p)).
  { intros v Hv. unfold props_invw, set_single. cbn [pr_single pr_subid pr_user].
    split; [now apply ps_set_sorted|]. split; [|tauto].
    intros e He. apply ps_set_in in He; [|assumption]. destruct He as [->|He]; [cbn [fst snd]; tauto|now apply Hok]. }
  destruct k.
  - (* KBool *) destruct b as [|o l]; [discriminate|].
    destruct (negb (o =? 0) && negb (o =? 1)) eqn:Eo; [discriminate|]. inversion H; subst.
    apply bytes_ok_cons in Hb. split; [|tauto]. apply Hfin. unfold sval_ok. rewrite Ek. lia.
  - (* KU16 *) destruct (read_uint16 b) as [[o l]| | |] eqn:Er; cbn [remap bind] in H; try discriminate.
    apply read_uint16_inv in Er; [|assumption]. destruct Er as [Ho Hl].
    destruct ((id =? 33) && (o =? 0)) eqn:E1; [discriminate|].
    destruct ((id =? 35) && (o =? 0)) eqn:E2; [discriminate|]. inversion H; subst.
    split; [|assumption]. apply Hfin. unfold sval_ok. rewrite Ek.
    destruct (id =? 33), (id =? 35), (o =? 0); cbn in *; try discriminate; lia.
  - (* KU32 *) destruct (read_uint32 b) as [[o l]| | |] eqn:Er; cbn [remap bind] in H; try discriminate.
    apply read_uint32_inv in Er; [|assumption]. destruct Er as [Ho Hl].
    destruct ((id =? 39) && (o =? 0)) eqn:E1; [discriminate|]. inversion H; subst.
    split; [|assumption]. apply Hfin. unfold sval_ok. rewrite Ek.
    destruct (id =? 39), (o =? 0); cbn in *; try discriminate; lia.
  - (* KStr *) destruct (read_utf8_string true b) as [[o l]| | |] eqn:Er; cbn [bind] in H; try discriminate.
    apply read_utf8_string_inv in Er; [|assumption]. destruct Er as (Hl & Hso & Hbl & Hutf).
    assert (Histr : istr_ok o = true) by (unfold istr_ok; rewrite Hutf by reflexivity; lia).
    destruct (N.eqb_spec id 8).
    + destruct (valid_topic_name_impl true o) as [[|]| | |] eqn:En; cbn [bind] in H; try discriminate.
      inversion H; subst. split; [|assumption]. apply Hfin. unfold sval_ok. rewrite Ek, Histr.
      unfold impl_name. rewrite En. reflexivity.
    + inversion H; subst. split; [|assumption]. apply Hfin. unfold sval_ok. rewrite Ek, Histr.
      replace (id =? 8) with false by lia. reflexivity.
  - (* KBin *) destruct (read_utf8_string false b) as [[o l]| | |] eqn:Er; cbn [remap bind] in H; try discriminate.
    apply read_utf8_string_inv in Er; [|assumption]. destruct Er as (Hl & Hso & Hbl & _).
    inversion H; subst. split; [|assumption]. apply Hfin. unfold sval_ok. rewrite Ek. lia.
Qed.

Lemma read_user_inv : forall okid p b p' r,
  okid 38 = true -> read_user p b = Ok (p', r) -> bytes_ok b -> props_invw okid p -> props_invw okid p' /\ bytes_ok r.
Proof.
  intros okid p b p' r Hid H Hb (Hs & Hok & Hsub & Hu & Huok). unfold read_user in H.
  destruct (read_utf8_string true b) as [[k l]| | |] eqn:E1; cbn [remap bind] in H; try discriminate.
  apply read_utf8_string_inv in E1; [|assumption]. destruct E1 as (Hkl & _ & Hbl & Hku).
  destruct (read_utf8_string true l) as [[v l2]| | |] eqn:E2; cbn [remap bind] in H; try discriminate.
  apply read_utf8_string_inv in E2; [|assumption]. destruct E2 as (Hvl & _ & Hbl2 & Hvu).
  inversion H; subst. split; [|assumption].
  unfold props_invw. cbn [pr_single pr_subid pr_user].
  split; [exact Hs|]. split; [exact Hok|]. split; [exact Hsub|]. split; [intros _; exact Hid|].
  intros kv Hin. apply in_app_or in Hin. destruct Hin as [Hin|[<-|[]]]; [now apply Huok|].
  cbn [fst snd]. unfold istr_ok. rewrite Hku, Hvu by reflexivity. lia.
Qed.

Lemma read_subid_inv : forall okid p b p' r,
  okid 11 = true -> read_subid p b = Ok (p', r) -> bytes_ok b -> props_invw okid p -> props_invw okid p' /\ bytes_ok r.
Proof.
  intros okid p b p' r Hid H Hb (Hs & Hok & Hsub & Hu & Huok). unfold read_subid in H.
  destruct (pr_subid p) eqn:Esub; [|discriminate].
  destruct (read_varint b) as [[si l]| | |] eqn:E1; cbn [remap bind] in H; try discriminate.
  pose proof (read_varint_bound _ _ _ E1) as Hbound.
  apply read_vbi_bytes in E1; [|assumption].
  destruct (N.eqb_spec si 0); [discriminate|]. inversion H; subst.
  split; [|assumption]. unfold props_invw. cbn [pr_single pr_subid pr_user app].
  split; [exact Hs|]. split; [exact Hok|]. split; [split; [exact Hid|lia]|]. split; [exact Hu|exact Huok].
Qed.

Lemma props_loop_inv : forall fuel pt p b p',
  props_loop fuel pt p b = Ok p' -> bytes_ok b -> props_inv0 pt p -> props_inv0 pt p'.
Proof.
  induction fuel; intros pt p b p' H Hb Hinv; [discriminate|].
  destruct b as [|id r]; [inversion H; subst; assumption|].
  rewrite props_loop_step in H.
  destruct (validate_id pt id) eqn:Ev; cbn [negb] in H; [|discriminate].
  apply bytes_ok_cons in Hb. destruct Hb as [_ Hb].
  destruct (prop_reader id p r) as [[p1 r1]| | |] eqn:Er; cbn [bind] in H; try discriminate.
  assert (Hstep : props_inv0 pt p1 /\ bytes_ok r1).
  { unfold prop_reader in Er. rewrite props_inv0_w in *.
    destruct (N.eqb_spec id 11); [subst; eapply read_subid_inv; eauto|].
    destruct (N.eqb_spec id 38); [subst; eapply read_user_inv; eauto|].
    destruct (prop_kind id) eqn:Ek; [|discriminate]. rewrite <- props_inv0_w. rewrite props_inv0_w.
    eapply read_single_inv; eauto. }
  destruct Hstep. eapply IHfuel; eauto.
Qed.

(* Properties.Unpack *)
Theorem props_unpack_inv : forall pt b p r,
  props_unpack pt b = Ok (p, r) -> bytes_ok b -> props_inv pt p /\ bytes_ok r.
Proof.
  intros pt b p r H Hb. unfold props_unpack in H.
  assert (Hempty : props_inv pt props_empty).
  { destruct (props_inv0_empty pt) as (A & B & C & D & E).
    split; [exact A|]. split; [exact B|]. split; [exact C|]. split; [exact D|]. split; [exact E|].
    cbn. discriminate. }
  destruct b as [|b0 bt] eqn:Eb; [destruct (_ || _); [|discriminate]; inversion H; subst; split; [exact Hempty|constructor]|].
  rewrite <- Eb in *. clear Eb b0 bt.
  destruct (read_varint b) as [[n l]| | |] eqn:Ev; cbn [bind] in H; try discriminate.
  apply read_vbi_bytes in Ev; [|assumption].
  destruct (n =? 0).
  - inversion H; subst. split; [|assumption].
    destruct (props_inv0_empty pt) as (A & B & C & D & E).
    split; [exact A|]. split; [exact B|]. split; [exact C|]. split; [exact D|]. split; [exact E|].
    cbn. discriminate.
  - destruct (shorter l n); [discriminate|]. unfold buf_next in H.
    destruct (props_loop _ _ _ _) as [p1| | |] eqn:El; cbn [bind] in H; try discriminate.
    apply props_loop_inv in El; [|auto with cbytes|apply props_inv0_empty].
    destruct (is_some (ps_get 22 (pr_single p1)) && negb (is_some (ps_get 21 (pr_single p1)))) eqn:Ea; [discriminate|].
    inversion H; subst. split; [|auto with cbytes].
    destruct El as (A & B & C & D & E).
    split; [exact A|]. split; [exact B|]. split; [exact C|]. split; [exact D|]. split; [exact E|].
    intros H22. rewrite H22 in Ea. cbn [andb] in Ea. destruct (is_some (ps_get 21 _)); [reflexivity|discriminate].
Qed.

(* ---------------------------------------------------------------- UnpackWillProperties *)
Definition will_okid (id : N) : bool := will_prop_known id || (id =? 38).

Lemma will_props_loop_inv : forall fuel p b p',
  will_props_loop fuel p b = Ok p' -> bytes_ok b -> props_invw will_okid p -> props_invw will_okid p'.
Proof.
  induction fuel; intros p b p' H Hb Hinv; [discriminate|]. cbn [will_props_loop] in H.
  destruct b as [|id r]; [inversion H; subst; assumption|].
  apply bytes_ok_cons in Hb. destruct Hb as [_ Hb].
  destruct (N.eqb_spec id 38).
  - subst. destruct (read_user p r) as [[p1 r1]| | |] eqn:Er; cbn [bind] in H; try discriminate.
    eapply (read_user_inv will_okid) in Er; eauto. destruct Er. eapply IHfuel; eauto.
  - destruct (will_prop_known id) eqn:Ek; [|discriminate].
    destruct (prop_kind id) as [kd|] eqn:Ekd; [|discriminate].
    destruct (read_single id kd p r) as [[p1 r1]| | |] eqn:Er; cbn [bind] in H; try discriminate.
    eapply (read_single_inv will_okid) in Er; eauto.
    + destruct Er. eapply IHfuel; eauto.
    + unfold will_okid. rewrite Ek. reflexivity.
Qed.

Theorem will_props_unpack_inv : forall b p r,
  will_props_unpack b = Ok (p, r) -> bytes_ok b -> props_invw will_okid p /\ pr_subid p = [] /\ bytes_ok r.
Proof.
  intros b p r H Hb. unfold will_props_unpack in H.
  destruct (read_varint b) as [[n l]| | |] eqn:Ev; cbn [bind] in H; try discriminate.
  apply read_vbi_bytes in Ev; [|assumption].
  assert (He : props_invw will_okid props_empty).
  { unfold props_invw, props_empty. cbn [pr_single pr_subid pr_user].
    repeat split; try constructor; try contradiction; intros; try contradiction; congruence. }
  destruct (n =? 0).
  - inversion H; subst. auto.
  - destruct (shorter l n); [discriminate|]. unfold buf_next in H.
    destruct (will_props_loop _ _ _) as [p1| | |] eqn:El; cbn [bind] in H; try discriminate.
    inversion H; subst.
    apply will_props_loop_inv in El; [|auto with cbytes|assumption].
    split; [assumption|]. split; [|auto with cbytes].
    destruct El as (_ & _ & C & _). destruct (pr_subid p) as [|v [|w t]]; [reflexivity| |contradiction].
    destruct C as [C _]. discriminate.
Qed.
