(* C01 / C11 (broker level): what `deliver` (deliverMessage + flush + addMsgToQueueLocked of
   server/server.go) does to the session queues, for all states; the acknowledgement part
   of `handle_publish`. *)
From Coq Require Import List NArith ZArith Bool Arith Lia ZifyN ZifyNat ZifyBool Permutation Sorted.
Import ListNotations.
From GM Require Import Base.Topic Base.Msg Model.SubTrie Model.SubSpec Model.RetTrie Model.Queue Model.Limiter
  Model.TopicMatch Model.Broker Proofs.TopicP Proofs.SubTrieP.
Open Scope N_scope.

(* ================================================================== *)
(* 0. socket-keyed association lists, record setters                   *)
(* ================================================================== *)

Lemma nget_nset_same_val {V} (c : N) (k : V) (l : list (N * V)) : nget c l = Some k -> nset c k l = l.
Proof.
  induction l as [|[c0 v0] r IH]; cbn [nget nset]; intros H; [discriminate|].
  destruct (c =? c0) eqn:E.
  - apply N.eqb_eq in E. congruence.
  - now rewrite IH.
Qed.

Lemma conn_eta (k : conn) :
  {| k_cid := k_cid k; k_v := k_v k; k_phase := k_phase k; k_max_inflight := k_max_inflight k;
     k_client_max_packet := k_client_max_packet k; k_client_alias_max := k_client_alias_max k;
     k_server_alias_max := k_server_alias_max k; k_recv_max := k_recv_max k; k_keepalive := k_keepalive k;
     k_session_expiry := k_session_expiry k; k_retain_avail := k_retain_avail k; k_wildcard := k_wildcard k;
     k_subid := k_subid k; k_shared := k_shared k; k_lim := k_lim k; k_held := k_held k;
     k_alias_out := k_alias_out k; k_alias_in := k_alias_in k; k_alias_in_size := k_alias_in_size k;
     k_quota := k_quota k; k_clean_will := k_clean_will k; k_disc_sei := k_disc_sei k;
     k_got_disconnect := k_got_disconnect k; k_force_remove := k_force_remove k; k_drained := k_drained k |} = k.
Proof. destruct k; reflexivity. Qed.

Lemma upd_conn_same (c : N) (k : conn) (s : st) : nget c (b_conns s) = Some k -> upd_conn c k s = s.
Proof. intros H. unfold upd_conn. rewrite (nget_nset_same_val _ _ _ H). destruct s; reflexivity. Qed.

(* the oracle-resolved random choices: the only fields `take_pick` touches *)
Definition set_pk (p : list nat) (n : N) (s : st) : st :=
  {| b_cfg := b_cfg s; b_hooks := b_hooks s; b_now := b_now s; b_rt := b_rt s; b_sessions := b_sessions s;
     b_online := b_online s; b_offline := b_offline s; b_wills := b_wills s; b_subs := b_subs s; b_ret := b_ret s;
     b_queues := b_queues s; b_unacks := b_unacks s; b_conns := b_conns s; b_picks := p; b_tag := b_tag s;
     b_auto := b_auto s; b_npick := n |}.

Lemma set_pk_id (s : st) : set_pk (b_picks s) (b_npick s) s = s.
Proof. destruct s; reflexivity. Qed.

Lemma set_pk_set_pk p n p' n' s : set_pk p n (set_pk p' n' s) = set_pk p n s.
Proof. reflexivity. Qed.

Lemma take_pick_set_pk (n : nat) (s : st) : exists i p k, take_pick n s = (i, set_pk p k s).
Proof.
  unfold take_pick. destruct (b_picks s) as [|x r] eqn:E.
  - exists 0%nat, [], (b_npick s + 1). unfold count_pick, set_pk. now rewrite E.
  - exists (x mod Nat.max n 1)%nat, r, (b_npick s + 1). reflexivity.
Qed.

Lemma take_pick_lt (n : nat) (s : st) : (1 <= n)%nat -> (fst (take_pick n s) < n)%nat.
Proof.
  intros H. unfold take_pick. destruct (b_picks s) as [|x r]; cbn [fst]; [lia|].
  replace (Nat.max n 1) with n by lia. apply Nat.mod_upper_bound. lia.
Qed.

(* ================================================================== *)
(* 1. add_to_queue                                                     *)
(* ================================================================== *)

Definition nz (i : N) : bool := negb (i =? 0).

(* the copy queued for a subscription `sb`, carrying the identifiers `ids` *)
Definition copy_of (m : msg) (sb : sub) (ids : list N) : msg :=
  with_qos_etc m (if s_qos sb <? m_qos m then s_qos sb else m_qos m) (filter nz ids) (m_retained m && s_rap sb).

Definition aq_expiry (m' : msg) (s : st) : option N :=
  let now := b_now s in
  let ce := c_message_expiry (b_cfg s) in
  if negb (ce =? 0) then
    if negb (m_expiry m' =? 0) && (m_expiry m' <=? ce) then Some (now + m_expiry m' * 1000)
    else Some (now + ce * 1000)
  else if negb (m_expiry m' =? 0) then Some (now + m_expiry m' * 1000) else None.

Definition aq_elem (m : msg) (sb : sub) (ids : list N) (tag : N) (s : st) : elem :=
  {| e_tag := tag; e_at := b_now s; e_expiry := aq_expiry (copy_of m sb ids) s; e_body := QPub (copy_of m sb ids) |}.

(* the queue_qos0 rule: a QoS 0 message for an offline session is skipped *)
Definition aq_skip (cid : str) (m : msg) (s : st) : bool :=
  negb (c_queue_qos0 (b_cfg s)) && negb (ahas cid (b_online s)) && (m_qos m =? 0).

Definition q_push (e : elem) (q : queue) : queue := q_set (q_l q ++ [e]) (q_cur q) (q_drained q) q.

Definition enq (cid : str) (q' : queue) (s : st) : st :=
  set_picks_tag (b_picks s) (b_tag s + 1) (set_queues (aset cid q' (b_queues s)) s).

Lemma add_to_queue_unfold cid m sb ids s :
  add_to_queue cid m sb ids s =
  match aget cid (b_queues s) with
  | None => (s, [])
  | Some q =>
      if aq_skip cid m s then (s, [])
      else match q_add (b_now s) (aq_elem m sb ids (b_tag s) s) q with
           | QOk (q', evs) => (release_dropped cid evs (enq cid q' s), drops_of cid evs)
           | _ => (s, [])
           end
  end.
Proof. reflexivity. Qed.

(* the fields of a copy *)
Lemma copy_qos m sb ids : m_qos (copy_of m sb ids) = N.min (m_qos m) (s_qos sb).
Proof. unfold copy_of. cbn [with_qos_etc m_qos]. destruct (s_qos sb <? m_qos m) eqn:E; lia. Qed.
Lemma copy_retained m sb ids : m_retained (copy_of m sb ids) = m_retained m && s_rap sb.
Proof. reflexivity. Qed.
Lemma copy_subids m sb ids : m_subids (copy_of m sb ids) = m_subids m ++ filter nz ids.
Proof. reflexivity. Qed.
Lemma copy_dup m sb ids : m_dup (copy_of m sb ids) = false.
Proof. reflexivity. Qed.
Lemma copy_rest m sb ids :
  m_topic (copy_of m sb ids) = m_topic m /\ m_payload (copy_of m sb ids) = m_payload m /\
  m_pid (copy_of m sb ids) = m_pid m /\ m_ctype (copy_of m sb ids) = m_ctype m /\
  m_corr (copy_of m sb ids) = m_corr m /\ m_expiry (copy_of m sb ids) = m_expiry m /\
  m_pfmt (copy_of m sb ids) = m_pfmt m /\ m_resp (copy_of m sb ids) = m_resp m /\
  m_uprops (copy_of m sb ids) = m_uprops m.
Proof. repeat split. Qed.

(* projections of the setters *)
Lemma nset_keys {V} (c : N) (k k' : V) (l : list (N * V)) : nget c l = Some k -> map fst (nset c k' l) = map fst l.
Proof.
  induction l as [|[c0 v0] r IH]; cbn [nget nset]; intros H; [discriminate|].
  destruct (c =? c0) eqn:E; cbn [map fst].
  - apply N.eqb_eq in E. now subst.
  - now rewrite IH.
Qed.

Lemma release_dropped_frame cid evs s :
  let s' := release_dropped cid evs s in
  b_cfg s' = b_cfg s /\ b_hooks s' = b_hooks s /\ b_now s' = b_now s /\ b_rt s' = b_rt s /\
  b_sessions s' = b_sessions s /\ b_online s' = b_online s /\ b_offline s' = b_offline s /\
  b_wills s' = b_wills s /\ b_subs s' = b_subs s /\ b_ret s' = b_ret s /\ b_queues s' = b_queues s /\
  b_unacks s' = b_unacks s /\ b_picks s' = b_picks s /\ b_tag s' = b_tag s /\ b_auto s' = b_auto s /\
  b_npick s' = b_npick s /\ map fst (b_conns s') = map fst (b_conns s).
Proof.
  unfold release_dropped. destruct (aget cid (b_online s)) as [c|]; [|cbn; repeat split].
  destruct (nget c (b_conns s)) as [k|] eqn:E; [|cbn; repeat split].
  cbn. repeat split. eapply nset_keys. exact E.
Qed.

Lemma fold_lim_noop (evs : list qev) : forall (l : lim),
  (forall el, ~ In (EvDropped el DExpiredInflight) evs) ->
  fold_left (fun l e => match e with
                        | EvDropped el DExpiredInflight => lim_release (e_id el) l
                        | _ => l
                        end) evs l = l.
Proof.
  induction evs as [|e r IH]; intros l H; cbn [fold_left]; [reflexivity|].
  assert (Hr : forall el, ~ In (EvDropped el DExpiredInflight) r).
  { intros el Hin. apply (H el). now right. }
  destruct e as [el rs| |]; try now apply IH.
  destruct rs; try now apply IH.
  exfalso. apply (H el). now left.
Qed.

Lemma release_dropped_noop cid evs s :
  (forall el, ~ In (EvDropped el DExpiredInflight) evs) -> release_dropped cid evs s = s.
Proof.
  intros H. unfold release_dropped. destruct (aget cid (b_online s)) as [c|]; [|reflexivity].
  destruct (nget c (b_conns s)) as [k|] eqn:E; [|reflexivity].
  rewrite (fold_lim_noop evs (k_lim k) H). rewrite conn_eta. now apply upd_conn_same.
Qed.

Lemma q_add_room now e q : (length (q_l q) < q_max q)%nat -> q_add now e q = QOk (q_push e q, [EvQueue 1]).
Proof.
  intros H. unfold q_add. destruct (q_max q <=? length (q_l q))%nat eqn:E; [|reflexivity].
  apply Nat.leb_le in E. lia.
Qed.

Lemma add_to_queue_noqueue cid m sb ids s : aget cid (b_queues s) = None -> add_to_queue cid m sb ids s = (s, []).
Proof. intros H. rewrite add_to_queue_unfold, H. reflexivity. Qed.

Lemma add_to_queue_skipped cid m sb ids s : aq_skip cid m s = true -> add_to_queue cid m sb ids s = (s, []).
Proof. intros H. rewrite add_to_queue_unfold, H. destruct (aget cid (b_queues s)); reflexivity. Qed.

(* target 1: room in the queue, not skipped: the copy is appended, nothing is dropped *)
Lemma add_to_queue_room cid m sb ids s q :
  aget cid (b_queues s) = Some q -> aq_skip cid m s = false -> (length (q_l q) < q_max q)%nat ->
  add_to_queue cid m sb ids s = (enq cid (q_push (aq_elem m sb ids (b_tag s) s) q) s, []).
Proof.
  intros Hq Hs Hr. rewrite add_to_queue_unfold, Hq, Hs, (q_add_room _ _ _ Hr).
  rewrite release_dropped_noop; [reflexivity|].
  intros el [H|[]]. discriminate.
Qed.

Lemma enq_frame cid q' s :
  let s' := enq cid q' s in
  b_cfg s' = b_cfg s /\ b_hooks s' = b_hooks s /\ b_now s' = b_now s /\ b_rt s' = b_rt s /\
  b_sessions s' = b_sessions s /\ b_online s' = b_online s /\ b_offline s' = b_offline s /\
  b_wills s' = b_wills s /\ b_subs s' = b_subs s /\ b_ret s' = b_ret s /\
  b_unacks s' = b_unacks s /\ b_conns s' = b_conns s /\ b_picks s' = b_picks s /\ b_auto s' = b_auto s /\
  b_npick s' = b_npick s /\ b_tag s' = b_tag s + 1 /\ b_queues s' = aset cid q' (b_queues s).
Proof. cbn. repeat split. Qed.

Lemma ahas_aset {V} (k' k : str) (v : V) (l : list (str * V)) :
  ahas k' (aset k v l) = str_eqb k' k || ahas k' l.
Proof. unfold ahas. rewrite aget_aset. destruct (str_eqb k' k); reflexivity. Qed.

Definition is_dropped_of (cid : str) (o : out) : Prop := exists m r, o = ODropped cid m r.

Lemma drops_of_only cid evs : Forall (is_dropped_of cid) (drops_of cid evs).
Proof.
  unfold drops_of. induction evs as [|e r IH]; cbn [flat_map]; [constructor|].
  apply Forall_app. split; [|exact IH].
  destruct e as [el rs| |]; try constructor.
  destruct (e_body el) as [m|p]; constructor; [|constructor]. now exists m, rs.
Qed.

(* what add_to_queue does in every case (drops included) *)
Lemma add_to_queue_frame cid m sb ids s :
  let s' := fst (add_to_queue cid m sb ids s) in
  b_cfg s' = b_cfg s /\ b_hooks s' = b_hooks s /\ b_now s' = b_now s /\ b_rt s' = b_rt s /\
  b_sessions s' = b_sessions s /\ b_online s' = b_online s /\ b_offline s' = b_offline s /\
  b_wills s' = b_wills s /\ b_subs s' = b_subs s /\ b_ret s' = b_ret s /\
  b_unacks s' = b_unacks s /\ b_picks s' = b_picks s /\ b_auto s' = b_auto s /\ b_npick s' = b_npick s /\
  map fst (b_conns s') = map fst (b_conns s) /\
  (b_tag s <= b_tag s' <= b_tag s + 1) /\
  (forall c', c' <> cid -> aget c' (b_queues s') = aget c' (b_queues s)) /\
  (forall c', ahas c' (b_queues s') = ahas c' (b_queues s)) /\
  Forall (is_dropped_of cid) (snd (add_to_queue cid m sb ids s)).
Proof.
  assert (Triv : forall s0 : st, b_tag s0 <= b_tag s0 <= b_tag s0 + 1) by (intros; lia).
  rewrite add_to_queue_unfold.
  destruct (aget cid (b_queues s)) as [q|] eqn:Hq; [|cbn; repeat split; auto; apply Triv].
  destruct (aq_skip cid m s); [cbn; repeat split; auto; apply Triv|].
  destruct (q_add (b_now s) (aq_elem m sb ids (b_tag s) s) q) as [[q' evs]| | |];
    try (cbn; repeat split; auto; apply Triv).
  cbn [fst snd].
  pose proof (release_dropped_frame cid evs (enq cid q' s)) as F. cbn zeta in F.
  pose proof (enq_frame cid q' s) as G. cbn zeta in G.
  destruct F as (F1&F2&F3&F4&F5&F6&F7&F8&F9&F10&F11&F12&F13&F14&F15&F16&F17).
  destruct G as (G1&G2&G3&G4&G5&G6&G7&G8&G9&G10&G11&G12&G13&G14&G15&G16&G17).
  repeat split; try congruence.
  - rewrite F14, G16. lia.
  - rewrite F14, G16. lia.
  - intros c' Hc. rewrite F11, G17. now apply aget_aset_other.
  - intros c'. rewrite F11, G17, ahas_aset. destruct (str_eqb_spec c' cid) as [->|Hne]; [|reflexivity].
    unfold ahas. now rewrite Hq.
  - apply drops_of_only.
Qed.

(* add_to_queue neither reads nor writes the random choices *)
Lemma release_dropped_set_pk cid evs p n s :
  release_dropped cid evs (set_pk p n s) = set_pk p n (release_dropped cid evs s).
Proof.
  unfold release_dropped. cbn [set_pk b_online b_conns].
  destruct (aget cid (b_online s)) as [c|]; [|reflexivity].
  destruct (nget c (b_conns s)) as [k|]; reflexivity.
Qed.

Lemma add_to_queue_set_pk cid m sb ids p n s :
  add_to_queue cid m sb ids (set_pk p n s) =
  (set_pk p n (fst (add_to_queue cid m sb ids s)), snd (add_to_queue cid m sb ids s)).
Proof.
  rewrite !add_to_queue_unfold. cbn [set_pk b_queues].
  destruct (aget cid (b_queues s)) as [q|]; [|reflexivity].
  change (aq_skip cid m (set_pk p n s)) with (aq_skip cid m s).
  destruct (aq_skip cid m s); [reflexivity|].
  change (aq_elem m sb ids (b_tag (set_pk p n s)) (set_pk p n s)) with (aq_elem m sb ids (b_tag s) s).
  change (b_now (set_pk p n s)) with (b_now s).
  destruct (q_add (b_now s) (aq_elem m sb ids (b_tag s) s) q) as [[q' evs]| | |]; try reflexivity.
  cbn [fst snd]. f_equal.
  change (enq cid q' (set_pk p n s)) with (set_pk p n (set_pk p n (enq cid q' s))).
  rewrite set_pk_set_pk. apply release_dropped_set_pk.
Qed.

(* ================================================================== *)
(* 2. the structure of deliver                                         *)
(* ================================================================== *)

(* the subscriptions the store returns for the topic *)
Definition d_found (m : msg) (s : st) : list (cid * sub) :=
  match db_iterate (deliver_opts (m_topic m)) (b_subs s) with
  | IOk l => flat_map (fun e : ient => match snd e with Some x => [(fst e, x)] | None => [] end) l
  | IPanic => []
  end.
(* No Local: the publisher's own subscriptions with the option are left out *)
Definition nl_keep (src : str) (e : cid * sub) : bool := negb (s_nl (snd e) && str_eqb (fst e) src).
Definition d_ents (src : str) (m : msg) (s : st) : list (cid * sub) := filter (nl_keep src) (d_found m s).
Definition is_plain (e : cid * sub) : bool := is_empty (s_share (snd e)).
Definition d_plain (src : str) (m : msg) (s : st) := filter is_plain (d_ents src m s).
Definition d_shared (src : str) (m : msg) (s : st) := filter (fun e => negb (is_plain e)) (d_ents src m s).

Definition plain_step (m : msg) (acc : st * list out) (e : cid * sub) : st * list out :=
  let '(s0, o0) := acc in
  let '(s', o') := add_to_queue (fst e) m (snd e) [s_id (snd e)] s0 in (s', o0 ++ o').

Definition shared_step (m : msg) (acc : st * list out) (g : str * list (cid * sub)) : st * list out :=
  let '(s0, o0) := acc in
  let members := snd g in
  let '(i, s0') := match members with [_] => (0%nat, s0) | _ => take_pick (length members) s0 end in
  match nth_error members i with
  | Some (c, s_) => let '(s', o') := add_to_queue c m s_ [s_id s_] s0' in (s', o0 ++ o')
  | None => (s0', o0)
  end.

Definition best_of (subs : list sub) : list sub := filter (fun x => s_qos x =? max_qos_of subs) subs.

Definition once_step (m : msg) (acc : st * list out) (g : str * list sub) : st * list out :=
  let '(s0, o0) := acc in
  let subs := snd g in
  let best := best_of subs in
  let '(i, s0') := match best with [_] => (0%nat, s0) | _ => take_pick (length best) s0 end in
  match nth_error best i with
  | Some s_ => let '(s', o') := add_to_queue (fst g) m s_ (map s_id subs) s0' in (s', o0 ++ o')
  | None => (s0', o0)
  end.

Definition nonnil {A} (l : list A) : bool := match l with [] => false | _ => true end.

Lemma let_pair {A B C} (X : A * B) (f : A -> B -> C) : (let '(a, b) := X in f a b) = f (fst X) (snd X).
Proof. destruct X; reflexivity. Qed.

Lemma deliver_unfold src m s :
  deliver src m s =
  let r1 := if c_onlyonce (b_cfg s) then (s, []) else fold_left (plain_step m) (d_plain src m s) (s, []) in
  let r2 := fold_left (shared_step m) (group_shared (d_shared src m s) []) r1 in
  let r3 := if c_onlyonce (b_cfg s) then fold_left (once_step m) (group_by_client (d_plain src m s) []) r2 else r2 in
  (fst r3, snd r3, nonnil (d_ents src m s)).
Proof.
  unfold deliver. cbn zeta.
  destruct (c_onlyonce (b_cfg s)); rewrite !let_pair; rewrite <- !surjective_pairing; reflexivity.
Qed.

(* ================================================================== *)
(* 3. deliver as a list of add_to_queue calls                          *)
(* ================================================================== *)

Definition call := (cid * sub * list N)%type.
Definition call_cid (cl : call) : cid := fst (fst cl).
Definition call_sub (cl : call) : sub := snd (fst cl).
Definition call_ids (cl : call) : list N := snd cl.

Definition call_step (m : msg) (acc : st * list out) (cl : call) : st * list out :=
  let '(s', o') := add_to_queue (call_cid cl) m (call_sub cl) (call_ids cl) (fst acc) in (s', snd acc ++ o').
Definition run_calls (m : msg) (calls : list call) (acc : st * list out) : st * list out :=
  fold_left (call_step m) calls acc.

Lemma call_step_eq m s o cl :
  call_step m (s, o) cl =
  (fst (add_to_queue (call_cid cl) m (call_sub cl) (call_ids cl) s),
   o ++ snd (add_to_queue (call_cid cl) m (call_sub cl) (call_ids cl) s)).
Proof. unfold call_step. cbn [fst snd]. now rewrite let_pair. Qed.

Lemma run_calls_app m a b acc : run_calls m (a ++ b) acc = run_calls m b (run_calls m a acc).
Proof. apply fold_left_app. Qed.

Lemma run_calls_set_pk m p n calls : forall s o,
  run_calls m calls (set_pk p n s, o) =
  (set_pk p n (fst (run_calls m calls (s, o))), snd (run_calls m calls (s, o))).
Proof.
  induction calls as [|cl r IH]; intros s o; [reflexivity|].
  cbn [run_calls fold_left]. rewrite !call_step_eq, add_to_queue_set_pk. cbn [fst snd]. apply IH.
Qed.

Definition plain_call (e : cid * sub) : call := (fst e, snd e, [s_id (snd e)]).

Lemma plain_fold_calls m l : forall acc, fold_left (plain_step m) l acc = run_calls m (map plain_call l) acc.
Proof.
  induction l as [|e r IH]; intros [s o]; [reflexivity|].
  change (run_calls m (map plain_call (e :: r)) (s, o))
    with (run_calls m (map plain_call r) (call_step m (s, o) (plain_call e))).
  cbn [fold_left]. rewrite IH. reflexivity.
Qed.

(* a share group hands the message to exactly one of its members *)
Definition group_call (g : str * list (cid * sub)) (cl : call) : Prop :=
  In (call_cid cl, call_sub cl) (snd g) /\ call_ids cl = [s_id (call_sub cl)].

Lemma pick_in_range {A} (l : list A) (s : st) :
  l <> [] ->
  exists i p k x, match l with [_] => (0%nat, s) | _ => take_pick (length l) s end = (i, set_pk p k s) /\
                  nth_error l i = Some x.
Proof.
  intros Hne.
  assert (H : exists i p k, match l with [_] => (0%nat, s) | _ => take_pick (length l) s end = (i, set_pk p k s) /\
                            (i < length l)%nat).
  { destruct l as [|x [|y r]]; [congruence| |].
    - exists 0%nat, (b_picks s), (b_npick s). rewrite set_pk_id. cbn. split; [reflexivity|lia].
    - destruct (take_pick_set_pk (length (x :: y :: r)) s) as (i & p & k & E).
      exists i, p, k. split; [exact E|].
      pose proof (take_pick_lt (length (x :: y :: r)) s) as Hlt. rewrite E in Hlt. cbn [fst] in Hlt.
      apply Hlt. cbn. lia. }
  destruct H as (i & p & k & E & Hlt).
  destruct (nth_error l i) as [x|] eqn:En.
  - now exists i, p, k, x.
  - apply nth_error_None in En. lia.
Qed.

Lemma shared_fold_calls m groups :
  Forall (fun g : str * list (cid * sub) => snd g <> []) groups ->
  forall s o, exists calls p n,
    fold_left (shared_step m) groups (s, o) =
    (set_pk p n (fst (run_calls m calls (s, o))), snd (run_calls m calls (s, o))) /\
    Forall2 group_call groups calls.
Proof.
  induction 1 as [|g r Hg Hr IH]; intros s o.
  - exists [], (b_picks s), (b_npick s). cbn. rewrite set_pk_id. split; [reflexivity|constructor].
  - destruct (pick_in_range (snd g) s Hg) as (i & p & k & [c sb] & E & En).
    pose (cl := ((c, sb, [s_id sb]) : call)).
    assert (Es : shared_step m (s, o) g =
                 (set_pk p k (fst (add_to_queue (call_cid cl) m (call_sub cl) (call_ids cl) s)),
                  o ++ snd (add_to_queue (call_cid cl) m (call_sub cl) (call_ids cl) s))).
    { unfold shared_step. cbn zeta. rewrite E, En, let_pair. cbn [fst snd].
      now rewrite (add_to_queue_set_pk c m sb [s_id sb]). }
    cbn [fold_left]. rewrite Es.
    destruct (IH (set_pk p k (fst (add_to_queue (call_cid cl) m (call_sub cl) (call_ids cl) s)))
                 (o ++ snd (add_to_queue (call_cid cl) m (call_sub cl) (call_ids cl) s)))
      as (calls & p' & n' & Ef & F2).
    exists (cl :: calls), p', n'. split.
    + rewrite Ef, run_calls_set_pk. cbn [fst snd run_calls fold_left]. rewrite call_step_eq. reflexivity.
    + constructor; [|exact F2]. split; [|reflexivity]. cbn. eapply nth_error_In. exact En.
Qed.

(* onlyonce: the subscription used is one of highest QoS; all identifiers are carried *)
Definition once_call (g : str * list sub) (cl : call) : Prop :=
  call_cid cl = fst g /\ In (call_sub cl) (best_of (snd g)) /\ call_ids cl = map s_id (snd g).

Lemma max_fold (l : list sub) : forall a,
  let r := fold_left (fun a x => if a <? s_qos x then s_qos x else a) l a in
  a <= r /\ (forall x, In x l -> s_qos x <= r) /\ (r = a \/ exists x, In x l /\ s_qos x = r).
Proof.
  induction l as [|y t IH]; intros a; cbn [fold_left].
  - cbn. split; [lia|]. split; [intros x []|now left].
  - cbn zeta. specialize (IH (if a <? s_qos y then s_qos y else a)). cbn zeta in IH.
    destruct IH as (I1 & I2 & I3). set (r := fold_left _ t _) in *.
    split; [destruct (a <? s_qos y) eqn:E; lia|]. split.
    + intros x [->|Hx]; [destruct (a <? s_qos x) eqn:E; lia|now apply I2].
    + destruct I3 as [I3|(x & Hx & Ex)].
      * destruct (a <? s_qos y) eqn:E; [right; exists y; split; [now left|lia]|now left].
      * right. exists x. split; [now right|exact Ex].
Qed.

Lemma max_qos_ge subs x : In x subs -> s_qos x <= max_qos_of subs.
Proof. intros H. apply (max_fold subs 0). exact H. Qed.

Lemma best_of_spec subs x :
  In x (best_of subs) <-> In x subs /\ s_qos x = max_qos_of subs.
Proof. unfold best_of. rewrite filter_In. rewrite N.eqb_eq. tauto. Qed.

Lemma best_of_nonempty subs : subs <> [] -> best_of subs <> [].
Proof.
  intros Hne.
  assert (H : exists x, In x subs /\ s_qos x = max_qos_of subs).
  { destruct (max_fold subs 0) as (_ & H2 & [H3|H3]); [|exact H3].
    destruct subs as [|y t]; [congruence|]. exists y. split; [now left|].
    fold (max_qos_of (y :: t)) in *. specialize (H2 y (or_introl eq_refl)). lia. }
  destruct H as (x & Hx & Ex). intros E.
  assert (Hin : In x (best_of subs)) by (apply best_of_spec; now split).
  rewrite E in Hin. destruct Hin.
Qed.

Lemma once_fold_calls m groups :
  Forall (fun g : str * list sub => snd g <> []) groups ->
  forall s o, exists calls p n,
    fold_left (once_step m) groups (s, o) =
    (set_pk p n (fst (run_calls m calls (s, o))), snd (run_calls m calls (s, o))) /\
    Forall2 once_call groups calls.
Proof.
  induction 1 as [|g r Hg Hr IH]; intros s o.
  - exists [], (b_picks s), (b_npick s). cbn. rewrite set_pk_id. split; [reflexivity|constructor].
  - destruct (pick_in_range (best_of (snd g)) s (best_of_nonempty _ Hg)) as (i & p & k & sb & E & En).
    pose (cl := ((fst g, sb, map s_id (snd g)) : call)).
    assert (Es : once_step m (s, o) g =
                 (set_pk p k (fst (add_to_queue (call_cid cl) m (call_sub cl) (call_ids cl) s)),
                  o ++ snd (add_to_queue (call_cid cl) m (call_sub cl) (call_ids cl) s))).
    { unfold once_step. cbn zeta. rewrite E, En, let_pair. cbn [fst snd].
      now rewrite (add_to_queue_set_pk (fst g) m sb (map s_id (snd g))). }
    cbn [fold_left]. rewrite Es.
    destruct (IH (set_pk p k (fst (add_to_queue (call_cid cl) m (call_sub cl) (call_ids cl) s)))
                 (o ++ snd (add_to_queue (call_cid cl) m (call_sub cl) (call_ids cl) s)))
      as (calls & p' & n' & Ef & F2).
    exists (cl :: calls), p', n'. split.
    + rewrite Ef, run_calls_set_pk. cbn [fst snd run_calls fold_left]. rewrite call_step_eq. reflexivity.
    + constructor; [|exact F2]. split; [reflexivity|]. split; [|reflexivity]. cbn. eapply nth_error_In. exact En.
Qed.

(* ================================================================== *)
(* 4. grouping (by share name / by client)                             *)
(* ================================================================== *)

Section Grouping.
  Context {A B : Type} (key : A -> str) (val : A -> B).

  Fixpoint group_gen (l : list A) (acc : list (str * list B)) : list (str * list B) :=
    match l with
    | [] => acc
    | x :: r => group_gen r (aset (key x) (opt_or (aget (key x) acc) [] ++ [val x]) acc)
    end.

  Definition opt_app (o : option (list B)) (extra : list B) : option (list B) :=
    match extra with [] => o | _ => Some (opt_or o [] ++ extra) end.

  Definition with_key (k : str) (l : list A) : list A := filter (fun x => str_eqb (key x) k) l.

  Lemma group_gen_get k l : forall acc,
    aget k (group_gen l acc) = opt_app (aget k acc) (map val (with_key k l)).
  Proof.
    induction l as [|x r IH]; intros acc; cbn [group_gen with_key filter map]; [reflexivity|].
    rewrite IH, aget_aset. fold (with_key k r).
    destruct (str_eqb_spec k (key x)) as [E|E].
    - subst k. rewrite str_eqb_refl. cbn [map opt_app opt_or].
      destruct (map val (with_key (key x) r)) as [|y t]; cbn [opt_app opt_or].
      + reflexivity.
      + now rewrite <- app_assoc.
    - destruct (str_eqb_spec (key x) k) as [E'|E']; [congruence|reflexivity].
  Qed.

  Lemma group_gen_nodup l : forall acc, NoDup (map fst acc) -> NoDup (map fst (group_gen l acc)).
  Proof. induction l as [|x r IH]; intros acc H; cbn [group_gen]; [exact H|]. apply IH. now apply NoDup_aset. Qed.

  Lemma Forall_aset {V} (P : str * V -> Prop) k v (l : list (str * V)) : Forall P l -> P (k, v) -> Forall P (aset k v l).
  Proof.
    induction 1 as [|[k0 v0] r H0 Hr IH]; intros Hk; cbn [aset].
    - constructor; [exact Hk|constructor].
    - destruct (str_eqb k k0); constructor; auto.
  Qed.

  Lemma group_gen_nonempty l : forall acc,
    Forall (fun g : str * list B => snd g <> []) acc -> Forall (fun g => snd g <> []) (group_gen l acc).
  Proof.
    induction l as [|x r IH]; intros acc H; cbn [group_gen]; [exact H|]. apply IH.
    apply Forall_aset; [exact H|]. cbn [snd]. intros E. apply app_eq_nil in E as [_ E]. discriminate.
  Qed.

  Lemma group_gen_in k vs l :
    In (k, vs) (group_gen l []) <-> vs = map val (with_key k l) /\ vs <> [].
  Proof.
    pose proof (group_gen_nodup l [] (NoDup_nil _)) as Hnd.
    pose proof (group_gen_get k l []) as Hg. cbn [aget] in Hg.
    split.
    - intros Hin. apply (In_aget _ _ _ Hnd) in Hin. rewrite Hin in Hg.
      destruct (map val (with_key k l)) as [|y t]; cbn [opt_app opt_or app] in Hg; [discriminate|].
      injection Hg as ->. split; [reflexivity|discriminate].
    - intros [-> Hne]. apply aget_In. rewrite Hg.
      destruct (map val (with_key k l)) as [|y t]; [congruence|reflexivity].
  Qed.

  (* the groups partition the list: counting *)
  Lemma count_aset_snoc (p : B -> bool) k x : forall acc : list (str * list B),
    length (filter p (flat_map snd (aset k (opt_or (aget k acc) [] ++ [x]) acc))) =
    (length (filter p (flat_map snd acc)) + length (filter p [x]))%nat.
  Proof.
    induction acc as [|[k0 v0] r IH]; cbn [aget aset].
    - cbn. reflexivity.
    - destruct (str_eqb k k0) eqn:E; cbn [flat_map snd opt_or].
      + rewrite !filter_app, !app_length. cbn [filter]. lia.
      + rewrite !filter_app, !app_length, IH. lia.
  Qed.

  Lemma group_gen_count (p : B -> bool) l : forall acc,
    length (filter p (flat_map snd (group_gen l acc))) =
    (length (filter p (flat_map snd acc)) + length (filter p (map val l)))%nat.
  Proof.
    induction l as [|x r IH]; intros acc; cbn [group_gen map]; [cbn; lia|].
    rewrite IH, count_aset_snoc. cbn [filter]. destruct (p (val x)); cbn [length]; lia.
  Qed.
End Grouping.

Lemma group_shared_gen l : forall acc,
  group_shared l acc = group_gen (fun e : cid * sub => full_name (snd e)) (fun e => e) l acc.
Proof. induction l as [|[c sb] r IH]; intros acc; cbn [group_shared group_gen snd]; [reflexivity|]. apply IH. Qed.

Lemma group_by_client_gen l : forall acc,
  group_by_client l acc = group_gen (fun e : cid * sub => fst e) (fun e => snd e) l acc.
Proof. induction l as [|[c sb] r IH]; intros acc; cbn [group_by_client group_gen fst snd]; [reflexivity|]. apply IH. Qed.

(* the members of the share group with full topic name k: all matching entries of that name, in order *)
Lemma group_shared_in k members l :
  In (k, members) (group_shared l []) <->
  members = filter (fun e => str_eqb (full_name (snd e)) k) l /\ members <> [].
Proof. rewrite group_shared_gen, group_gen_in. unfold with_key. now rewrite map_id. Qed.

Lemma group_shared_nodup l : NoDup (map fst (group_shared l [])).
Proof. rewrite group_shared_gen. apply group_gen_nodup. constructor. Qed.

Lemma group_shared_nonempty l : Forall (fun g : str * list (cid * sub) => snd g <> []) (group_shared l []).
Proof. rewrite group_shared_gen. apply group_gen_nonempty. constructor. Qed.

Lemma group_by_client_in c subs l :
  In (c, subs) (group_by_client l []) <->
  subs = map snd (filter (fun e => str_eqb (fst e) c) l) /\ subs <> [].
Proof. rewrite group_by_client_gen, group_gen_in. reflexivity. Qed.

Lemma group_by_client_nodup l : NoDup (map fst (group_by_client l [])).
Proof. rewrite group_by_client_gen. apply group_gen_nodup. constructor. Qed.

Lemma group_by_client_nonempty l : Forall (fun g : str * list sub => snd g <> []) (group_by_client l []).
Proof. rewrite group_by_client_gen. apply group_gen_nonempty. constructor. Qed.

(* ================================================================== *)
(* 5. deliver = a list of add_to_queue calls (all states, all pick values) *)
(* ================================================================== *)

Definition d_groups (src : str) (m : msg) (s : st) := group_shared (d_shared src m s) [].
Definition d_clients (src : str) (m : msg) (s : st) := group_by_client (d_plain src m s) [].

Record deliver_shape (src : str) (m : msg) (s : st) (cl1 cl2 cl3 : list call) : Prop := {
  ds_plain : cl1 = if c_onlyonce (b_cfg s) then [] else map plain_call (d_plain src m s);
  ds_shared : Forall2 group_call (d_groups src m s) cl2;
  ds_once : if c_onlyonce (b_cfg s) then Forall2 once_call (d_clients src m s) cl3 else cl3 = [] }.

Theorem deliver_calls src m s :
  exists cl1 cl2 cl3 p n,
    deliver_shape src m s cl1 cl2 cl3 /\
    deliver src m s =
    (set_pk p n (fst (run_calls m (cl1 ++ cl2 ++ cl3) (s, []))),
     snd (run_calls m (cl1 ++ cl2 ++ cl3) (s, [])), nonnil (d_ents src m s)).
Proof.
  rewrite deliver_unfold. cbn zeta.
  destruct (c_onlyonce (b_cfg s)) eqn:Eo.
  - destruct (shared_fold_calls m _ (group_shared_nonempty (d_shared src m s)) s []) as (cl2 & p & n & E2 & F2).
    rewrite E2.
    destruct (once_fold_calls m _ (group_by_client_nonempty (d_plain src m s))
                (set_pk p n (fst (run_calls m cl2 (s, [])))) (snd (run_calls m cl2 (s, []))))
      as (cl3 & p' & n' & E3 & F3).
    rewrite E3, run_calls_set_pk. cbn [fst snd]. rewrite set_pk_set_pk.
    exists [], cl2, cl3, p', n'. split.
    + constructor; rewrite ?Eo; auto.
    + cbn [app]. rewrite run_calls_app. rewrite <- (surjective_pairing (run_calls m cl2 (s, []))). reflexivity.
  - rewrite plain_fold_calls.
    destruct (run_calls m (map plain_call (d_plain src m s)) (s, [])) as [s1 o1] eqn:E1.
    destruct (shared_fold_calls m _ (group_shared_nonempty (d_shared src m s)) s1 o1) as (cl2 & p & n & E2 & F2).
    rewrite E2. cbn [fst snd].
    exists (map plain_call (d_plain src m s)), cl2, [], p, n. split.
    + constructor; rewrite ?Eo; auto.
    + rewrite app_nil_r, run_calls_app, E1. reflexivity.
Qed.

(* target 5 (C11): one add_to_queue call per share group with a matching member, for a member of
   that group, whatever the pick values are; every call of deliver is for a matching entry *)
Lemma group_call_member src m s g cl :
  In g (d_groups src m s) -> group_call g cl ->
  In (call_cid cl, call_sub cl) (d_shared src m s) /\ full_name (call_sub cl) = fst g.
Proof.
  intros Hg [Hin _]. destruct g as [k members]. unfold d_groups in Hg.
  apply group_shared_in in Hg as [-> _]. cbn [snd fst] in *.
  apply filter_In in Hin as [Hin Hk]. cbn [snd] in Hk. apply str_eqb_eq in Hk. now split.
Qed.

(* ================================================================== *)
(* 6. run_calls when nothing is dropped                                *)
(* ================================================================== *)

Definition calls_for (c : cid) (calls : list call) : list call := filter (fun cl => str_eqb c (call_cid cl)) calls.

(* every queue that gets copies has room for all of them, and the queue_qos0 rule skips none *)
Definition room_for (m : msg) (s : st) (calls : list call) : Prop :=
  forall c q, aget c (b_queues s) = Some q -> calls_for c calls <> [] ->
    aq_skip c m s = false /\ (length (q_l q) + length (calls_for c calls) <= q_max q)%nat.

(* the elements appended to c's queue: tags are handed out in call order, to the calls whose
   client has a queue *)
Fixpoint appended (m : msg) (s : st) (c : cid) (calls : list call) (tag : N) : list elem :=
  match calls with
  | [] => []
  | cl :: r =>
      if ahas (call_cid cl) (b_queues s) then
        (if str_eqb c (call_cid cl) then [aq_elem m (call_sub cl) (call_ids cl) tag s] else []) ++
        appended m s c r (tag + 1)
      else appended m s c r tag
  end.

Definition q_extend (l : list elem) (q : queue) : queue := q_set (q_l q ++ l) (q_cur q) (q_drained q) q.

Lemma q_extend_nil q : q_extend [] q = q.
Proof. unfold q_extend, q_set. rewrite app_nil_r. destruct q; reflexivity. Qed.

Lemma q_extend_push e l q : q_extend l (q_push e q) = q_extend (e :: l) q.
Proof. unfold q_extend, q_push, q_set. cbn. now rewrite <- app_assoc. Qed.

Lemma aq_elem_ext m sb ids tag s s' : b_now s = b_now s' -> b_cfg s = b_cfg s' -> aq_elem m sb ids tag s = aq_elem m sb ids tag s'.
Proof. intros H1 H2. unfold aq_elem, aq_expiry. now rewrite H1, H2. Qed.

Lemma appended_ext m s s' c calls : forall tag,
  b_now s = b_now s' -> b_cfg s = b_cfg s' -> (forall c', ahas c' (b_queues s) = ahas c' (b_queues s')) ->
  appended m s c calls tag = appended m s' c calls tag.
Proof.
  induction calls as [|cl r IH]; intros tag H1 H2 H3; cbn [appended]; [reflexivity|].
  rewrite H3, (aq_elem_ext _ _ _ _ s s' H1 H2). destruct (ahas (call_cid cl) (b_queues s')); now rewrite IH.
Qed.

Lemma aq_skip_ext c m s s' : b_cfg s = b_cfg s' -> b_online s = b_online s' -> aq_skip c m s = aq_skip c m s'.
Proof. intros H1 H2. unfold aq_skip. now rewrite H1, H2. Qed.

Definition queued_calls (s : st) (calls : list call) : list call :=
  filter (fun cl => ahas (call_cid cl) (b_queues s)) calls.

Record same_but_queues (s s' : st) : Prop := {
  sq_cfg : b_cfg s' = b_cfg s; sq_hooks : b_hooks s' = b_hooks s; sq_now : b_now s' = b_now s; sq_rt : b_rt s' = b_rt s;
  sq_sessions : b_sessions s' = b_sessions s; sq_online : b_online s' = b_online s; sq_offline : b_offline s' = b_offline s;
  sq_wills : b_wills s' = b_wills s; sq_subs : b_subs s' = b_subs s; sq_ret : b_ret s' = b_ret s;
  sq_unacks : b_unacks s' = b_unacks s; sq_conns : b_conns s' = b_conns s; sq_picks : b_picks s' = b_picks s;
  sq_auto : b_auto s' = b_auto s; sq_npick : b_npick s' = b_npick s }.

Lemma same_but_queues_refl s : same_but_queues s s.
Proof. constructor; reflexivity. Qed.

Lemma same_but_queues_trans a b c : same_but_queues a b -> same_but_queues b c -> same_but_queues a c.
Proof. intros [] []. constructor; congruence. Qed.

Lemma same_but_queues_enq cid q' s : same_but_queues s (enq cid q' s).
Proof. constructor; reflexivity. Qed.

Lemma run_calls_nodrop m calls : forall s o,
  room_for m s calls ->
  let R := run_calls m calls (s, o) in
  snd R = o /\ same_but_queues s (fst R) /\
  b_tag (fst R) = b_tag s + N.of_nat (length (queued_calls s calls)) /\
  forall c, aget c (b_queues (fst R)) = option_map (q_extend (appended m s c calls (b_tag s))) (aget c (b_queues s)).
Proof.
  induction calls as [|cl r IH]; intros s o Hroom; cbn zeta.
  - cbn [run_calls fold_left fst snd queued_calls filter length appended]. split; [reflexivity|].
    split; [apply same_but_queues_refl|]. split; [lia|].
    intros c. destruct (aget c (b_queues s)) as [q|]; cbn [option_map]; [now rewrite q_extend_nil|reflexivity].
  - change (run_calls m (cl :: r) (s, o)) with (run_calls m r (call_step m (s, o) cl)).
    rewrite call_step_eq. set (cid := call_cid cl).
    destruct (aget cid (b_queues s)) as [q|] eqn:Hq.
    + (* the client has a queue *)
      assert (Hne : calls_for cid (cl :: r) <> []).
      { unfold calls_for. cbn [filter]. fold cid. rewrite str_eqb_refl. discriminate. }
      assert (Hh : ahas cid (b_queues s) = true) by (unfold ahas; now rewrite Hq).
      destruct (Hroom cid q Hq Hne) as [Hskip Hlen].
      assert (Hlen' : (length (q_l q) + S (length (calls_for cid r)) <= q_max q)%nat).
      { unfold calls_for in Hlen. cbn [filter] in Hlen. fold cid in Hlen. rewrite str_eqb_refl in Hlen. exact Hlen. }
      rewrite (add_to_queue_room cid m (call_sub cl) (call_ids cl) s q Hq Hskip) by lia.
      cbn [fst snd]. rewrite app_nil_r.
      set (e := aq_elem m (call_sub cl) (call_ids cl) (b_tag s) s).
      set (s1 := enq cid (q_push e q) s).
      assert (Hq1 : forall c, aget c (b_queues s1) = if str_eqb c cid then Some (q_push e q) else aget c (b_queues s)).
      { intros c. unfold s1. cbn. apply aget_aset. }
      assert (Hhas : forall c, ahas c (b_queues s) = ahas c (b_queues s1)).
      { intros c. unfold ahas. rewrite Hq1. destruct (str_eqb_spec c cid) as [->|]; [now rewrite Hq|reflexivity]. }
      assert (Hroom1 : room_for m s1 r).
      { intros c qc Hc Hn. rewrite Hq1 in Hc.
        rewrite (aq_skip_ext c m s1 s) by reflexivity.
        destruct (str_eqb_spec c cid) as [->|Hcc].
        - injection Hc as <-. split; [exact Hskip|]. unfold q_push, q_set. cbn [q_l q_max]. rewrite app_length. cbn [length]. lia.
        - assert (Hn' : calls_for c (cl :: r) <> []).
          { unfold calls_for. cbn [filter]. fold cid. destruct (str_eqb c cid); [discriminate|exact Hn]. }
          destruct (Hroom c qc Hc Hn') as [H1 H2]. split; [exact H1|].
          unfold calls_for in H2. cbn [filter] in H2. fold cid in H2.
          apply str_eqb_neq in Hcc. rewrite Hcc in H2. exact H2. }
      destruct (IH s1 o Hroom1) as (I1 & I2 & I3 & I4).
      split; [exact I1|]. split; [eapply same_but_queues_trans; [apply same_but_queues_enq|exact I2]|].
      split.
      * rewrite I3. unfold queued_calls. cbn [filter]. fold cid. rewrite Hh. cbn [length].
        replace (filter (fun cl0 : call => ahas (call_cid cl0) (b_queues s1)) r)
          with (filter (fun cl0 : call => ahas (call_cid cl0) (b_queues s)) r)
          by (apply filter_ext; intros a; apply Hhas).
        change (b_tag s1) with (b_tag s + 1). lia.
      * intros c. rewrite I4, Hq1. cbn [appended]. fold cid. rewrite Hh.
        change (b_tag s1) with (b_tag s + 1).
        rewrite <- (appended_ext m s s1 c r (b_tag s + 1)) by (try reflexivity; exact Hhas).
        destruct (str_eqb_spec c cid) as [->|Hcc].
        -- rewrite Hq. cbn [option_map app]. now rewrite q_extend_push.
        -- cbn [app]. reflexivity.
    + (* no queue: nothing happens *)
      rewrite (add_to_queue_noqueue cid m (call_sub cl) (call_ids cl) s Hq). cbn [fst snd]. rewrite app_nil_r.
      assert (Hh : ahas cid (b_queues s) = false) by (unfold ahas; now rewrite Hq).
      assert (Hroom1 : room_for m s r).
      { intros c qc Hc Hn.
        assert (Hcc : c <> cid) by (intros ->; congruence).
        assert (Hn' : calls_for c (cl :: r) <> []).
        { unfold calls_for. cbn [filter]. fold cid. destruct (str_eqb c cid); [discriminate|exact Hn]. }
        destruct (Hroom c qc Hc Hn') as [H1 H2]. split; [exact H1|].
        unfold calls_for in H2. cbn [filter] in H2. fold cid in H2.
        apply str_eqb_neq in Hcc. rewrite Hcc in H2. exact H2. }
      destruct (IH s o Hroom1) as (I1 & I2 & I3 & I4).
      split; [exact I1|]. split; [exact I2|]. split.
      * rewrite I3. unfold queued_calls. cbn [filter]. fold cid. now rewrite Hh.
      * intros c. rewrite I4. cbn [appended]. fold cid. now rewrite Hh.
Qed.

Lemma str_eqb_sym (a b : str) : str_eqb a b = str_eqb b a.
Proof. destruct (str_eqb_spec a b) as [->|H]; [now rewrite str_eqb_refl|]. symmetry. apply str_eqb_neq. congruence. Qed.

Definition call_body (m : msg) (cl : call) : qbody := QPub (copy_of m (call_sub cl) (call_ids cl)).

Lemma calls_for_app c a b : calls_for c (a ++ b) = calls_for c a ++ calls_for c b.
Proof. apply filter_app. Qed.

Lemma appended_bodies m s c calls : forall tag,
  ahas c (b_queues s) = true ->
  map e_body (appended m s c calls tag) = map (call_body m) (calls_for c calls).
Proof.
  induction calls as [|cl r IH]; intros tag Hc; cbn [appended calls_for filter map]; [reflexivity|].
  fold (calls_for c r).
  destruct (str_eqb_spec c (call_cid cl)) as [E|E].
  - rewrite <- E, Hc. cbn [app map]. now rewrite IH.
  - destruct (ahas (call_cid cl) (b_queues s)); cbn [app]; now apply IH.
Qed.

Lemma appended_none m s c calls : forall tag, calls_for c calls = [] -> appended m s c calls tag = [].
Proof.
  induction calls as [|cl r IH]; intros tag H; cbn [appended]; [reflexivity|].
  unfold calls_for in H. cbn [filter] in H.
  destruct (str_eqb c (call_cid cl)); [discriminate|].
  destruct (ahas (call_cid cl) (b_queues s)); cbn [app]; now apply IH.
Qed.

(* every appended element is the copy of one of the client's calls, stamped with the current time *)
Lemma appended_elems m s c calls : forall tag,
  Forall (fun e => exists cl, In cl (calls_for c calls) /\ e = aq_elem m (call_sub cl) (call_ids cl) (e_tag e) s)
         (appended m s c calls tag).
Proof.
  induction calls as [|cl r IH]; intros tag; cbn [appended]; [constructor|].
  assert (Hr : forall tg, Forall (fun e => exists cl0, In cl0 (calls_for c (cl :: r)) /\
                                                      e = aq_elem m (call_sub cl0) (call_ids cl0) (e_tag e) s)
                                 (appended m s c r tg)).
  { intros tg. eapply Forall_impl; [|apply IH]. intros e (cl0 & Hin & He). exists cl0. split; [|exact He].
    unfold calls_for. cbn [filter]. destruct (str_eqb c (call_cid cl)); [now right|exact Hin]. }
  destruct (ahas (call_cid cl) (b_queues s)); [|apply Hr].
  apply Forall_app. split; [|apply Hr].
  destruct (str_eqb c (call_cid cl)) eqn:E; constructor; [|constructor].
  exists cl. split; [|reflexivity]. unfold calls_for. cbn [filter]. rewrite E. now left.
Qed.

(* tags: a counter *)
Lemma appended_tags m s c calls : forall tag,
  Forall (fun e => tag <= e_tag e < tag + N.of_nat (length (queued_calls s calls))) (appended m s c calls tag) /\
  StronglySorted N.lt (map e_tag (appended m s c calls tag)).
Proof.
  induction calls as [|cl r IH]; intros tag; cbn [appended queued_calls filter]; [split; constructor|].
  fold (queued_calls s r).
  destruct (ahas (call_cid cl) (b_queues s)).
  - destruct (IH (tag + 1)) as [I1 I2]. cbn [length].
    assert (I1' : Forall (fun e => tag + 1 <= e_tag e < tag + N.of_nat (S (length (queued_calls s r))))
                         (appended m s c r (tag + 1))).
    { eapply Forall_impl; [|exact I1]. cbn beta. intros e He. lia. }
    destruct (str_eqb c (call_cid cl)); cbn [app map].
    + split.
      * constructor; [cbn [aq_elem e_tag]; lia|]. eapply Forall_impl; [|exact I1']. cbn beta. intros e He. lia.
      * constructor; [exact I2|]. cbn [aq_elem e_tag]. apply Forall_map.
        eapply Forall_impl; [|exact I1']. cbn beta. intros e He. lia.
    + split; [|exact I2]. eapply Forall_impl; [|exact I1']. cbn beta. intros e He. lia.
  - apply IH.
Qed.

(* ---- the no-drop condition as a boolean on the state ---- *)
Definition of_cl (c : cid) (l : list (cid * sub)) : list (cid * sub) := filter (fun e => str_eqb c (fst e)) l.

(* every session with a matching subscription has room for as many copies as it has matching
   subscriptions, and the queue_qos0 rule does not apply to it *)
Definition nodrop_ok (src : str) (m : msg) (s : st) : bool :=
  forallb (fun e : cid * sub => match aget (fst e) (b_queues s) with
                    | None => true
                    | Some q => negb (aq_skip (fst e) m s) &&
                                (length (q_l q) + length (of_cl (fst e) (d_ents src m s)) <=? q_max q)%nat
                    end) (d_ents src m s).

Lemma filter_len_pos {A} (p : A -> bool) (x : A) (l : list A) : In x l -> p x = true -> (1 <= length (filter p l))%nat.
Proof.
  induction l as [|y r IH]; intros Hin Hp; [destruct Hin|]. cbn [filter].
  destruct Hin as [->|Hin]; [rewrite Hp; cbn; lia|].
  destruct (p y); cbn [length]; [lia|now apply IH].
Qed.

Lemma calls_for_plain c l : calls_for c (map plain_call l) = map plain_call (of_cl c l).
Proof.
  induction l as [|e r IH]; [reflexivity|].
  change (calls_for c (map plain_call (e :: r)))
    with (if str_eqb c (fst e) then plain_call e :: calls_for c (map plain_call r) else calls_for c (map plain_call r)).
  change (of_cl c (e :: r)) with (if str_eqb c (fst e) then e :: of_cl c r else of_cl c r).
  destruct (str_eqb c (fst e)); cbn [map]; rewrite IH; reflexivity.
Qed.

Lemma calls_for_groups c gs cls :
  Forall2 group_call gs cls -> (length (calls_for c cls) <= length (of_cl c (flat_map snd gs)))%nat.
Proof.
  unfold of_cl. induction 1 as [|g cl gs cls [Hin _] _ IH]; [cbn; lia|].
  cbn [flat_map calls_for filter]. fold (calls_for c cls). rewrite filter_app, app_length.
  destruct (str_eqb c (call_cid cl)) eqn:E; [|eapply Nat.le_trans; [exact IH|apply Nat.le_add_l]]. cbn [length].
  pose proof (filter_len_pos (fun e : cid * sub => str_eqb c (fst e)) _ _ Hin E) as P.
  exact (Nat.add_le_mono _ _ _ _ P IH).
Qed.

Lemma once_calls_cids gs cls : Forall2 once_call gs cls -> map call_cid cls = map fst gs.
Proof. induction 1 as [|g cl gs cls [H _] _ IH]; [reflexivity|]. cbn [map]. now rewrite H, IH. Qed.

Lemma count_nodup (c : str) (l : list str) : NoDup l -> (length (filter (str_eqb c) l) <= 1)%nat.
Proof.
  induction 1 as [|x r Hx Hr IH]; [cbn; lia|]. cbn [filter].
  destruct (str_eqb_spec c x) as [->|E]; [|exact IH]. cbn [length].
  assert (H0 : filter (str_eqb x) r = []).
  { clear IH Hr. induction r as [|y t IHt]; [reflexivity|]. cbn [filter].
    destruct (str_eqb_spec x y) as [->|E]; [exfalso; apply Hx; now left|].
    apply IHt. intros H. apply Hx. now right. }
  rewrite H0. cbn. lia.
Qed.

Lemma calls_for_cids c cls : length (calls_for c cls) = length (filter (str_eqb c) (map call_cid cls)).
Proof.
  induction cls as [|cl r IH]; [reflexivity|]. cbn [calls_for filter map]. fold (calls_for c r).
  destruct (str_eqb c (call_cid cl)); cbn [length]; now rewrite IH.
Qed.

Lemma filter_nonnil_in {A} (p : A -> bool) (l : list A) : filter p l <> [] -> exists x, In x l /\ p x = true.
Proof.
  induction l as [|y r IH]; cbn [filter]; [congruence|]. destruct (p y) eqn:E.
  - intros _. exists y. split; [now left|exact E].
  - intros H. destruct (IH H) as (x & Hx & Px). exists x. split; [now right|exact Px].
Qed.

Lemma calls_for_once c l cls :
  Forall2 once_call (group_by_client l []) cls -> (length (calls_for c cls) <= length (of_cl c l))%nat.
Proof.
  intros F. rewrite calls_for_cids, (once_calls_cids _ _ F).
  pose proof (count_nodup c _ (group_by_client_nodup l)) as H1.
  destruct (filter (str_eqb c) (map fst (group_by_client l []))) as [|x t] eqn:E; [cbn; lia|].
  assert (Hin : exists k, In k (map fst (group_by_client l [])) /\ str_eqb c k = true).
  { apply filter_nonnil_in. rewrite E. discriminate. }
  destruct Hin as (k & Hk & Ek). apply str_eqb_eq in Ek. subst k.
  apply in_map_iff in Hk as ([c' subs] & Ec & Hin). cbn [fst] in Ec. subst c'.
  apply group_by_client_in in Hin as [-> Hne].
  assert (Hne' : of_cl c l <> []).
  { intros E0. apply Hne. unfold of_cl in E0.
    erewrite filter_ext; [rewrite E0; reflexivity|]. intros a. cbn beta. apply str_eqb_sym. }
  destruct (of_cl c l); [congruence|]. cbn [length] in *. lia.
Qed.

Lemma of_cl_split c src m s :
  length (of_cl c (d_ents src m s)) = (length (of_cl c (d_shared src m s)) + length (of_cl c (d_plain src m s)))%nat.
Proof. unfold of_cl, d_shared, d_plain. apply filter_partition_len. Qed.

Lemma groups_flat_count c l : length (of_cl c (flat_map snd (group_shared l []))) = length (of_cl c l).
Proof.
  rewrite group_shared_gen. unfold of_cl.
  pose proof (group_gen_count (fun e : cid * sub => full_name (snd e)) (fun e => e) (fun e => str_eqb c (fst e)) l []) as H.
  cbn [flat_map filter length] in H. rewrite map_id in H. exact H.
Qed.

Lemma shape_count src m s cl1 cl2 cl3 c :
  deliver_shape src m s cl1 cl2 cl3 ->
  (length (calls_for c (cl1 ++ cl2 ++ cl3)) <= length (of_cl c (d_ents src m s)))%nat.
Proof.
  intros [H1 H2 H3]. rewrite !calls_for_app, !app_length, of_cl_split.
  pose proof (calls_for_groups c _ _ H2) as B2. unfold d_groups in B2. rewrite groups_flat_count in B2.
  destruct (c_onlyonce (b_cfg s)).
  - subst cl1. pose proof (calls_for_once c _ _ H3) as B3. cbn [calls_for filter length]. lia.
  - subst cl1 cl3. rewrite calls_for_plain, map_length. cbn [calls_for filter length]. lia.
Qed.

Lemma nodrop_room src m s cl1 cl2 cl3 :
  deliver_shape src m s cl1 cl2 cl3 -> nodrop_ok src m s = true -> room_for m s (cl1 ++ cl2 ++ cl3).
Proof.
  intros Hs Hn c q Hq Hne. pose proof (shape_count src m s cl1 cl2 cl3 c Hs) as Hc.
  assert (Hex : exists e, In e (d_ents src m s) /\ fst e = c).
  { destruct (filter_nonnil_in (fun e : cid * sub => str_eqb c (fst e)) (d_ents src m s)) as (e & He & Ee).
    - change (of_cl c (d_ents src m s) <> []). intros E0. rewrite E0 in Hc. cbn [length] in Hc.
      destruct (calls_for c (cl1 ++ cl2 ++ cl3)); [congruence|cbn in Hc; lia].
    - exists e. split; [exact He|]. apply str_eqb_eq in Ee. congruence. }
  destruct Hex as (e & He & <-).
  unfold nodrop_ok in Hn. rewrite forallb_forall in Hn. specialize (Hn e He). cbn beta in Hn. rewrite Hq in Hn.
  apply andb_true_iff in Hn as [Hn1 Hn2]. apply negb_true_iff in Hn1. apply Nat.leb_le in Hn2.
  split; [exact Hn1|lia].
Qed.

(* ================================================================== *)
(* 7. what deliver never touches (all states, drops included)          *)
(* ================================================================== *)

Record dframe (s s' : st) : Prop := {
  df_cfg : b_cfg s' = b_cfg s; df_hooks : b_hooks s' = b_hooks s; df_now : b_now s' = b_now s; df_rt : b_rt s' = b_rt s;
  df_sessions : b_sessions s' = b_sessions s; df_online : b_online s' = b_online s; df_offline : b_offline s' = b_offline s;
  df_wills : b_wills s' = b_wills s; df_subs : b_subs s' = b_subs s; df_ret : b_ret s' = b_ret s;
  df_unacks : b_unacks s' = b_unacks s; df_auto : b_auto s' = b_auto s;
  df_conns : map fst (b_conns s') = map fst (b_conns s);
  df_tag : b_tag s <= b_tag s';
  df_has : forall c, ahas c (b_queues s') = ahas c (b_queues s) }.

Lemma dframe_refl s : dframe s s.
Proof. constructor; try reflexivity; lia. Qed.

Lemma dframe_trans a b c : dframe a b -> dframe b c -> dframe a c.
Proof. intros [] []. constructor; try congruence; try lia. Qed.

Lemma dframe_add cid m sb ids s : dframe s (fst (add_to_queue cid m sb ids s)).
Proof.
  pose proof (add_to_queue_frame cid m sb ids s) as F. cbn zeta in F.
  destruct F as (F1&F2&F3&F4&F5&F6&F7&F8&F9&F10&F11&F12&F13&F14&F15&F16&F17&F18&F19).
  constructor; auto. lia.
Qed.

Lemma dframe_set_pk p n s : dframe s (set_pk p n s).
Proof. constructor; try reflexivity; cbn; lia. Qed.

Definition is_dropped (o : out) : Prop := exists cid m r, o = ODropped cid m r.

Lemma run_calls_frame m calls : forall s o,
  Forall is_dropped o ->
  dframe s (fst (run_calls m calls (s, o))) /\ Forall is_dropped (snd (run_calls m calls (s, o))) /\
  forall c, calls_for c calls = [] -> aget c (b_queues (fst (run_calls m calls (s, o)))) = aget c (b_queues s).
Proof.
  induction calls as [|cl r IH]; intros s o Ho.
  - cbn. split; [apply dframe_refl|]. split; [exact Ho|reflexivity].
  - change (run_calls m (cl :: r) (s, o)) with (run_calls m r (call_step m (s, o) cl)). rewrite call_step_eq.
    pose proof (add_to_queue_frame (call_cid cl) m (call_sub cl) (call_ids cl) s) as F. cbn zeta in F.
    destruct F as (_&_&_&_&_&_&_&_&_&_&_&_&_&_&_&_&F17&_&F19).
    set (X := add_to_queue (call_cid cl) m (call_sub cl) (call_ids cl) s) in *.
    assert (Ho' : Forall is_dropped (o ++ snd X)).
    { apply Forall_app. split; [exact Ho|]. eapply Forall_impl; [|exact F19].
      intros a (m0 & r0 & ->). now exists (call_cid cl), m0, r0. }
    destruct (IH (fst X) (o ++ snd X) Ho') as (I1 & I2 & I3).
    split; [eapply dframe_trans; [apply dframe_add|exact I1]|]. split; [exact I2|].
    intros c Hc. unfold calls_for in Hc. cbn [filter] in Hc.
    destruct (str_eqb_spec c (call_cid cl)) as [E|E]; [discriminate|].
    rewrite I3 by exact Hc. now apply F17.
Qed.

Theorem deliver_frame src m s :
  dframe s (fst (fst (deliver src m s))) /\ Forall is_dropped (snd (fst (deliver src m s))) /\
  forall c, of_cl c (d_ents src m s) = [] ->
            aget c (b_queues (fst (fst (deliver src m s)))) = aget c (b_queues s).
Proof.
  destruct (deliver_calls src m s) as (cl1 & cl2 & cl3 & p & n & Hs & E). rewrite E. cbn [fst snd].
  destruct (run_calls_frame m (cl1 ++ cl2 ++ cl3) s [] (Forall_nil _)) as (F1 & F2 & F3).
  split; [eapply dframe_trans; [exact F1|apply dframe_set_pk]|]. split; [exact F2|].
  intros c Hc. cbn [set_pk b_queues]. apply F3.
  pose proof (shape_count src m s cl1 cl2 cl3 c Hs) as Hl. rewrite Hc in Hl. cbn [length] in Hl.
  destruct (calls_for c (cl1 ++ cl2 ++ cl3)); [reflexivity|cbn in Hl; lia].
Qed.

(* target 3b: a client none of whose subscriptions matches receives nothing *)
Corollary C01_nothing_unmatched_l src m s c :
  of_cl c (d_ents src m s) = [] ->
  aget c (b_queues (fst (fst (deliver src m s)))) = aget c (b_queues s).
Proof. apply deliver_frame. Qed.

(* ================================================================== *)
(* 8. the copies a client gets when nothing is dropped                 *)
(* ================================================================== *)

Theorem deliver_nodrop src m s :
  nodrop_ok src m s = true ->
  exists cl1 cl2 cl3,
    deliver_shape src m s cl1 cl2 cl3 /\
    snd (fst (deliver src m s)) = [] /\
    b_conns (fst (fst (deliver src m s))) = b_conns s /\
    b_tag (fst (fst (deliver src m s))) = b_tag s + N.of_nat (length (queued_calls s (cl1 ++ cl2 ++ cl3))) /\
    forall c, aget c (b_queues (fst (fst (deliver src m s)))) =
              option_map (q_extend (appended m s c (cl1 ++ cl2 ++ cl3) (b_tag s))) (aget c (b_queues s)).
Proof.
  intros Hn. destruct (deliver_calls src m s) as (cl1 & cl2 & cl3 & p & n & Hs & E).
  exists cl1, cl2, cl3. split; [exact Hs|]. rewrite E. cbn [fst snd set_pk b_queues b_tag b_conns].
  destruct (run_calls_nodrop m (cl1 ++ cl2 ++ cl3) s [] (nodrop_room _ _ _ _ _ _ Hs Hn)) as (R1 & R2 & R3 & R4).
  split; [exact R1|]. split; [apply R2|]. split; [exact R3|exact R4].
Qed.

Definition plain_copy (m : msg) (e : cid * sub) : qbody := QPub (copy_of m (snd e) [s_id (snd e)]).

(* the shape of every appended element *)
Definition stamped (m : msg) (s s' : st) (e : elem) : Prop :=
  b_tag s <= e_tag e < b_tag s' /\ e_at e = b_now s /\
  exists m', e_body e = QPub m' /\ e_expiry e = aq_expiry m' s.

Lemma appended_stamped m s s' c calls :
  b_tag s' = b_tag s + N.of_nat (length (queued_calls s calls)) ->
  Forall (stamped m s s') (appended m s c calls (b_tag s)).
Proof.
  intros Ht. pose proof (proj1 (appended_tags m s c calls (b_tag s))) as H1.
  pose proof (appended_elems m s c calls (b_tag s)) as H2.
  rewrite Forall_forall in *. intros e He. specialize (H1 e He). destruct (H2 e He) as (cl & _ & Ee).
  split; [lia|]. rewrite Ee. cbn [aq_elem e_at e_body e_expiry]. split; [reflexivity|].
  eexists. split; reflexivity.
Qed.

(* target 3: overlap mode *)
Theorem C01_overlap_copies_l src m s c q :
  c_onlyonce (b_cfg s) = false -> nodrop_ok src m s = true -> aget c (b_queues s) = Some q ->
  exists (picked : list call) (app : list elem),
    Forall2 group_call (d_groups src m s) picked /\
    aget c (b_queues (fst (fst (deliver src m s)))) = Some (q_extend app q) /\
    snd (fst (deliver src m s)) = [] /\
    map e_body app = map (plain_copy m) (of_cl c (d_plain src m s)) ++ map (call_body m) (calls_for c picked) /\
    Forall (stamped m s (fst (fst (deliver src m s)))) app /\
    StronglySorted N.lt (map e_tag app).
Proof.
  intros Ho Hn Hq. destruct (deliver_nodrop src m s Hn) as (cl1 & cl2 & cl3 & [H1 H2 H3] & D1 & _ & D2 & D3).
  rewrite Ho in H1, H3. subst cl1 cl3. rewrite app_nil_r in *.
  exists cl2, (appended m s c (map plain_call (d_plain src m s) ++ cl2) (b_tag s)).
  split; [exact H2|]. split; [rewrite D3, Hq; reflexivity|]. split; [exact D1|]. split; [|split].
  - rewrite appended_bodies by (unfold ahas; now rewrite Hq).
    rewrite calls_for_app, map_app, calls_for_plain, map_map. reflexivity.
  - now apply appended_stamped.
  - apply appended_tags.
Qed.

Lemma group_by_client_of_cl c subs l :
  In (c, subs) (group_by_client l []) <-> subs = map snd (of_cl c l) /\ subs <> [].
Proof.
  rewrite group_by_client_in. unfold of_cl.
  rewrite (filter_ext (fun e : cid * sub => str_eqb (fst e) c) (fun e => str_eqb c (fst e)))
    by (intros a; apply str_eqb_sym). reflexivity.
Qed.

Lemma once_calls_for c (gs : list (str * list sub)) cls :
  Forall2 once_call gs cls -> NoDup (map fst gs) ->
  (~ In c (map fst gs) -> calls_for c cls = []) /\
  (forall subs, In (c, subs) gs ->
     exists sb, calls_for c cls = [(c, sb, map s_id subs)] /\ In sb (best_of subs)).
Proof.
  induction 1 as [|g cl gs cls Hg F IH]; intros Hnd.
  - split; [reflexivity|intros subs []].
  - destruct g as [k subs']. destruct Hg as (Hc & Hb & Hi). cbn [map fst] in *. inversion Hnd as [|x xs Hx Hnd']; subst. destruct (IH Hnd') as [IH1 IH2].
    cbn [snd] in *. unfold calls_for. cbn [filter]. fold (calls_for c cls).
    destruct (str_eqb_spec c (call_cid cl)) as [E|E].
    + split; [intros H; exfalso; apply H; now left|].
      intros subs [Eq|Hin].
      * injection Eq as _ <-. exists (call_sub cl). rewrite IH1 by (rewrite E; exact Hx). split; [|exact Hb].
        destruct cl as [[a b] d]. cbn in *. now subst.
      * exfalso. apply Hx. rewrite <- E. apply in_map_iff. exists (c, subs). now split.
    + split.
      * intros H. apply IH1. intros H'. apply H. now right.
      * intros subs [Eq|Hin]; [injection Eq as Eq1 Eq2; congruence|]. now apply IH2.
Qed.

(* target 4: onlyonce mode *)
Theorem C01_onlyonce_copy_l src m s c q :
  c_onlyonce (b_cfg s) = true -> nodrop_ok src m s = true -> aget c (b_queues s) = Some q ->
  let subs := map snd (of_cl c (d_plain src m s)) in
  exists (picked : list call) (app : list elem),
    Forall2 group_call (d_groups src m s) picked /\
    aget c (b_queues (fst (fst (deliver src m s)))) = Some (q_extend app q) /\
    snd (fst (deliver src m s)) = [] /\
    ((subs = [] /\ map e_body app = map (call_body m) (calls_for c picked)) \/
     (exists sb, In sb subs /\ s_qos sb = max_qos_of subs /\
                 map e_body app = map (call_body m) (calls_for c picked) ++ [QPub (copy_of m sb (map s_id subs))])) /\
    Forall (stamped m s (fst (fst (deliver src m s)))) app /\
    StronglySorted N.lt (map e_tag app).
Proof.
  intros Ho Hn Hq subs. destruct (deliver_nodrop src m s Hn) as (cl1 & cl2 & cl3 & [H1 H2 H3] & D1 & _ & D2 & D3).
  rewrite Ho in H1, H3. subst cl1. cbn [app] in *.
  exists cl2, (appended m s c (cl2 ++ cl3) (b_tag s)).
  split; [exact H2|]. split; [rewrite D3, Hq; reflexivity|]. split; [exact D1|]. split; [|split].
  - rewrite appended_bodies by (unfold ahas; now rewrite Hq). rewrite calls_for_app, map_app.
    destruct (once_calls_for c _ _ H3 (group_by_client_nodup _)) as [O1 O2].
    destruct subs as [|sb0 t] eqn:Es.
    + left. split; [reflexivity|]. rewrite O1; [now rewrite app_nil_r|].
      intros Hin. apply in_map_iff in Hin as ([c' subs'] & Ec & Hin). cbn [fst] in Ec. subst c'.
      apply group_by_client_of_cl in Hin as [-> Hne]. apply Hne. exact Es.
    + right. destruct (O2 subs) as (sb & Ecl & Hb).
      { apply group_by_client_of_cl. split; [reflexivity|]. subst subs. rewrite Es. discriminate. }
      apply best_of_spec in Hb as [Hb1 Hb2]. exists sb. rewrite <- Es. split; [exact Hb1|]. split; [exact Hb2|].
      subst subs. rewrite Ecl. reflexivity.
  - now apply appended_stamped.
  - apply appended_tags.
Qed.

(* ================================================================== *)
(* 9. target 2: `matched`, and the entries in terms of the flat specification *)
(* ================================================================== *)

Lemma deliver_matched_eq src m s : snd (deliver src m s) = nonnil (d_ents src m s).
Proof. rewrite deliver_unfold. reflexivity. Qed.

Theorem deliver_matched src m s :
  snd (deliver src m s) = true <->
  exists c sb, In (c, sb) (d_found m s) /\ ~ (s_nl sb = true /\ c = src).
Proof.
  rewrite deliver_matched_eq. unfold d_ents. split.
  - intros H. destruct (filter (nl_keep src) (d_found m s)) as [|[c sb] r] eqn:E; [discriminate|].
    assert (Hin : In (c, sb) (filter (nl_keep src) (d_found m s))) by (rewrite E; now left).
    apply filter_In in Hin as [Hin Hk]. exists c, sb. split; [exact Hin|].
    unfold nl_keep in Hk. cbn [fst snd] in Hk. intros [H1 H2]. subst. now rewrite H1, str_eqb_refl in Hk.
  - intros (c & sb & Hin & Hn).
    assert (Hk : nl_keep src (c, sb) = true).
    { unfold nl_keep. cbn [fst snd]. destruct (s_nl sb) eqn:E1; [|reflexivity].
      destruct (str_eqb_spec c src) as [E2|E2]; [exfalso; now apply Hn|reflexivity]. }
    assert (Hin' : In (c, sb) (filter (nl_keep src) (d_found m s))) by (apply filter_In; now split).
    destruct (filter (nl_keep src) (d_found m s)); [destruct Hin'|reflexivity].
Qed.

Lemma unsome_some_ents (l : list (cid * sub)) :
  flat_map (fun e : ient => match snd e with Some x => [(fst e, x)] | None => [] end) (some_ents l) = l.
Proof. induction l as [|[c sb] r IH]; [reflexivity|]. cbn [some_ents map flat_map fst snd app]. f_equal. exact IH. Qed.

Lemma some_ents_app a b : some_ents (a ++ b) = some_ents a ++ some_ents b.
Proof. apply map_app. Qed.

Lemma db_iterate_deliver t d :
  db_iterate (deliver_opts t) d =
  match db_iterate (q_sh_topic t []) d, db_iterate (q_topic t []) d with
  | IOk a, IOk b => IOk (a ++ b)
  | _, _ => IPanic
  end.
Proof.
  unfold db_iterate. cbn [deliver_opts q_sh_topic q_topic io_shared io_nonshared io_sys io_topic andb].
  change (iterate_shared (deliver_opts t)) with (iterate_shared (q_sh_topic t [])).
  change (iterate_nonshared (deliver_opts t)) with (iterate_nonshared (q_topic t [])).
  destruct (iterate_shared (q_sh_topic t []) (sharedI d) (sharedT d)) as [l1|]; [|reflexivity].
  cbn [app]. now rewrite !app_nil_r.
Qed.

(* matching as the store implements it: MQTT 4.7 matching, with the 4.7.2-1 exclusion of
   $-topics for wildcard-led filters, for plain and (since getMatchedTopicFilter applies the
   rule itself) for shared subscriptions alike *)
Definition sub_matches (t : str) (sb : sub) : bool := topic_match t (s_filter sb).

Lemma nodup_app_disjoint {A} (a b : list A) :
  NoDup a -> NoDup b -> (forall x, In x a -> In x b -> False) -> NoDup (a ++ b).
Proof.
  induction 1 as [|x r Hx Hr IH]; intros Hb Hd; cbn [app]; [exact Hb|].
  constructor.
  - intros Hin. apply in_app_or in Hin as [Hin|Hin]; [contradiction|]. apply (Hd x); [now left|exact Hin].
  - apply IH; [exact Hb|]. intros y Hy. apply Hd. now right.
Qed.

Theorem found_spec m s ops :
  b_subs s = db_run ops -> wf_ops ops = true -> m_topic m <> [] -> no_wild_levels (split (m_topic m)) = true ->
  NoDup (d_found m s) /\
  forall c sb, In (c, sb) (d_found m s) <->
    sp_get (c, s_share sb, s_filter sb) (spec_run ops) = Some sb /\ sub_matches (m_topic m) sb = true.
Proof.
  intros Hs Hwf Ht Hnw.
  destruct (sh_lookup_topic_exact ops (m_topic m) [] Hwf Ht Hnw) as (l1 & E1 & N1 & I1).
  destruct (lookup_topic_exact ops (m_topic m) [] Hwf Ht Hnw) as (l2 & E2 & N2 & I2).
  pose proof (inv_ok _ _ (Inv_run ops Hwf)) as Hok.
  assert (Ef : d_found m s = l1 ++ l2).
  { unfold d_found. rewrite Hs, db_iterate_deliver, E1, E2, <- some_ents_app. apply unsome_some_ents. }
  rewrite Ef. split.
  - apply nodup_app_disjoint; [exact N1|exact N2|].
    intros [c sb] H1 H2. apply I1 in H1 as (Hne & _). apply I2 in H2 as (Hg & _).
    apply (sp_get_good _ _ _ _ _ Hok) in Hg as [Hg _]. congruence.
  - intros c sb. rewrite in_app_iff, I1, I2. unfold sub_matches, want_client. split.
    + intros [(Hne & Hg & Hlm & _)|(Hg & Htm & _)].
      * now split.
      * pose proof (sp_get_good _ _ _ _ _ Hok Hg) as [Hsh _]. rewrite Hsh. now split.
    + intros [Hg Hm]. destruct (is_empty (s_share sb)) eqn:E.
      * right. apply is_empty_true in E. rewrite E in Hg. split; [exact Hg|]. split; [exact Hm|now left].
      * left. apply is_empty_false in E. split; [exact E|]. split; [exact Hg|]. split; [exact Hm|now left].
Qed.

(* the plain and the shared matches, No Local applied, in terms of the specification *)
Corollary plain_spec src m s ops :
  b_subs s = db_run ops -> wf_ops ops = true -> m_topic m <> [] -> no_wild_levels (split (m_topic m)) = true ->
  NoDup (d_plain src m s) /\
  forall c sb, In (c, sb) (d_plain src m s) <->
    sp_get (c, [], s_filter sb) (spec_run ops) = Some sb /\ topic_match (m_topic m) (s_filter sb) = true /\
    ~ (s_nl sb = true /\ c = src).
Proof.
  intros Hs Hwf Ht Hnw. destruct (found_spec m s ops Hs Hwf Ht Hnw) as [Hnd Hin].
  pose proof (inv_ok _ _ (Inv_run ops Hwf)) as Hok.
  split; [unfold d_plain, d_ents; now repeat apply NoDup_filter|].
  intros c sb. unfold d_plain, d_ents. rewrite !filter_In, Hin. unfold is_plain, nl_keep, sub_matches. cbn [fst snd].
  split.
  - intros [[[Hg Hm] Hk] Hp]. apply is_empty_true in Hp. rewrite Hp in Hg.
    split; [exact Hg|]. split; [exact Hm|]. intros [H1 H2]. subst. now rewrite H1, str_eqb_refl in Hk.
  - intros (Hg & Hm & Hn). pose proof (sp_get_good _ _ _ _ _ Hok Hg) as [Hsh _]. rewrite Hsh. cbn [is_empty].
    split; [|reflexivity]. split; [now split|].
    destruct (s_nl sb) eqn:E1; [|reflexivity]. destruct (str_eqb_spec c src) as [E2|E2]; [exfalso; now apply Hn|reflexivity].
Qed.

Corollary shared_spec src m s ops :
  b_subs s = db_run ops -> wf_ops ops = true -> m_topic m <> [] -> no_wild_levels (split (m_topic m)) = true ->
  NoDup (d_shared src m s) /\
  forall c sb, In (c, sb) (d_shared src m s) <->
    s_share sb <> [] /\ sp_get (c, s_share sb, s_filter sb) (spec_run ops) = Some sb /\
    topic_match (m_topic m) (s_filter sb) = true /\ ~ (s_nl sb = true /\ c = src).
Proof.
  intros Hs Hwf Ht Hnw. destruct (found_spec m s ops Hs Hwf Ht Hnw) as [Hnd Hin].
  split; [unfold d_shared, d_ents; now repeat apply NoDup_filter|].
  intros c sb. unfold d_shared, d_ents. rewrite !filter_In, Hin. unfold is_plain, nl_keep, sub_matches. cbn [fst snd].
  split.
  - intros [[[Hg Hm] Hk] Hp]. apply negb_true_iff in Hp. apply is_empty_false in Hp.
    split; [exact Hp|]. split; [exact Hg|]. split; [exact Hm|]. intros [H1 H2]. subst. now rewrite H1, str_eqb_refl in Hk.
  - intros (Hne & Hg & Hm & Hn). apply is_empty_false in Hne. rewrite Hne.
    split; [|reflexivity]. split; [now split|].
    destruct (s_nl sb) eqn:E1; [|reflexivity]. destruct (str_eqb_spec c src) as [E2|E2]; [exfalso; now apply Hn|reflexivity].
Qed.

(* target 2, specification form *)
Theorem deliver_matched_spec src m s ops :
  b_subs s = db_run ops -> wf_ops ops = true -> m_topic m <> [] -> no_wild_levels (split (m_topic m)) = true ->
  (snd (deliver src m s) = true <->
   exists c sb, sp_get (c, s_share sb, s_filter sb) (spec_run ops) = Some sb /\
                sub_matches (m_topic m) sb = true /\ ~ (s_nl sb = true /\ c = src)).
Proof.
  intros Hs Hwf Ht Hnw. destruct (found_spec m s ops Hs Hwf Ht Hnw) as [_ Hin]. rewrite deliver_matched.
  split; intros (c & sb & H); exists c, sb.
  - destruct H as [H1 H2]. apply Hin in H1 as [H3 H4]. tauto.
  - destruct H as (H1 & H2 & H3). split; [apply Hin; now split|exact H3].
Qed.

(* ================================================================== *)
(* 10. target 5 (C11): one member per share group                      *)
(* ================================================================== *)

Lemma Forall2_right {A B} (P : A -> B -> Prop) (Q : B -> Prop) (l : list A) (l' : list B) :
  Forall2 P l l' -> (forall x y, In x l -> P x y -> Q y) -> Forall Q l'.
Proof.
  induction 1 as [|x y l l' Hxy F IH]; intros H; constructor.
  - apply (H x y); [now left|exact Hxy].
  - apply IH. intros a b Ha. apply H. now right.
Qed.

Lemma d_groups_spec src m s k members :
  In (k, members) (d_groups src m s) <->
  members = filter (fun e : cid * sub => str_eqb (full_name (snd e)) k) (d_shared src m s) /\ members <> [].
Proof. apply group_shared_in. Qed.

Lemma d_groups_nodup src m s : NoDup (map fst (d_groups src m s)).
Proof. apply group_shared_nodup. Qed.

Theorem C11_one_member_per_group_l src m s :
  exists cl1 picked cl3 p n,
    deliver src m s = (set_pk p n (fst (run_calls m (cl1 ++ picked ++ cl3) (s, []))),
                       snd (run_calls m (cl1 ++ picked ++ cl3) (s, [])), nonnil (d_ents src m s)) /\
    (* one call per group, for a member of the group *)
    Forall2 group_call (d_groups src m s) picked /\
    (* every such call is for a matching shared subscription (No Local applied) *)
    Forall (fun cl => In (call_cid cl, call_sub cl) (d_shared src m s)) picked /\
    (* and no other call of deliver uses a shared subscription *)
    Forall (fun cl => is_empty (s_share (call_sub cl)) = true) (cl1 ++ cl3).
Proof.
  destruct (deliver_calls src m s) as (cl1 & cl2 & cl3 & p & n & [H1 H2 H3] & E).
  exists cl1, cl2, cl3, p, n. split; [exact E|]. split; [exact H2|]. split.
  - eapply Forall2_right; [exact H2|]. intros g cl Hg Hc. cbn beta.
    now destruct (group_call_member src m s g cl Hg Hc).
  - assert (Hp : forall e, In e (d_plain src m s) -> is_empty (s_share (snd e)) = true).
    { intros e He. unfold d_plain in He. apply filter_In in He as [_ He]. exact He. }
    apply Forall_app. split.
    + subst cl1. destruct (c_onlyonce (b_cfg s)); [constructor|].
      apply Forall_forall. intros cl Hcl. apply in_map_iff in Hcl as (e & <- & He). exact (Hp e He).
    + destruct (c_onlyonce (b_cfg s)); [|subst cl3; constructor].
      eapply Forall2_right; [exact H3|]. intros [c subs] cl Hg (_ & Hb & _). cbn beta. cbn [snd] in Hb.
      apply best_of_spec in Hb as [Hb _]. unfold d_clients in Hg. apply group_by_client_of_cl in Hg as [-> _].
      apply in_map_iff in Hb as (e & <- & He). unfold of_cl in He. apply filter_In in He as [He _]. exact (Hp e He).
Qed.

(* ================================================================== *)
(* 11. target 7: order                                                 *)
(* ================================================================== *)

Definition copy_elem (m : msg) (e : elem) : Prop := exists sb ids, e_body e = QPub (copy_of m sb ids).

Theorem deliver_appends src m s c q :
  nodrop_ok src m s = true -> aget c (b_queues s) = Some q ->
  exists app,
    aget c (b_queues (fst (fst (deliver src m s)))) = Some (q_extend app q) /\
    Forall (stamped m s (fst (fst (deliver src m s)))) app /\
    Forall (copy_elem m) app /\
    StronglySorted N.lt (map e_tag app).
Proof.
  intros Hn Hq. destruct (deliver_nodrop src m s Hn) as (cl1 & cl2 & cl3 & _ & _ & _ & D2 & D3).
  exists (appended m s c (cl1 ++ cl2 ++ cl3) (b_tag s)).
  split; [rewrite D3, Hq; reflexivity|]. split; [now apply appended_stamped|]. split; [|apply appended_tags].
  eapply Forall_impl; [|apply appended_elems]. intros e (cl & _ & ->). now exists (call_sub cl), (call_ids cl).
Qed.

Theorem deliver_tag_mono src m s : b_tag s <= b_tag (fst (fst (deliver src m s))).
Proof. apply deliver_frame. Qed.

Lemma sorted_app (a b : list N) :
  StronglySorted N.lt a -> StronglySorted N.lt b -> (forall x y, In x a -> In y b -> x < y) ->
  StronglySorted N.lt (a ++ b).
Proof.
  induction 1 as [|x r Hr IH Hx]; intros Hb Hab; cbn [app]; [exact Hb|].
  constructor.
  - apply IH; [exact Hb|]. intros u v Hu. apply Hab. now right.
  - apply Forall_app. split; [exact Hx|]. apply Forall_forall. intros y Hy. apply Hab; [now left|exact Hy].
Qed.

Lemma q_extend_extend a b q : q_extend b (q_extend a q) = q_extend (a ++ b) q.
Proof. unfold q_extend, q_set. cbn. now rewrite app_assoc. Qed.

(* two publications delivered one after the other: in every queue the copies of the first
   precede the copies of the second, and the tags increase strictly along the queue *)
Theorem C01_fifo_two_l src1 m1 src2 m2 s c q :
  let s1 := fst (fst (deliver src1 m1 s)) in
  let s2 := fst (fst (deliver src2 m2 s1)) in
  nodrop_ok src1 m1 s = true -> nodrop_ok src2 m2 s1 = true -> aget c (b_queues s) = Some q ->
  exists app1 app2,
    aget c (b_queues s2) = Some (q_extend (app1 ++ app2) q) /\
    Forall (copy_elem m1) app1 /\ Forall (copy_elem m2) app2 /\
    Forall (stamped m1 s s1) app1 /\ Forall (stamped m2 s1 s2) app2 /\
    StronglySorted N.lt (map e_tag (app1 ++ app2)).
Proof.
  intros s1 s2 Hn1 Hn2 Hq.
  destruct (deliver_appends src1 m1 s c q Hn1 Hq) as (app1 & Q1 & S1 & C1 & T1). fold s1 in Q1, S1.
  destruct (deliver_appends src2 m2 s1 c _ Hn2 Q1) as (app2 & Q2 & S2 & C2 & T2). fold s2 in Q2, S2.
  exists app1, app2. rewrite q_extend_extend in Q2. repeat split; auto.
  rewrite map_app. apply sorted_app; [exact T1|exact T2|].
  intros x y Hx Hy. apply in_map_iff in Hx as (e1 & <- & He1). apply in_map_iff in Hy as (e2 & <- & He2).
  rewrite Forall_forall in S1, S2. destruct (S1 e1 He1) as [A _]. destruct (S2 e2 He2) as [B _]. lia.
Qed.

(* ================================================================== *)
(* 12. target 6: the acknowledgement of an accepted PUBLISH             *)
(* ================================================================== *)

Definition is_send (o : out) : bool := match o with OSend _ _ => true | _ => false end.

Definition ack_of (c : N) (qos pid code : N) : list out :=
  if qos =? 1 then [OSend c (KPuback pid code [])]
  else if qos =? 2 then [OSend c (KPubrec pid code [])] else [].

Lemma handle_publish_ok c k dup qos retain topic payload pid props s s' out :
  handle_publish c k dup qos retain topic payload pid props s = HOk s' out ->
  exists o code, out = o ++ ack_of c qos pid code /\ Forall is_dropped o.
Proof.
  unfold handle_publish. cbn zeta.
  destruct (negb (k_retain_avail k) && retain); [discriminate|].
  match goal with |- match ?X with _ => _ end = _ -> _ => destruct X as [[[k1 m1]|]|code0] end; try discriminate.
  match goal with |- (let (_, _) := ?X in _) = _ -> _ => destruct X as [s0 isdup] end.
  match goal with |- (let (_, _) := ?X in _) = _ -> _ => destruct X as [[[s1 o] matched] err] eqn:EY end.
  intros H. injection H as <- <-.
  exists o. eexists. split; [unfold ack_of; reflexivity|].
  destruct isdup; [injection EY as <- <- <- <-; constructor|].
  match type of EY with match ?A with _ => _ end = _ => destruct A as [|code1| |t p q] end;
    try (injection EY as <- <- <- <-; constructor).
  - destruct (deliver (k_cid k1) m1 (retain_update m1 s0)) as [[s2 o2] mt] eqn:Ed.
    injection EY as <- <- <- <-.
    pose proof (deliver_frame (k_cid k1) m1 (retain_update m1 s0)) as (_ & F & _). now rewrite Ed in F.
  - destruct (deliver (k_cid k1) (rewrite_msg t p q m1) (retain_update (rewrite_msg t p q m1) s0)) as [[s2 o2] mt] eqn:Ed.
    injection EY as <- <- <- <-.
    pose proof (deliver_frame (k_cid k1) (rewrite_msg t p q m1) (retain_update (rewrite_msg t p q m1) s0)) as (_ & F & _).
    now rewrite Ed in F.
Qed.

Lemma filter_send_dropped o : Forall is_dropped o -> filter is_send o = [].
Proof.
  induction 1 as [|x r (cid0 & m0 & r0 & ->) Hr IH]; [reflexivity|]. cbn [filter is_send]. exact IH.
Qed.

Lemma filter_send_ack c qos pid code : filter is_send (ack_of c qos pid code) = ack_of c qos pid code.
Proof. unfold ack_of. destruct (qos =? 1); [reflexivity|]. destruct (qos =? 2); reflexivity. Qed.

(* every PUBLISH the handler accepts produces exactly the acknowledgement its QoS asks for,
   with the packet identifier of the PUBLISH, and no other packet *)
Theorem C01_ack_l c k dup qos retain topic payload pid props s s' out :
  handle_publish c k dup qos retain topic payload pid props s = HOk s' out ->
  exists code, filter is_send out = ack_of c qos pid code.
Proof.
  intros H. destruct (handle_publish_ok _ _ _ _ _ _ _ _ _ _ _ _ H) as (o & code & -> & Ho).
  exists code. now rewrite filter_app, (filter_send_dropped o Ho), filter_send_ack.
Qed.

Theorem C01_ack_packet c k dup qos retain topic payload pid props s s' out :
  handle_packet c k (KPublish dup qos retain topic payload pid props) s = HOk s' out ->
  exists code, filter is_send out = ack_of c qos pid code.
Proof.
  unfold handle_packet. destruct (has_wild topic); [discriminate|].
  match goal with |- context [if ?b then HErrRead s (Some 148) else _] => destruct b end; [discriminate|].
  match goal with |- context [if ?b then HErrRead s (Some 130) else _] => destruct b end; [discriminate|].
  destruct ((k_v k =? 5) && (0 <? qos) && (k_quota k =? 0)); [discriminate|].
  apply C01_ack_l.
Qed.

(* the same at the level of scenario events *)
Theorem C01_ack_event c k dup qos retain topic payload pid props s s' out :
  nget c (b_conns s) = Some k -> k_phase k = PhConnected ->
  handle_packet c k (KPublish dup qos retain topic payload pid props) s = HOk s' out ->
  step_event s (ESend c (KPublish dup qos retain topic payload pid props)) = (s', out) /\
  exists code, filter is_send out = ack_of c qos pid code.
Proof.
  intros Hk Hp H. split; [|eapply C01_ack_packet; exact H].
  unfold step_event. now rewrite Hk, Hp, H.
Qed.

(* ================================================================== *)
(* 13. statements in the form used by Props/C01.v                      *)
(* ================================================================== *)

(* target 1, everything in one statement *)
Theorem add_to_queue_room_full cid m sb ids s q :
  aget cid (b_queues s) = Some q -> aq_skip cid m s = false -> (length (q_l q) < q_max q)%nat ->
  exists e m' s',
    add_to_queue cid m sb ids s = (s', []) /\
    aget cid (b_queues s') = Some (q_set (q_l q ++ [e]) (q_cur q) (q_drained q) q) /\
    e_body e = QPub m' /\ e_tag e = b_tag s /\ e_at e = b_now s /\
    m_qos m' = N.min (m_qos m) (s_qos sb) /\
    m_retained m' = m_retained m && s_rap sb /\
    m_subids m' = m_subids m ++ filter (fun i => negb (i =? 0)) ids /\
    m_dup m' = false /\
    m_topic m' = m_topic m /\ m_payload m' = m_payload m /\ m_pid m' = m_pid m /\ m_ctype m' = m_ctype m /\
    m_corr m' = m_corr m /\ m_expiry m' = m_expiry m /\ m_pfmt m' = m_pfmt m /\ m_resp m' = m_resp m /\
    m_uprops m' = m_uprops m /\
    (forall c', c' <> cid -> aget c' (b_queues s') = aget c' (b_queues s)) /\
    b_subs s' = b_subs s /\ b_ret s' = b_ret s /\ b_online s' = b_online s /\ b_sessions s' = b_sessions s /\
    b_conns s' = b_conns s /\ b_tag s' = b_tag s + 1.
Proof.
  intros Hq Hs Hr.
  exists (aq_elem m sb ids (b_tag s) s), (copy_of m sb ids), (enq cid (q_push (aq_elem m sb ids (b_tag s) s) q) s).
  split; [now apply add_to_queue_room|].
  split; [cbn; apply aget_aset_same|].
  split; [reflexivity|]. split; [reflexivity|]. split; [reflexivity|].
  split; [apply copy_qos|].
  repeat (split; [reflexivity|]).
  split; [|repeat split].
  intros c' Hc. cbn. now apply aget_aset_other.
Qed.

Lemma nodup_map_inj_on {A B} (f : A -> B) (l : list A) :
  (forall x y, In x l -> In y l -> f x = f y -> x = y) -> NoDup l -> NoDup (map f l).
Proof.
  intros Hinj Hnd. induction Hnd as [|x r Hx Hr IH]; cbn [map]; constructor.
  - intros Hin. apply in_map_iff in Hin as (y & Ey & Hy). apply Hx.
    rewrite (Hinj x y); [exact Hy|now left|now right|now symmetry].
  - apply IH. intros a b Ha Hb. apply Hinj; now right.
Qed.

Lemma of_cl_subs c l :
  NoDup l -> NoDup (map snd (of_cl c l)) /\ forall sb, In sb (map snd (of_cl c l)) <-> In (c, sb) l.
Proof.
  intros Hnd. split.
  - apply nodup_map_inj_on; [|unfold of_cl; now apply NoDup_filter].
    intros [c1 s1] [c2 s2] H1 H2 E. unfold of_cl in H1, H2. apply filter_In in H1 as [_ H1], H2 as [_ H2].
    cbn [fst snd] in *. apply str_eqb_eq in H1, H2. congruence.
  - intros sb. rewrite in_map_iff. unfold of_cl. split.
    + intros ([c' sb'] & E & Hin). apply filter_In in Hin as [Hin Hc]. cbn [fst snd] in *.
      apply str_eqb_eq in Hc. subst. exact Hin.
    + intros Hin. exists (c, sb). split; [reflexivity|]. apply filter_In. split; [exact Hin|]. cbn. apply str_eqb_refl.
Qed.

(* the matching plain subscriptions of client c, as the specification sees them *)
Definition matching_plain (ops : list op) (src : str) (t : str) (c : cid) (sb : sub) : Prop :=
  sp_get (c, [], s_filter sb) (spec_run ops) = Some sb /\ topic_match t (s_filter sb) = true /\
  ~ (s_nl sb = true /\ c = src).

Definition sub_copy (m : msg) (sb : sub) : qbody := QPub (copy_of m sb [s_id sb]).

(* target 3, specification form: one copy per matching plain subscription, then the share-group picks *)
Theorem C01_overlap_copies_spec src m s ops c q :
  b_subs s = db_run ops -> wf_ops ops = true -> m_topic m <> [] -> no_wild_levels (split (m_topic m)) = true ->
  c_onlyonce (b_cfg s) = false -> nodrop_ok src m s = true -> aget c (b_queues s) = Some q ->
  exists (subs : list sub) (picked : list call) (app : list elem),
    NoDup subs /\ (forall sb, In sb subs <-> matching_plain ops src (m_topic m) c sb) /\
    Forall2 group_call (d_groups src m s) picked /\
    aget c (b_queues (fst (fst (deliver src m s)))) = Some (q_extend app q) /\
    snd (fst (deliver src m s)) = [] /\
    map e_body app = map (sub_copy m) subs ++ map (call_body m) (calls_for c picked) /\
    Forall (stamped m s (fst (fst (deliver src m s)))) app /\
    StronglySorted N.lt (map e_tag app).
Proof.
  intros Hs Hwf Ht Hnw Ho Hn Hq.
  destruct (C01_overlap_copies_l src m s c q Ho Hn Hq) as (picked & app & H1 & H2 & H3 & H4 & H5 & H6).
  destruct (plain_spec src m s ops Hs Hwf Ht Hnw) as [Hnd Hin].
  destruct (of_cl_subs c _ Hnd) as [S1 S2].
  exists (map snd (of_cl c (d_plain src m s))), picked, app.
  split; [exact S1|]. split; [intros sb; rewrite S2; apply Hin|].
  repeat (split; [assumption|]). split; [|split; assumption].
  rewrite H4, map_map. reflexivity.
Qed.

(* target 4, specification form *)
Theorem C01_onlyonce_copy_spec src m s ops c q :
  b_subs s = db_run ops -> wf_ops ops = true -> m_topic m <> [] -> no_wild_levels (split (m_topic m)) = true ->
  c_onlyonce (b_cfg s) = true -> nodrop_ok src m s = true -> aget c (b_queues s) = Some q ->
  exists (subs : list sub) (picked : list call) (app : list elem),
    NoDup subs /\ (forall sb, In sb subs <-> matching_plain ops src (m_topic m) c sb) /\
    Forall2 group_call (d_groups src m s) picked /\
    aget c (b_queues (fst (fst (deliver src m s)))) = Some (q_extend app q) /\
    snd (fst (deliver src m s)) = [] /\
    ((subs = [] /\ map e_body app = map (call_body m) (calls_for c picked)) \/
     (exists sb m', In sb subs /\ (forall x, In x subs -> s_qos x <= s_qos sb) /\
        map e_body app = map (call_body m) (calls_for c picked) ++ [QPub m'] /\
        m' = copy_of m sb (map s_id subs) /\
        m_qos m' = N.min (m_qos m) (max_qos_of subs) /\
        m_subids m' = m_subids m ++ filter (fun i => negb (i =? 0)) (map s_id subs))) /\
    Forall (stamped m s (fst (fst (deliver src m s)))) app /\
    StronglySorted N.lt (map e_tag app).
Proof.
  intros Hs Hwf Ht Hnw Ho Hn Hq.
  destruct (C01_onlyonce_copy_l src m s c q Ho Hn Hq) as (picked & app & H1 & H2 & H3 & H4 & H5 & H6).
  destruct (plain_spec src m s ops Hs Hwf Ht Hnw) as [Hnd Hin].
  destruct (of_cl_subs c _ Hnd) as [S1 S2].
  exists (map snd (of_cl c (d_plain src m s))), picked, app.
  split; [exact S1|]. split; [intros sb; rewrite S2; apply Hin|].
  repeat (split; [assumption|]). split; [|split; assumption].
  destruct H4 as [H4|(sb & Hb1 & Hb2 & Hb3)]; [now left|right].
  exists sb, (copy_of m sb (map s_id (map snd (of_cl c (d_plain src m s))))).
  split; [exact Hb1|]. split; [intros x Hx; rewrite Hb2; now apply max_qos_ge|].
  split; [exact Hb3|]. split; [reflexivity|]. split; [|reflexivity].
  now rewrite copy_qos, Hb2.
Qed.

(* target 3b, specification form; the topic must not be the empty string, see the
   counterexample below *)
Theorem C01_nothing_unmatched_spec src m s ops c :
  b_subs s = db_run ops -> wf_ops ops = true -> m_topic m <> [] -> no_wild_levels (split (m_topic m)) = true ->
  (forall sb, sp_get (c, s_share sb, s_filter sb) (spec_run ops) = Some sb -> sub_matches (m_topic m) sb = false) ->
  aget c (b_queues (fst (fst (deliver src m s)))) = aget c (b_queues s).
Proof.
  intros Hs Hwf Ht Hnw Hno. apply C01_nothing_unmatched_l.
  destruct (found_spec m s ops Hs Hwf Ht Hnw) as [_ Hin].
  destruct (of_cl c (d_ents src m s)) as [|[c' sb] r] eqn:E; [reflexivity|exfalso].
  assert (H : In (c', sb) (of_cl c (d_ents src m s))) by (rewrite E; now left).
  unfold of_cl, d_ents in H. apply filter_In in H as [H Hc]. apply filter_In in H as [H _].
  cbn [fst] in Hc. apply str_eqb_eq in Hc. subst c'. apply Hin in H as [H1 H2]. rewrite (Hno sb H1) in H2. discriminate.
Qed.

(* ================================================================== *)
(* 14. a concrete reachable state for the non-vacuity examples         *)
(* ================================================================== *)

Definition ex_cfg (once : bool) : cfg :=
  {| c_onlyonce := once; c_max_inflight := 10; c_max_queued := 100; c_queue_qos0 := true;
     c_session_expiry := 3600; c_message_expiry := 0; c_recv_max := 10; c_alias_max := 0; c_max_packet := 0;
     c_max_qos := 2; c_retain_avail := true; c_wildcard := true; c_subid := true; c_shared := true;
     c_max_keepalive := 60; c_allow_zero_len := true; c_inflight_expiry := 0 |}.
Definition ex_conn (id : str) : connect :=
  {| cn_ver := 5; cn_cid := id; cn_clean := true; cn_keepalive := 0; cn_user := None; cn_pass := None;
     cn_will := None; cn_props := [] |}.
Definition ex_tq (name : str) (q : N) (nl rap : bool) : topic_req :=
  {| tq_name := name; tq_qos := q; tq_nl := nl; tq_rap := rap; tq_rh := 0 |}.
Definition ex_A : str := [97].
Definition ex_B : str := [98].
Definition ex_C : str := [99].
Definition ex_t_x : str := [116; 47; 120].           (* "t/x" *)
Definition ex_t_hash : str := [116; 47; 35].         (* "t/#" *)
Definition ex_t_plus : str := [116; 47; 43].         (* "t/+" *)
Definition ex_u : str := [117].                      (* "u" *)
Definition ex_sh_x : str := SHARE_PREFIX ++ [103; 47; 116; 47; 120].   (* "$share/g/t/x" *)
(* three v5 clients on sockets 1, 2, 3; a: "t/#" (QoS 1, id 7) and "t/+" (QoS 0, No Local);
   b: "t/x" (QoS 2, Retain As Published, id 9) and "$share/g/t/x" (QoS 1, id 9); c: "$share/g/t/x" (QoS 0) *)
Definition ex_events : list event :=
  [EConnect 1 (ex_conn ex_A); EConnect 2 (ex_conn ex_B); EConnect 3 (ex_conn ex_C);
   ESend 1 (KSubscribe 1 [PSubId 7] [ex_tq ex_t_hash 1 false false]);
   ESend 1 (KSubscribe 2 [] [ex_tq ex_t_plus 0 true false]);
   ESend 2 (KSubscribe 1 [PSubId 9] [ex_tq ex_t_x 2 false true; ex_tq ex_sh_x 1 false false]);
   ESend 3 (KSubscribe 1 [] [ex_tq ex_sh_x 0 false false])].
Definition ex_state (once : bool) (picks : list nat) : st :=
  fst (run (st_init (ex_cfg once) no_hooks picks) ex_events).
Definition ex_sub (g f : str) (id q : N) (nl rap : bool) : sub :=
  {| s_share := g; s_filter := f; s_id := id; s_qos := q; s_nl := nl; s_rap := rap; s_rh := 0 |}.
Definition ex_ops : list op :=
  [OSub ex_A (ex_sub [] ex_t_hash 7 1 false false); OSub ex_A (ex_sub [] ex_t_plus 0 0 true false);
   OSub ex_B (ex_sub [] ex_t_x 9 2 false true); OSub ex_B (ex_sub [103] ex_t_x 9 1 false false);
   OSub ex_C (ex_sub [103] ex_t_x 0 0 false false)].
Definition ex_pub (topic : str) (q : N) (retained : bool) : msg :=
  {| m_dup := false; m_qos := q; m_retained := retained; m_topic := topic; m_payload := [104; 105]; m_pid := 0;
     m_ctype := []; m_corr := []; m_expiry := 0; m_pfmt := 0; m_resp := []; m_subids := []; m_uprops := [] |}.
Definition ex_queue_bodies (c : cid) (s : st) : list qbody :=
  match aget c (b_queues s) with Some q => map e_body (q_l q) | None => [] end.
Definition ex_queue_tags (c : cid) (s : st) : list N :=
  match aget c (b_queues s) with Some q => map e_tag (q_l q) | None => [] end.

(* ================================================================== *)
(* 15. reads hand the elements out in queue order                      *)
(* ================================================================== *)
From GM Require Import Proofs.QueueP.

Lemma skipn_nth_cons {A} (l : list A) : forall i v, nth_error l i = Some v -> skipn i l = v :: skipn (S i) l.
Proof.
  induction l as [|x r IH]; intros [|i] v H; cbn in H; try discriminate.
  - now injection H as ->.
  - cbn [skipn]. now rewrite (IH i v H).
Qed.

Lemma skipn_remove_nth {A} (l : list A) : forall i, skipn i (remove_nth i l) = skipn (S i) l.
Proof.
  induction l as [|x r IH]; intros [|i]; try reflexivity.
  change (skipn (S i) (remove_nth (S i) (x :: r))) with (skipn i (remove_nth i r)).
  change (skipn (S (S i)) (x :: r)) with (skipn (S i) r). apply IH.
Qed.

Lemma skipn_replace_nth {A} (y : A) (l : list A) : forall i, skipn (S i) (replace_nth i y l) = skipn (S i) l.
Proof.
  induction l as [|x r IH]; intros [|i]; cbn [replace_nth skipn]; try reflexivity. apply IH.
Qed.

Lemma read_loop_order now : forall n pids l cur limit v5 ifexp dq di evs rs l' cur' dq' di' evs' rs',
  read_loop now n pids l cur limit v5 ifexp dq di evs rs = Some (l', cur', dq', di', evs', rs') ->
  exists added, rs' = rs ++ added /\ subseq (map e_tag added) (map e_tag (skipn cur l)).
Proof.
  induction n as [|n IH]; intros pids l cur limit v5 ifexp dq di evs rs l' cur' dq' di' evs' rs' H; cbn [read_loop] in H.
  - injection H as <- <- <- <- <- <-. exists []. rewrite app_nil_r. split; [reflexivity|apply subseq_nil].
  - destruct (nth_error l cur) as [v|] eqn:Ev.
    2:{ injection H as <- <- <- <- <- <-. exists []. rewrite app_nil_r. split; [reflexivity|apply subseq_nil]. }
    rewrite (skipn_nth_cons l cur v Ev). cbn [map].
    destruct (expired now v).
    { apply IH in H as (added & E & S). exists added. split; [exact E|].
      rewrite skipn_remove_nth in S. now constructor. }
    destruct (e_body v) as [m|p] eqn:Eb; [|discriminate].
    destruct (limit <? msg_total_bytes v5 m).
    { apply IH in H as (added & E & S). exists added. split; [exact E|].
      rewrite skipn_remove_nth in S. now constructor. }
    destruct (m_qos m =? 0).
    { apply IH in H as (added & E & S). exists (v :: added). split; [now rewrite E, <- app_assoc|].
      rewrite skipn_remove_nth in S. cbn [map]. now constructor. }
    destruct pids as [|p pids']; [discriminate|].
    apply IH in H as (added & E & S).
    match type of E with _ = (_ ++ [?v']) ++ _ => exists (v' :: added) end.
    split; [now rewrite E, <- app_assoc|].
    rewrite skipn_replace_nth in S. cbn [map].
    replace (e_tag (if ifexp =? 0 then with_body (QPub (set_pid p m)) v
                    else with_expiry (Some (now + ifexp)) (with_body (QPub (set_pid p m)) v))) with (e_tag v)
      by (destruct (ifexp =? 0); reflexivity).
    now constructor.
Qed.

(* Read returns a subsequence of the not-yet-read part of the queue, in queue order *)
Theorem q_read_in_order now pids q q' rs evs :
  q_read now pids q = QOk (q', rs, evs) ->
  subseq (map e_tag rs) (map e_tag (skipn (q_cur q) (q_l q))).
Proof.
  unfold q_read. destruct (negb (q_drained q)); [discriminate|]. destruct (q_closed q); [discriminate|].
  destruct (q_cur q =? length (q_l q))%nat; [discriminate|].
  destruct (read_loop now _ pids (q_l q) (q_cur q) (q_limit q) (q_v5 q) (q_ifexp q) 0%Z 0%Z [] [])
    as [[[[[[l cur] dq] di] evs0] rs0]|] eqn:E; [|discriminate].
  intros H. injection H as <- <- <-. apply read_loop_order in E as (added & -> & S). exact S.
Qed.

Lemma subseq_sorted (a b : list N) : subseq a b -> StronglySorted N.lt b -> StronglySorted N.lt a.
Proof.
  induction 1 as [|x l m H IH|x l m H IH]; intros Hs; [constructor| |].
  - inversion Hs as [|? ? Hm Hx]; subst. constructor; [now apply IH|].
    rewrite Forall_forall in *. intros y Hy. apply Hx. eapply subseq_in; [exact H|exact Hy].
  - inversion Hs; subst. now apply IH.
Qed.

(* so: when the unread part of a queue carries increasing tags (which is how deliver builds it),
   every Read returns its elements in increasing tag order - publication order *)
Corollary q_read_sorted now pids q q' rs evs :
  StronglySorted N.lt (map e_tag (skipn (q_cur q) (q_l q))) ->
  q_read now pids q = QOk (q', rs, evs) -> StronglySorted N.lt (map e_tag rs).
Proof. intros Hs H. eapply subseq_sorted; [eapply q_read_in_order; exact H|exact Hs]. Qed.
(* ================================================================== *)
(* 16. the poll loops emit no acknowledgement: the ack at the level of `step` *)
(* ================================================================== *)

Definition is_ack (o : out) : bool :=
  match o with OSend _ (KPuback _ _ _) | OSend _ (KPubrec _ _ _) => true | _ => false end.
Definition noack (o : out) : Prop := is_ack o = false.

Lemma fold_noack {A K} (f : K * list out -> A -> K * list out) (l : list A) :
  (forall k o a, Forall noack o -> Forall noack (snd (f (k, o) a))) ->
  forall k o, Forall noack o -> Forall noack (snd (fold_left f l (k, o))).
Proof.
  intros Hf. induction l as [|a r IH]; intros k o Ho; cbn [fold_left]; [exact Ho|].
  destruct (f (k, o) a) as [k1 o1] eqn:E. apply IH. specialize (Hf k o a Ho). now rewrite E in Hf.
Qed.

Lemma write_publish_noack c k m : Forall noack (snd (write_publish c k m)).
Proof.
  unfold write_publish. destruct ((k_v k =? 5) && (0 <? k_client_alias_max k) && (msg_total_bytes true m + 5 <=? k_client_max_packet k)).
  - destruct (am_check (m_topic m) (k_alias_out k)) as [am' [a ex|]]; cbn [snd]; repeat constructor.
  - cbn [snd]. repeat constructor.
Qed.

Lemma dropped_noack o : Forall is_dropped o -> Forall noack o.
Proof. apply Forall_impl. intros a (c & m & r & ->). reflexivity. Qed.

Lemma drops_of_noack cid evs : Forall noack (drops_of cid evs).
Proof.
  apply dropped_noack. eapply Forall_impl; [|apply drops_of_only]. intros a (m & r & ->). now exists cid, m, r.
Qed.

Lemma poll_once_noack c s s' o : poll_once c s = Some (s', o) -> Forall noack o.
Proof.
  unfold poll_once. destruct (nget c (b_conns s)) as [k|]; [|discriminate].
  destruct (k_phase k); try discriminate.
  1:{
  destruct (aget (k_cid k) (b_queues s)) as [q|]; [|discriminate].
  destruct (negb (k_drained k)).
  - destruct (q_read_inflight (b_now s) (N.to_nat (k_max_inflight k)) q) as [q' rs].
    destruct rs as [|r0 rs]; [intros H; injection H as <- <-; constructor|].
    match goal with |- (let (_, _) := ?X in _) = _ -> _ => destruct X as [k' o'] eqn:E end.
    intros H. injection H as <- <-.
    match type of E with fold_left ?f ?l (?k0, []) = _ =>
      pose proof (fold_noack f l) as F;
      assert (G : Forall noack (snd (fold_left f l (k0, [])))) end.
    { apply F; [|constructor]. intros k1 o1 a Ho. cbn beta iota.
      destruct (e_body a) as [m|p].
      - rewrite let_pair. cbn [snd]. apply Forall_app. split; [exact Ho|apply write_publish_noack].
      - cbn [snd]. apply Forall_app. split; [exact Ho|repeat constructor]. }
    rewrite E in G. exact G.
  - destruct (k_held k) as [ids|].
    + destruct (q_read (b_now s) ids q) as [[[q' rs] evs]| | |]; try discriminate.
      match goal with |- (let (_, _) := ?X in _) = _ -> _ => destruct X as [k' o'] eqn:E end.
      intros H. injection H as <- <-. apply Forall_app. split; [apply drops_of_noack|].
      match type of E with fold_left ?f ?l (?k0, []) = _ =>
        pose proof (fold_noack f l) as F;
        assert (G : Forall noack (snd (fold_left f l (k0, [])))) end.
      { apply F; [|constructor]. intros k1 o1 a Ho. cbn beta iota.
        destruct (e_body a) as [m|p].
        - rewrite let_pair. cbn [snd]. apply Forall_app. split; [exact Ho|apply write_publish_noack].
        - exact Ho. }
      rewrite E in G. exact G.
    + destruct (lim_poll _ (k_lim k)) as [l' [| | |ids]]; try discriminate.
      intros H. injection H as <- <-. constructor.
  }
  destruct (aget (k_cid k) (b_queues s)) as [q|]; [|discriminate].
  destruct (negb (k_drained k)).
  - destruct (q_read_inflight (b_now s) (N.to_nat (k_max_inflight k)) q) as [q' rs].
    destruct rs as [|r0 rs]; [intros H; injection H as <- <-; constructor|].
    match goal with |- (let (_, _) := ?X in _) = _ -> _ => destruct X as [k' o'] eqn:E end.
    intros H. injection H as <- <-.
    match type of E with fold_left ?f ?l (?k0, []) = _ =>
      pose proof (fold_noack f l) as F;
      assert (G : Forall noack (snd (fold_left f l (k0, [])))) end.
    { apply F; [|constructor]. intros k1 o1 a Ho. cbn beta iota.
      destruct (e_body a) as [m|p].
      - rewrite let_pair. cbn [snd]. apply Forall_app. split; [exact Ho|apply write_publish_noack].
      - cbn [snd]. apply Forall_app. split; [exact Ho|repeat constructor]. }
    rewrite E in G. exact G.
  - destruct (k_held k) as [ids|].
    + destruct (q_read (b_now s) ids q) as [[[q' rs] evs]| | |]; try discriminate.
      match goal with |- (let (_, _) := ?X in _) = _ -> _ => destruct X as [k' o'] eqn:E end.
      intros H. injection H as <- <-. apply Forall_app. split; [apply drops_of_noack|].
      match type of E with fold_left ?f ?l (?k0, []) = _ =>
        pose proof (fold_noack f l) as F;
        assert (G : Forall noack (snd (fold_left f l (k0, [])))) end.
      { apply F; [|constructor]. intros k1 o1 a Ho. cbn beta iota.
        destruct (e_body a) as [m|p].
        - rewrite let_pair. cbn [snd]. apply Forall_app. split; [exact Ho|apply write_publish_noack].
        - exact Ho. }
      rewrite E in G. exact G.
    + destruct (lim_poll _ (k_lim k)) as [l' [| | |ids]]; try discriminate.
      intros H. injection H as <- <-. constructor.
Qed.

Lemma poll_conn_noack fuel c : forall s, Forall noack (snd (poll_conn fuel c s)).
Proof.
  induction fuel as [|f IH]; intros s; cbn [poll_conn]; [constructor|].
  destruct (poll_once c s) as [[s' o]|] eqn:E; [|constructor].
  apply poll_once_noack in E. rewrite let_pair. cbn [snd]. apply Forall_app. split; [|apply IH].
  destruct (nget c (b_conns s)) as [k|]; [|exact E].
  destruct (k_phase k); try exact E.
  rewrite Forall_forall in *. intros x Hx. apply filter_In in Hx as [Hx _]. now apply E.
Qed.

Lemma poll_all_noack s : Forall noack (snd (poll_all s)).
Proof.
  unfold poll_all.
  assert (G : forall l s0 o0, Forall noack o0 ->
              Forall noack (snd (fold_left (fun (acc : st * list out) (ck : N * conn) =>
                                              let '(s0, o0) := acc in
                                              let '(s', o') := poll_conn 400 (fst ck) s0 in (s', o0 ++ o')) l (s0, o0)))).
  { induction l as [|ck r IH]; intros s0 o0 Ho; cbn [fold_left]; [exact Ho|].
    rewrite let_pair. apply IH. apply Forall_app. split; [exact Ho|apply poll_conn_noack]. }
  apply G. constructor.
Qed.

Lemma filter_noack o : Forall noack o -> filter is_ack o = [].
Proof. induction 1 as [|x r Hx Hr IH]; [reflexivity|]. cbn [filter]. now rewrite Hx. Qed.

Lemma filter_ack_ack c qos pid code : filter is_ack (ack_of c qos pid code) = ack_of c qos pid code.
Proof. unfold ack_of. destruct (qos =? 1); [reflexivity|]. destruct (qos =? 2); reflexivity. Qed.

(* the whole step (handler + poll loops run to quiescence) of an accepted PUBLISH contains exactly
   one acknowledgement packet: the one for this PUBLISH, to its sender, with its packet identifier *)
Theorem C01_ack_step c k dup qos retain topic payload pid props s s' out :
  nget c (b_conns s) = Some k -> k_phase k = PhConnected ->
  handle_packet c k (KPublish dup qos retain topic payload pid props) s = HOk s' out ->
  exists code,
    filter is_ack (snd (step s (ESend c (KPublish dup qos retain topic payload pid props)))) = ack_of c qos pid code.
Proof.
  intros Hk Hp H. destruct (C01_ack_event _ _ _ _ _ _ _ _ _ _ _ _ Hk Hp H) as [Es _].
  unfold handle_packet in H. destruct (has_wild topic); [discriminate|].
  match type of H with context [if ?b then HErrRead s (Some 148) else _] => destruct b end; [discriminate|].
  match type of H with context [if ?b then HErrRead s (Some 130) else _] => destruct b end; [discriminate|].
  destruct ((k_v k =? 5) && (0 <? qos) && (k_quota k =? 0)); [discriminate|].
  destruct (handle_publish_ok _ _ _ _ _ _ _ _ _ _ _ _ H) as (o & code & -> & Ho).
  exists code. unfold step. rewrite Es, let_pair. cbn [snd].
  rewrite !filter_app, (filter_noack o (dropped_noack o Ho)), (filter_noack _ (poll_all_noack s')), filter_ack_ack.
  now rewrite app_nil_r.
Qed.

(* ================================================================== *)
(* 17. deliver keeps the unread part of every queue in increasing tag order *)
(* ================================================================== *)

Definition unread_sorted (bound : N) (q : queue) : Prop :=
  StronglySorted N.lt (map e_tag (skipn (q_cur q) (q_l q))) /\
  Forall (fun e => e_tag e < bound) (skipn (q_cur q) (q_l q)).

Theorem deliver_keeps_order src m s c q :
  nodrop_ok src m s = true -> aget c (b_queues s) = Some q -> (q_cur q <= length (q_l q))%nat ->
  unread_sorted (b_tag s) q ->
  exists q', aget c (b_queues (fst (fst (deliver src m s)))) = Some q' /\
             q_cur q' = q_cur q /\ unread_sorted (b_tag (fst (fst (deliver src m s)))) q'.
Proof.
  intros Hn Hq Hcur [Hs Hb]. destruct (deliver_appends src m s c q Hn Hq) as (app & Q & St & _ & T).
  pose proof (deliver_tag_mono src m s) as Hm.
  exists (q_extend app q). split; [exact Q|]. split; [reflexivity|].
  unfold unread_sorted, q_extend, q_set. cbn [q_l q_cur].
  rewrite skipn_app. replace (q_cur q - length (q_l q))%nat with 0%nat by lia. cbn [skipn].
  rewrite Forall_forall in St, Hb. split.
  - rewrite map_app. apply sorted_app; [exact Hs|exact T|].
    intros x y Hx Hy. apply in_map_iff in Hx as (e1 & <- & He1). apply in_map_iff in Hy as (e2 & <- & He2).
    specialize (Hb e1 He1). destruct (St e2 He2) as [B _]. lia.
  - apply Forall_forall. intros e He. apply in_app_or in He as [He|He].
    + specialize (Hb e He). lia.
    + destruct (St e He) as [B _]. lia.
Qed.

(* a second example state: client a subscribes "#" and "$share/g/#"; b publishes *)
Definition ex_sys_x : str := [36; 83; 89; 83; 47; 120].                (* "$SYS/x" *)
Definition ex_hash : str := [35].                                      (* "#" *)
Definition ex_sh_hash : str := SHARE_PREFIX ++ [103; 47; 35].          (* "$share/g/#" *)
Definition ex_events2 : list event :=
  [EConnect 1 (ex_conn ex_A); EConnect 2 (ex_conn ex_B);
   ESend 1 (KSubscribe 1 [] [ex_tq ex_hash 0 false false; ex_tq ex_sh_hash 0 false false])].
Definition ex_state2 : st := fst (run (st_init (ex_cfg false) no_hooks []) ex_events2).
(* a third one: a additionally subscribes "$share/g/$SYS/#" (subscription identifier 5) *)
Definition ex_sh_sys_hash : str := SHARE_PREFIX ++ [103; 47; 36; 83; 89; 83; 47; 35].   (* "$share/g/$SYS/#" *)
Definition ex_sys_hash : str := [36; 83; 89; 83; 47; 35].                                (* "$SYS/#" *)
Definition ex_events3 : list event :=
  ex_events2 ++ [ESend 1 (KSubscribe 2 [PSubId 5] [ex_tq ex_sh_sys_hash 0 false false])].
Definition ex_state3 : st := fst (run (st_init (ex_cfg false) no_hooks []) ex_events3).
