(* Totality: Properties.Unpack, every packet's Unpack, NewPacket and ReadPacket return a
   packet or an error for every input: no panic, no fuel exhaustion.  Also: Pack is safe. *)
From Coq Require Import List NArith ZArith Bool Lia ZifyN ZifyNat ZifyBool.
Import ListNotations.
From GM Require Import Base.Topic Base.Msg Model.CodecBase Model.CodecProps Model.CodecPackets
  Proofs.CodecBaseP Proofs.CodecStrP.
Open Scope N_scope.

Lemma safe_of_rd : forall A b (r : res (A * list N)), safe_rd b r -> safe r.
Proof. intros A b [[x r]| | |]; cbn; auto. Qed.
Lemma safe_of_rd1 : forall A b (r : res (A * list N)), safe_rd1 b r -> safe r.
Proof. intros A b [[x r]| | |]; cbn; auto. Qed.
Lemma safe_bind_all : forall A B (r : res A) (f : A -> res B), safe r -> (forall a, safe (f a)) -> safe (bind r f).
Proof. intros A B [a| | |] f H1 H2; cbn in *; auto. Qed.
Lemma safe_total : forall A (r : res A), (exists a, r = Ok a) -> safe r.
Proof. intros A r [a ->]. exact I. Qed.

(* reader followed by a reader on what is left *)
Lemma safe_rd_bind : forall A B b (r : res (A * list N)) (f : A * list N -> res (B * list N)),
  safe_rd b r -> (forall a rest, safe_rd rest (f (a, rest))) -> safe_rd b (bind r f).
Proof.
  intros A B b [[a rest]| | |] f H1 H2; cbn in *; auto.
  specialize (H2 a rest). destruct (f (a, rest)) as [[y r2]| | |]; cbn in *; auto. lia.
Qed.

Lemma safe_read_byte : forall b, safe (read_byte b). Proof. intros; eapply safe_of_rd1, read_byte_safe. Qed.
Lemma safe_read_uint16 : forall b, safe (read_uint16 b). Proof. intros; eapply safe_of_rd1, read_uint16_safe. Qed.
Lemma safe_read_uint32 : forall b, safe (read_uint32 b). Proof. intros; eapply safe_of_rd1, read_uint32_safe. Qed.
Lemma safe_read_varint : forall b, safe (read_varint b). Proof. intros; eapply safe_of_rd, read_varint_safe. Qed.
Lemma safe_read_utf8_string : forall m b, safe (read_utf8_string m b).
Proof. intros; eapply safe_of_rd1, read_utf8_string_safe. Qed.
Lemma safe_valid_utf8 : forall p, safe (valid_utf8_impl p). Proof. intros; apply safe_total, valid_utf8_impl_total. Qed.
Lemma safe_valid_name : forall m p, safe (valid_topic_name_impl m p).
Proof. intros; apply safe_total, valid_topic_name_impl_total. Qed.
Lemma safe_valid_filter : forall m p, safe (valid_topic_filter_impl m p).
Proof. intros; apply safe_total, valid_topic_filter_impl_total. Qed.
Lemma safe_valid_v5 : forall p, safe (valid_v5_topic_impl p).
Proof. intros; apply safe_total, valid_v5_topic_impl_total. Qed.

Create HintDb csafe.
#[export] Hint Resolve safe_read_byte safe_read_uint16 safe_read_uint32 safe_read_varint safe_read_utf8_string
  safe_valid_utf8 safe_valid_name safe_valid_filter safe_valid_v5 safe_remap encode_varint_safe
  encode_utf8_string_safe : csafe.

(* decompose a goal `safe e` along the structure of e *)
Ltac ss :=
  repeat first
    [ exact I
    | solve [auto with csafe]
    | apply safe_bind_all; [ | intros ]
    | match goal with
      | |- safe (match ?x with _ => _ end) => destruct x
      | |- safe (let '(_, _) := ?x in _) => destruct x
      end ].

(* ---------------------------------------------------------------- properties *)
Lemma read_single_safe : forall id k p b, safe_rd b (read_single id k p b).
Proof.
  intros. unfold read_single. destruct k; destruct (is_some _); try exact I.
  - destruct b as [|o r]; [exact I|]. destruct (_ && _); cbn; [exact I|lia].
  - apply safe_rd_bind; [apply safe_rd_remap, safe_rd1_rd, read_uint16_safe|].
    intros o rest. destruct (_ && _); [exact I|]. destruct (_ && _); cbn; [exact I|lia].
  - apply safe_rd_bind; [apply safe_rd_remap, safe_rd1_rd, read_uint32_safe|].
    intros o rest. destruct (_ && _); cbn; [exact I|lia].
  - apply safe_rd_bind; [apply safe_rd1_rd, read_utf8_string_safe|].
    intros o rest. destruct (_ =? _); [|cbn; lia].
    destruct (valid_topic_name_impl_total true o) as [ok ->]. cbn [bind].
    destruct ok; cbn; [lia|exact I].
  - apply safe_rd_bind; [apply safe_rd_remap, safe_rd1_rd, read_utf8_string_safe|].
    intros o rest. cbn. lia.
Qed.
Lemma read_user_safe : forall p b, safe_rd b (read_user p b).
Proof.
  intros. unfold read_user.
  apply safe_rd_bind; [apply safe_rd_remap, safe_rd1_rd, read_utf8_string_safe|]. intros k r.
  apply safe_rd_bind; [apply safe_rd_remap, safe_rd1_rd, read_utf8_string_safe|]. intros v r'.
  cbn. lia.
Qed.
Lemma read_subid_safe : forall p b, safe_rd b (read_subid p b).
Proof.
  intros. unfold read_subid. destruct (pr_subid p); [|exact I].
  apply safe_rd_bind; [apply safe_rd_remap, read_varint_safe|]. intros si r.
  destruct (_ =? _); cbn; [exact I|lia].
Qed.

Lemma props_loop_safe : forall fuel ptype p b, (length b < fuel)%nat -> safe (props_loop fuel ptype p b).
Proof.
  induction fuel; intros ptype p b Hf; [lia|]. cbn [props_loop].
  destruct b as [|id r]; [exact I|].
  destruct (negb _); [exact I|].
  assert (Hr : safe_rd r (if id =? 11 then read_subid p r else if id =? 38 then read_user p r
                          else match prop_kind id with Some kd => read_single id kd p r | None => Err MALFORMED end)).
  { destruct (id =? 11); [apply read_subid_safe|]. destruct (id =? 38); [apply read_user_safe|].
    destruct (prop_kind id); [apply read_single_safe|exact I]. }
  destruct (if id =? 11 then _ else _) as [[p' r']| | |]; cbn in Hr |- *; auto.
  apply IHfuel. cbn [length] in Hf. lia.
Qed.

Lemma props_unpack_safe : forall ptype b, safe_rd b (props_unpack ptype b).
Proof.
  intros. unfold props_unpack. destruct b as [|b0 bt] eqn:Eb; [destruct (_ || _); cbn; [lia|exact I]|]. rewrite <- Eb. clear Eb b0 bt.
  pose proof (read_varint_safe b) as Hv.
  destruct (read_varint b) as [[n r]| | |]; cbn [bind safe_rd] in Hv |- *; auto.
  destruct (n =? 0); [cbn [safe_rd]; lia|]. destruct (shorter r n); [exact I|]. unfold buf_next.
  pose proof (props_loop_safe (S (length (takeN n r))) ptype props_empty (takeN n r)) as Hl.
  destruct (props_loop _ _ _ _) as [p| | |]; cbn [bind safe safe_rd] in Hl |- *; try (apply Hl; lia); auto.
  destruct (_ && _); cbn [safe_rd]; [exact I|]. pose proof (dropN_length _ r n). lia.
Qed.

Lemma will_props_loop_safe : forall fuel p b, (length b < fuel)%nat -> safe (will_props_loop fuel p b).
Proof.
  induction fuel; intros p b Hf; [lia|]. cbn [will_props_loop].
  destruct b as [|id r]; [exact I|].
  assert (Hr : safe_rd r (if id =? 38 then read_user p r
                          else if will_prop_known id then
                                 match prop_kind id with Some kd => read_single id kd p r | None => Err MALFORMED end
                               else Err MALFORMED)).
  { destruct (id =? 38); [apply read_user_safe|]. destruct (will_prop_known id); [|exact I].
    destruct (prop_kind id); [apply read_single_safe|exact I]. }
  destruct (if id =? 38 then _ else _) as [[p' r']| | |]; cbn in Hr |- *; auto.
  apply IHfuel. cbn [length] in Hf. lia.
Qed.
Lemma will_props_unpack_safe : forall b, safe_rd b (will_props_unpack b).
Proof.
  intros. unfold will_props_unpack.
  pose proof (read_varint_safe b) as Hv.
  destruct (read_varint b) as [[n r]| | |]; cbn [bind safe_rd] in Hv |- *; auto.
  destruct (n =? 0); [cbn [safe_rd]; lia|]. destruct (shorter r n); [exact I|]. unfold buf_next.
  pose proof (will_props_loop_safe (S (length (takeN n r))) props_empty (takeN n r)) as Hl.
  destruct (will_props_loop _ _ _) as [p| | |]; cbn [bind safe safe_rd] in Hl |- *; try (apply Hl; lia); auto.
  pose proof (dropN_length _ r n). lia.
Qed.
Lemma safe_props_unpack : forall t b, safe (props_unpack t b). Proof. intros; eapply safe_of_rd, props_unpack_safe. Qed.
Lemma safe_will_props_unpack : forall b, safe (will_props_unpack b). Proof. intros; eapply safe_of_rd, will_props_unpack_safe. Qed.
#[export] Hint Resolve safe_props_unpack safe_will_props_unpack : csafe.

(* ---------------------------------------------------------------- packets *)
Lemma parse_connect_safe : forall b, safe (parse_connect b).
Proof. intros. unfold parse_connect. ss. Qed.
Lemma parse_connack_safe : forall v b, safe (parse_connack v b).
Proof. intros. unfold parse_connack. ss. Qed.
Lemma publish_flags_safe : forall f, safe (publish_flags f).
Proof. intros. unfold publish_flags. ss. Qed.
#[export] Hint Resolve publish_flags_safe : csafe.
Lemma parse_publish_safe : forall v d q r b, safe (parse_publish v d q r b).
Proof. intros. unfold parse_publish. ss. Qed.
Lemma parse_ack_safe : forall t v rl b, safe (parse_ack t v rl b).
Proof. intros. unfold parse_ack. ss. Qed.
Lemma parse_pubrel_safe : forall rl b, safe (parse_pubrel rl b).
Proof. intros. unfold parse_pubrel. ss. Qed.

Lemma sub_topics_loop_safe : forall fuel ver acc b, (length b < fuel)%nat -> safe (sub_topics_loop fuel ver acc b).
Proof.
  induction fuel; intros ver acc b Hf; [lia|]. cbn [sub_topics_loop].
  pose proof (read_utf8_string_safe true b) as H1.
  destruct (read_utf8_string true b) as [[tf b1]| | |]; cbn [bind safe safe_rd1] in H1 |- *; auto.
  apply safe_bind_all; [destruct (ver =? 5); auto with csafe|]. intros ok.
  destruct (negb ok); [exact I|].
  pose proof (read_byte_safe b1) as H2.
  destruct (read_byte b1) as [[opts b2]| | |]; cbn [bind remap safe safe_rd1] in H2 |- *; auto.
  do 5 (match goal with |- safe (if ?c then _ else _) => destruct c end; [exact I|]).
  destruct b2 as [|x b2']; [exact I|]. apply IHfuel. lia.
Qed.
Lemma safe_sub_topics : forall v b, safe (sub_topics_loop (S (length b)) v [] b).
Proof. intros. apply sub_topics_loop_safe. lia. Qed.
#[export] Hint Resolve safe_sub_topics : csafe.
Lemma parse_subscribe_safe : forall v b, safe (parse_subscribe v b).
Proof. intros. unfold parse_subscribe. ss. Qed.
Lemma parse_suback_safe : forall v b, safe (parse_suback v b).
Proof. intros. unfold parse_suback, parse_codes. ss. Qed.

Lemma unsub_topics_loop_safe : forall fuel ver acc b, (length b < fuel)%nat -> safe (unsub_topics_loop fuel ver acc b).
Proof.
  induction fuel; intros ver acc b Hf; [lia|]. cbn [unsub_topics_loop].
  pose proof (read_utf8_string_safe true b) as H1.
  destruct (read_utf8_string true b) as [[tf b1]| | |]; cbn [bind safe safe_rd1] in H1 |- *; auto.
  apply safe_bind_all; [destruct (ver =? 5); auto with csafe|]. intros ok.
  destruct (negb ok); [exact I|].
  destruct b1 as [|x b1']; [exact I|]. apply IHfuel. lia.
Qed.
Lemma safe_unsub_topics : forall v b, safe (unsub_topics_loop (S (length b)) v [] b).
Proof. intros. apply unsub_topics_loop_safe. lia. Qed.
#[export] Hint Resolve safe_unsub_topics : csafe.
Lemma parse_unsubscribe_safe : forall v b, safe (parse_unsubscribe v b).
Proof. intros. unfold parse_unsubscribe. ss. Qed.
Lemma parse_unsuback_safe : forall v b, safe (parse_unsuback v b).
Proof. intros. unfold parse_unsuback, parse_codes. ss. Qed.
Lemma parse_disconnect_safe : forall v rl b, safe (parse_disconnect v rl b).
Proof. intros. unfold parse_disconnect. ss. Qed.
Lemma parse_auth_safe : forall b, safe (parse_auth b).
Proof. intros. unfold parse_auth. ss. Qed.

Lemma parse_body_safe : forall v fh b, safe (parse_body v fh b).
Proof.
  intros. unfold parse_body.
  repeat (match goal with |- safe (if ?c then _ else _) => destruct c end);
    auto using parse_connect_safe, parse_connack_safe, parse_ack_safe, parse_pubrel_safe, parse_subscribe_safe,
      parse_suback_safe, parse_unsubscribe_safe, parse_unsuback_safe, parse_disconnect_safe, parse_auth_safe.
  - apply safe_bind_all; [apply publish_flags_safe|]. intros [[d q] r]. apply parse_publish_safe.
  - exact I.
Qed.

Lemma precheck_safe : forall fh, safe (precheck fh).
Proof.
  intros. unfold precheck.
  repeat (match goal with |- safe (if ?c then _ else _) => destruct c end; try exact I).
  apply safe_bind_all; [apply publish_flags_safe|]. intros. exact I.
Qed.

(* C06_total: ReadPacket returns a packet or an error on every input *)
Lemma read_packet_safe : forall v bs, safe (read_packet v bs).
Proof.
  intros. unfold read_packet, read_packet_full.
  destruct bs as [|first r]; [exact I|].
  pose proof (safe_read_varint r) as Hv.
  destruct (read_varint r) as [[rl r1]| | |]; cbn in Hv |- *; auto.
  pose proof (precheck_safe {| fh_type := N.shiftr first 4; fh_flags := N.land first 15; fh_rl := rl |}) as Hp.
  destruct (precheck _) as [[|b]| | |]; cbn in Hp |- *; auto.
  destruct (shorter r1 rl); [exact I|]. cbn [fst].
  apply safe_bind_all; [apply parse_body_safe|]. intros. exact I.
Qed.

Theorem read_packet_total : forall v bs,
  (exists p rest, read_packet v bs = Ok (p, rest)) \/ (exists e, read_packet v bs = Err e).
Proof.
  intros. pose proof (read_packet_safe v bs) as H.
  destruct (read_packet v bs) as [[p rest]|e| |]; cbn in H; try contradiction; eauto.
Qed.

(* ---------------------------------------------------------------- Pack never panics *)
Lemma pack_body_safe : forall b, safe (pack_body b).
Proof. intros. destruct b; cbn [pack_body]; ss. Qed.
Lemma pack_full_safe : forall b, safe (pack_full b).
Proof.
  intros. unfold pack_full. apply safe_bind_all; [apply pack_body_safe|]. intros [[t f] bs].
  unfold pack_fixhdr. ss.
Qed.
