(* CONNECT: what Connect.Unpack establishes, and Pack / ReadPacket round trip (for protocol
   levels 4 and 5 and Will QoS below 3: the two exceptions are real defects, see C06O.v). *)
From Coq Require Import List NArith ZArith Bool Lia ZifyN ZifyNat ZifyBool Sorted.
Import ListNotations.
From GM Require Import Base.Topic Base.Msg Model.CodecBase Model.CodecProps Model.CodecPackets
  Proofs.TopicP Proofs.CodecBaseP Proofs.CodecStrP Proofs.CodecTotalP Proofs.CodecPropsP Proofs.CodecPropsInvP
  Proofs.CodecWillP Proofs.CodecRoundP Proofs.CodecReencP Proofs.CodecRound2P.
Open Scope N_scope.

Ltac Zify.zify_post_hook ::= Z.div_mod_to_equations.

Definition connect_inv (c : connect) : Prop :=
  c_version c = c_level c /\ (c_level c = 3 \/ c_level c = 4 \/ c_level c = 5)
  /\ proto_name (c_level c) = Some (c_pname c)
  /\ c_wqos c <= 2
  /\ (c_wflag c = false -> c_wqos c = 0 /\ c_wretain c = false /\ c_wtopic c = [] /\ c_wmsg c = [])
  /\ c_keepalive c < 65536 /\ istr_ok (c_cid c) = true
  /\ (is_v3x (c_level c) = true -> c_cid c = [] -> c_clean c = true)
  /\ (if c_level c =? 5
      then (exists p, c_props c = Some p /\ props_inv CONNECT p)
           /\ (exists wp, c_wprops c = Some wp /\ will_inv wp /\ (c_wflag c = false -> wp = props_empty))
      else c_props c = None /\ c_wprops c = None)
  /\ (c_wflag c = true -> istr_ok (c_wtopic c) = true /\ len (c_wmsg c) <= 65535)
  /\ (if c_uflag c then istr_ok (c_user c) = true else c_user c = [])
  /\ (if c_pflag c then len (c_pass c) <= 65535 else c_pass c = [])
  /\ (is_v3x (c_level c) && c_pflag c && negb (c_uflag c)) = false.

Lemma will_inv_empty : will_inv props_empty.
Proof.
  split; [|reflexivity]. unfold props_invw, props_empty. cbn [pr_single pr_subid pr_user].
  repeat split; try constructor; try contradiction; intros; try contradiction; congruence.
Qed.

Lemma istr_ok_len : forall s, istr_ok s = true -> len s <= 65535.
Proof. intros s H. unfold istr_ok in H. lia. Qed.

Lemma ok_inj : forall A (a b : A), @Ok A a = Ok b -> a = b.
Proof. intros. inversion H. reflexivity. Qed.

(* ---------------------------------------------------------------- what Connect.Unpack establishes *)
Lemma opt_string_dec : forall (flag : bool) b s b',
  (if flag then read_utf8_string true b else Ok ([], b)) = Ok (s, b') -> bytes_ok b ->
  (if flag then istr_ok s = true else s = []) /\ bytes_ok b'.
Proof.
  intros flag b s b' H Hb. destruct flag.
  - apply read_utf8_string_inv in H; [|assumption]. destruct H as (Hl & _ & Hb' & Hu).
    split; [|assumption]. unfold istr_ok. rewrite Hu by reflexivity. lia.
  - inversion H; subst. auto.
Qed.

Lemma opt_binary_dec : forall (flag : bool) b s b',
  (if flag then read_utf8_string false b else Ok ([], b)) = Ok (s, b') -> bytes_ok b ->
  (if flag then len s <= 65535 else s = []) /\ bytes_ok b'.
Proof.
  intros flag b s b' H Hb. destruct flag.
  - apply read_utf8_string_inv in H; [|assumption]. tauto.
  - inversion H; subst. auto.
Qed.

Lemma parse_connect_inv : forall b body,
  parse_connect b = Ok body -> bytes_ok b -> exists c, body = BConnect c /\ connect_inv c.
Proof.
  intros b body H Hb. unfold parse_connect in H.
  destruct (read_utf8_string false b) as [[pname b1]| | |] eqn:E1; cbn [bind] in H; try discriminate.
  apply read_utf8_string_inv in E1; [|assumption]. destruct E1 as (_ & _ & Hb1 & _).
  destruct (read_byte b1) as [[level b2]| | |] eqn:E2; cbn [remap bind] in H; try discriminate.
  apply read_byte_inv in E2; [|assumption]. destruct E2 as (_ & Hb2 & _).
  destruct (proto_name level) as [name|] eqn:Epn; [|discriminate].
  destruct (str_eqb pname name) eqn:Ename; cbn [negb] in H; [|discriminate].
  apply str_eqb_eq in Ename. subst name.
  destruct (read_byte b2) as [[flags b3]| | |] eqn:E3; cbn [remap bind] in H; try discriminate.
  apply read_byte_inv in E3; [|assumption]. destruct E3 as (_ & Hb3 & _).
  destruct (negb (N.land 1 flags =? 0)); [discriminate|].
  destruct (negb (bit flags 2) && negb (N.land 3 (N.shiftr flags 3) =? 0)) eqn:C1; [discriminate|].
  destruct (2 <? N.land 3 (N.shiftr flags 3)) eqn:C0; [discriminate|].
  destruct (negb (bit flags 2) && bit flags 5) eqn:C2; [discriminate|].
  destruct (is_v3x level && bit flags 6 && negb (bit flags 7)) eqn:Cpw; [discriminate|].
  destruct (read_uint16 b3) as [[ka b4]| | |] eqn:E4; cbn [remap bind] in H; try discriminate.
  apply read_uint16_inv in E4; [|assumption]. destruct E4 as [Hka Hb4].
  destruct (if level =? 5 then bind (props_unpack _ _) _ else _) as [[[pr wpr0] b5]| | |] eqn:E5; cbn [bind] in H; try discriminate.
  assert (H5 : bytes_ok b5 /\
               if level =? 5 then (exists p, pr = Some p /\ props_inv CONNECT p) /\ wpr0 = Some props_empty
               else pr = None /\ wpr0 = None).
  { destruct (level =? 5).
    - destruct (props_unpack CONNECT b4) as [[p r]| | |] eqn:E; cbn [bind] in E5; try discriminate.
      apply props_unpack_inv in E; [|assumption]. inversion E5; subst. destruct E. split; [assumption|]. split; [eauto|reflexivity].
    - inversion E5; subst. auto. }
  destruct H5 as [Hb5 Hprops].
  destruct (read_utf8_string true b5) as [[cid b6]| | |] eqn:E6; cbn [bind] in H; try discriminate.
  apply read_utf8_string_inv in E6; [|assumption]. destruct E6 as (Hcl & _ & Hb6 & Hcu).
  destruct (is_v3x level && (len cid =? 0) && negb (bit flags 1)) eqn:C3; [discriminate|].
  destruct (if bit flags 2 then _ else _) as [[[[wpr wt] wm] b7]| | |] eqn:E7; cbn [bind] in H; try discriminate.
  assert (H7 : bytes_ok b7 /\
               (bit flags 2 = true -> istr_ok wt = true /\ len wm <= 65535) /\
               (bit flags 2 = false -> wt = [] /\ wm = [] /\ wpr = wpr0) /\
               (bit flags 2 = true -> if level =? 5 then exists wp, wpr = Some wp /\ will_inv wp else wpr = wpr0)).
  { destruct (bit flags 2).
    - destruct (if level =? 5 then bind (will_props_unpack _) _ else _) as [[wpr' b71]| | |] eqn:E71; cbn [bind] in E7; try discriminate.
      assert (H71 : bytes_ok b71 /\ if level =? 5 then exists wp, wpr' = Some wp /\ will_inv wp else wpr' = wpr0).
      { destruct (level =? 5).
        - destruct (will_props_unpack b6) as [[p r]| | |] eqn:E; cbn [bind] in E71; try discriminate.
          apply will_props_unpack_inv in E; [|assumption]. inversion E71; subst. destruct E as (A & B & C).
          split; [assumption|]. exists p. split; [reflexivity|]. split; assumption.
        - inversion E71; subst. auto. }
      destruct H71 as [Hb71 Hw].
      destruct (read_utf8_string true b71) as [[wt' b72]| | |] eqn:E72; cbn [bind] in E7; try discriminate.
      apply read_utf8_string_inv in E72; [|assumption]. destruct E72 as (Hwl & _ & Hb72 & Hwu).
      destruct (read_utf8_string false b72) as [[wm' b73]| | |] eqn:E73; cbn [bind] in E7; try discriminate.
      apply read_utf8_string_inv in E73; [|assumption]. destruct E73 as (Hml & _ & Hb73 & _).
      inversion E7; subst. split; [assumption|]. split; [|split; [discriminate|intros _; exact Hw]].
      intros _. split; [|assumption]. unfold istr_ok. rewrite Hwu by reflexivity. lia.
    - inversion E7; subst. split; [assumption|]. split; [discriminate|]. split; [auto|discriminate]. }
  destruct H7 as (Hb7 & Hwill1 & Hwill0 & Hwillp).
  destruct (if bit flags 7 then _ else _) as [[user b8]| | |] eqn:E8; cbn [bind] in H; try discriminate.
  apply opt_string_dec in E8; [|assumption]. destruct E8 as [Huser Hb8].
  destruct (if bit flags 6 then _ else _) as [[pass b9]| | |] eqn:E9; cbn [bind] in H; try discriminate.
  apply opt_binary_dec in E9; [|assumption]. destruct E9 as [Hpass Hb9].
  destruct (negb (is_empty b9)); [discriminate|].
  apply ok_inj in H. subst body. eexists. split; [reflexivity|].
  unfold connect_inv. cbn [c_version c_level c_uflag c_pname c_pflag c_wretain c_wqos c_wflag c_wtopic c_wmsg c_clean
                          c_keepalive c_cid c_user c_pass c_props c_wprops].
  split; [reflexivity|].
  split. { unfold proto_name in Epn. destruct (N.eqb_spec level 3); [auto|]. destruct (N.eqb_spec level 4); [auto|].
           destruct (N.eqb_spec level 5); [auto|]. cbn in Epn. discriminate. }
  split; [assumption|]. split; [lia|].
  split. { intros Hwf. rewrite Hwf in *. cbn [negb andb] in C1, C2. destruct (Hwill0 eq_refl) as (-> & -> & _).
           repeat split; try reflexivity; try assumption; lia. }
  split; [assumption|]. split; [unfold istr_ok; rewrite Hcu by reflexivity; lia|].
  split. { intros Hv3 ->. rewrite Hv3 in C3. cbn in C3. destruct (bit flags 1); [reflexivity|discriminate]. }
  split.
  { destruct (level =? 5).
    - destruct Hprops as [Hp ->]. split; [assumption|].
      destruct (bit flags 2) eqn:Ewf.
      + destruct (Hwillp eq_refl) as [wp [-> Hwp]]. exists wp. split; [reflexivity|]. split; [assumption|discriminate].
      + destruct (Hwill0 eq_refl) as (_ & _ & ->). exists props_empty. split; [reflexivity|].
        split; [apply will_inv_empty|reflexivity].
    - destruct Hprops as [-> ->]. split; [reflexivity|].
      destruct (bit flags 2) eqn:Ewf; [apply (Hwillp eq_refl)|apply (Hwill0 eq_refl)]. }
  split; [assumption|]. split; [assumption|]. split; [assumption|exact Cpw].
Qed.

(* ---------------------------------------------------------------- round trip *)
Definition conn_flags (u p wr : bool) (wq : N) (wf cl : bool) : N :=
  (N.lor (b2n u 128) (N.lor (b2n p 64) (N.lor (b2n wr 32) (N.lor (b2n wf 4)
     (N.lor (if wq =? 1 then 8 else if wq =? 2 then 16 else 0) (N.lor (b2n cl 2) 0)))))) mod 256.

Lemma conn_flags_rt : forall u p wr wq wf cl, wq <= 2 ->
  let f := conn_flags u p wr wq wf cl in
  N.land 1 f = 0 /\ bit f 1 = cl /\ bit f 2 = wf /\ N.land 3 (N.shiftr f 3) = wq /\ bit f 5 = wr /\ bit f 6 = p /\ bit f 7 = u.
Proof.
  intros u p wr wq wf cl Hq. assert (Hq' : wq = 0 \/ wq = 1 \/ wq = 2) by lia.
  destruct Hq' as [ -> | [ -> | -> ] ]; destruct u, p, wr, wf, cl; vm_compute; repeat split.
Qed.

Lemma opt_string_rt : forall (flag : bool) s rest,
  (if flag then istr_ok s = true else s = []) ->
  (if flag then read_utf8_string true ((if flag then put_bin s else []) ++ rest) else Ok ([], (if flag then put_bin s else []) ++ rest))
  = Ok (s, rest).
Proof. intros [|] s rest H; [now apply istr_ok_rt|subst; reflexivity]. Qed.
Lemma opt_string_enc : forall (flag : bool) s,
  (if flag then istr_ok s = true else s = []) ->
  (if flag then encode_utf8_string s else Ok []) = Ok (if flag then put_bin s else []).
Proof. intros [|] s H; [apply encode_utf8_string_ok, istr_ok_len, H|reflexivity]. Qed.

Lemma opt_binary_rt : forall (flag : bool) s rest,
  (if flag then len s <= 65535 else s = []) ->
  (if flag then read_utf8_string false ((if flag then put_bin s else []) ++ rest) else Ok ([], (if flag then put_bin s else []) ++ rest))
  = Ok (s, rest).
Proof. intros [|] s rest H; [apply read_utf8_string_put_bin; [assumption|discriminate]|subst; reflexivity]. Qed.
Lemma opt_binary_enc : forall (flag : bool) s,
  (if flag then len s <= 65535 else s = []) ->
  (if flag then encode_utf8_string s else Ok []) = Ok (if flag then put_bin s else []).
Proof. intros [|] s H; [apply encode_utf8_string_ok, H|reflexivity]. Qed.

Lemma rt_connect : forall c ty fl bytes,
  connect_inv c ->
  pack_body (BConnect c) = Ok (ty, fl, bytes) -> len bytes < BIG ->
  ty = CONNECT /\ fl = 0 /\ parse_connect bytes = Ok (BConnect c).
Proof.
  intros c ty fl bytes (Hver & Hlev & Hpn & Hwq & Hnowill & Hka & Hcid & Hv3 & Hprops & Hwill & Huser & Hpass & Hpw)
         Hpack Hlen.
  destruct c as [version level uflag pname pflag wretain wqos wflag wtopic wmsg clean keepalive cid user pass props wprops].
  cbn [c_version c_level c_uflag c_pname c_pflag c_wretain c_wqos c_wflag c_wtopic c_wmsg c_clean
       c_keepalive c_cid c_user c_pass c_props c_wprops] in *.
  subst version.
  assert (Hnamelen : len pname <= 65535).
  { unfold proto_name in Hpn. destruct Hlev as [ -> | [ -> | -> ] ]; cbn in Hpn; inversion Hpn; cbn; lia. }
  (* the will block *)
  set (wpb := if level =? 5 then will_props_pack wprops else []) in *.
  assert (Hwenc : (if wflag then
                     do wt <- encode_utf8_string wtopic; do wm <- encode_utf8_string wmsg; Ok (wpb ++ wt ++ wm)
                   else Ok []) = Ok (if wflag then wpb ++ put_bin wtopic ++ put_bin wmsg else [])).
  { destruct wflag; [|reflexivity]. destruct (Hwill eq_refl) as [Hwt Hwm].
    rewrite (encode_utf8_string_ok wtopic) by (apply istr_ok_len; assumption). cbn [bind].
    rewrite (encode_utf8_string_ok wmsg) by assumption. reflexivity. }
  unfold pack_body in Hpack. cbn [c_version c_level c_uflag c_pname c_pflag c_wretain c_wqos c_wflag c_wtopic c_wmsg
       c_clean c_keepalive c_cid c_user c_pass c_props c_wprops] in Hpack. fold wpb in Hpack.
  rewrite (encode_utf8_string_ok cid) in Hpack by (apply istr_ok_len; assumption). cbn [bind] in Hpack.
  rewrite Hwenc in Hpack. cbn [bind] in Hpack.
  rewrite (opt_string_enc uflag user Huser) in Hpack. cbn [bind] in Hpack.
  rewrite (opt_binary_enc pflag pass Hpass) in Hpack. cbn [bind] in Hpack.
  apply ok3_inj in Hpack. destruct Hpack as (<- & <- & <-).
  split; [reflexivity|]. split; [reflexivity|].
  fold (conn_flags uflag pflag wretain wqos wflag clean) in *.
  destruct (conn_flags_rt uflag pflag wretain wqos wflag clean Hwq) as (F0 & F1 & F2 & F3 & F5 & F6 & F7).
  rewrite <- !app_assoc in *.
  unfold parse_connect.
  rewrite read_utf8_string_put_bin by (try assumption; discriminate). cbn [bind app read_byte remap].
  rewrite Hpn. rewrite str_eqb_refl. cbn [negb].
  rewrite F0, F1, F2, F3, F5, F6, F7. cbn [N.eqb negb].
  assert (C1 : negb wflag && negb (wqos =? 0) = false).
  { destruct wflag; [reflexivity|]. destruct (Hnowill eq_refl) as (-> & _). reflexivity. }
  assert (C2 : negb wflag && wretain = false).
  { destruct wflag; [reflexivity|]. destruct (Hnowill eq_refl) as (_ & -> & _). reflexivity. }
  rewrite C1, C2. replace (2 <? wqos) with false by lia. rewrite Hpw.
  rewrite read_uint16_put16 by assumption. cbn [remap bind].
  (* CONNECT properties *)
  assert (Hp5 : (if level =? 5 then do '(p, b') <- props_unpack CONNECT ((if level =? 5 then props_pack props else []) ++
                      put_bin cid ++ (if wflag then wpb ++ put_bin wtopic ++ put_bin wmsg else []) ++
                      (if uflag then put_bin user else []) ++ (if pflag then put_bin pass else []));
                    Ok (Some p, Some props_empty, b')
                 else Ok (None, None, (if level =? 5 then props_pack props else []) ++
                      put_bin cid ++ (if wflag then wpb ++ put_bin wtopic ++ put_bin wmsg else []) ++
                      (if uflag then put_bin user else []) ++ (if pflag then put_bin pass else [])))
                = Ok (props, (if level =? 5 then Some props_empty else None),
                      put_bin cid ++ (if wflag then wpb ++ put_bin wtopic ++ put_bin wmsg else []) ++
                      (if uflag then put_bin user else []) ++ (if pflag then put_bin pass else []))).
  { destruct (level =? 5).
    - destruct Hprops as [[p [-> Hpinv]] _].
      rewrite props_rt; [reflexivity|assumption|]. unfold BIG in Hlen. rewrite !len_app in Hlen. lia.
    - destruct Hprops as [-> _]. reflexivity. }
  rewrite Hp5. cbn [bind].
  rewrite istr_ok_rt by assumption. cbn [bind].
  assert (C3 : is_v3x level && (len cid =? 0) && negb clean = false).
  { destruct (is_v3x level) eqn:E3; [|reflexivity]. destruct cid; [|reflexivity].
    rewrite (Hv3 eq_refl eq_refl). cbn. reflexivity. }
  rewrite C3.
  (* will *)
  assert (Hw : (if wflag then
                  do '(wpr', b1) <- (if level =? 5 then do '(p, b') <- will_props_unpack ((if wflag then wpb ++ put_bin wtopic ++ put_bin wmsg else []) ++
                                       (if uflag then put_bin user else []) ++ (if pflag then put_bin pass else [])); Ok (Some p, b')
                                     else Ok ((if level =? 5 then Some props_empty else None),
                                              (if wflag then wpb ++ put_bin wtopic ++ put_bin wmsg else []) ++
                                              (if uflag then put_bin user else []) ++ (if pflag then put_bin pass else [])));
                  do '(wt, b2) <- read_utf8_string true b1;
                  do '(wm, b3) <- read_utf8_string false b2;
                  Ok (wpr', wt, wm, b3)
                else Ok ((if level =? 5 then Some props_empty else None), [], [],
                         (if wflag then wpb ++ put_bin wtopic ++ put_bin wmsg else []) ++
                         (if uflag then put_bin user else []) ++ (if pflag then put_bin pass else [])))
               = Ok (wprops, wtopic, wmsg, (if uflag then put_bin user else []) ++ (if pflag then put_bin pass else []))).
  { destruct wflag.
    - destruct (Hwill eq_refl) as [Hwt Hwm]. rewrite <- !app_assoc. subst wpb.
      destruct (level =? 5).
      + destruct Hprops as [_ [wp [-> [Hwinv _]]]].
        rewrite will_props_unpack_pack; [|assumption|].
        * cbn [bind]. rewrite istr_ok_rt by assumption. cbn [bind].
          rewrite read_utf8_string_put_bin by (try assumption; discriminate). reflexivity.
        * unfold BIG in Hlen. rewrite !len_app in Hlen. unfold will_props_pack in Hlen. rewrite len_app in Hlen. lia.
      + destruct Hprops as [_ ->]. cbn [app bind]. rewrite istr_ok_rt by assumption. cbn [bind].
        rewrite read_utf8_string_put_bin by (try assumption; discriminate). reflexivity.
    - destruct (Hnowill eq_refl) as (_ & _ & -> & ->). cbn [app].
      destruct (level =? 5).
      + destruct Hprops as [_ [wp [-> [_ Hwe]]]]. rewrite (Hwe eq_refl). reflexivity.
      + destruct Hprops as [_ ->]. reflexivity. }
  rewrite Hw. cbn [bind].
  rewrite (opt_string_rt uflag user _ Huser). cbn [bind].
  rewrite <- (app_nil_r (if pflag then put_bin pass else [])).
  rewrite (opt_binary_rt pflag pass [] Hpass). cbn [bind]. reflexivity.
Qed.
