(* Refinement: the trie-based subscription store (Model/SubTrie.v) implements the flat
   finite-map specification (Model/SubSpec.v) for all well-formed operation histories. *)
From Coq Require Import List NArith Bool Arith Lia.
Import ListNotations.
From GM Require Import Base.Topic Model.SubTrie Model.SubSpec Proofs.TopicP Oracle.C02O.

Definition q_topic (t : str) (c : cid) : iopts :=
  {| io_sys := true; io_shared := false; io_nonshared := true; io_client := c; io_topic := t; io_mt := MatchFilter |}.
Definition q_name (f : str) (c : cid) : iopts :=
  {| io_sys := true; io_shared := false; io_nonshared := true; io_client := c; io_topic := f; io_mt := MatchName |}.
Definition q_client (c : cid) : iopts :=
  {| io_sys := true; io_shared := false; io_nonshared := true; io_client := c; io_topic := []; io_mt := MatchNone |}.
Definition q_sh_topic (t : str) (c : cid) : iopts :=
  {| io_sys := false; io_shared := true; io_nonshared := false; io_client := c; io_topic := t; io_mt := MatchFilter |}.
Definition q_sh_name (full : str) (c : cid) : iopts :=
  {| io_sys := false; io_shared := true; io_nonshared := false; io_client := c; io_topic := full; io_mt := MatchName |}.
Definition q_sh_client (c : cid) : iopts :=
  {| io_sys := false; io_shared := true; io_nonshared := false; io_client := c; io_topic := []; io_mt := MatchNone |}.
Definition want_client (c c' : cid) : Prop := c = [] \/ c' = c.

(* ================================================================== *)
(* 1. association lists                                                *)
(* ================================================================== *)

Lemma str_eqb_spec (a b : str) : reflect (a = b) (str_eqb a b).
Proof.
  destruct (str_eqb a b) eqn:E; constructor.
  - now apply str_eqb_eq.
  - now apply str_eqb_neq.
Qed.

Lemma is_empty_true (s : str) : is_empty s = true <-> s = [].
Proof. destruct s; cbn; split; intros H; try reflexivity; discriminate. Qed.

Lemma is_empty_false (s : str) : is_empty s = false <-> s <> [].
Proof. destruct s; cbn; split; intros H; try reflexivity; try discriminate; congruence. Qed.

Section AssocLemmas.
  Context {V : Type}.
  Implicit Types (l : list (str * V)) (k : str) (v : V).

  Lemma aget_aset k' k v l :
    aget k' (aset k v l) = if str_eqb k' k then Some v else aget k' l.
  Proof.
    induction l as [|[k0 v0] r IH]; cbn [aset aget].
    - destruct (str_eqb k' k); reflexivity.
    - destruct (str_eqb_spec k k0) as [E|E]; cbn [aget].
      + subst k0. destruct (str_eqb k' k); reflexivity.
      + rewrite IH. destruct (str_eqb_spec k' k0) as [E1|E1]; [|reflexivity].
        subst k0. destruct (str_eqb_spec k' k) as [E2|E2]; [congruence|reflexivity].
  Qed.

  Lemma aget_aset_same k v l : aget k (aset k v l) = Some v.
  Proof. now rewrite aget_aset, str_eqb_refl. Qed.

  Lemma aget_aset_other k' k v l : k' <> k -> aget k' (aset k v l) = aget k' l.
  Proof. intros H. rewrite aget_aset. apply str_eqb_neq in H. now rewrite H. Qed.

  Lemma aget_notin k l : ~ In k (map fst l) -> aget k l = None.
  Proof.
    induction l as [|[k0 v0] r IH]; cbn [aget map fst In]; intros H; [reflexivity|].
    destruct (str_eqb_spec k k0) as [E|E]; [exfalso; apply H; now left|].
    apply IH. intros Hin. apply H. now right.
  Qed.

  Lemma aget_in_keys k v l : aget k l = Some v -> In k (map fst l).
  Proof.
    induction l as [|[k0 v0] r IH]; cbn [aget map fst In]; intros H; [discriminate|].
    destruct (str_eqb_spec k k0) as [E|E]; [now left|right; now apply IH].
  Qed.

  Lemma aget_In k v l : aget k l = Some v -> In (k, v) l.
  Proof.
    induction l as [|[k0 v0] r IH]; cbn [aget In]; intros H; [discriminate|].
    destruct (str_eqb_spec k k0) as [E|E].
    - left. congruence.
    - right. now apply IH.
  Qed.

  Lemma In_aget k v l : NoDup (map fst l) -> In (k, v) l -> aget k l = Some v.
  Proof.
    induction l as [|[k0 v0] r IH]; cbn [aget map fst In]; intros Hnd Hin; [destruct Hin|].
    inversion Hnd as [|x xs Hx Hnd']; subst.
    destruct Hin as [E|Hin].
    - injection E as -> ->. now rewrite str_eqb_refl.
    - destruct (str_eqb_spec k k0) as [E|E].
      + subst k0. exfalso. apply Hx. apply in_map_iff. exists (k, v). now split.
      + now apply IH.
  Qed.

  Lemma in_keys_adel k' k l : In k' (map fst (adel k l)) -> In k' (map fst l).
  Proof.
    induction l as [|[k0 v0] r IH]; cbn [adel map fst In]; intros H; [destruct H|].
    destruct (str_eqb k k0).
    - now right.
    - cbn [map fst In] in H. destruct H as [H|H]; [now left|right; now apply IH].
  Qed.

  Lemma in_keys_aset k' k v l : In k' (map fst (aset k v l)) -> k' = k \/ In k' (map fst l).
  Proof.
    induction l as [|[k0 v0] r IH]; cbn [aset map fst In]; intros H.
    - destruct H as [H|[]]. now left.
    - destruct (str_eqb k k0); cbn [map fst In] in H.
      + destruct H as [H|H]; [now left|right; now right].
      + destruct H as [H|H]; [right; now left|].
        apply IH in H as [H|H]; [now left|right; now right].
  Qed.

  Lemma NoDup_aset k v l : NoDup (map fst l) -> NoDup (map fst (aset k v l)).
  Proof.
    induction l as [|[k0 v0] r IH]; cbn [aset map fst]; intros Hnd.
    - constructor; [intros []|constructor].
    - inversion Hnd as [|x xs Hx Hnd']; subst.
      destruct (str_eqb_spec k k0) as [E|E]; cbn [map fst].
      + subst k0. now constructor.
      + constructor; [|now apply IH].
        intros Hin. apply in_keys_aset in Hin as [Hin|Hin]; [congruence|contradiction].
  Qed.

  Lemma NoDup_adel k l : NoDup (map fst l) -> NoDup (map fst (adel k l)).
  Proof.
    induction l as [|[k0 v0] r IH]; cbn [adel map fst]; intros Hnd; [constructor|].
    inversion Hnd as [|x xs Hx Hnd']; subst.
    destruct (str_eqb k k0); [exact Hnd'|]. cbn [map fst].
    constructor; [|now apply IH].
    intros Hin. apply Hx. now apply in_keys_adel in Hin.
  Qed.

  Lemma aget_adel k' k l :
    NoDup (map fst l) -> aget k' (adel k l) = if str_eqb k' k then None else aget k' l.
  Proof.
    induction l as [|[k0 v0] r IH]; cbn [adel aget map fst]; intros Hnd.
    - destruct (str_eqb k' k); reflexivity.
    - inversion Hnd as [|x xs Hx Hnd']; subst.
      destruct (str_eqb_spec k k0) as [E|E]; cbn [aget].
      + subst k0. destruct (str_eqb_spec k' k) as [E1|E1]; [|reflexivity].
        subst k'. now apply aget_notin.
      + rewrite (IH Hnd'). destruct (str_eqb_spec k' k0) as [E1|E1]; [|reflexivity].
        subst k0. destruct (str_eqb_spec k' k) as [E2|E2]; [congruence|reflexivity].
  Qed.

  Lemma adel_nil_inv k l : adel k l <> [] -> l <> [].
  Proof. destruct l; cbn; [intros H; exact H|discriminate]. Qed.

  Lemma aset_not_nil k v l : aset k v l <> [].
  Proof. destruct l as [|[k0 v0] r]; cbn [aset]; [discriminate|]. destruct (str_eqb k k0); discriminate. Qed.

  Lemma aget_nil_none k l : l = [] -> aget k l = None.
  Proof. intros ->. reflexivity. Qed.

  Lemma NoDup_keys_NoDup l : NoDup (map fst l) -> NoDup l.
  Proof. apply NoDup_map_inv. Qed.
End AssocLemmas.

Lemma of_client_aget (c : cid) (l : list (cid * sub)) :
  NoDup (map fst l) ->
  of_client c l = match aget c l with Some s => [(c, s)] | None => [] end.
Proof.
  induction l as [|[k0 v0] r IH]; cbn [of_client filter aget map fst]; intros Hnd; [reflexivity|].
  inversion Hnd as [|x xs Hx Hnd']; subst.
  destruct (str_eqb_spec c k0) as [E|E].
  - subst k0. fold (of_client c r). rewrite (IH Hnd'), (aget_notin c r Hx). reflexivity.
  - fold (of_client c r). now apply IH.
Qed.

Lemma in_of_client (c c' : cid) (s : sub) (l : list (cid * sub)) :
  In (c', s) (of_client c l) <-> In (c', s) l /\ c' = c.
Proof.
  unfold of_client. rewrite filter_In. split; intros [H1 H2]; split; try exact H1.
  - apply str_eqb_eq in H2. congruence.
  - subst. apply str_eqb_refl.
Qed.

Lemma mem_str_In (k : str) (l : list str) : mem_str k l = true <-> In k l.
Proof.
  induction l as [|x r IH]; cbn [mem_str In]; [split; [discriminate|intros []]|].
  rewrite orb_true_iff, IH, str_eqb_eq. split; intros [H|H]; auto.
Qed.

(* ================================================================== *)
(* 2. the flat specification                                           *)
(* ================================================================== *)

Lemma skey_eqb_spec (a b : skey) : reflect (a = b) (skey_eqb a b).
Proof.
  destruct a as [[c1 g1] f1], b as [[c2 g2] f2]. cbn [skey_eqb].
  destruct (str_eqb_spec c1 c2) as [E1|E1]; cbn [andb]; [|constructor; congruence].
  destruct (str_eqb_spec g1 g2) as [E2|E2]; cbn [andb]; [|constructor; congruence].
  destruct (str_eqb_spec f1 f2) as [E3|E3]; constructor; congruence.
Qed.

Lemma skey_eqb_refl (a : skey) : skey_eqb a a = true.
Proof. destruct (skey_eqb_spec a a); congruence. Qed.

Lemma sp_get_set (k' k : skey) (v : sub) (sp : spec) :
  sp_get k' (sp_set k v sp) = if skey_eqb k' k then Some v else sp_get k' sp.
Proof.
  induction sp as [|[k0 v0] r IH]; cbn [sp_set sp_get].
  - destruct (skey_eqb k' k); reflexivity.
  - destruct (skey_eqb_spec k k0) as [E|E]; cbn [sp_get].
    + subst k0. destruct (skey_eqb k' k); reflexivity.
    + rewrite IH. destruct (skey_eqb_spec k' k0) as [E1|E1]; [|reflexivity].
      subst k0. destruct (skey_eqb_spec k' k) as [E2|E2]; [congruence|reflexivity].
Qed.

Lemma sp_get_notin (k : skey) (sp : spec) : ~ In k (map fst sp) -> sp_get k sp = None.
Proof.
  induction sp as [|[k0 v0] r IH]; cbn [sp_get map fst In]; intros H; [reflexivity|].
  destruct (skey_eqb_spec k k0) as [E|E]; [exfalso; apply H; now left|].
  apply IH. intros Hin. apply H. now right.
Qed.

Lemma sp_get_In (k : skey) (v : sub) (sp : spec) : sp_get k sp = Some v -> In (k, v) sp.
Proof.
  induction sp as [|[k0 v0] r IH]; cbn [sp_get In]; intros H; [discriminate|].
  destruct (skey_eqb_spec k k0) as [E|E].
  - left. congruence.
  - right. now apply IH.
Qed.

Lemma In_sp_get (k : skey) (v : sub) (sp : spec) :
  NoDup (map fst sp) -> In (k, v) sp -> sp_get k sp = Some v.
Proof.
  induction sp as [|[k0 v0] r IH]; cbn [sp_get map fst In]; intros Hnd Hin; [destruct Hin|].
  inversion Hnd as [|x xs Hx Hnd']; subst.
  destruct Hin as [E|Hin].
  - injection E as -> ->. now rewrite skey_eqb_refl.
  - destruct (skey_eqb_spec k k0) as [E|E].
    + subst k0. exfalso. apply Hx. apply in_map_iff. exists (k, v). now split.
    + now apply IH.
Qed.

Lemma in_keys_sp_del (k' k : skey) (sp : spec) : In k' (map fst (sp_del k sp)) -> In k' (map fst sp).
Proof.
  induction sp as [|[k0 v0] r IH]; cbn [sp_del map fst In]; intros H; [destruct H|].
  destruct (skey_eqb k k0).
  - now right.
  - cbn [map fst In] in H. destruct H as [H|H]; [now left|right; now apply IH].
Qed.

Lemma in_sp_del (e : skey * sub) (k : skey) (sp : spec) : In e (sp_del k sp) -> In e sp.
Proof.
  induction sp as [|[k0 v0] r IH]; cbn [sp_del In]; intros H; [destruct H|].
  destruct (skey_eqb k k0).
  - now right.
  - cbn [In] in H. destruct H as [H|H]; [now left|right; now apply IH].
Qed.

Lemma in_sp_set (e : skey * sub) (k : skey) (v : sub) (sp : spec) :
  In e (sp_set k v sp) -> e = (k, v) \/ In e sp.
Proof.
  induction sp as [|[k0 v0] r IH]; cbn [sp_set In]; intros H.
  - destruct H as [H|[]]. now left.
  - destruct (skey_eqb k k0); cbn [In] in H.
    + destruct H as [H|H]; [now left|right; now right].
    + destruct H as [H|H]; [right; now left|].
      apply IH in H as [H|H]; [now left|right; now right].
Qed.

Lemma NoDup_sp_set (k : skey) (v : sub) (sp : spec) :
  NoDup (map fst sp) -> NoDup (map fst (sp_set k v sp)).
Proof.
  induction sp as [|[k0 v0] r IH]; cbn [sp_set map fst]; intros Hnd.
  - constructor; [intros []|constructor].
  - inversion Hnd as [|x xs Hx Hnd']; subst.
    destruct (skey_eqb_spec k k0) as [E|E]; cbn [map fst].
    + subst k0. now constructor.
    + constructor; [|now apply IH].
      intros Hin. apply in_map_iff in Hin as ([k1 v1] & E1 & Hin). cbn [fst] in E1. subst k1.
      apply in_sp_set in Hin as [Hin|Hin]; [congruence|].
      apply Hx. apply in_map_iff. exists (k0, v1). now split.
Qed.

Lemma NoDup_sp_del (k : skey) (sp : spec) : NoDup (map fst sp) -> NoDup (map fst (sp_del k sp)).
Proof.
  induction sp as [|[k0 v0] r IH]; cbn [sp_del map fst]; intros Hnd; [constructor|].
  inversion Hnd as [|x xs Hx Hnd']; subst.
  destruct (skey_eqb k k0); [exact Hnd'|]. cbn [map fst].
  constructor; [|now apply IH].
  intros Hin. apply Hx. now apply in_keys_sp_del in Hin.
Qed.

Lemma sp_get_del (k' k : skey) (sp : spec) :
  NoDup (map fst sp) -> sp_get k' (sp_del k sp) = if skey_eqb k' k then None else sp_get k' sp.
Proof.
  induction sp as [|[k0 v0] r IH]; cbn [sp_del sp_get map fst]; intros Hnd.
  - destruct (skey_eqb k' k); reflexivity.
  - inversion Hnd as [|x xs Hx Hnd']; subst.
    destruct (skey_eqb_spec k k0) as [E|E]; cbn [sp_get].
    + subst k0. destruct (skey_eqb_spec k' k) as [E1|E1]; [|reflexivity].
      subst k'. now apply sp_get_notin.
    + rewrite (IH Hnd'). destruct (skey_eqb_spec k' k0) as [E1|E1]; [|reflexivity].
      subst k0. destruct (skey_eqb_spec k' k) as [E2|E2]; [congruence|reflexivity].
Qed.

(* without NoDup: deleting another key does not change a lookup *)
Lemma sp_get_del_other (k' k : skey) (sp : spec) :
  k' <> k -> sp_get k' (sp_del k sp) = sp_get k' sp.
Proof.
  intros Hne. induction sp as [|[k0 v0] r IH]; cbn [sp_del sp_get]; [reflexivity|].
  destruct (skey_eqb_spec k k0) as [E|E]; cbn [sp_get].
  - subst k0. destruct (skey_eqb_spec k' k) as [E1|E1]; [congruence|reflexivity].
  - rewrite IH. reflexivity.
Qed.

Lemma NoDup_map_filter {A B : Type} (f : A -> B) (p : A -> bool) (l : list A) :
  NoDup (map f l) -> NoDup (map f (filter p l)).
Proof.
  induction l as [|x r IH]; cbn [filter map]; intros Hnd; [constructor|].
  inversion Hnd as [|y ys Hy Hnd']; subst.
  destruct (p x); cbn [map]; [|now apply IH].
  constructor; [|now apply IH].
  intros Hin. apply Hy. apply in_map_iff in Hin as (z & Ez & Hz).
  apply filter_In in Hz as [Hz _]. apply in_map_iff. now exists z.
Qed.

Lemma sp_get_filter (p : skey -> bool) (k : skey) (sp : spec) :
  sp_get k (filter (fun e => p (fst e)) sp) = if p k then sp_get k sp else None.
Proof.
  induction sp as [|[k0 v0] r IH]; cbn [filter sp_get fst].
  - destruct (p k); reflexivity.
  - destruct (p k0) eqn:Ep0; cbn [sp_get].
    + destruct (skey_eqb_spec k k0) as [E|E]; [subst k0; now rewrite Ep0|exact IH].
    + destruct (skey_eqb_spec k k0) as [E|E]; [subst k0; now rewrite IH, Ep0|exact IH].
Qed.

(* ================================================================== *)
(* 3. tries, observed through paths                                    *)
(* ================================================================== *)

Definition sub_child (lv : level) (n : node) : node :=
  match child lv n with Some ch => ch | None => empty_node end.

(* the node at a path; a missing node is observed as the empty node *)
Fixpoint nd (p : list level) (n : node) : node :=
  match p with [] => n | lv :: rest => nd rest (sub_child lv n) end.

Definition same3 (a b : node) : Prop :=
  n_clients a = n_clients b /\ n_shared a = n_shared b /\ n_tname a = n_tname b.

Lemma same3_refl a : same3 a a.
Proof. repeat split. Qed.

Lemma sub_child_empty lv : sub_child lv empty_node = empty_node.
Proof. reflexivity. Qed.

Lemma nd_empty p : nd p empty_node = empty_node.
Proof. induction p as [|lv rest IH]; [reflexivity|]. cbn [nd]. now rewrite sub_child_empty. Qed.

Lemma nd_tget p : forall n, nd p n = match tget p n with Some x => x | None => empty_node end.
Proof.
  induction p as [|lv rest IH]; intros n; [reflexivity|].
  cbn [nd tget]. unfold sub_child. destruct (child lv n) as [ch|]; [apply IH|apply nd_empty].
Qed.

Lemma sub_child_children lv a b : n_children a = n_children b -> sub_child lv a = sub_child lv b.
Proof. intros H. unfold sub_child, child. now rewrite H. Qed.

Lemma nd_children_eq p a b : n_children a = n_children b -> p <> [] -> nd p a = nd p b.
Proof.
  intros H Hp. destruct p as [|lv rest]; [contradiction|]. cbn [nd].
  now rewrite (sub_child_children lv a b H).
Qed.

Lemma nd_no_children p x : n_children x = [] -> p <> [] -> nd p x = empty_node.
Proof.
  intros H Hp. rewrite (nd_children_eq p x empty_node); [apply nd_empty|exact H|exact Hp].
Qed.

Lemma sub_child_with lv n X :
  sub_child lv (with_children n X) = match aget lv X with Some ch => ch | None => empty_node end.
Proof. reflexivity. Qed.

Lemma sub_child_with_aset lv' lv X n :
  sub_child lv' (with_children n (aset lv X (n_children n))) =
  if str_eqb lv' lv then X else sub_child lv' n.
Proof.
  rewrite sub_child_with, aget_aset. destruct (str_eqb lv' lv); reflexivity.
Qed.

Lemma sub_child_with_adel lv' lv n :
  NoDup (map fst (n_children n)) ->
  sub_child lv' (with_children n (adel lv (n_children n))) =
  if str_eqb lv' lv then empty_node else sub_child lv' n.
Proof.
  intros Hnd. rewrite sub_child_with, aget_adel by exact Hnd. destruct (str_eqb lv' lv); reflexivity.
Qed.

Lemma same3_with n X : same3 (with_children n X) n.
Proof. repeat split. Qed.

(* ---- well-formedness: child keys are duplicate free at every node ---- *)
Definition wfT (n : node) : Prop := forall p, NoDup (map fst (n_children (nd p n))).

Lemma wfT_empty : wfT empty_node.
Proof. intros p. rewrite nd_empty. constructor. Qed.

Lemma wfT_child lv n : wfT n -> wfT (sub_child lv n).
Proof. intros H p. exact (H (lv :: p)). Qed.

Lemma wfT_intro n : NoDup (map fst (n_children n)) -> (forall lv, wfT (sub_child lv n)) -> wfT n.
Proof. intros H1 H2 [|lv rest]; [exact H1|]. cbn [nd]. apply H2. Qed.

Lemma wfT_children_eq a b : n_children a = n_children b -> wfT a -> wfT b.
Proof.
  intros H Ha. apply wfT_intro.
  - rewrite <- H. exact (Ha []).
  - intros lv. rewrite <- (sub_child_children lv a b H). now apply wfT_child.
Qed.

(* ---- tsubscribe ---- *)
Lemma tsub_cons lv rest c s n :
  tsubscribe (lv :: rest) c s n =
  with_children n (aset lv (tsubscribe rest c s (sub_child lv n)) (n_children n)).
Proof. reflexivity. Qed.

Lemma tsub_nil_children c s n : n_children (tsubscribe [] c s n) = n_children n.
Proof. cbn [tsubscribe]. destruct (is_empty (s_share s)); reflexivity. Qed.

Lemma nd_tsub_same q c s : forall n, nd q (tsubscribe q c s n) = tsubscribe [] c s (nd q n).
Proof.
  induction q as [|lv rest IH]; intros n; [reflexivity|].
  rewrite tsub_cons. cbn [nd]. rewrite sub_child_with_aset, str_eqb_refl. apply IH.
Qed.

Lemma nd_tsub_other q c s : forall p n, p <> q -> same3 (nd p (tsubscribe q c s n)) (nd p n).
Proof.
  induction q as [|lv rest IH]; intros p n Hne.
  - rewrite (nd_children_eq p _ n (tsub_nil_children c s n) Hne). apply same3_refl.
  - rewrite tsub_cons. destruct p as [|lv' prest]; [apply same3_with|].
    cbn [nd]. rewrite sub_child_with_aset.
    destruct (str_eqb_spec lv' lv) as [E|E]; [|apply same3_refl].
    subst lv'. apply IH. congruence.
Qed.

Lemma wfT_tsub q c s : forall n, wfT n -> wfT (tsubscribe q c s n).
Proof.
  induction q as [|lv rest IH]; intros n Hwf.
  - apply (wfT_children_eq n); [symmetry; apply tsub_nil_children|exact Hwf].
  - rewrite tsub_cons. apply wfT_intro.
    + apply NoDup_aset. exact (Hwf []).
    + intros lv'. rewrite sub_child_with_aset. destruct (str_eqb lv' lv).
      * apply IH. now apply wfT_child.
      * now apply wfT_child.
Qed.

(* ---- tunsubscribe ---- *)
Definition leave_res (c : cid) (g : str) (x : node) : node :=
  let '(x', pr) := leave_node c g x in if pr then empty_node else x'.

Lemma leave_node_children c g x : n_children (fst (leave_node c g x)) = n_children x.
Proof.
  unfold leave_node. destruct (is_empty g); [reflexivity|].
  destruct (aget g (n_shared x)); reflexivity.
Qed.

Lemma leave_node_prune c g x : snd (leave_node c g x) = true -> n_children x = [].
Proof.
  unfold leave_node. destruct (is_empty g); cbn [snd n_children].
  - intros H. apply andb_true_iff in H as [_ H]. destruct (n_children x); [reflexivity|discriminate].
  - destruct (aget g (n_shared x)); cbn [snd n_children]; [|discriminate].
    intros H. apply andb_true_iff in H as [_ H]. destruct (n_children x); [reflexivity|discriminate].
Qed.

Lemma leave_res_empty c g : leave_res c g empty_node = empty_node.
Proof. unfold leave_res, leave_node. destruct (is_empty g); reflexivity. Qed.

Lemma tunsub_cons lv rest c g n :
  tunsubscribe (lv :: rest) c g n =
  match child lv n with
  | None => n
  | Some ch =>
      match rest with
      | [] => if snd (leave_node c g ch) then with_children n (adel lv (n_children n))
              else with_children n (aset lv (fst (leave_node c g ch)) (n_children n))
      | _ => with_children n (aset lv (tunsubscribe rest c g ch) (n_children n))
      end
  end.
Proof.
  cbn [tunsubscribe]. destruct (child lv n) as [ch|]; [|reflexivity].
  destruct rest; [|reflexivity]. destruct (leave_node c g ch) as [ch' pr]. reflexivity.
Qed.

Lemma nd_tunsub_same q c g : forall n, q <> [] -> wfT n ->
  nd q (tunsubscribe q c g n) = leave_res c g (nd q n).
Proof.
  induction q as [|lv rest IH]; intros n Hq Hwf; [contradiction|].
  rewrite tunsub_cons. cbn [nd]. unfold sub_child at 2.
  destruct (child lv n) as [ch|] eqn:Ech.
  - destruct rest as [|lv2 rest2].
    + cbn [nd]. unfold leave_res. destruct (leave_node c g ch) as [ch' pr]. cbn [fst snd].
      destruct pr.
      * rewrite sub_child_with_adel by exact (Hwf []). now rewrite str_eqb_refl.
      * rewrite sub_child_with_aset. now rewrite str_eqb_refl.
    + rewrite sub_child_with_aset, str_eqb_refl.
      apply IH; [discriminate|].
      replace ch with (sub_child lv n) by (unfold sub_child; now rewrite Ech).
      now apply wfT_child.
  - unfold sub_child. rewrite Ech. rewrite nd_empty. now rewrite leave_res_empty.
Qed.

Lemma nd_tunsub_other q c g : forall p n, p <> q -> wfT n ->
  same3 (nd p (tunsubscribe q c g n)) (nd p n).
Proof.
  induction q as [|lv rest IH]; intros p n Hne Hwf; [apply same3_refl|].
  rewrite tunsub_cons.
  destruct (child lv n) as [ch|] eqn:Ech; [|apply same3_refl].
  assert (Hch : sub_child lv n = ch) by (unfold sub_child; now rewrite Ech).
  destruct rest as [|lv2 rest2].
  - destruct (snd (leave_node c g ch)) eqn:Epr.
    + destruct p as [|lv' prest]; [apply same3_with|]. cbn [nd].
      rewrite sub_child_with_adel by exact (Hwf []).
      destruct (str_eqb_spec lv' lv) as [E|E]; [|apply same3_refl].
      subst lv'. rewrite Hch. rewrite nd_empty.
      assert (Hp : prest <> []) by congruence.
      rewrite (nd_no_children prest ch (leave_node_prune c g ch Epr) Hp). apply same3_refl.
    + destruct p as [|lv' prest]; [apply same3_with|]. cbn [nd].
      rewrite sub_child_with_aset.
      destruct (str_eqb_spec lv' lv) as [E|E]; [|apply same3_refl].
      subst lv'. rewrite Hch.
      assert (Hp : prest <> []) by congruence.
      rewrite (nd_children_eq prest _ ch (leave_node_children c g ch) Hp). apply same3_refl.
  - destruct p as [|lv' prest]; [apply same3_with|]. cbn [nd].
    rewrite sub_child_with_aset.
    destruct (str_eqb_spec lv' lv) as [E|E]; [|apply same3_refl].
    subst lv'. rewrite Hch. apply IH; [congruence|].
    rewrite <- Hch. now apply wfT_child.
Qed.

Lemma wfT_tunsub q c g : forall n, wfT n -> wfT (tunsubscribe q c g n).
Proof.
  induction q as [|lv rest IH]; intros n Hwf; [exact Hwf|].
  rewrite tunsub_cons.
  destruct (child lv n) as [ch|] eqn:Ech; [|exact Hwf].
  assert (Hch : sub_child lv n = ch) by (unfold sub_child; now rewrite Ech).
  assert (Hwch : wfT ch) by (rewrite <- Hch; now apply wfT_child).
  destruct rest as [|lv2 rest2].
  - destruct (snd (leave_node c g ch)) eqn:Epr.
    + apply wfT_intro; [apply NoDup_adel; exact (Hwf [])|].
      intros lv'. rewrite sub_child_with_adel by exact (Hwf []).
      destruct (str_eqb lv' lv); [apply wfT_empty|now apply wfT_child].
    + apply wfT_intro; [apply NoDup_aset; exact (Hwf [])|].
      intros lv'. rewrite sub_child_with_aset.
      destruct (str_eqb lv' lv); [|now apply wfT_child].
      apply (wfT_children_eq ch); [symmetry; apply leave_node_children|exact Hwch].
  - apply wfT_intro; [apply NoDup_aset; exact (Hwf [])|].
    intros lv'. rewrite sub_child_with_aset.
    destruct (str_eqb lv' lv); [|now apply wfT_child].
    now apply IH.
Qed.

(* ---- tmatch enumerates the candidate paths ---- *)
Lemma set_rs_empty : set_rs empty_node = [].
Proof. reflexivity. Qed.

Lemma rs_of_child lv n : rs_of (child lv n) = set_rs (sub_child lv n).
Proof. unfold sub_child. destruct (child lv n); reflexivity. Qed.

Lemma flat_map_nd_empty (l : list (list level)) :
  flat_map (fun f => set_rs (nd f empty_node)) l = [].
Proof.
  induction l as [|f r IH]; [reflexivity|]. cbn [flat_map]. now rewrite nd_empty, IH.
Qed.

Lemma flat_map_map_cons (lv : level) (n : node) (l : list (list level)) :
  flat_map (fun f => set_rs (nd f n)) (map (cons lv) l) =
  flat_map (fun f => set_rs (nd f (sub_child lv n))) l.
Proof.
  induction l as [|f r IH]; [reflexivity|]. cbn [map flat_map nd]. now rewrite IH.
Qed.

Lemma tmatch_cands ts : forall n,
  tmatch ts n = flat_map (fun f => set_rs (nd f n)) (cands ts).
Proof.
  induction ts as [|t rest IH]; intros n; [reflexivity|].
  destruct rest as [|t2 rest2].
  - rewrite cands_one. cbn [tmatch flat_map nd]. rewrite rs_of_child.
    f_equal. rewrite app_nil_r.
    assert (Hgo : forall lv, match child lv n with
                             | Some c => set_rs c ++ rs_of (child [HASH] c)
                             | None => []
                             end = set_rs (sub_child lv n) ++ set_rs (sub_child [HASH] (sub_child lv n))).
    { intros lv. unfold sub_child. destruct (child lv n) as [c|]; [|reflexivity].
      destruct (child [HASH] c); reflexivity. }
    rewrite !Hgo. now rewrite <- !app_assoc.
  - rewrite cands_cons_cons.
    change (tmatch (t :: t2 :: rest2) n) with
      (rs_of (child [HASH] n) ++
       (match child [PLUS] n with Some c => tmatch (t2 :: rest2) c | None => [] end) ++
       (match child t n with Some c => tmatch (t2 :: rest2) c | None => [] end)).
    cbn [flat_map nd]. rewrite rs_of_child. f_equal.
    rewrite flat_map_app, !flat_map_map_cons.
    assert (Hgo : forall lv, match child lv n with
                             | Some c => tmatch (t2 :: rest2) c
                             | None => []
                             end = flat_map (fun f => set_rs (nd f (sub_child lv n))) (cands (t2 :: rest2))).
    { intros lv. unfold sub_child. destruct (child lv n) as [c|]; [apply IH|].
      now rewrite flat_map_nd_empty. }
    now rewrite !Hgo.
Qed.

(* ================================================================== *)
(* 4. what is stored at one node                                       *)
(* ================================================================== *)

Definition grp (g : str) (x : node) : copts :=
  match aget g (n_shared x) with Some l => l | None => [] end.

(* the members of "group g" at a node; the empty share name denotes the plain subscribers *)
Definition obs (g : str) (x : node) : copts := if is_empty g then n_clients x else grp g x.

Lemma obs_nil x : obs [] x = n_clients x.
Proof. reflexivity. Qed.

Lemma obs_ne g x : g <> [] -> obs g x = grp g x.
Proof. intros H. unfold obs. apply is_empty_false in H. now rewrite H. Qed.

Lemma obs_empty_node g : obs g empty_node = [].
Proof. unfold obs. destruct (is_empty g); reflexivity. Qed.

Lemma obs_same3 g a b : same3 a b -> obs g a = obs g b.
Proof. intros (H1 & H2 & _). unfold obs, grp. now rewrite H1, H2. Qed.

Lemma grp_same3 g a b : same3 a b -> grp g a = grp g b.
Proof. intros (_ & H2 & _). unfold grp. now rewrite H2. Qed.

(* -- subscribing at a node -- *)
Lemma tsub_nil_tname c s x : n_tname (tsubscribe [] c s x) = s_filter s.
Proof. cbn [tsubscribe]. destruct (is_empty (s_share s)); reflexivity. Qed.

Lemma tsub_nil_grp g c s x :
  grp g (tsubscribe [] c s x) =
  if negb (is_empty (s_share s)) && str_eqb g (s_share s) then aset c s (grp g x) else grp g x.
Proof.
  cbn [tsubscribe]. unfold grp. destruct (is_empty (s_share s)) eqn:Ee; cbn [negb andb n_shared]; [reflexivity|].
  rewrite aget_aset. destruct (str_eqb_spec g (s_share s)) as [E|E]; [|reflexivity].
  subst g. reflexivity.
Qed.

Lemma tsub_nil_clients c s x :
  n_clients (tsubscribe [] c s x) = if is_empty (s_share s) then aset c s (n_clients x) else n_clients x.
Proof. cbn [tsubscribe]. destruct (is_empty (s_share s)); reflexivity. Qed.

Lemma tsub_nil_obs g c s x :
  obs g (tsubscribe [] c s x) = if str_eqb g (s_share s) then aset c s (obs g x) else obs g x.
Proof.
  unfold obs. rewrite tsub_nil_grp, tsub_nil_clients.
  destruct (str_eqb_spec g (s_share s)) as [E|E].
  - subst g. destruct (is_empty (s_share s)); reflexivity.
  - destruct (is_empty g) eqn:Eg.
    + apply is_empty_true in Eg. subst g.
      destruct (is_empty (s_share s)) eqn:Es; [|reflexivity].
      apply is_empty_true in Es. congruence.
    + now rewrite andb_false_r.
Qed.

Lemma tsub_nil_shared_nodup c s x :
  NoDup (map fst (n_shared x)) -> NoDup (map fst (n_shared (tsubscribe [] c s x))).
Proof.
  intros H. cbn [tsubscribe]. destruct (is_empty (s_share s)); cbn [n_shared]; [exact H|].
  now apply NoDup_aset.
Qed.

Lemma tsub_nil_shared_nil c s x :
  s_share s = [] -> n_shared (tsubscribe [] c s x) = n_shared x.
Proof. intros H. cbn [tsubscribe]. rewrite H. reflexivity. Qed.

(* -- leaving a node -- *)
Lemma leave_res_tname c g g' x :
  obs g' (leave_res c g x) <> [] -> n_tname (leave_res c g x) = n_tname x.
Proof.
  unfold leave_res, leave_node. destruct (is_empty g).
  - match goal with |- context [if ?b then empty_node else _] => destruct b end.
    + rewrite obs_empty_node. congruence.
    + reflexivity.
  - destruct (aget g (n_shared x)) as [l|]; [|reflexivity].
    match goal with |- context [if ?b then empty_node else _] => destruct b end.
    + rewrite obs_empty_node. congruence.
    + reflexivity.
Qed.

Lemma is_nil_true {A} (l : list A) : is_nil l = true <-> l = [].
Proof. destruct l; cbn; split; intros H; try reflexivity; discriminate. Qed.

Lemma leave_res_plain c x :
  n_shared x = [] ->
  n_clients (leave_res c [] x) = adel c (n_clients x) /\ n_shared (leave_res c [] x) = [].
Proof.
  intros Hs. unfold leave_res, leave_node. cbn [is_empty n_clients n_children].
  match goal with |- context [if ?b then empty_node else _] => destruct b eqn:Epr end.
  - apply andb_true_iff in Epr as [E1 _]. apply is_nil_true in E1. rewrite E1. split; reflexivity.
  - cbn [n_clients n_shared]. split; [reflexivity|exact Hs].
Qed.

Lemma leave_res_group c g x :
  g <> [] -> n_clients x = [] -> NoDup (map fst (n_shared x)) ->
  n_clients (leave_res c g x) = [] /\
  NoDup (map fst (n_shared (leave_res c g x))) /\
  forall g', grp g' (leave_res c g x) = if str_eqb g' g then adel c (grp g' x) else grp g' x.
Proof.
  intros Hg Hc Hnd. unfold leave_res, leave_node.
  apply is_empty_false in Hg. rewrite Hg.
  destruct (aget g (n_shared x)) as [l|] eqn:El.
  - set (sh' := match adel c l with [] => adel g (n_shared x) | _ :: _ => aset g (adel c l) (n_shared x) end).
    assert (Hsh : forall g', match aget g' sh' with Some l0 => l0 | None => [] end =
                             if str_eqb g' g then adel c l else grp g' x).
    { intros g'. unfold sh', grp. destruct (adel c l) as [|e r] eqn:Ead.
      - rewrite aget_adel by exact Hnd. destruct (str_eqb g' g); reflexivity.
      - rewrite aget_aset. destruct (str_eqb g' g); reflexivity. }
    assert (Hnd' : NoDup (map fst sh')).
    { unfold sh'. destruct (adel c l); [now apply NoDup_adel|now apply NoDup_aset]. }
    cbn [n_children].
    destruct (is_nil sh' && is_nil (n_children x)) eqn:Epr.
    + split; [reflexivity|]. split; [constructor|].
      intros g'. apply andb_true_iff in Epr as [E1 _]. apply is_nil_true in E1.
      specialize (Hsh g'). rewrite E1 in Hsh. cbn [aget] in Hsh.
      unfold grp at 1. cbn [empty_node n_shared aget]. rewrite Hsh.
      destruct (str_eqb_spec g' g) as [E|E]; [|reflexivity]. subst g'. unfold grp. now rewrite El.
    + cbn [n_clients n_shared]. split; [exact Hc|]. split; [exact Hnd'|].
      intros g'. unfold grp at 1. cbn [n_shared]. rewrite Hsh.
      destruct (str_eqb_spec g' g) as [E|E]; [|reflexivity]. subst g'. unfold grp. now rewrite El.
  - split; [exact Hc|]. split; [exact Hnd|].
    intros g'. destruct (str_eqb_spec g' g) as [E|E]; [|reflexivity].
    subst g'. unfold grp. rewrite El. reflexivity.
Qed.

(* ---- the per-node invariant ---- *)
Definition getter := skey -> option sub.
Definition get_set (key : skey) (s : sub) (get : getter) : getter :=
  fun k' => if skey_eqb k' key then Some s else get k'.
Definition get_del (key : skey) (get : getter) : getter :=
  fun k' => if skey_eqb k' key then None else get k'.

Lemma kind_of_shared g f : g <> [] -> kind_of g f = KShared.
Proof. intros H. unfold kind_of. apply is_empty_false in H. now rewrite H. Qed.

Lemma kind_of_plain f : kind_of [] f = if starts_dollar f then KSys else KUser.
Proof. reflexivity. Qed.

Lemma kind_of_shared_inv g f : kind_of g f = KShared -> g <> [].
Proof.
  unfold kind_of. destruct (is_empty g) eqn:E; cbn [negb].
  - destruct (starts_dollar f); discriminate.
  - intros _. now apply is_empty_false.
Qed.

Lemma kind_of_nonshared_inv g f : kind_of g f <> KShared -> g = [].
Proof.
  intros H. destruct g as [|a g]; [reflexivity|]. exfalso. apply H. now apply kind_of_shared.
Qed.

Lemma kind_of_nil_ns f : kind_of [] f <> KShared.
Proof. rewrite kind_of_plain. destruct (starts_dollar f); discriminate. Qed.

Record NInv (k : kind) (get : getter) (p : list level) (x : node) : Prop := {
  ni_pure : match k with
            | KShared => n_clients x = [] /\ grp [] x = []
            | _ => n_shared x = []
            end;
  ni_shnd : NoDup (map fst (n_shared x));
  ni_nd : forall g, NoDup (map fst (obs g x));
  ni_name : forall g, obs g x <> [] ->
            n_tname x = join p /\ exists f, p = split f /\ kind_of g f = k;
  ni_get : forall g f c, p = split f -> kind_of g f = k -> aget c (obs g x) = get (c, g, f) }.

Lemma NInv_same3 k get p x y : same3 x y -> NInv k get p y -> NInv k get p x.
Proof.
  intros H3 [H1 H2 H4 H5 H6].
  pose proof H3 as (Hc & Hs & Ht).
  constructor.
  - rewrite (grp_same3 [] x y H3), Hc, Hs. exact H1.
  - now rewrite Hs.
  - intros g. now rewrite (obs_same3 g x y H3).
  - intros g. rewrite (obs_same3 g x y H3), Ht. apply H5.
  - intros g f c. rewrite (obs_same3 g x y H3). apply H6.
Qed.

Lemma NInv_ext k get get' p x :
  (forall c g f, p = split f -> kind_of g f = k -> get (c, g, f) = get' (c, g, f)) ->
  NInv k get p x -> NInv k get' p x.
Proof.
  intros He [H1 H2 H4 H5 H6]. constructor; try assumption.
  intros g f c Hp Hk. rewrite (H6 g f c Hp Hk). exact (He c g f Hp Hk).
Qed.

Lemma NInv_sub k get q c s x :
  NInv k get q x -> kind_of (s_share s) (s_filter s) = k -> q = split (s_filter s) ->
  NInv k (get_set (c, s_share s, s_filter s) s get) q (tsubscribe [] c s x).
Proof.
  intros [H1 H2 H4 H5 H6] Hk Hq. constructor.
  - destruct k.
    + rewrite tsub_nil_shared_nil; [exact H1|]. apply (kind_of_nonshared_inv _ (s_filter s)). congruence.
    + rewrite tsub_nil_shared_nil; [exact H1|]. apply (kind_of_nonshared_inv _ (s_filter s)). congruence.
    + apply kind_of_shared_inv in Hk. destruct H1 as [Hc Hg].
      rewrite tsub_nil_clients, tsub_nil_grp.
      pose proof Hk as Hk'. apply is_empty_false in Hk'. rewrite Hk'. cbn [negb andb].
      split; [exact Hc|].
      destruct (str_eqb_spec [] (s_share s)) as [E|E]; [congruence|exact Hg].
  - now apply tsub_nil_shared_nodup.
  - intros g. rewrite tsub_nil_obs. destruct (str_eqb g (s_share s)); [apply NoDup_aset|]; apply H4.
  - intros g. rewrite tsub_nil_obs, tsub_nil_tname. intros Hne.
    split; [subst q; symmetry; apply join_split|].
    destruct (str_eqb_spec g (s_share s)) as [E|E].
    + subst g. exists (s_filter s). now split.
    + apply H5 in Hne as [_ Hex]. exact Hex.
  - intros g f c' Hp Hkf. rewrite tsub_nil_obs. unfold get_set.
    assert (Ef : f = s_filter s) by (apply split_inj; congruence). subst f.
    destruct (str_eqb_spec g (s_share s)) as [E|E].
    + subst g. rewrite aget_aset.
      destruct (skey_eqb_spec (c', s_share s, s_filter s) (c, s_share s, s_filter s)) as [E1|E1].
      * injection E1 as ->. now rewrite str_eqb_refl.
      * destruct (str_eqb_spec c' c) as [E2|E2]; [subst c'; now elim E1|]. now apply H6.
    + destruct (skey_eqb_spec (c', g, s_filter s) (c, s_share s, s_filter s)) as [E1|E1]; [congruence|].
      now apply H6.
Qed.

Lemma NInv_unsub k get q c g f x :
  NInv k get q x -> kind_of g f = k -> q = split f ->
  NInv k (get_del (c, g, f) get) q (leave_res c g x).
Proof.
  intros [H1 H2 H4 H5 H6] Hk Hq.
  assert (Hobs : forall g', obs g' (leave_res c g x) = if str_eqb g' g then adel c (obs g' x) else obs g' x).
  { intros g'. destruct g as [|a g0].
    - assert (Hs : n_shared x = []) by (destruct k; [exact H1|exact H1|now apply kind_of_nil_ns in Hk]).
      destruct (leave_res_plain c x Hs) as [Hc' Hs'].
      destruct g' as [|b g1]; cbn [str_eqb].
      + now rewrite !obs_nil.
      + rewrite !obs_ne by discriminate. unfold grp. now rewrite Hs', Hs.
    - assert (Hne : a :: g0 <> []) by discriminate.
      rewrite (kind_of_shared _ f Hne) in Hk. subst k. destruct H1 as [Hc Hg].
      destruct (leave_res_group c (a :: g0) x Hne Hc H2) as (Hc' & _ & Hgr).
      destruct g' as [|b g1].
      + cbn [str_eqb]. now rewrite !obs_nil, Hc', Hc.
      + rewrite !obs_ne by discriminate. apply Hgr. }
  constructor.
  - destruct g as [|a g0].
    + assert (Hs : n_shared x = []) by (destruct k; [exact H1|exact H1|now apply kind_of_nil_ns in Hk]).
      destruct (leave_res_plain c x Hs) as [_ Hs'].
      destruct k; [exact Hs'|exact Hs'|now apply kind_of_nil_ns in Hk].
    + assert (Hne : a :: g0 <> []) by discriminate.
      rewrite (kind_of_shared _ f Hne) in Hk. subst k. destruct H1 as [Hc Hg].
      destruct (leave_res_group c (a :: g0) x Hne Hc H2) as (Hc' & _ & Hgr).
      split; [exact Hc'|]. rewrite Hgr. cbn [str_eqb]. exact Hg.
  - destruct g as [|a g0].
    + assert (Hs : n_shared x = []) by (destruct k; [exact H1|exact H1|now apply kind_of_nil_ns in Hk]).
      destruct (leave_res_plain c x Hs) as [_ Hs']. rewrite Hs'. constructor.
    + assert (Hne : a :: g0 <> []) by discriminate.
      rewrite (kind_of_shared _ f Hne) in Hk. subst k. destruct H1 as [Hc Hg].
      now destruct (leave_res_group c (a :: g0) x Hne Hc H2) as (_ & Hnd' & _).
  - intros g'. rewrite Hobs. destruct (str_eqb g' g); [apply NoDup_adel|]; apply H4.
  - intros g' Hne. rewrite (leave_res_tname c g g' x Hne). apply H5.
    rewrite Hobs in Hne. destruct (str_eqb g' g); [now apply adel_nil_inv in Hne|exact Hne].
  - intros g' f' c' Hp Hkf. rewrite Hobs. unfold get_del.
    assert (Ef : f' = f) by (apply split_inj; congruence). subst f'.
    destruct (str_eqb_spec g' g) as [E|E].
    + subst g'. rewrite aget_adel by apply H4.
      destruct (skey_eqb_spec (c', g, f) (c, g, f)) as [E1|E1].
      * injection E1 as ->. now rewrite str_eqb_refl.
      * destruct (str_eqb_spec c' c) as [E2|E2]; [subst c'; now elim E1|]. now apply H6.
    + destruct (skey_eqb_spec (c', g', f) (c, g, f)) as [E1|E1]; [congruence|]. now apply H6.
Qed.
