(* Refinement: the trie-based subscription store (Model/SubTrie.v) implements the flat
   finite-map specification (Model/SubSpec.v) for all well-formed operation histories. *)
From Coq Require Import List NArith Bool Arith Lia.
Import ListNotations.
From GM Require Import Base.Topic Model.SubTrie Model.SubSpec Proofs.TopicP Oracle.C02O.

Definition q_topic (t : str) (c : cid) : iopts :=
  {| io_sys := true; io_shared := false; io_nonshared := true; io_client := c; io_topic := t; io_mt := MatchFilter |}.
Definition q_name (f : str) (c : cid) : iopts :=
  {| io_sys := true; io_shared := false; io_nonshared := true; io_client := c; io_topic := f; io_mt := MatchName |}.
Definition q_client (c : cid) : iopts :=
  {| io_sys := true; io_shared := false; io_nonshared := true; io_client := c; io_topic := []; io_mt := MatchNone |}.
Definition q_sh_topic (t : str) (c : cid) : iopts :=
  {| io_sys := false; io_shared := true; io_nonshared := false; io_client := c; io_topic := t; io_mt := MatchFilter |}.
Definition q_sh_name (full : str) (c : cid) : iopts :=
  {| io_sys := false; io_shared := true; io_nonshared := false; io_client := c; io_topic := full; io_mt := MatchName |}.
Definition q_sh_client (c : cid) : iopts :=
  {| io_sys := false; io_shared := true; io_nonshared := false; io_client := c; io_topic := []; io_mt := MatchNone |}.
Definition want_client (c c' : cid) : Prop := c = [] \/ c' = c.

(* ================================================================== *)
(* 1. association lists                                                *)
(* ================================================================== *)

Lemma str_eqb_spec (a b : str) : reflect (a = b) (str_eqb a b).
Proof.
  destruct (str_eqb a b) eqn:E; constructor.
  - now apply str_eqb_eq.
  - now apply str_eqb_neq.
Qed.

Lemma is_empty_true (s : str) : is_empty s = true <-> s = [].
Proof. destruct s; cbn; split; intros H; try reflexivity; discriminate. Qed.

Lemma is_empty_false (s : str) : is_empty s = false <-> s <> [].
Proof. destruct s; cbn; split; intros H; try reflexivity; try discriminate; congruence. Qed.

Section AssocLemmas.
  Context {V : Type}.
  Implicit Types (l : list (str * V)) (k : str) (v : V).

  Lemma aget_aset k' k v l :
    aget k' (aset k v l) = if str_eqb k' k then Some v else aget k' l.
  Proof.
    induction l as [|[k0 v0] r IH]; cbn [aset aget].
    - destruct (str_eqb k' k); reflexivity.
    - destruct (str_eqb_spec k k0) as [E|E]; cbn [aget].
      + subst k0. destruct (str_eqb k' k); reflexivity.
      + rewrite IH. destruct (str_eqb_spec k' k0) as [E1|E1]; [|reflexivity].
        subst k0. destruct (str_eqb_spec k' k) as [E2|E2]; [congruence|reflexivity].
  Qed.

  Lemma aget_aset_same k v l : aget k (aset k v l) = Some v.
  Proof. now rewrite aget_aset, str_eqb_refl. Qed.

  Lemma aget_aset_other k' k v l : k' <> k -> aget k' (aset k v l) = aget k' l.
  Proof. intros H. rewrite aget_aset. apply str_eqb_neq in H. now rewrite H. Qed.

  Lemma aget_notin k l : ~ In k (map fst l) -> aget k l = None.
  Proof.
    induction l as [|[k0 v0] r IH]; cbn [aget map fst In]; intros H; [reflexivity|].
    destruct (str_eqb_spec k k0) as [E|E]; [exfalso; apply H; now left|].
    apply IH. intros Hin. apply H. now right.
  Qed.

  Lemma aget_in_keys k v l : aget k l = Some v -> In k (map fst l).
  Proof.
    induction l as [|[k0 v0] r IH]; cbn [aget map fst In]; intros H; [discriminate|].
    destruct (str_eqb_spec k k0) as [E|E]; [now left|right; now apply IH].
  Qed.

  Lemma aget_In k v l : aget k l = Some v -> In (k, v) l.
  Proof.
    induction l as [|[k0 v0] r IH]; cbn [aget In]; intros H; [discriminate|].
    destruct (str_eqb_spec k k0) as [E|E].
    - left. congruence.
    - right. now apply IH.
  Qed.

  Lemma In_aget k v l : NoDup (map fst l) -> In (k, v) l -> aget k l = Some v.
  Proof.
    induction l as [|[k0 v0] r IH]; cbn [aget map fst In]; intros Hnd Hin; [destruct Hin|].
    inversion Hnd as [|x xs Hx Hnd']; subst.
    destruct Hin as [E|Hin].
    - injection E as -> ->. now rewrite str_eqb_refl.
    - destruct (str_eqb_spec k k0) as [E|E].
      + subst k0. exfalso. apply Hx. apply in_map_iff. exists (k, v). now split.
      + now apply IH.
  Qed.

  Lemma in_keys_adel k' k l : In k' (map fst (adel k l)) -> In k' (map fst l).
  Proof.
    induction l as [|[k0 v0] r IH]; cbn [adel map fst In]; intros H; [destruct H|].
    destruct (str_eqb k k0).
    - now right.
    - cbn [map fst In] in H. destruct H as [H|H]; [now left|right; now apply IH].
  Qed.

  Lemma in_keys_aset k' k v l : In k' (map fst (aset k v l)) -> k' = k \/ In k' (map fst l).
  Proof.
    induction l as [|[k0 v0] r IH]; cbn [aset map fst In]; intros H.
    - destruct H as [H|[]]. now left.
    - destruct (str_eqb k k0); cbn [map fst In] in H.
      + destruct H as [H|H]; [now left|right; now right].
      + destruct H as [H|H]; [right; now left|].
        apply IH in H as [H|H]; [now left|right; now right].
  Qed.

  Lemma NoDup_aset k v l : NoDup (map fst l) -> NoDup (map fst (aset k v l)).
  Proof.
    induction l as [|[k0 v0] r IH]; cbn [aset map fst]; intros Hnd.
    - constructor; [intros []|constructor].
    - inversion Hnd as [|x xs Hx Hnd']; subst.
      destruct (str_eqb_spec k k0) as [E|E]; cbn [map fst].
      + subst k0. now constructor.
      + constructor; [|now apply IH].
        intros Hin. apply in_keys_aset in Hin as [Hin|Hin]; [congruence|contradiction].
  Qed.

  Lemma NoDup_adel k l : NoDup (map fst l) -> NoDup (map fst (adel k l)).
  Proof.
    induction l as [|[k0 v0] r IH]; cbn [adel map fst]; intros Hnd; [constructor|].
    inversion Hnd as [|x xs Hx Hnd']; subst.
    destruct (str_eqb k k0); [exact Hnd'|]. cbn [map fst].
    constructor; [|now apply IH].
    intros Hin. apply Hx. now apply in_keys_adel in Hin.
  Qed.

  Lemma aget_adel k' k l :
    NoDup (map fst l) -> aget k' (adel k l) = if str_eqb k' k then None else aget k' l.
  Proof.
    induction l as [|[k0 v0] r IH]; cbn [adel aget map fst]; intros Hnd.
    - destruct (str_eqb k' k); reflexivity.
    - inversion Hnd as [|x xs Hx Hnd']; subst.
      destruct (str_eqb_spec k k0) as [E|E]; cbn [aget].
      + subst k0. destruct (str_eqb_spec k' k) as [E1|E1]; [|reflexivity].
        subst k'. now apply aget_notin.
      + rewrite (IH Hnd'). destruct (str_eqb_spec k' k0) as [E1|E1]; [|reflexivity].
        subst k0. destruct (str_eqb_spec k' k) as [E2|E2]; [congruence|reflexivity].
  Qed.

  Lemma adel_nil_inv k l : adel k l <> [] -> l <> [].
  Proof. destruct l; cbn; [intros H; exact H|discriminate]. Qed.

  Lemma aset_not_nil k v l : aset k v l <> [].
  Proof. destruct l as [|[k0 v0] r]; cbn [aset]; [discriminate|]. destruct (str_eqb k k0); discriminate. Qed.

  Lemma aget_nil_none k l : l = [] -> aget k l = None.
  Proof. intros ->. reflexivity. Qed.

  Lemma NoDup_keys_NoDup l : NoDup (map fst l) -> NoDup l.
  Proof. apply NoDup_map_inv. Qed.
End AssocLemmas.

Lemma of_client_aget (c : cid) (l : list (cid * sub)) :
  NoDup (map fst l) ->
  of_client c l = match aget c l with Some s => [(c, s)] | None => [] end.
Proof.
  induction l as [|[k0 v0] r IH]; cbn [of_client filter aget map fst]; intros Hnd; [reflexivity|].
  inversion Hnd as [|x xs Hx Hnd']; subst.
  destruct (str_eqb_spec c k0) as [E|E].
  - subst k0. fold (of_client c r). rewrite (IH Hnd'), (aget_notin c r Hx). reflexivity.
  - fold (of_client c r). now apply IH.
Qed.

Lemma in_of_client (c c' : cid) (s : sub) (l : list (cid * sub)) :
  In (c', s) (of_client c l) <-> In (c', s) l /\ c' = c.
Proof.
  unfold of_client. rewrite filter_In. split; intros [H1 H2]; split; try exact H1.
  - apply str_eqb_eq in H2. congruence.
  - subst. apply str_eqb_refl.
Qed.

Lemma mem_str_In (k : str) (l : list str) : mem_str k l = true <-> In k l.
Proof.
  induction l as [|x r IH]; cbn [mem_str In]; [split; [discriminate|intros []]|].
  rewrite orb_true_iff, IH, str_eqb_eq. split; intros [H|H]; auto.
Qed.

(* ================================================================== *)
(* 2. the flat specification                                           *)
(* ================================================================== *)

Lemma skey_eqb_spec (a b : skey) : reflect (a = b) (skey_eqb a b).
Proof.
  destruct a as [[c1 g1] f1], b as [[c2 g2] f2]. cbn [skey_eqb].
  destruct (str_eqb_spec c1 c2) as [E1|E1]; cbn [andb]; [|constructor; congruence].
  destruct (str_eqb_spec g1 g2) as [E2|E2]; cbn [andb]; [|constructor; congruence].
  destruct (str_eqb_spec f1 f2) as [E3|E3]; constructor; congruence.
Qed.

Lemma skey_eqb_refl (a : skey) : skey_eqb a a = true.
Proof. destruct (skey_eqb_spec a a); congruence. Qed.

Lemma sp_get_set (k' k : skey) (v : sub) (sp : spec) :
  sp_get k' (sp_set k v sp) = if skey_eqb k' k then Some v else sp_get k' sp.
Proof.
  induction sp as [|[k0 v0] r IH]; cbn [sp_set sp_get].
  - destruct (skey_eqb k' k); reflexivity.
  - destruct (skey_eqb_spec k k0) as [E|E]; cbn [sp_get].
    + subst k0. destruct (skey_eqb k' k); reflexivity.
    + rewrite IH. destruct (skey_eqb_spec k' k0) as [E1|E1]; [|reflexivity].
      subst k0. destruct (skey_eqb_spec k' k) as [E2|E2]; [congruence|reflexivity].
Qed.

Lemma sp_get_notin (k : skey) (sp : spec) : ~ In k (map fst sp) -> sp_get k sp = None.
Proof.
  induction sp as [|[k0 v0] r IH]; cbn [sp_get map fst In]; intros H; [reflexivity|].
  destruct (skey_eqb_spec k k0) as [E|E]; [exfalso; apply H; now left|].
  apply IH. intros Hin. apply H. now right.
Qed.

Lemma sp_get_In (k : skey) (v : sub) (sp : spec) : sp_get k sp = Some v -> In (k, v) sp.
Proof.
  induction sp as [|[k0 v0] r IH]; cbn [sp_get In]; intros H; [discriminate|].
  destruct (skey_eqb_spec k k0) as [E|E].
  - left. congruence.
  - right. now apply IH.
Qed.

Lemma In_sp_get (k : skey) (v : sub) (sp : spec) :
  NoDup (map fst sp) -> In (k, v) sp -> sp_get k sp = Some v.
Proof.
  induction sp as [|[k0 v0] r IH]; cbn [sp_get map fst In]; intros Hnd Hin; [destruct Hin|].
  inversion Hnd as [|x xs Hx Hnd']; subst.
  destruct Hin as [E|Hin].
  - injection E as -> ->. now rewrite skey_eqb_refl.
  - destruct (skey_eqb_spec k k0) as [E|E].
    + subst k0. exfalso. apply Hx. apply in_map_iff. exists (k, v). now split.
    + now apply IH.
Qed.

Lemma in_keys_sp_del (k' k : skey) (sp : spec) : In k' (map fst (sp_del k sp)) -> In k' (map fst sp).
Proof.
  induction sp as [|[k0 v0] r IH]; cbn [sp_del map fst In]; intros H; [destruct H|].
  destruct (skey_eqb k k0).
  - now right.
  - cbn [map fst In] in H. destruct H as [H|H]; [now left|right; now apply IH].
Qed.

Lemma in_sp_del (e : skey * sub) (k : skey) (sp : spec) : In e (sp_del k sp) -> In e sp.
Proof.
  induction sp as [|[k0 v0] r IH]; cbn [sp_del In]; intros H; [destruct H|].
  destruct (skey_eqb k k0).
  - now right.
  - cbn [In] in H. destruct H as [H|H]; [now left|right; now apply IH].
Qed.

Lemma in_sp_set (e : skey * sub) (k : skey) (v : sub) (sp : spec) :
  In e (sp_set k v sp) -> e = (k, v) \/ In e sp.
Proof.
  induction sp as [|[k0 v0] r IH]; cbn [sp_set In]; intros H.
  - destruct H as [H|[]]. now left.
  - destruct (skey_eqb k k0); cbn [In] in H.
    + destruct H as [H|H]; [now left|right; now right].
    + destruct H as [H|H]; [right; now left|].
      apply IH in H as [H|H]; [now left|right; now right].
Qed.

Lemma NoDup_sp_set (k : skey) (v : sub) (sp : spec) :
  NoDup (map fst sp) -> NoDup (map fst (sp_set k v sp)).
Proof.
  induction sp as [|[k0 v0] r IH]; cbn [sp_set map fst]; intros Hnd.
  - constructor; [intros []|constructor].
  - inversion Hnd as [|x xs Hx Hnd']; subst.
    destruct (skey_eqb_spec k k0) as [E|E]; cbn [map fst].
    + subst k0. now constructor.
    + constructor; [|now apply IH].
      intros Hin. apply in_map_iff in Hin as ([k1 v1] & E1 & Hin). cbn [fst] in E1. subst k1.
      apply in_sp_set in Hin as [Hin|Hin]; [congruence|].
      apply Hx. apply in_map_iff. exists (k0, v1). now split.
Qed.

Lemma NoDup_sp_del (k : skey) (sp : spec) : NoDup (map fst sp) -> NoDup (map fst (sp_del k sp)).
Proof.
  induction sp as [|[k0 v0] r IH]; cbn [sp_del map fst]; intros Hnd; [constructor|].
  inversion Hnd as [|x xs Hx Hnd']; subst.
  destruct (skey_eqb k k0); [exact Hnd'|]. cbn [map fst].
  constructor; [|now apply IH].
  intros Hin. apply Hx. now apply in_keys_sp_del in Hin.
Qed.

Lemma sp_get_del (k' k : skey) (sp : spec) :
  NoDup (map fst sp) -> sp_get k' (sp_del k sp) = if skey_eqb k' k then None else sp_get k' sp.
Proof.
  induction sp as [|[k0 v0] r IH]; cbn [sp_del sp_get map fst]; intros Hnd.
  - destruct (skey_eqb k' k); reflexivity.
  - inversion Hnd as [|x xs Hx Hnd']; subst.
    destruct (skey_eqb_spec k k0) as [E|E]; cbn [sp_get].
    + subst k0. destruct (skey_eqb_spec k' k) as [E1|E1]; [|reflexivity].
      subst k'. now apply sp_get_notin.
    + rewrite (IH Hnd'). destruct (skey_eqb_spec k' k0) as [E1|E1]; [|reflexivity].
      subst k0. destruct (skey_eqb_spec k' k) as [E2|E2]; [congruence|reflexivity].
Qed.

(* without NoDup: deleting another key does not change a lookup *)
Lemma sp_get_del_other (k' k : skey) (sp : spec) :
  k' <> k -> sp_get k' (sp_del k sp) = sp_get k' sp.
Proof.
  intros Hne. induction sp as [|[k0 v0] r IH]; cbn [sp_del sp_get]; [reflexivity|].
  destruct (skey_eqb_spec k k0) as [E|E]; cbn [sp_get].
  - subst k0. destruct (skey_eqb_spec k' k) as [E1|E1]; [congruence|reflexivity].
  - rewrite IH. reflexivity.
Qed.

Lemma NoDup_map_filter {A B : Type} (f : A -> B) (p : A -> bool) (l : list A) :
  NoDup (map f l) -> NoDup (map f (filter p l)).
Proof.
  induction l as [|x r IH]; cbn [filter map]; intros Hnd; [constructor|].
  inversion Hnd as [|y ys Hy Hnd']; subst.
  destruct (p x); cbn [map]; [|now apply IH].
  constructor; [|now apply IH].
  intros Hin. apply Hy. apply in_map_iff in Hin as (z & Ez & Hz).
  apply filter_In in Hz as [Hz _]. apply in_map_iff. now exists z.
Qed.

Lemma sp_get_filter (p : skey -> bool) (k : skey) (sp : spec) :
  sp_get k (filter (fun e => p (fst e)) sp) = if p k then sp_get k sp else None.
Proof.
  induction sp as [|[k0 v0] r IH]; cbn [filter sp_get fst].
  - destruct (p k); reflexivity.
  - destruct (p k0) eqn:Ep0; cbn [sp_get].
    + destruct (skey_eqb_spec k k0) as [E|E]; [subst k0; now rewrite Ep0|exact IH].
    + destruct (skey_eqb_spec k k0) as [E|E]; [subst k0; now rewrite IH, Ep0|exact IH].
Qed.

(* ================================================================== *)
(* 3. tries, observed through paths                                    *)
(* ================================================================== *)

Definition sub_child (lv : level) (n : node) : node :=
  match child lv n with Some ch => ch | None => empty_node end.

(* the node at a path; a missing node is observed as the empty node *)
Fixpoint nd (p : list level) (n : node) : node :=
  match p with [] => n | lv :: rest => nd rest (sub_child lv n) end.

Definition same3 (a b : node) : Prop :=
  n_clients a = n_clients b /\ n_shared a = n_shared b /\ n_tname a = n_tname b.

Lemma same3_refl a : same3 a a.
Proof. repeat split. Qed.

Lemma sub_child_empty lv : sub_child lv empty_node = empty_node.
Proof. reflexivity. Qed.

Lemma nd_empty p : nd p empty_node = empty_node.
Proof. induction p as [|lv rest IH]; [reflexivity|]. cbn [nd]. now rewrite sub_child_empty. Qed.

Lemma nd_tget p : forall n, nd p n = match tget p n with Some x => x | None => empty_node end.
Proof.
  induction p as [|lv rest IH]; intros n; [reflexivity|].
  cbn [nd tget]. unfold sub_child. destruct (child lv n) as [ch|]; [apply IH|apply nd_empty].
Qed.

Lemma sub_child_children lv a b : n_children a = n_children b -> sub_child lv a = sub_child lv b.
Proof. intros H. unfold sub_child, child. now rewrite H. Qed.

Lemma nd_children_eq p a b : n_children a = n_children b -> p <> [] -> nd p a = nd p b.
Proof.
  intros H Hp. destruct p as [|lv rest]; [contradiction|]. cbn [nd].
  now rewrite (sub_child_children lv a b H).
Qed.

Lemma nd_no_children p x : n_children x = [] -> p <> [] -> nd p x = empty_node.
Proof.
  intros H Hp. rewrite (nd_children_eq p x empty_node); [apply nd_empty|exact H|exact Hp].
Qed.

Lemma sub_child_with lv n X :
  sub_child lv (with_children n X) = match aget lv X with Some ch => ch | None => empty_node end.
Proof. reflexivity. Qed.

Lemma sub_child_with_aset lv' lv X n :
  sub_child lv' (with_children n (aset lv X (n_children n))) =
  if str_eqb lv' lv then X else sub_child lv' n.
Proof.
  rewrite sub_child_with, aget_aset. destruct (str_eqb lv' lv); reflexivity.
Qed.

Lemma sub_child_with_adel lv' lv n :
  NoDup (map fst (n_children n)) ->
  sub_child lv' (with_children n (adel lv (n_children n))) =
  if str_eqb lv' lv then empty_node else sub_child lv' n.
Proof.
  intros Hnd. rewrite sub_child_with, aget_adel by exact Hnd. destruct (str_eqb lv' lv); reflexivity.
Qed.

Lemma same3_with n X : same3 (with_children n X) n.
Proof. repeat split. Qed.

(* ---- well-formedness: child keys are duplicate free at every node ---- *)
Definition wfT (n : node) : Prop := forall p, NoDup (map fst (n_children (nd p n))).

Lemma wfT_empty : wfT empty_node.
Proof. intros p. rewrite nd_empty. constructor. Qed.

Lemma wfT_child lv n : wfT n -> wfT (sub_child lv n).
Proof. intros H p. exact (H (lv :: p)). Qed.

Lemma wfT_intro n : NoDup (map fst (n_children n)) -> (forall lv, wfT (sub_child lv n)) -> wfT n.
Proof. intros H1 H2 [|lv rest]; [exact H1|]. cbn [nd]. apply H2. Qed.

Lemma wfT_children_eq a b : n_children a = n_children b -> wfT a -> wfT b.
Proof.
  intros H Ha. apply wfT_intro.
  - rewrite <- H. exact (Ha []).
  - intros lv. rewrite <- (sub_child_children lv a b H). now apply wfT_child.
Qed.

(* ---- tsubscribe ---- *)
Lemma tsub_cons lv rest c s n :
  tsubscribe (lv :: rest) c s n =
  with_children n (aset lv (tsubscribe rest c s (sub_child lv n)) (n_children n)).
Proof. reflexivity. Qed.

Lemma tsub_nil_children c s n : n_children (tsubscribe [] c s n) = n_children n.
Proof. cbn [tsubscribe]. destruct (is_empty (s_share s)); reflexivity. Qed.

Lemma nd_tsub_same q c s : forall n, nd q (tsubscribe q c s n) = tsubscribe [] c s (nd q n).
Proof.
  induction q as [|lv rest IH]; intros n; [reflexivity|].
  rewrite tsub_cons. cbn [nd]. rewrite sub_child_with_aset, str_eqb_refl. apply IH.
Qed.

Lemma nd_tsub_other q c s : forall p n, p <> q -> same3 (nd p (tsubscribe q c s n)) (nd p n).
Proof.
  induction q as [|lv rest IH]; intros p n Hne.
  - rewrite (nd_children_eq p _ n (tsub_nil_children c s n) Hne). apply same3_refl.
  - rewrite tsub_cons. destruct p as [|lv' prest]; [apply same3_with|].
    cbn [nd]. rewrite sub_child_with_aset.
    destruct (str_eqb_spec lv' lv) as [E|E]; [|apply same3_refl].
    subst lv'. apply IH. congruence.
Qed.

Lemma wfT_tsub q c s : forall n, wfT n -> wfT (tsubscribe q c s n).
Proof.
  induction q as [|lv rest IH]; intros n Hwf.
  - apply (wfT_children_eq n); [symmetry; apply tsub_nil_children|exact Hwf].
  - rewrite tsub_cons. apply wfT_intro.
    + apply NoDup_aset. exact (Hwf []).
    + intros lv'. rewrite sub_child_with_aset. destruct (str_eqb lv' lv).
      * apply IH. now apply wfT_child.
      * now apply wfT_child.
Qed.

(* ---- tunsubscribe ---- *)
Definition leave_res (c : cid) (g : str) (x : node) : node :=
  let '(x', pr) := leave_node c g x in if pr then empty_node else x'.

Lemma leave_node_children c g x : n_children (fst (leave_node c g x)) = n_children x.
Proof.
  unfold leave_node. destruct (is_empty g); [reflexivity|].
  destruct (aget g (n_shared x)); reflexivity.
Qed.

Lemma leave_node_prune c g x : snd (leave_node c g x) = true -> n_children x = [].
Proof.
  unfold leave_node. destruct (is_empty g); cbn [snd n_children].
  - intros H. apply andb_true_iff in H as [_ H]. destruct (n_children x); [reflexivity|discriminate].
  - destruct (aget g (n_shared x)); cbn [snd n_children]; [|discriminate].
    intros H. apply andb_true_iff in H as [_ H]. destruct (n_children x); [reflexivity|discriminate].
Qed.

Lemma leave_res_empty c g : leave_res c g empty_node = empty_node.
Proof. unfold leave_res, leave_node. destruct (is_empty g); reflexivity. Qed.

Lemma tunsub_cons lv rest c g n :
  tunsubscribe (lv :: rest) c g n =
  match child lv n with
  | None => n
  | Some ch =>
      match rest with
      | [] => if snd (leave_node c g ch) then with_children n (adel lv (n_children n))
              else with_children n (aset lv (fst (leave_node c g ch)) (n_children n))
      | _ => with_children n (aset lv (tunsubscribe rest c g ch) (n_children n))
      end
  end.
Proof.
  cbn [tunsubscribe]. destruct (child lv n) as [ch|]; [|reflexivity].
  destruct rest; [|reflexivity]. destruct (leave_node c g ch) as [ch' pr]. reflexivity.
Qed.

Lemma nd_tunsub_same q c g : forall n, q <> [] -> wfT n ->
  nd q (tunsubscribe q c g n) = leave_res c g (nd q n).
Proof.
  induction q as [|lv rest IH]; intros n Hq Hwf; [contradiction|].
  rewrite tunsub_cons. cbn [nd]. unfold sub_child at 2.
  destruct (child lv n) as [ch|] eqn:Ech.
  - destruct rest as [|lv2 rest2].
    + cbn [nd]. unfold leave_res. destruct (leave_node c g ch) as [ch' pr]. cbn [fst snd].
      destruct pr.
      * rewrite sub_child_with_adel by exact (Hwf []). now rewrite str_eqb_refl.
      * rewrite sub_child_with_aset. now rewrite str_eqb_refl.
    + rewrite sub_child_with_aset, str_eqb_refl.
      apply IH; [discriminate|].
      replace ch with (sub_child lv n) by (unfold sub_child; now rewrite Ech).
      now apply wfT_child.
  - unfold sub_child. rewrite Ech. rewrite nd_empty. now rewrite leave_res_empty.
Qed.

Lemma nd_tunsub_other q c g : forall p n, p <> q -> wfT n ->
  same3 (nd p (tunsubscribe q c g n)) (nd p n).
Proof.
  induction q as [|lv rest IH]; intros p n Hne Hwf; [apply same3_refl|].
  rewrite tunsub_cons.
  destruct (child lv n) as [ch|] eqn:Ech; [|apply same3_refl].
  assert (Hch : sub_child lv n = ch) by (unfold sub_child; now rewrite Ech).
  destruct rest as [|lv2 rest2].
  - destruct (snd (leave_node c g ch)) eqn:Epr.
    + destruct p as [|lv' prest]; [apply same3_with|]. cbn [nd].
      rewrite sub_child_with_adel by exact (Hwf []).
      destruct (str_eqb_spec lv' lv) as [E|E]; [|apply same3_refl].
      subst lv'. rewrite Hch. rewrite nd_empty.
      assert (Hp : prest <> []) by congruence.
      rewrite (nd_no_children prest ch (leave_node_prune c g ch Epr) Hp). apply same3_refl.
    + destruct p as [|lv' prest]; [apply same3_with|]. cbn [nd].
      rewrite sub_child_with_aset.
      destruct (str_eqb_spec lv' lv) as [E|E]; [|apply same3_refl].
      subst lv'. rewrite Hch.
      assert (Hp : prest <> []) by congruence.
      rewrite (nd_children_eq prest _ ch (leave_node_children c g ch) Hp). apply same3_refl.
  - destruct p as [|lv' prest]; [apply same3_with|]. cbn [nd].
    rewrite sub_child_with_aset.
    destruct (str_eqb_spec lv' lv) as [E|E]; [|apply same3_refl].
    subst lv'. rewrite Hch. apply IH; [congruence|].
    rewrite <- Hch. now apply wfT_child.
Qed.

Lemma wfT_tunsub q c g : forall n, wfT n -> wfT (tunsubscribe q c g n).
Proof.
  induction q as [|lv rest IH]; intros n Hwf; [exact Hwf|].
  rewrite tunsub_cons.
  destruct (child lv n) as [ch|] eqn:Ech; [|exact Hwf].
  assert (Hch : sub_child lv n = ch) by (unfold sub_child; now rewrite Ech).
  assert (Hwch : wfT ch) by (rewrite <- Hch; now apply wfT_child).
  destruct rest as [|lv2 rest2].
  - destruct (snd (leave_node c g ch)) eqn:Epr.
    + apply wfT_intro; [apply NoDup_adel; exact (Hwf [])|].
      intros lv'. rewrite sub_child_with_adel by exact (Hwf []).
      destruct (str_eqb lv' lv); [apply wfT_empty|now apply wfT_child].
    + apply wfT_intro; [apply NoDup_aset; exact (Hwf [])|].
      intros lv'. rewrite sub_child_with_aset.
      destruct (str_eqb lv' lv); [|now apply wfT_child].
      apply (wfT_children_eq ch); [symmetry; apply leave_node_children|exact Hwch].
  - apply wfT_intro; [apply NoDup_aset; exact (Hwf [])|].
    intros lv'. rewrite sub_child_with_aset.
    destruct (str_eqb lv' lv); [|now apply wfT_child].
    now apply IH.
Qed.

(* ---- tmatch enumerates the candidate paths ---- *)
Lemma set_rs_empty : set_rs empty_node = [].
Proof. reflexivity. Qed.

Lemma rs_of_child lv n : rs_of (child lv n) = set_rs (sub_child lv n).
Proof. unfold sub_child. destruct (child lv n); reflexivity. Qed.

Lemma flat_map_nd_empty (l : list (list level)) :
  flat_map (fun f => set_rs (nd f empty_node)) l = [].
Proof.
  induction l as [|f r IH]; [reflexivity|]. cbn [flat_map]. now rewrite nd_empty, IH.
Qed.

Lemma flat_map_map_cons (lv : level) (n : node) (l : list (list level)) :
  flat_map (fun f => set_rs (nd f n)) (map (cons lv) l) =
  flat_map (fun f => set_rs (nd f (sub_child lv n))) l.
Proof.
  induction l as [|f r IH]; [reflexivity|]. cbn [map flat_map nd]. now rewrite IH.
Qed.

Lemma tmatch_cands ts : forall n,
  tmatch ts n = flat_map (fun f => set_rs (nd f n)) (cands ts).
Proof.
  induction ts as [|t rest IH]; intros n; [reflexivity|].
  destruct rest as [|t2 rest2].
  - rewrite cands_one. cbn [tmatch flat_map nd]. rewrite rs_of_child.
    f_equal. rewrite app_nil_r.
    assert (Hgo : forall lv, match child lv n with
                             | Some c => set_rs c ++ rs_of (child [HASH] c)
                             | None => []
                             end = set_rs (sub_child lv n) ++ set_rs (sub_child [HASH] (sub_child lv n))).
    { intros lv. unfold sub_child. destruct (child lv n) as [c|]; [|reflexivity].
      destruct (child [HASH] c); reflexivity. }
    rewrite !Hgo. now rewrite <- !app_assoc.
  - rewrite cands_cons_cons.
    change (tmatch (t :: t2 :: rest2) n) with
      (rs_of (child [HASH] n) ++
       (match child [PLUS] n with Some c => tmatch (t2 :: rest2) c | None => [] end) ++
       (match child t n with Some c => tmatch (t2 :: rest2) c | None => [] end)).
    cbn [flat_map nd]. rewrite rs_of_child. f_equal.
    rewrite flat_map_app, !flat_map_map_cons.
    assert (Hgo : forall lv, match child lv n with
                             | Some c => tmatch (t2 :: rest2) c
                             | None => []
                             end = flat_map (fun f => set_rs (nd f (sub_child lv n))) (cands (t2 :: rest2))).
    { intros lv. unfold sub_child. destruct (child lv n) as [c|]; [apply IH|].
      now rewrite flat_map_nd_empty. }
    now rewrite !Hgo.
Qed.

(* ---- tmatch_lit (matchLiteral) enumerates the candidates with a literal first level ---- *)
Definition lit_cands (ts : list level) : list (list level) :=
  match ts with
  | [] => []
  | t :: rest =>
      match rest with
      | [] => [[t]; [t; [HASH]]]
      | _ => map (cons t) (cands rest)
      end
  end.

Lemma tmatch_lit_cands ts n :
  tmatch_lit ts n = flat_map (fun f => set_rs (nd f n)) (lit_cands ts).
Proof.
  destruct ts as [|t rest]; [reflexivity|]. destruct rest as [|t2 rest2].
  - cbn [tmatch_lit lit_cands flat_map nd]. rewrite app_nil_r.
    unfold sub_child. destruct (child t n) as [c|]; [|reflexivity].
    destruct (child [HASH] c); reflexivity.
  - cbn [tmatch_lit lit_cands]. rewrite flat_map_map_cons.
    unfold sub_child. destruct (child t n) as [c|]; [apply tmatch_cands|].
    now rewrite flat_map_nd_empty.
Qed.

Lemma lit_cands_in t rest f :
  t <> [PLUS] -> t <> [HASH] ->
  (In f (lit_cands (t :: rest)) <-> In f (cands (t :: rest)) /\ exists fr, f = t :: fr).
Proof.
  intros Hp Hh. destruct rest as [|t2 rest2].
  - rewrite cands_one. cbn [lit_cands In]. split.
    + intros [<-|[<-|[]]]; (split; [tauto|eexists; reflexivity]).
    + intros [[<-|[<-|[<-|[<-|[<-|[]]]]]] [fr E]]; try (injection E as E _; congruence); tauto.
  - rewrite cands_cons_cons. cbn [lit_cands]. split.
    + intros Hin. split; [right; apply in_or_app; now right|].
      apply in_map_iff in Hin as (fr & <- & _). now exists fr.
    + intros [[<-|Hin] [fr E]]; [injection E as E _; congruence|].
      apply in_app_or in Hin as [Hin|Hin]; [|exact Hin].
      apply in_map_iff in Hin as (x & <- & _). injection E as E _. congruence.
Qed.

Lemma lit_cands_nodup ts : no_wild_levels ts = true -> NoDup (lit_cands ts).
Proof.
  destruct ts as [|t rest]; intros Hnw; [constructor|].
  apply no_wild_cons in Hnw as (_ & _ & Hrest).
  destruct rest as [|t2 rest2].
  - cbn [lit_cands]. constructor; [|constructor; [intros []|constructor]].
    intros [E|[]]. discriminate.
  - cbn [lit_cands]. apply NoDup_map_cons. now apply cands_nodup.
Qed.

(* MQTT-4.7.2-1 in terms of levels: a filter matches a topic name beginning with '$' iff the
   levels match and the first filter level is the (literal) first level of the name *)
Lemma topic_match_dollar_lit t f t0 rest :
  starts_dollar t = true -> split t = t0 :: rest ->
  (topic_match t f = true <-> lm (t0 :: rest) (split f) = true /\ exists fr, split f = t0 :: fr).
Proof.
  intros Hd Et. destruct (split_first_level_dollar t Hd) as (l & ls & Et').
  rewrite Et in Et'. injection Et' as -> ->.
  unfold topic_match. rewrite Hd, Et. cbn [andb]. split.
  - intros H. apply andb_true_iff in H as [Hw Hlm]. apply negb_true_iff in Hw.
    split; [exact Hlm|].
    destruct (split f) as [|fl f'] eqn:Ef; [now apply split_nonempty in Ef|].
    destruct (is_hash fl) eqn:Eh.
    { apply is_hash_eq in Eh. subst fl. apply split_head in Ef as (f0 & ->). discriminate. }
    rewrite (lm_cons_nohash _ _ _ _ Eh) in Hlm. apply andb_true_iff in Hlm as [Hfl _].
    apply orb_true_iff in Hfl as [Hfl|Hfl].
    { apply is_plus_eq in Hfl. subst fl. apply split_head in Ef as (f0 & ->). discriminate. }
    apply str_eqb_eq in Hfl. subst fl. now exists f'.
  - intros [Hlm [fr Ef]]. apply split_head in Ef as (f0 & ->). exact Hlm.
Qed.

(* ================================================================== *)
(* 4. what is stored at one node                                       *)
(* ================================================================== *)

Definition grp (g : str) (x : node) : copts :=
  match aget g (n_shared x) with Some l => l | None => [] end.

(* the members of "group g" at a node; the empty share name denotes the plain subscribers *)
Definition obs (g : str) (x : node) : copts := if is_empty g then n_clients x else grp g x.

Lemma obs_nil x : obs [] x = n_clients x.
Proof. reflexivity. Qed.

Lemma obs_ne g x : g <> [] -> obs g x = grp g x.
Proof. intros H. unfold obs. apply is_empty_false in H. now rewrite H. Qed.

Lemma obs_empty_node g : obs g empty_node = [].
Proof. unfold obs. destruct (is_empty g); reflexivity. Qed.

Lemma obs_same3 g a b : same3 a b -> obs g a = obs g b.
Proof. intros (H1 & H2 & _). unfold obs, grp. now rewrite H1, H2. Qed.

Lemma grp_same3 g a b : same3 a b -> grp g a = grp g b.
Proof. intros (_ & H2 & _). unfold grp. now rewrite H2. Qed.

(* -- subscribing at a node -- *)
Lemma tsub_nil_tname c s x : n_tname (tsubscribe [] c s x) = s_filter s.
Proof. cbn [tsubscribe]. destruct (is_empty (s_share s)); reflexivity. Qed.

Lemma tsub_nil_grp g c s x :
  grp g (tsubscribe [] c s x) =
  if negb (is_empty (s_share s)) && str_eqb g (s_share s) then aset c s (grp g x) else grp g x.
Proof.
  cbn [tsubscribe]. unfold grp. destruct (is_empty (s_share s)) eqn:Ee; cbn [negb andb n_shared]; [reflexivity|].
  rewrite aget_aset. destruct (str_eqb_spec g (s_share s)) as [E|E]; [|reflexivity].
  subst g. reflexivity.
Qed.

Lemma tsub_nil_clients c s x :
  n_clients (tsubscribe [] c s x) = if is_empty (s_share s) then aset c s (n_clients x) else n_clients x.
Proof. cbn [tsubscribe]. destruct (is_empty (s_share s)); reflexivity. Qed.

Lemma tsub_nil_obs g c s x :
  obs g (tsubscribe [] c s x) = if str_eqb g (s_share s) then aset c s (obs g x) else obs g x.
Proof.
  unfold obs. rewrite tsub_nil_grp, tsub_nil_clients.
  destruct (str_eqb_spec g (s_share s)) as [E|E].
  - subst g. destruct (is_empty (s_share s)); reflexivity.
  - destruct (is_empty g) eqn:Eg.
    + apply is_empty_true in Eg. subst g.
      destruct (is_empty (s_share s)) eqn:Es; [|reflexivity].
      apply is_empty_true in Es. congruence.
    + now rewrite andb_false_r.
Qed.

Lemma tsub_nil_shared_nodup c s x :
  NoDup (map fst (n_shared x)) -> NoDup (map fst (n_shared (tsubscribe [] c s x))).
Proof.
  intros H. cbn [tsubscribe]. destruct (is_empty (s_share s)); cbn [n_shared]; [exact H|].
  now apply NoDup_aset.
Qed.

Lemma tsub_nil_shared_nil c s x :
  s_share s = [] -> n_shared (tsubscribe [] c s x) = n_shared x.
Proof. intros H. cbn [tsubscribe]. rewrite H. reflexivity. Qed.

(* -- leaving a node -- *)
Lemma leave_res_tname c g g' x :
  obs g' (leave_res c g x) <> [] -> n_tname (leave_res c g x) = n_tname x.
Proof.
  unfold leave_res, leave_node. destruct (is_empty g).
  - match goal with |- context [if ?b then empty_node else _] => destruct b end.
    + rewrite obs_empty_node. congruence.
    + reflexivity.
  - destruct (aget g (n_shared x)) as [l|]; [|reflexivity].
    match goal with |- context [if ?b then empty_node else _] => destruct b end.
    + rewrite obs_empty_node. congruence.
    + reflexivity.
Qed.

Lemma is_nil_true {A} (l : list A) : is_nil l = true <-> l = [].
Proof. destruct l; cbn; split; intros H; try reflexivity; discriminate. Qed.

Lemma leave_res_plain c x :
  n_shared x = [] ->
  n_clients (leave_res c [] x) = adel c (n_clients x) /\ n_shared (leave_res c [] x) = [].
Proof.
  intros Hs. unfold leave_res, leave_node. cbn [is_empty n_clients n_children].
  match goal with |- context [if ?b then empty_node else _] => destruct b eqn:Epr end.
  - apply andb_true_iff in Epr as [E1 _]. apply is_nil_true in E1. rewrite E1. split; reflexivity.
  - cbn [n_clients n_shared]. split; [reflexivity|exact Hs].
Qed.

Lemma leave_res_group c g x :
  g <> [] -> n_clients x = [] -> NoDup (map fst (n_shared x)) ->
  n_clients (leave_res c g x) = [] /\
  NoDup (map fst (n_shared (leave_res c g x))) /\
  forall g', grp g' (leave_res c g x) = if str_eqb g' g then adel c (grp g' x) else grp g' x.
Proof.
  intros Hg Hc Hnd. unfold leave_res, leave_node.
  apply is_empty_false in Hg. rewrite Hg.
  destruct (aget g (n_shared x)) as [l|] eqn:El.
  - set (sh' := match adel c l with [] => adel g (n_shared x) | _ :: _ => aset g (adel c l) (n_shared x) end).
    assert (Hsh : forall g', match aget g' sh' with Some l0 => l0 | None => [] end =
                             if str_eqb g' g then adel c l else grp g' x).
    { intros g'. unfold sh', grp. destruct (adel c l) as [|e r] eqn:Ead.
      - rewrite aget_adel by exact Hnd. destruct (str_eqb g' g); reflexivity.
      - rewrite aget_aset. destruct (str_eqb g' g); reflexivity. }
    assert (Hnd' : NoDup (map fst sh')).
    { unfold sh'. destruct (adel c l); [now apply NoDup_adel|now apply NoDup_aset]. }
    cbn [n_children].
    destruct (is_nil sh' && is_nil (n_children x)) eqn:Epr.
    + split; [reflexivity|]. split; [constructor|].
      intros g'. apply andb_true_iff in Epr as [E1 _]. apply is_nil_true in E1.
      specialize (Hsh g'). rewrite E1 in Hsh. cbn [aget] in Hsh.
      unfold grp at 1. cbn [empty_node n_shared aget]. rewrite Hsh.
      destruct (str_eqb_spec g' g) as [E|E]; [|reflexivity]. subst g'. unfold grp. now rewrite El.
    + cbn [n_clients n_shared]. split; [exact Hc|]. split; [exact Hnd'|].
      intros g'. unfold grp at 1. cbn [n_shared]. rewrite Hsh.
      destruct (str_eqb_spec g' g) as [E|E]; [|reflexivity]. subst g'. unfold grp. now rewrite El.
  - split; [exact Hc|]. split; [exact Hnd|].
    intros g'. destruct (str_eqb_spec g' g) as [E|E]; [|reflexivity].
    subst g'. unfold grp. rewrite El. reflexivity.
Qed.

(* ---- the per-node invariant ---- *)
Definition getter := skey -> option sub.
Definition get_set (key : skey) (s : sub) (get : getter) : getter :=
  fun k' => if skey_eqb k' key then Some s else get k'.
Definition get_del (key : skey) (get : getter) : getter :=
  fun k' => if skey_eqb k' key then None else get k'.

Lemma kind_of_shared g f : g <> [] -> kind_of g f = KShared.
Proof. intros H. unfold kind_of. apply is_empty_false in H. now rewrite H. Qed.

Lemma kind_of_plain f : kind_of [] f = if starts_dollar f then KSys else KUser.
Proof. reflexivity. Qed.

Lemma kind_of_shared_inv g f : kind_of g f = KShared -> g <> [].
Proof.
  unfold kind_of. destruct (is_empty g) eqn:E; cbn [negb].
  - destruct (starts_dollar f); discriminate.
  - intros _. now apply is_empty_false.
Qed.

Lemma kind_of_nonshared_inv g f : kind_of g f <> KShared -> g = [].
Proof.
  intros H. destruct g as [|a g]; [reflexivity|]. exfalso. apply H. now apply kind_of_shared.
Qed.

Lemma kind_of_nil_ns f : kind_of [] f <> KShared.
Proof. rewrite kind_of_plain. destruct (starts_dollar f); discriminate. Qed.

Record NInv (k : kind) (get : getter) (p : list level) (x : node) : Prop := {
  ni_pure : match k with
            | KShared => n_clients x = [] /\ grp [] x = []
            | _ => n_shared x = []
            end;
  ni_shnd : NoDup (map fst (n_shared x));
  ni_nd : forall g, NoDup (map fst (obs g x));
  ni_name : forall g, obs g x <> [] ->
            n_tname x = join p /\ exists f, p = split f /\ kind_of g f = k;
  ni_get : forall g f c, p = split f -> kind_of g f = k -> aget c (obs g x) = get (c, g, f) }.

Lemma NInv_same3 k get p x y : same3 x y -> NInv k get p y -> NInv k get p x.
Proof.
  intros H3 [H1 H2 H4 H5 H6].
  pose proof H3 as (Hc & Hs & Ht).
  constructor.
  - rewrite (grp_same3 [] x y H3), Hc, Hs. exact H1.
  - now rewrite Hs.
  - intros g. now rewrite (obs_same3 g x y H3).
  - intros g. rewrite (obs_same3 g x y H3), Ht. apply H5.
  - intros g f c. rewrite (obs_same3 g x y H3). apply H6.
Qed.

Lemma NInv_ext k get get' p x :
  (forall c g f, p = split f -> kind_of g f = k -> get (c, g, f) = get' (c, g, f)) ->
  NInv k get p x -> NInv k get' p x.
Proof.
  intros He [H1 H2 H4 H5 H6]. constructor; try assumption.
  intros g f c Hp Hk. rewrite (H6 g f c Hp Hk). exact (He c g f Hp Hk).
Qed.

Lemma NInv_sub k get q c s x :
  NInv k get q x -> kind_of (s_share s) (s_filter s) = k -> q = split (s_filter s) ->
  NInv k (get_set (c, s_share s, s_filter s) s get) q (tsubscribe [] c s x).
Proof.
  intros [H1 H2 H4 H5 H6] Hk Hq. constructor.
  - destruct k.
    + rewrite tsub_nil_shared_nil; [exact H1|]. apply (kind_of_nonshared_inv _ (s_filter s)). congruence.
    + rewrite tsub_nil_shared_nil; [exact H1|]. apply (kind_of_nonshared_inv _ (s_filter s)). congruence.
    + apply kind_of_shared_inv in Hk. destruct H1 as [Hc Hg].
      rewrite tsub_nil_clients, tsub_nil_grp.
      pose proof Hk as Hk'. apply is_empty_false in Hk'. rewrite Hk'. cbn [negb andb].
      split; [exact Hc|].
      destruct (str_eqb_spec [] (s_share s)) as [E|E]; [congruence|exact Hg].
  - now apply tsub_nil_shared_nodup.
  - intros g. rewrite tsub_nil_obs. destruct (str_eqb g (s_share s)); [apply NoDup_aset|]; apply H4.
  - intros g. rewrite tsub_nil_obs, tsub_nil_tname. intros Hne.
    split; [subst q; symmetry; apply join_split|].
    destruct (str_eqb_spec g (s_share s)) as [E|E].
    + subst g. exists (s_filter s). now split.
    + apply H5 in Hne as [_ Hex]. exact Hex.
  - intros g f c' Hp Hkf. rewrite tsub_nil_obs. unfold get_set.
    assert (Ef : f = s_filter s) by (apply split_inj; congruence). subst f.
    destruct (str_eqb_spec g (s_share s)) as [E|E].
    + subst g. rewrite aget_aset.
      destruct (skey_eqb_spec (c', s_share s, s_filter s) (c, s_share s, s_filter s)) as [E1|E1].
      * injection E1 as ->. now rewrite str_eqb_refl.
      * destruct (str_eqb_spec c' c) as [E2|E2]; [subst c'; now elim E1|]. now apply H6.
    + destruct (skey_eqb_spec (c', g, s_filter s) (c, s_share s, s_filter s)) as [E1|E1]; [congruence|].
      now apply H6.
Qed.

Lemma NInv_unsub k get q c g f x :
  NInv k get q x -> kind_of g f = k -> q = split f ->
  NInv k (get_del (c, g, f) get) q (leave_res c g x).
Proof.
  intros [H1 H2 H4 H5 H6] Hk Hq.
  assert (Hobs : forall g', obs g' (leave_res c g x) = if str_eqb g' g then adel c (obs g' x) else obs g' x).
  { intros g'. destruct g as [|a g0].
    - assert (Hs : n_shared x = []) by (destruct k; [exact H1|exact H1|now apply kind_of_nil_ns in Hk]).
      destruct (leave_res_plain c x Hs) as [Hc' Hs'].
      destruct g' as [|b g1]; cbn [str_eqb].
      + now rewrite !obs_nil.
      + rewrite !obs_ne by discriminate. unfold grp. now rewrite Hs', Hs.
    - assert (Hne : a :: g0 <> []) by discriminate.
      rewrite (kind_of_shared _ f Hne) in Hk. subst k. destruct H1 as [Hc Hg].
      destruct (leave_res_group c (a :: g0) x Hne Hc H2) as (Hc' & _ & Hgr).
      destruct g' as [|b g1].
      + cbn [str_eqb]. unfold obs. cbn [is_empty]. rewrite Hc'. now rewrite Hc.
      + rewrite !obs_ne by discriminate. apply Hgr. }
  constructor.
  - destruct g as [|a g0].
    + assert (Hs : n_shared x = []) by (destruct k; [exact H1|exact H1|now apply kind_of_nil_ns in Hk]).
      destruct (leave_res_plain c x Hs) as [_ Hs'].
      destruct k; [exact Hs'|exact Hs'|now apply kind_of_nil_ns in Hk].
    + assert (Hne : a :: g0 <> []) by discriminate.
      rewrite (kind_of_shared _ f Hne) in Hk. subst k. destruct H1 as [Hc Hg].
      destruct (leave_res_group c (a :: g0) x Hne Hc H2) as (Hc' & _ & Hgr).
      split; [exact Hc'|]. rewrite Hgr. cbn [str_eqb]. exact Hg.
  - destruct g as [|a g0].
    + assert (Hs : n_shared x = []) by (destruct k; [exact H1|exact H1|now apply kind_of_nil_ns in Hk]).
      destruct (leave_res_plain c x Hs) as [_ Hs']. rewrite Hs'. constructor.
    + assert (Hne : a :: g0 <> []) by discriminate.
      rewrite (kind_of_shared _ f Hne) in Hk. subst k. destruct H1 as [Hc Hg].
      now destruct (leave_res_group c (a :: g0) x Hne Hc H2) as (_ & Hnd' & _).
  - intros g'. rewrite Hobs. destruct (str_eqb g' g); [apply NoDup_adel|]; apply H4.
  - intros g' Hne. rewrite (leave_res_tname c g g' x Hne). apply H5.
    rewrite Hobs in Hne. destruct (str_eqb g' g); [now apply adel_nil_inv in Hne|exact Hne].
  - intros g' f' c' Hp Hkf. rewrite Hobs. unfold get_del.
    assert (Ef : f' = f) by (apply split_inj; congruence). subst f'.
    destruct (str_eqb_spec g' g) as [E|E].
    + subst g'. rewrite aget_adel by apply H4.
      destruct (skey_eqb_spec (c', g, f) (c, g, f)) as [E1|E1].
      * injection E1 as ->. now rewrite str_eqb_refl.
      * destruct (str_eqb_spec c' c) as [E2|E2]; [subst c'; now elim E1|]. now apply H6.
    + destruct (skey_eqb_spec (c', g', f) (c, g, f)) as [E1|E1]; [congruence|]. now apply H6.
Qed.

(* ================================================================== *)
(* 5. the invariant of one trie                                        *)
(* ================================================================== *)

Definition TInv (k : kind) (get : getter) (T : node) : Prop :=
  wfT T /\ forall p, NInv k get p (nd p T).

Lemma path_eq_dec (p q : list level) : {p = q} + {p <> q}.
Proof. apply list_eq_dec. apply list_eq_dec. apply N.eq_dec. Qed.

Lemma TInv_ext k get get' T :
  (forall c g f, kind_of g f = k -> get (c, g, f) = get' (c, g, f)) ->
  TInv k get T -> TInv k get' T.
Proof.
  intros He [Hwf Hn]. split; [exact Hwf|]. intros p.
  apply (NInv_ext k get get'); [|apply Hn]. intros c g f _ Hk. now apply He.
Qed.

Lemma NInv_empty k p : NInv k (fun _ => None) p empty_node.
Proof.
  constructor.
  - destruct k; [reflexivity|reflexivity|split; reflexivity].
  - constructor.
  - intros g. rewrite obs_empty_node. constructor.
  - intros g. rewrite obs_empty_node. congruence.
  - intros g f c _ _. rewrite obs_empty_node. reflexivity.
Qed.

Lemma TInv_empty k : TInv k (fun _ => None) empty_node.
Proof. split; [apply wfT_empty|]. intros p. rewrite nd_empty. apply NInv_empty. Qed.

Lemma TInv_sub k get c s T :
  TInv k get T -> kind_of (s_share s) (s_filter s) = k ->
  TInv k (get_set (c, s_share s, s_filter s) s get) (tsubscribe (split (s_filter s)) c s T).
Proof.
  intros [Hwf Hn] Hk. split; [now apply wfT_tsub|]. intros p.
  destruct (path_eq_dec p (split (s_filter s))) as [E|E].
  - subst p. rewrite nd_tsub_same. now apply NInv_sub.
  - apply (NInv_same3 _ _ _ _ (nd p T)); [now apply nd_tsub_other|].
    apply (NInv_ext k get); [|apply Hn].
    intros c' g' f' Hp _. unfold get_set.
    destruct (skey_eqb_spec (c', g', f') (c, s_share s, s_filter s)) as [E1|E1]; [|reflexivity].
    injection E1 as _ _ E3. subst f'. contradiction.
Qed.

Lemma TInv_unsub k get c g f T :
  TInv k get T -> kind_of g f = k ->
  TInv k (get_del (c, g, f) get) (tunsubscribe (split f) c g T).
Proof.
  intros [Hwf Hn] Hk. split; [now apply wfT_tunsub|]. intros p.
  destruct (path_eq_dec p (split f)) as [E|E].
  - subst p. rewrite nd_tunsub_same; [|apply split_nonempty|exact Hwf]. now apply NInv_unsub.
  - apply (NInv_same3 _ _ _ _ (nd p T)); [now apply nd_tunsub_other|].
    apply (NInv_ext k get); [|apply Hn].
    intros c' g' f' Hp _. unfold get_del.
    destruct (skey_eqb_spec (c', g', f') (c, g, f)) as [E1|E1]; [|reflexivity].
    injection E1 as _ _ E3. subst f'. contradiction.
Qed.

(* ================================================================== *)
(* 6. TrieDB operations in normal form                                 *)
(* ================================================================== *)

Definition kind_eqb (a b : kind) : bool :=
  match a, b with
  | KUser, KUser => true | KSys, KSys => true | KShared, KShared => true
  | _, _ => false
  end.

Lemma kind_eqb_spec a b : reflect (a = b) (kind_eqb a b).
Proof. destruct a, b; constructor; congruence. Qed.

Lemma kind_eqb_refl a : kind_eqb a a = true.
Proof. now destruct a. Qed.

Definition upd (k : kind) (t : node) (i : index) (g : stats) (cs : list (cid * stats)) (p : bool) (d : db) : db :=
  set_stats g cs p (set_trie_index k t i d).

Lemma trie_of_upd k' k t i g cs p d :
  trie_of k' (upd k t i g cs p d) = if kind_eqb k' k then t else trie_of k' d.
Proof. destruct k, k'; reflexivity. Qed.

Lemma index_of_upd k' k t i g cs p d :
  index_of k' (upd k t i g cs p d) = if kind_eqb k' k then i else index_of k' d.
Proof. destruct k, k'; reflexivity. Qed.

Lemma gstats_upd k t i g cs p d : gstats (upd k t i g cs p d) = g.
Proof. destruct k; reflexivity. Qed.
Lemma cstats_upd k t i g cs p d : cstats (upd k t i g cs p d) = cs.
Proof. destruct k; reflexivity. Qed.
Lemma panicked_upd k t i g cs p d : panicked (upd k t i g cs p d) = p.
Proof. destruct k; reflexivity. Qed.

Definition keys_at (c : cid) (idx : index) : list str :=
  match aget c idx with Some ks => ks | None => [] end.

Definition zero_stats : stats := {| st_total := 0; st_cur := 0 |}.
Definition bump (x : stats) : stats :=
  {| st_total := u64_add (st_total x) 1; st_cur := u64_add (st_cur x) 1 |}.
Definition drop (n : N) (x : stats) : stats :=
  {| st_total := st_total x; st_cur := u64_sub (st_cur x) n |}.

Definition sub_cs0 (c : cid) (idx : index) (cs : list (cid * stats)) : list (cid * stats) :=
  match aget c idx with
  | Some _ => cs
  | None => match aget c cs with Some _ => cs | None => aset c zero_stats cs end
  end.

Lemma db_subscribe_nf c s d :
  let k := kind_of (s_share s) (s_filter s) in
  let idx := index_of k d in
  let keys := keys_at c idx in
  let key := index_key (s_share s) (s_filter s) in
  let ex := mem_str key keys in
  let cs0 := sub_cs0 c idx (cstats d) in
  db_subscribe c s d =
  (upd k (tsubscribe (split (s_filter s)) c s (trie_of k d))
       (aset c (if ex then keys else keys ++ [key]) idx)
       (if ex then gstats d else bump (gstats d))
       (if ex then cs0 else match aget c cs0 with Some x => aset c (bump x) cs0 | None => cs0 end)
       (if ex then panicked d else match aget c cs0 with Some _ => panicked d | None => true end)
       d, ex).
Proof.
  cbv zeta. unfold db_subscribe, sub_cs0, keys_at, upd.
  destruct (aget c (index_of (kind_of (s_share s) (s_filter s)) d)) as [keys|].
  - destruct (mem_str (index_key (s_share s) (s_filter s)) keys); [reflexivity|].
    destruct (aget c (cstats d)); reflexivity.
  - cbn [mem_str].
    destruct (aget c (cstats d)) eqn:E.
    + rewrite E. reflexivity.
    + unfold zero_stats. rewrite !aget_aset_same. reflexivity.
Qed.

Lemma db_unsubscribe_nf c topic d :
  let g := fst (split_topic topic) in
  let f := snd (split_topic topic) in
  let k := kind_of g f in
  let idx := index_of k d in
  let keys := keys_at c idx in
  let key := index_key g f in
  let ex := mem_str key keys in
  db_unsubscribe c topic d =
  upd k (tunsubscribe (split f) c g (trie_of k d))
      (if ex then aset c (del_str key keys) idx else idx)
      (if ex then drop 1 (gstats d) else gstats d)
      (if ex then match aget c (cstats d) with Some x => aset c (drop 1 x) (cstats d) | None => cstats d end
       else cstats d)
      (if ex then match aget c (cstats d) with Some _ => panicked d | None => true end else panicked d)
      d.
Proof.
  cbv zeta. unfold db_unsubscribe, keys_at, upd.
  destruct (split_topic topic) as [g f]. cbn [fst snd].
  destruct (aget c (index_of (kind_of g f) d)) as [keys|]; [|reflexivity].
  destruct (mem_str (index_key g f) keys); [|reflexivity].
  destruct (aget c (cstats d)); reflexivity.
Qed.

Definition is_shared_kind (k : kind) : bool := match k with KShared => true | _ => false end.

Lemma db_unsub_all_kind_nf k c d :
  let keys := keys_at c (index_of k d) in
  let n := N.of_nat (length keys) in
  db_unsub_all_kind k c d =
  upd k (fold_left (fun t key => unsub_entry (is_shared_kind k) c key t) keys (trie_of k d))
      (adel c (index_of k d))
      (drop n (gstats d))
      (match aget c (cstats d) with Some x => aset c (drop n x) (cstats d) | None => cstats d end)
      (panicked d) d.
Proof. reflexivity. Qed.

(* ================================================================== *)
(* 7. index keys of the specification                                  *)
(* ================================================================== *)

Definition selk (k : kind) (c : cid) (key : skey) : bool :=
  let '(c', g, f) := key in str_eqb c c' && kind_eqb (kind_of g f) k.
Definition ikey (key : skey) : str := let '(_, g, f) := key in index_key g f.
Definition keys_of (k : kind) (c : cid) (sp : spec) : list str :=
  map ikey (filter (selk k c) (map fst sp)).

Fixpoint kdel (key : skey) (l : list skey) : list skey :=
  match l with [] => [] | x :: r => if skey_eqb key x then r else x :: kdel key r end.

Lemma map_fst_sp_set key s sp :
  map fst (sp_set key s sp) =
  match sp_get key sp with Some _ => map fst sp | None => map fst sp ++ [key] end.
Proof.
  induction sp as [|[k0 v0] r IH]; cbn [sp_set sp_get map fst]; [reflexivity|].
  destruct (skey_eqb_spec key k0) as [E|E]; cbn [map fst].
  - now subst k0.
  - rewrite IH. destruct (sp_get key r); reflexivity.
Qed.

Lemma map_fst_sp_del key sp : map fst (sp_del key sp) = kdel key (map fst sp).
Proof.
  induction sp as [|[k0 v0] r IH]; cbn [sp_del kdel map fst]; [reflexivity|].
  destruct (skey_eqb key k0); [reflexivity|]. cbn [map fst]. now rewrite IH.
Qed.

Lemma map_fst_filter (p : skey -> bool) (sp : spec) :
  map fst (filter (fun e => p (fst e)) sp) = filter p (map fst sp).
Proof.
  induction sp as [|[k0 v0] r IH]; cbn [filter map fst]; [reflexivity|].
  destruct (p k0); cbn [map fst]; now rewrite IH.
Qed.

Lemma sp_get_in_keys key sp : In key (map fst sp) -> sp_get key sp <> None.
Proof.
  induction sp as [|[k0 v0] r IH]; cbn [sp_get map fst In]; intros H; [destruct H|].
  destruct (skey_eqb_spec key k0) as [E|E]; [discriminate|].
  destruct H as [H|H]; [congruence|now apply IH].
Qed.

Lemma keys_kdel (sel : skey -> bool) (key : skey) (L : list skey) :
  (forall k2, In k2 L -> sel k2 = true -> sel key = true -> ikey k2 = ikey key -> k2 = key) ->
  map ikey (filter sel (kdel key L)) =
  if sel key then del_str (ikey key) (map ikey (filter sel L)) else map ikey (filter sel L).
Proof.
  induction L as [|x r IH]; intros Hinj; cbn [kdel filter map].
  - destruct (sel key); reflexivity.
  - assert (IH' := IH (fun k2 Hin => Hinj k2 (or_intror Hin))). clear IH.
    destruct (skey_eqb_spec key x) as [E|E].
    + subst x. destruct (sel key) eqn:Es; [|reflexivity].
      cbn [map del_str]. now rewrite str_eqb_refl.
    + cbn [filter]. destruct (sel x) eqn:Ex; [|exact IH'].
      cbn [map]. rewrite IH'. destruct (sel key) eqn:Es; [|reflexivity].
      cbn [del_str]. destruct (str_eqb_spec (ikey key) (ikey x)) as [E1|E1]; [|reflexivity].
      exfalso. apply E. symmetry. apply Hinj; [now left|exact Ex|reflexivity|now symmetry].
Qed.

Lemma index_key_inj g f g' f' :
  kind_of g f = kind_of g' f' -> no_slash g = true -> no_slash g' = true ->
  index_key g f = index_key g' f' -> g = g' /\ f = f'.
Proof.
  intros Hk Hg Hg' He. destruct g as [|a g0].
  - assert (E : g' = []).
    { apply (kind_of_nonshared_inv g' f'). rewrite <- Hk. apply kind_of_nil_ns. }
    subst g'. cbn in He. now split.
  - assert (Hne : a :: g0 <> []) by discriminate.
    assert (Hne' : g' <> []).
    { apply (kind_of_shared_inv g' f'). rewrite <- Hk. now apply kind_of_shared. }
    unfold index_key in He.
    apply is_empty_false in Hne, Hne'. rewrite Hne, Hne' in He.
    pose proof (cut_slash_app (a :: g0) f Hg) as H1.
    pose proof (cut_slash_app g' f' Hg') as H2.
    rewrite He in H1. rewrite H1 in H2. injection H2 as -> ->. now split.
Qed.

Definition good (e : skey * sub) : Prop :=
  let '(c, g, f) := fst e in s_share (snd e) = g /\ s_filter (snd e) = f /\ no_slash g = true.

Definition spec_ok (sp : spec) : Prop :=
  NoDup (map fst sp) /\ forall e, In e sp -> good e.

Lemma spec_ok_key c g f s sp : spec_ok sp -> In (c, g, f, s) sp -> no_slash g = true.
Proof. intros [_ H] Hin. apply H in Hin. cbn in Hin. tauto. Qed.

Lemma in_keys_good c g f sp : spec_ok sp -> In (c, g, f) (map fst sp) -> no_slash g = true.
Proof.
  intros Hok Hin. apply in_map_iff in Hin as ([k0 s] & E & Hin). cbn [fst] in E. subst k0.
  now apply (spec_ok_key c g f s sp).
Qed.

(* an index key of client c / kind k is present iff the spec has the entry *)
Lemma mem_keys_of k c g f sp :
  spec_ok sp -> kind_of g f = k -> no_slash g = true ->
  mem_str (index_key g f) (keys_of k c sp) = match sp_get (c, g, f) sp with Some _ => true | None => false end.
Proof.
  intros Hok Hk Hg.
  destruct (sp_get (c, g, f) sp) as [s|] eqn:Eg.
  - apply mem_str_In. apply sp_get_In in Eg. unfold keys_of.
    apply in_map_iff. exists (c, g, f). split; [reflexivity|].
    apply filter_In. split.
    + apply in_map_iff. exists (c, g, f, s). now split.
    + cbn [selk]. rewrite str_eqb_refl, Hk, kind_eqb_refl. reflexivity.
  - destruct (mem_str (index_key g f) (keys_of k c sp)) eqn:Em; [|reflexivity].
    exfalso. apply mem_str_In in Em. unfold keys_of in Em.
    apply in_map_iff in Em as ([[c2 g2] f2] & Ei & Hin).
    apply filter_In in Hin as [Hin Hsel]. cbn [selk] in Hsel.
    apply andb_true_iff in Hsel as [Hc Hk2].
    apply str_eqb_eq in Hc. subst c2.
    destruct (kind_eqb_spec (kind_of g2 f2) k) as [Hk2'|]; [|discriminate].
    cbn [ikey] in Ei.
    destruct (index_key_inj g2 f2 g f) as [-> ->]; [congruence|now apply (in_keys_good c g2 f2 sp)|exact Hg|exact Ei|].
    apply sp_get_in_keys in Hin. contradiction.
Qed.

Lemma keys_of_set k c' c s sp :
  keys_of k c' (sp_set (c, s_share s, s_filter s) s sp) =
  if str_eqb c' c && kind_eqb (kind_of (s_share s) (s_filter s)) k then
    match sp_get (c, s_share s, s_filter s) sp with
    | Some _ => keys_of k c' sp
    | None => keys_of k c' sp ++ [index_key (s_share s) (s_filter s)]
    end
  else keys_of k c' sp.
Proof.
  unfold keys_of. rewrite map_fst_sp_set.
  destruct (sp_get (c, s_share s, s_filter s) sp).
  - destruct (str_eqb c' c && kind_eqb (kind_of (s_share s) (s_filter s)) k); reflexivity.
  - rewrite filter_app, map_app. cbn [filter selk].
    destruct (str_eqb c' c && kind_eqb (kind_of (s_share s) (s_filter s)) k).
    + reflexivity.
    + cbn [map]. now rewrite app_nil_r.
Qed.

Lemma keys_of_del k c' c g f sp :
  spec_ok sp -> no_slash g = true ->
  keys_of k c' (sp_del (c, g, f) sp) =
  if str_eqb c' c && kind_eqb (kind_of g f) k then del_str (index_key g f) (keys_of k c' sp)
  else keys_of k c' sp.
Proof.
  intros Hok Hg. unfold keys_of. rewrite map_fst_sp_del.
  rewrite keys_kdel; [reflexivity|].
  intros [[c2 g2] f2] Hin Hs2 Hs Hi. cbn [selk] in Hs2, Hs. cbn [ikey] in Hi.
  apply andb_true_iff in Hs2 as [Hc2 Hk2]. apply andb_true_iff in Hs as [Hc Hk].
  apply str_eqb_eq in Hc2, Hc. subst c2 c.
  destruct (kind_eqb_spec (kind_of g2 f2) k) as [Hk2'|]; [|discriminate].
  destruct (kind_eqb_spec (kind_of g f) k) as [Hk'|]; [|discriminate].
  destruct (index_key_inj g2 f2 g f) as [-> ->]; [congruence|now apply (in_keys_good c' g2 f2 sp)|exact Hg|exact Hi|].
  reflexivity.
Qed.

(* ================================================================== *)
(* 8. the invariant of the whole store                                 *)
(* ================================================================== *)

Record Inv (d : db) (sp : spec) : Prop := {
  inv_ok : spec_ok sp;
  inv_trie : forall k, TInv k (fun key => sp_get key sp) (trie_of k d);
  inv_idx : forall k c, keys_at c (index_of k d) = keys_of k c sp;
  inv_idx_nd : forall k, NoDup (map fst (index_of k d));
  inv_cs : forall k c, aget c (index_of k d) <> None -> aget c (cstats d) <> None;
  inv_np : panicked d = false }.

Lemma Inv_init : Inv db_init [].
Proof.
  constructor.
  - split; [constructor|intros e []].
  - intros k. destruct k; apply TInv_empty.
  - intros k c. destruct k; reflexivity.
  - intros k. destruct k; constructor.
  - intros k c H. destruct k; now elim H.
  - reflexivity.
Qed.

Definition stat_or_zero (c : cid) (cs : list (cid * stats)) : stats :=
  match aget c cs with Some x => x | None => zero_stats end.

Lemma sub_cs0_get c idx cs :
  (aget c idx <> None -> aget c cs <> None) ->
  forall c', aget c' (sub_cs0 c idx cs) = if str_eqb c' c then Some (stat_or_zero c cs) else aget c' cs.
Proof.
  intros Hcs c'. unfold sub_cs0, stat_or_zero.
  destruct (str_eqb_spec c' c) as [E|E].
  - subst c'. destruct (aget c idx) as [ks|].
    + destruct (aget c cs) as [x|] eqn:Ex; [first [reflexivity|exact Ex]|]. exfalso. now apply Hcs.
    + destruct (aget c cs) as [x|] eqn:Ex; [first [reflexivity|exact Ex]|]. apply aget_aset_same.
  - destruct (aget c idx) as [ks|]; [reflexivity|].
    destruct (aget c cs) as [x|] eqn:Ex; [reflexivity|]. now apply aget_aset_other.
Qed.

(* the client statistics after a subscribe *)
Lemma sub_cs_get c idx cs (ex : bool) :
  (aget c idx <> None -> aget c cs <> None) ->
  let cs0 := sub_cs0 c idx cs in
  forall c', aget c' (if ex then cs0 else match aget c cs0 with Some x => aset c (bump x) cs0 | None => cs0 end) =
             if str_eqb c' c then Some (if ex then stat_or_zero c cs else bump (stat_or_zero c cs))
             else aget c' cs.
Proof.
  intros Hcs cs0 c'. pose proof (sub_cs0_get c idx cs Hcs) as H0. fold cs0 in H0.
  destruct ex; [apply H0|].
  rewrite (H0 c), str_eqb_refl. rewrite aget_aset, H0.
  destruct (str_eqb c' c); reflexivity.
Qed.

Lemma kind_eqb_sym a b : kind_eqb a b = kind_eqb b a.
Proof. destruct a, b; reflexivity. Qed.

Lemma Inv_sub d sp c s :
  Inv d sp -> no_slash (s_share s) = true ->
  Inv (fst (db_subscribe c s d)) (sp_set (c, s_share s, s_filter s) s sp).
Proof.
  intros [Hok Htr Hidx Hind Hcs Hnp] Hns.
  rewrite db_subscribe_nf. cbn [fst].
  set (k := kind_of (s_share s) (s_filter s)).
  set (idx := index_of k d).
  set (key := index_key (s_share s) (s_filter s)).
  set (ex := mem_str key (keys_at c idx)).
  assert (Hcsk : aget c idx <> None -> aget c (cstats d) <> None) by apply Hcs.
  constructor.
  - destruct Hok as [Hnd Hgood]. split; [now apply NoDup_sp_set|].
    intros e Hin. apply in_sp_set in Hin as [->|Hin]; [|now apply Hgood].
    cbn. auto.
  - intros k'. rewrite trie_of_upd. destruct (kind_eqb_spec k' k) as [E|E].
    + subst k'. apply (TInv_ext k (get_set (c, s_share s, s_filter s) s (fun key0 => sp_get key0 sp))).
      * intros c' g f _. unfold get_set. now rewrite sp_get_set.
      * now apply TInv_sub.
    + apply (TInv_ext k' (fun key0 => sp_get key0 sp)); [|apply Htr].
      intros c' g f Hk. rewrite sp_get_set.
      destruct (skey_eqb_spec (c', g, f) (c, s_share s, s_filter s)) as [E1|E1]; [|reflexivity].
      injection E1 as _ -> ->. now elim E.
  - intros k' c'. rewrite index_of_upd, keys_of_set. fold k.
    destruct (kind_eqb_spec k' k) as [E|E].
    + subst k'. rewrite kind_eqb_refl, andb_true_r. unfold keys_at at 1. rewrite aget_aset.
      destruct (str_eqb_spec c' c) as [E1|E1]; [|apply Hidx].
      subst c'. unfold ex, key, idx. rewrite Hidx.
      rewrite (mem_keys_of k c (s_share s) (s_filter s) sp Hok eq_refl Hns).
      destruct (sp_get (c, s_share s, s_filter s) sp); reflexivity.
    + rewrite kind_eqb_sym. destruct (kind_eqb_spec k' k) as [E'|_]; [contradiction|].
      rewrite andb_false_r. apply Hidx.
  - intros k'. rewrite index_of_upd. destruct (kind_eqb_spec k' k) as [E|E]; [|apply Hind].
    apply NoDup_aset. apply Hind.
  - intros k' c'. rewrite index_of_upd, cstats_upd. intros Hne.
    rewrite (sub_cs_get c idx (cstats d) ex Hcsk).
    destruct (str_eqb_spec c' c) as [E1|E1]; [discriminate|].
    apply (Hcs k'). destruct (kind_eqb_spec k' k) as [E|E]; [|exact Hne].
    subst k'. now rewrite aget_aset_other in Hne.
  - rewrite panicked_upd. destruct ex; [exact Hnp|].
    rewrite (sub_cs0_get c idx (cstats d) Hcsk c), str_eqb_refl. exact Hnp.
Qed.

(* ---- unsubscribe ---- *)
Lemma cut_slash_fst_no_slash (s : str) : no_slash (fst (cut_slash s)) = true.
Proof.
  induction s as [|c s IH]; [reflexivity|]. cbn [cut_slash].
  destruct (N.eqb c SLASH) eqn:E; [reflexivity|].
  destruct (cut_slash s) as [a b]. cbn [fst] in *. apply no_slash_cons. now split.
Qed.

Lemma split_topic_no_slash (t : str) : no_slash (fst (split_topic t)) = true.
Proof.
  unfold split_topic. destruct (has_prefix SHARE_PREFIX t); [|reflexivity].
  pose proof (cut_slash_fst_no_slash (skipn 7 t)) as H.
  destruct (cut_slash (skipn 7 t)) as [g [f|]]; [exact H|reflexivity].
Qed.

Lemma spec_step_unsub sp c t :
  spec_step sp (OUnsub c t) = sp_del (c, fst (split_topic t), snd (split_topic t)) sp.
Proof. cbn [spec_step]. now destruct (split_topic t). Qed.

Lemma del_str_notin k l : mem_str k l = false -> del_str k l = l.
Proof.
  induction l as [|x r IH]; cbn [mem_str del_str]; intros H; [reflexivity|].
  apply orb_false_iff in H as [H1 H2]. rewrite H1. now rewrite IH.
Qed.

Lemma mem_keys_at_some k c idx : mem_str k (keys_at c idx) = true -> aget c idx <> None.
Proof. unfold keys_at. destruct (aget c idx); [discriminate|]. cbn. discriminate. Qed.

Lemma aget_upd_some {V} (f : V -> V) c c' (cs : list (str * V)) :
  aget c' cs <> None ->
  aget c' (match aget c cs with Some x => aset c (f x) cs | None => cs end) <> None.
Proof.
  intros H. destruct (aget c cs) as [x|]; [|exact H].
  rewrite aget_aset. destruct (str_eqb c' c); [discriminate|exact H].
Qed.

Lemma Inv_unsub d sp c topic :
  Inv d sp -> Inv (db_unsubscribe c topic d) (spec_step sp (OUnsub c topic)).
Proof.
  intros [Hok Htr Hidx Hind Hcs Hnp].
  rewrite db_unsubscribe_nf, spec_step_unsub.
  pose proof (split_topic_no_slash topic) as Hns.
  set (g := fst (split_topic topic)) in *. set (f := snd (split_topic topic)).
  set (k := kind_of g f). set (idx := index_of k d).
  set (key := index_key g f). set (ex := mem_str key (keys_at c idx)).
  assert (Hex : ex = true -> aget c (cstats d) <> None).
  { intros E. apply (Hcs k). now apply (mem_keys_at_some key). }
  constructor.
  - destruct Hok as [Hnd Hgood]. split; [now apply NoDup_sp_del|].
    intros e Hin. apply Hgood. now apply in_sp_del in Hin.
  - intros k'. rewrite trie_of_upd. destruct (kind_eqb_spec k' k) as [E|E].
    + subst k'. apply (TInv_ext k (get_del (c, g, f) (fun key0 => sp_get key0 sp))).
      * intros c' g' f' _. unfold get_del. rewrite sp_get_del by apply Hok. reflexivity.
      * now apply TInv_unsub.
    + apply (TInv_ext k' (fun key0 => sp_get key0 sp)); [|apply Htr].
      intros c' g' f' Hk. rewrite sp_get_del_other; [reflexivity|].
      intros E1. injection E1 as _ -> ->. now elim E.
  - intros k' c'. rewrite index_of_upd, (keys_of_del k' c' c g f sp Hok Hns). fold k.
    destruct (kind_eqb_spec k' k) as [E|E].
    + subst k'. rewrite kind_eqb_refl, andb_true_r.
      destruct ex eqn:Eex.
      * unfold keys_at at 1. rewrite aget_aset.
        destruct (str_eqb_spec c' c) as [E1|E1]; [|apply Hidx].
        subst c'. unfold key, idx. now rewrite Hidx.
      * destruct (str_eqb_spec c' c) as [E1|E1]; [|apply Hidx].
        subst c'. unfold ex, idx in Eex. rewrite Hidx in Eex.
        fold key. rewrite (del_str_notin _ _ Eex). apply Hidx.
    + rewrite kind_eqb_sym. destruct (kind_eqb_spec k' k) as [E'|_]; [contradiction|].
      rewrite andb_false_r. apply Hidx.
  - intros k'. rewrite index_of_upd. destruct (kind_eqb_spec k' k) as [E|E]; [|apply Hind].
    destruct ex; [apply NoDup_aset|]; apply Hind.
  - intros k' c'. rewrite index_of_upd, cstats_upd. intros Hne.
    assert (Hold : aget c' (cstats d) <> None).
    { destruct (kind_eqb_spec k' k) as [E|E]; [|now apply (Hcs k')].
      subst k'. destruct ex eqn:Eex; [|now apply (Hcs k)].
      rewrite aget_aset in Hne. destruct (str_eqb_spec c' c) as [E1|E1]; [|now apply (Hcs k)].
      subst c'. now apply Hex. }
    destruct ex; [|exact Hold]. now apply aget_upd_some.
  - rewrite panicked_upd. destruct ex; [|exact Hnp].
    destruct (aget c (cstats d)); [exact Hnp|]. now elim Hex.
Qed.

(* ---- unsubscribe all, one kind at a time ---- *)
Definition sp_del_kind (k : kind) (c : cid) (sp : spec) : spec :=
  filter (fun e => negb (selk k c (fst e))) sp.

Definition get_del_list (L : list skey) (get : getter) : getter :=
  fun key' => if existsb (skey_eqb key') L then None else get key'.

Lemma unsub_entry_key k c g f T :
  kind_of g f = k -> no_slash g = true ->
  unsub_entry (is_shared_kind k) c (index_key g f) T = tunsubscribe (split f) c g T.
Proof.
  intros Hk Hg. destruct g as [|a g0].
  - rewrite kind_of_plain in Hk. cbn [index_key is_empty].
    destruct (starts_dollar f); subst k; reflexivity.
  - assert (Hne : a :: g0 <> []) by discriminate.
    rewrite (kind_of_shared _ f Hne) in Hk. subst k. cbn [is_shared_kind unsub_entry].
    unfold index_key. cbn [is_empty]. now rewrite (cut_slash_app (a :: g0) f Hg).
Qed.

Lemma TInv_fold k c : forall (L : list skey) T get,
  (forall c' g f, In (c', g, f) L -> kind_of g f = k /\ no_slash g = true /\ c' = c) ->
  TInv k get T ->
  TInv k (get_del_list L get)
       (fold_left (fun t key => unsub_entry (is_shared_kind k) c key t) (map ikey L) T).
Proof.
  induction L as [|[[c0 g] f] L IH]; intros T get HL HT.
  - cbn [map fold_left]. apply (TInv_ext k get); [reflexivity|exact HT].
  - cbn [map fold_left ikey].
    destruct (HL c0 g f (or_introl eq_refl)) as (Hk & Hg & ->).
    rewrite (unsub_entry_key k c g f T Hk Hg).
    apply (TInv_ext k (get_del_list L (get_del (c, g, f) get))).
    + intros c' g' f' _. unfold get_del_list, get_del. cbn [existsb].
      destruct (skey_eqb (c', g', f') (c, g, f)); cbn [orb];
        destruct (existsb (skey_eqb (c', g', f')) L); reflexivity.
    + apply IH; [|now apply TInv_unsub].
      intros c' g' f' Hin. apply HL. now right.
Qed.

Lemma existsb_skey key L : existsb (skey_eqb key) L = true <-> In key L.
Proof.
  rewrite existsb_exists. split.
  - intros (x & Hin & E). destruct (skey_eqb_spec key x); [now subst|discriminate].
  - intros Hin. exists key. split; [exact Hin|apply skey_eqb_refl].
Qed.

Lemma get_del_list_kind k c sp key' :
  get_del_list (filter (selk k c) (map fst sp)) (fun key0 => sp_get key0 sp) key' =
  sp_get key' (sp_del_kind k c sp).
Proof.
  unfold get_del_list, sp_del_kind.
  rewrite (sp_get_filter (fun key => negb (selk k c key))).
  destruct (selk k c key') eqn:Es; cbn [negb].
  - destruct (existsb (skey_eqb key') (filter (selk k c) (map fst sp))) eqn:Ee; [reflexivity|].
    apply sp_get_notin. intros Hin.
    assert (H : existsb (skey_eqb key') (filter (selk k c) (map fst sp)) = true).
    { apply existsb_skey. apply filter_In. now split. }
    congruence.
  - destruct (existsb (skey_eqb key') (filter (selk k c) (map fst sp))) eqn:Ee; [|reflexivity].
    apply existsb_skey in Ee. apply filter_In in Ee as [_ Ee]. congruence.
Qed.

Lemma filter_filter_imp {A} (p q : A -> bool) (l : list A) :
  (forall x, p x = true -> q x = true) -> filter p (filter q l) = filter p l.
Proof.
  intros H. induction l as [|x r IH]; [reflexivity|]. cbn [filter].
  destruct (q x) eqn:Eq; cbn [filter].
  - now rewrite IH.
  - destruct (p x) eqn:Ep; [|exact IH]. apply H in Ep. congruence.
Qed.

Lemma filter_filter_neg {A} (p : A -> bool) (l : list A) :
  filter p (filter (fun x => negb (p x)) l) = [].
Proof.
  induction l as [|x r IH]; [reflexivity|]. cbn [filter].
  destruct (p x) eqn:Ep; cbn [negb filter]; [exact IH|]. now rewrite Ep.
Qed.

Lemma keys_of_del_kind k' c' k c sp :
  keys_of k' c' (sp_del_kind k c sp) =
  if kind_eqb k' k && str_eqb c' c then [] else keys_of k' c' sp.
Proof.
  unfold keys_of, sp_del_kind.
  rewrite (map_fst_filter (fun key => negb (selk k c key))).
  destruct (kind_eqb_spec k' k) as [Ek|Ek]; cbn [andb].
  - subst k'. destruct (str_eqb_spec c' c) as [Ec|Ec].
    + subst c'. now rewrite filter_filter_neg.
    + rewrite filter_filter_imp; [reflexivity|].
      intros [[c2 g2] f2] Hs. cbn [selk] in *. apply andb_true_iff in Hs as [Hs _].
      apply str_eqb_eq in Hs. subst c2.
      destruct (str_eqb_spec c c') as [E|E]; [congruence|reflexivity].
  - rewrite filter_filter_imp; [reflexivity|].
    intros [[c2 g2] f2] Hs. cbn [selk] in *. apply andb_true_iff in Hs as [_ Hs].
    destruct (kind_eqb_spec (kind_of g2 f2) k') as [E|]; [|discriminate].
    destruct (kind_eqb_spec (kind_of g2 f2) k) as [E'|E']; [congruence|].
    now rewrite andb_false_r.
Qed.

Lemma Inv_unsub_all_kind d sp k c :
  Inv d sp -> Inv (db_unsub_all_kind k c d) (sp_del_kind k c sp).
Proof.
  intros [Hok Htr Hidx Hind Hcs Hnp].
  rewrite db_unsub_all_kind_nf.
  constructor.
  - destruct Hok as [Hnd Hgood]. split.
    + unfold sp_del_kind. now apply NoDup_map_filter.
    + intros e Hin. apply filter_In in Hin as [Hin _]. now apply Hgood.
  - intros k'. rewrite trie_of_upd. destruct (kind_eqb_spec k' k) as [E|E].
    + subst k'. rewrite Hidx. unfold keys_of.
      apply (TInv_ext k (get_del_list (filter (selk k c) (map fst sp)) (fun key0 => sp_get key0 sp))).
      * intros c' g' f' _. apply get_del_list_kind.
      * apply TInv_fold; [|apply Htr].
        intros c' g f Hin. apply filter_In in Hin as [Hin Hs]. cbn [selk] in Hs.
        apply andb_true_iff in Hs as [Hc Hk]. apply str_eqb_eq in Hc.
        destruct (kind_eqb_spec (kind_of g f) k) as [Hk'|]; [|discriminate].
        split; [exact Hk'|]. split; [now apply (in_keys_good c' g f sp)|now symmetry].
    + apply (TInv_ext k' (fun key0 => sp_get key0 sp)); [|apply Htr].
      intros c' g' f' Hk. unfold sp_del_kind.
      rewrite (sp_get_filter (fun key => negb (selk k c key))). cbn [selk].
      rewrite Hk. destruct (kind_eqb_spec k' k) as [E'|_]; [contradiction|].
      now rewrite andb_false_r.
  - intros k' c'. rewrite index_of_upd, keys_of_del_kind.
    destruct (kind_eqb_spec k' k) as [E|E]; cbn [andb]; [|apply Hidx].
    subst k'. unfold keys_at at 1. rewrite aget_adel by apply Hind.
    destruct (str_eqb c' c); [reflexivity|apply Hidx].
  - intros k'. rewrite index_of_upd. destruct (kind_eqb_spec k' k) as [E|E]; [|apply Hind].
    apply NoDup_adel. apply Hind.
  - intros k' c'. rewrite index_of_upd, cstats_upd. intros Hne.
    apply aget_upd_some. apply (Hcs k').
    destruct (kind_eqb_spec k' k) as [E|E]; [|exact Hne].
    subst k'. rewrite aget_adel in Hne by apply Hind.
    destruct (str_eqb c' c); [now elim Hne|exact Hne].
  - rewrite panicked_upd. exact Hnp.
Qed.

Lemma filter_filter {A} (p q : A -> bool) (l : list A) :
  filter q (filter p l) = filter (fun x => p x && q x) l.
Proof.
  induction l as [|x r IH]; [reflexivity|]. cbn [filter].
  destruct (p x); cbn [andb filter]; [|exact IH]. destruct (q x); now rewrite IH.
Qed.

Lemma sp_del_client_kinds c sp :
  sp_del_client c sp = sp_del_kind KShared c (sp_del_kind KSys c (sp_del_kind KUser c sp)).
Proof.
  unfold sp_del_client, sp_del_kind. rewrite !filter_filter.
  apply filter_ext. intros [[[c' g] f] s]. cbn [fst selk].
  destruct (str_eqb c c'); cbn [andb negb]; [|reflexivity].
  destruct (kind_of g f); reflexivity.
Qed.

Lemma Inv_step d sp o : Inv d sp -> wf_op o = true -> Inv (db_step d o) (spec_step sp o).
Proof.
  intros HI Hwf. destruct o as [c s|c t|c].
  - cbn [db_step spec_step]. apply Inv_sub; [exact HI|].
    cbn [wf_op] in Hwf. now apply andb_true_iff in Hwf as [_ Hwf].
  - cbn [db_step]. now apply Inv_unsub.
  - cbn [db_step spec_step]. rewrite sp_del_client_kinds. unfold db_unsubscribe_all.
    now repeat apply Inv_unsub_all_kind.
Qed.

Lemma Inv_fold ops : forall d sp, Inv d sp -> wf_ops ops = true ->
  Inv (fold_left db_step ops d) (fold_left spec_step ops sp).
Proof.
  induction ops as [|o r IH]; intros d sp HI Hwf; [exact HI|].
  cbn [wf_ops forallb] in Hwf. apply andb_true_iff in Hwf as [Ho Hr].
  cbn [fold_left]. apply IH; [now apply Inv_step|exact Hr].
Qed.

Lemma Inv_run ops : wf_ops ops = true -> Inv (db_run ops) (spec_run ops).
Proof. intros H. apply Inv_fold; [apply Inv_init|exact H]. Qed.

Lemma never_panics ops : wf_ops ops = true -> panicked (db_run ops) = false.
Proof. intros H. apply (inv_np _ _ (Inv_run ops H)). Qed.

(* ================================================================== *)
(* 9. entries found at a node, and by topic matching                   *)
(* ================================================================== *)

Lemma sp_get_good c g f s sp :
  spec_ok sp -> sp_get (c, g, f) sp = Some s -> s_share s = g /\ s_filter s = f.
Proof.
  intros [_ Hgood] H. apply sp_get_In in H. apply Hgood in H. cbn in H. tauto.
Qed.

Lemma NoDup_flat_map {A B} (F : A -> list B) (L : list A) :
  NoDup L -> (forall a, In a L -> NoDup (F a)) ->
  (forall a b y, In a L -> In b L -> In y (F a) -> In y (F b) -> a = b) ->
  NoDup (flat_map F L).
Proof.
  induction L as [|a r IH]; intros Hnd Hone Hdis; [constructor|].
  inversion Hnd as [|x xs Hx Hnd']; subst. cbn [flat_map].
  apply NoDup_app_disjoint.
  - apply Hone. now left.
  - apply IH; [exact Hnd'| |].
    + intros b Hb. apply Hone. now right.
    + intros b1 b2 y H1 H2. apply Hdis; now right.
  - intros y Hy Hin. apply in_flat_map in Hin as (b & Hb & Hyb).
    assert (E : a = b) by (apply (Hdis a b y); [now left|now right|exact Hy|exact Hyb]).
    subst b. contradiction.
Qed.

Section Entries.
  Variables (k : kind) (sp : spec).
  Hypothesis Hok : spec_ok sp.
  Let get : getter := fun key => sp_get key sp.

  Lemma obs_entry p x g c s :
    NInv k get p x -> In (c, s) (obs g x) ->
    s_share s = g /\ p = split (s_filter s) /\ kind_of (s_share s) (s_filter s) = k /\
    sp_get (c, s_share s, s_filter s) sp = Some s.
  Proof.
    intros HN Hin.
    assert (Hne : obs g x <> []) by (intros E; rewrite E in Hin; destruct Hin).
    destruct (ni_name _ _ _ _ HN g Hne) as (_ & f & Hp & Hk).
    pose proof (In_aget c s (obs g x) (ni_nd _ _ _ _ HN g) Hin) as Hget.
    rewrite (ni_get _ _ _ _ HN g f c Hp Hk) in Hget. unfold get in Hget.
    destruct (sp_get_good c g f s sp Hok Hget) as [E1 E2]. subst g f. tauto.
  Qed.

  Lemma in_shared_obs p x g l :
    NInv k get p x -> In (g, l) (n_shared x) -> l <> [] -> g <> [] /\ obs g x = l.
  Proof.
    intros HN Hin Hl.
    pose proof (In_aget g l (n_shared x) (ni_shnd _ _ _ _ HN) Hin) as Hget.
    assert (Hgrp : grp g x = l) by (unfold grp; now rewrite Hget).
    assert (Hg : g <> []).
    { intros ->. pose proof (ni_pure _ _ _ _ HN) as Hp. destruct k.
      - rewrite Hp in Hin. destruct Hin.
      - rewrite Hp in Hin. destruct Hin.
      - destruct Hp as [_ Hp]. congruence. }
    split; [exact Hg|]. now rewrite obs_ne.
  Qed.

  Lemma entry_sound p x c s :
    NInv k get p x -> In (c, s) (set_rs x) ->
    p = split (s_filter s) /\ kind_of (s_share s) (s_filter s) = k /\
    sp_get (c, s_share s, s_filter s) sp = Some s.
  Proof.
    intros HN Hin. unfold set_rs in Hin. apply in_app_or in Hin as [Hin|Hin].
    - rewrite <- obs_nil in Hin. now destruct (obs_entry p x [] c s HN Hin) as (_ & H).
    - apply in_flat_map in Hin as ([g l] & Hgl & Hin). cbn [snd] in Hin.
      assert (Hl : l <> []) by (intros E; rewrite E in Hin; destruct Hin).
      destruct (in_shared_obs p x g l HN Hgl Hl) as [_ Ho]. rewrite <- Ho in Hin.
      now destruct (obs_entry p x g c s HN Hin) as (_ & H).
  Qed.

  Lemma obs_in_set_rs g x e : In e (obs g x) -> In e (set_rs x).
  Proof.
    unfold obs, set_rs, grp. intros Hin. apply in_or_app.
    destruct (is_empty g); [now left|right].
    destruct (aget g (n_shared x)) as [l|] eqn:El; [|destruct Hin].
    apply aget_In in El. apply in_flat_map. exists (g, l). now split.
  Qed.

  Lemma entry_complete x c g f s :
    NInv k get (split f) x -> kind_of g f = k -> sp_get (c, g, f) sp = Some s ->
    In (c, s) (obs g x).
  Proof.
    intros HN Hk Hget. apply aget_In.
    now rewrite (ni_get _ _ _ _ HN g f c eq_refl Hk).
  Qed.

  Lemma set_rs_nodup p x : NInv k get p x -> NoDup (set_rs x).
  Proof.
    intros HN. unfold set_rs. apply NoDup_app_disjoint.
    - apply NoDup_keys_NoDup. exact (ni_nd _ _ _ _ HN []).
    - apply NoDup_flat_map.
      + apply NoDup_keys_NoDup. exact (ni_shnd _ _ _ _ HN).
      + intros [g l] Hgl. cbn [snd]. destruct l as [|e l']; [constructor|].
        destruct (in_shared_obs p x g (e :: l') HN Hgl) as [_ Ho]; [discriminate|].
        rewrite <- Ho. apply NoDup_keys_NoDup. exact (ni_nd _ _ _ _ HN g).
      + intros [g1 l1] [g2 l2] [c s] H1 H2 Hy1 Hy2. cbn [snd] in Hy1, Hy2.
        assert (Hl1 : l1 <> []) by (intros E; rewrite E in Hy1; destruct Hy1).
        assert (Hl2 : l2 <> []) by (intros E; rewrite E in Hy2; destruct Hy2).
        destruct (in_shared_obs p x g1 l1 HN H1 Hl1) as [_ Ho1].
        destruct (in_shared_obs p x g2 l2 HN H2 Hl2) as [_ Ho2].
        rewrite <- Ho1 in Hy1. rewrite <- Ho2 in Hy2.
        destruct (obs_entry p x g1 c s HN Hy1) as (E1 & _).
        destruct (obs_entry p x g2 c s HN Hy2) as (E2 & _).
        assert (E : g1 = g2) by congruence. subst g2. congruence.
    - intros [c s] Hy1 Hy2.
      rewrite <- obs_nil in Hy1. destruct (obs_entry p x [] c s HN Hy1) as (E1 & _).
      apply in_flat_map in Hy2 as ([g l] & Hgl & Hin). cbn [snd] in Hin.
      assert (Hl : l <> []) by (intros E; rewrite E in Hin; destruct Hin).
      destruct (in_shared_obs p x g l HN Hgl Hl) as [Hg Ho]. rewrite <- Ho in Hin.
      destruct (obs_entry p x g c s HN Hin) as (E2 & _). congruence.
  Qed.

  Lemma tmatch_exact T ts :
    TInv k get T -> ts <> [] -> no_wild_levels ts = true ->
    NoDup (tmatch ts T) /\
    forall c s, In (c, s) (tmatch ts T) <->
      (kind_of (s_share s) (s_filter s) = k /\ sp_get (c, s_share s, s_filter s) sp = Some s /\
       lm ts (split (s_filter s)) = true).
  Proof.
    intros [Hwf HN] Hne Hnw. rewrite tmatch_cands. split.
    - apply NoDup_flat_map.
      + now apply cands_nodup.
      + intros p _. apply (set_rs_nodup p). apply HN.
      + intros p1 p2 [c s] _ _ H1 H2.
        destruct (entry_sound p1 _ c s (HN p1) H1) as (E1 & _).
        destruct (entry_sound p2 _ c s (HN p2) H2) as (E2 & _). congruence.
    - intros c s. rewrite in_flat_map. split.
      + intros (p & Hp & Hin). destruct (entry_sound p _ c s (HN p) Hin) as (E1 & Hk & Hget).
        split; [exact Hk|]. split; [exact Hget|]. subst p.
        now apply (cands_lm_nowild ts _ Hne Hnw).
      + intros (Hk & Hget & Hlm). exists (split (s_filter s)). split.
        * now apply cands_complete.
        * apply (obs_in_set_rs (s_share s)).
          apply (entry_complete _ c (s_share s) (s_filter s) s (HN _) Hk Hget).
  Qed.

  Lemma tmatch_lit_exact T t0 rest :
    TInv k get T -> no_wild_levels (t0 :: rest) = true ->
    NoDup (tmatch_lit (t0 :: rest) T) /\
    forall c s, In (c, s) (tmatch_lit (t0 :: rest) T) <->
      (kind_of (s_share s) (s_filter s) = k /\ sp_get (c, s_share s, s_filter s) sp = Some s /\
       lm (t0 :: rest) (split (s_filter s)) = true /\ exists fr, split (s_filter s) = t0 :: fr).
  Proof.
    intros [Hwf HN] Hnw. rewrite tmatch_lit_cands.
    assert (Hne : t0 :: rest <> []) by discriminate.
    pose proof Hnw as Hnw'. apply no_wild_cons in Hnw' as (Hp & Hh & _).
    split.
    - apply NoDup_flat_map.
      + now apply lit_cands_nodup.
      + intros p _. apply (set_rs_nodup p). apply HN.
      + intros p1 p2 [c s] _ _ H1 H2.
        destruct (entry_sound p1 _ c s (HN p1) H1) as (E1 & _).
        destruct (entry_sound p2 _ c s (HN p2) H2) as (E2 & _). congruence.
    - intros c s. rewrite in_flat_map. split.
      + intros (p & Hp' & Hin). destruct (entry_sound p _ c s (HN p) Hin) as (E1 & Hk & Hget).
        split; [exact Hk|]. split; [exact Hget|]. subst p.
        apply (lit_cands_in t0 rest _ Hp Hh) in Hp' as [Hc Hfr].
        split; [now apply (cands_lm_nowild (t0 :: rest) _ Hne Hnw)|exact Hfr].
      + intros (Hk & Hget & Hlm & Hfr). exists (split (s_filter s)). split.
        * apply (lit_cands_in t0 rest _ Hp Hh). split; [now apply cands_complete|exact Hfr].
        * apply (obs_in_set_rs (s_share s)).
          apply (entry_complete _ c (s_share s) (s_filter s) s (HN _) Hk Hget).
  Qed.

  (* getMatchedTopicFilter on any of the three tries: full MQTT 4.7 matching, '$' rule included *)
  Lemma tmatch_top_exact T t :
    TInv k get T -> no_wild_levels (split t) = true ->
    NoDup (tmatch_top t T) /\
    forall c s, In (c, s) (tmatch_top t T) <->
      (kind_of (s_share s) (s_filter s) = k /\ sp_get (c, s_share s, s_filter s) sp = Some s /\
       topic_match t (s_filter s) = true).
  Proof.
    intros HT Hnw. unfold tmatch_top. destruct (starts_dollar t) eqn:Hd.
    - destruct (split t) as [|t0 rest] eqn:Et; [now apply split_nonempty in Et|].
      destruct (tmatch_lit_exact T t0 rest HT Hnw) as [Hnd Hin]. split; [exact Hnd|].
      intros c s. rewrite Hin, (topic_match_dollar_lit t (s_filter s) t0 rest Hd Et). tauto.
    - destruct (tmatch_exact T (split t) HT (split_nonempty t) Hnw) as [Hnd Hin]. split; [exact Hnd|].
      intros c s. rewrite Hin. unfold topic_match. rewrite Hd. cbn [andb negb]. tauto.
  Qed.
End Entries.

(* the optional client restriction of a query *)
Definition cfilter (c : cid) (l : list (cid * sub)) : list (cid * sub) :=
  if negb (is_empty c) then of_client c l else l.

Lemma in_cfilter c c' s l : In (c', s) (cfilter c l) <-> In (c', s) l /\ want_client c c'.
Proof.
  unfold cfilter, want_client. destruct c as [|a c0]; cbn [is_empty negb].
  - split; [intros H; split; [exact H|now left]|tauto].
  - rewrite in_of_client. split; intros [H1 H2]; split; try exact H1.
    + now right.
    + destruct H2 as [H2|H2]; [discriminate|exact H2].
Qed.

Lemma NoDup_cfilter c l : NoDup l -> NoDup (cfilter c l).
Proof. intros H. unfold cfilter. destruct (negb (is_empty c)); [now apply NoDup_filter|exact H]. Qed.

Lemma cfilter_nil c : cfilter c [] = [].
Proof. unfold cfilter. destruct (negb (is_empty c)); reflexivity. Qed.

Lemma topic_match_kind t f :
  topic_match t f = true -> starts_dollar t = starts_dollar f /\ lm (split t) (split f) = true.
Proof.
  intros H. destruct (starts_dollar t) eqn:Et, (starts_dollar f) eqn:Ef.
  - split; [reflexivity|]. rewrite <- topic_match_same_kind; [exact H|congruence].
  - rewrite (dollar_topic_plain_filter t f Et Ef) in H. discriminate.
  - rewrite (plain_topic_dollar_filter t f Et Ef) in H. discriminate.
  - split; [reflexivity|]. rewrite <- topic_match_same_kind; [exact H|congruence].
Qed.

Definition plain_kind (t : str) : kind := if starts_dollar t then KSys else KUser.

Lemma plain_kind_ns t : plain_kind t <> KShared.
Proof. unfold plain_kind. destruct (starts_dollar t); discriminate. Qed.

Lemma kind_of_plain_kind g f t :
  kind_of g f = plain_kind t <-> g = [] /\ starts_dollar f = starts_dollar t.
Proof.
  split.
  - intros H. assert (E : g = []).
    { apply (kind_of_nonshared_inv g f). rewrite H. apply plain_kind_ns. }
    subst g. split; [reflexivity|]. rewrite kind_of_plain in H. unfold plain_kind in H.
    destruct (starts_dollar f), (starts_dollar t); congruence.
  - intros [-> E]. rewrite kind_of_plain. unfold plain_kind. now rewrite E.
Qed.

Lemma db_iterate_plain_topic o d :
  io_shared o = false -> io_sys o = true -> io_nonshared o = true -> io_topic o <> [] ->
  db_iterate o d =
  IOk (iterate_nonshared o (index_of (plain_kind (io_topic o)) d) (trie_of (plain_kind (io_topic o)) d)).
Proof.
  intros H1 H2 H3 H4. unfold db_iterate, plain_kind. rewrite H1, H2, H3.
  apply is_empty_false in H4. rewrite H4. cbn [negb andb app].
  destruct (starts_dollar (io_topic o)); cbn [negb andb app trie_of index_of]; [reflexivity|].
  now rewrite app_nil_r.
Qed.

(* ================================================================== *)
(* 10. C02: lookups in the user / system tries                         *)
(* ================================================================== *)

Lemma lookup_topic_exact ops t c :
  wf_ops ops = true -> t <> [] -> no_wild_levels (split t) = true ->
  exists l, db_iterate (q_topic t c) (db_run ops) = IOk (some_ents l) /\ NoDup l /\
    forall c' s, In (c', s) l <->
      (sp_get (c', [], s_filter s) (spec_run ops) = Some s /\ topic_match t (s_filter s) = true /\ want_client c c').
Proof.
  intros Hwf Ht Hnw. pose proof (Inv_run ops Hwf) as HI.
  set (d := db_run ops) in *. set (sp := spec_run ops) in *.
  pose proof (inv_ok _ _ HI) as Hok.
  set (k := plain_kind t).
  destruct (tmatch_top_exact k sp Hok (trie_of k d) t (inv_trie _ _ HI k) Hnw) as [Hnd Hin].
  exists (cfilter c (tmatch_top t (trie_of k d))). split; [|split].
  - rewrite db_iterate_plain_topic by (try reflexivity; exact Ht).
    cbn [q_topic io_topic]. fold k. unfold iterate_nonshared, cfilter. cbn [q_topic io_topic io_mt io_client].
    apply is_empty_false in Ht. rewrite Ht. cbn [negb].
    destruct (negb (is_empty c)); reflexivity.
  - now apply NoDup_cfilter.
  - intros c' s. rewrite in_cfilter, Hin. split.
    + intros [(Hk & Hget & Htm) Hw]. apply kind_of_plain_kind in Hk as [Hg Hd].
      rewrite Hg in Hget. tauto.
    + intros (Hget & Htm & Hw). split; [|exact Hw].
      destruct (sp_get_good _ _ _ _ _ Hok Hget) as [Hg _].
      pose proof (topic_match_kind _ _ Htm) as [Hd _].
      split; [apply kind_of_plain_kind; split; [exact Hg|now symmetry]|].
      split; [now rewrite Hg|exact Htm].
Qed.

(* ---- lookups by filter name ---- *)
Lemma tfind_some f T x : tfind f T = Some x -> nd (split f) T = x.
Proof.
  unfold tfind. rewrite nd_tget. destruct (tget (split f) T) as [y|]; [|discriminate].
  destruct (str_eqb (n_tname y) f); [|discriminate]. congruence.
Qed.

Lemma tfind_none k get f T g :
  TInv k get T -> tfind f T = None -> obs g (nd (split f) T) = [].
Proof.
  intros [_ HN] Hf. specialize (HN (split f)). unfold tfind in Hf. rewrite nd_tget in *.
  destruct (tget (split f) T) as [y|]; [|apply obs_empty_node].
  destruct (str_eqb_spec (n_tname y) f) as [E|E]; [discriminate|].
  destruct (obs g y) as [|e r] eqn:Eo; [reflexivity|]. exfalso.
  destruct (ni_name _ _ _ _ HN g) as [Hn _]; [rewrite Eo; discriminate|].
  rewrite join_split in Hn. contradiction.
Qed.

Lemma lookup_name_exact ops f c :
  wf_ops ops = true -> f <> [] ->
  exists l, db_iterate (q_name f c) (db_run ops) = IOk (some_ents l) /\ NoDup l /\
    forall c' s, In (c', s) l <-> (sp_get (c', [], f) (spec_run ops) = Some s /\ want_client c c').
Proof.
  intros Hwf Hf. pose proof (Inv_run ops Hwf) as HI.
  set (d := db_run ops) in *. set (sp := spec_run ops) in *.
  pose proof (inv_ok _ _ HI) as Hok.
  set (k := plain_kind f). set (T := trie_of k d).
  pose proof (inv_trie _ _ HI k) as HT. fold T in HT.
  pose proof (proj2 HT (split f)) as HN.
  assert (Hsh : n_shared (nd (split f) T) = []).
  { pose proof (ni_pure _ _ _ _ HN) as Hp. pose proof (plain_kind_ns f) as Hk. fold k in Hk.
    destruct k; [exact Hp|exact Hp|now elim Hk]. }
  assert (Hkf : kind_of [] f = k) by (apply kind_of_plain_kind; now split).
  exists (cfilter c (n_clients (nd (split f) T))). split; [|split].
  - rewrite db_iterate_plain_topic by (try reflexivity; exact Hf).
    cbn [q_name io_topic]. fold k. fold T. unfold iterate_nonshared, cfilter.
    cbn [q_name io_topic io_mt io_client].
    pose proof Hf as Hf'. apply is_empty_false in Hf'. rewrite Hf'. cbn [negb].
    destruct (tfind f T) as [x|] eqn:Ef.
    + apply tfind_some in Ef. rewrite Ef in *. unfold set_rs. rewrite Hsh. cbn [flat_map].
      rewrite !app_nil_r. destruct (negb (is_empty c)); reflexivity.
    + pose proof (tfind_none k _ f T [] HT Ef) as Ho. rewrite obs_nil in Ho. rewrite Ho.
      destruct (negb (is_empty c)); reflexivity.
  - apply NoDup_cfilter. apply NoDup_keys_NoDup. exact (ni_nd _ _ _ _ HN []).
  - intros c' s. rewrite in_cfilter. rewrite <- obs_nil. split.
    + intros [Hin Hw]. split; [|exact Hw].
      destruct (obs_entry k sp Hok _ _ [] c' s HN Hin) as (Hg & Hp & _ & Hget).
      apply split_inj in Hp. now rewrite Hg, <- Hp in Hget.
    + intros [Hget Hw]. split; [|exact Hw].
      now apply (entry_complete k sp _ c' [] f s HN Hkf).
Qed.

(* ---- lookups by client ---- *)
Definition ents_of (k : kind) (c : cid) (sp : spec) : list (cid * sub) :=
  map (fun e => (c, snd e)) (filter (fun e => selk k c (fst e)) sp).

Lemma in_ents_of k c sp c' s :
  spec_ok sp ->
  (In (c', s) (ents_of k c sp) <->
   c' = c /\ kind_of (s_share s) (s_filter s) = k /\ sp_get (c, s_share s, s_filter s) sp = Some s).
Proof.
  intros Hok. unfold ents_of. rewrite in_map_iff. split.
  - intros ([[[c1 g] f] s0] & E & Hin). cbn [snd] in E. injection E as <- ->.
    apply filter_In in Hin as [Hin Hs]. cbn [fst selk] in Hs.
    apply andb_true_iff in Hs as [Hc Hk]. apply str_eqb_eq in Hc. subst c1.
    destruct (kind_eqb_spec (kind_of g f) k) as [Hk'|]; [|discriminate].
    pose proof (In_sp_get _ _ _ (proj1 Hok) Hin) as Hget.
    destruct (sp_get_good _ _ _ _ _ Hok Hget) as [-> ->]. tauto.
  - intros (-> & Hk & Hget). exists (c, s_share s, s_filter s, s). split; [reflexivity|].
    apply filter_In. split; [now apply sp_get_In|].
    cbn [fst selk]. now rewrite str_eqb_refl, Hk, kind_eqb_refl.
Qed.

Lemma nodup_ents_of k c sp : spec_ok sp -> NoDup (ents_of k c sp).
Proof.
  intros [Hnd Hgood]. unfold ents_of.
  induction sp as [|e r IH]; cbn [filter map]; [constructor|].
  cbn [map] in Hnd. inversion Hnd as [|x xs Hx Hnd']; subst.
  assert (Hgood' : forall e0, In e0 r -> good e0) by (intros e0 H0; apply Hgood; now right).
  destruct (selk k c (fst e)) eqn:Es; [|now apply IH].
  cbn [map]. constructor; [|now apply IH].
  intros Hin. apply in_map_iff in Hin as (e2 & E & Hin2).
  apply filter_In in Hin2 as [Hin2 Hs2].
  apply Hx. apply in_map_iff. exists e2. split; [|exact Hin2].
  pose proof (Hgood e (or_introl eq_refl)) as G1. pose proof (Hgood' e2 Hin2) as G2.
  destruct e as [[[c1 g1] f1] s1], e2 as [[[c2 g2] f2] s2]. cbn [fst snd good selk] in *.
  injection E as ->.
  apply andb_true_iff in Es as [Ec1 _]. apply andb_true_iff in Hs2 as [Ec2 _].
  apply str_eqb_eq in Ec1, Ec2. subst c1 c2.
  destruct G1 as (<- & <- & _). destruct G2 as (<- & <- & _). reflexivity.
Qed.

Lemma client_keys_map k c sp (F : str -> list ient) :
  (forall g f s, In (c, g, f, s) sp -> kind_of g f = k -> F (index_key g f) = [(c, Some s)]) ->
  flat_map F (keys_of k c sp) = some_ents (ents_of k c sp).
Proof.
  unfold keys_of, ents_of. induction sp as [|[[[c1 g] f] s] r IH]; intros HF; [reflexivity|].
  assert (IH' := IH (fun g0 f0 s0 Hin => HF g0 f0 s0 (or_intror Hin))). clear IH.
  cbn [map fst filter]. destruct (selk k c (c1, g, f)) eqn:Es; [|exact IH'].
  cbn [map flat_map ikey snd some_ents]. cbn [selk] in Es.
  apply andb_true_iff in Es as [Hc Hk]. apply str_eqb_eq in Hc. subst c1.
  destruct (kind_eqb_spec (kind_of g f) k) as [Hk'|]; [|discriminate].
  rewrite (HF g f s (or_introl eq_refl) Hk'). cbn [app]. f_equal. exact IH'.
Qed.

Lemma map_flat_map {A B} (f : A -> B) (l : list A) : map f l = flat_map (fun x => [f x]) l.
Proof. induction l as [|x r IH]; [reflexivity|]. cbn [map flat_map app]. now rewrite IH. Qed.

Lemma tget_clients c p T :
  match tget p T with Some x => aget c (n_clients x) | None => None end = aget c (n_clients (nd p T)).
Proof. rewrite nd_tget. destruct (tget p T); reflexivity. Qed.

Lemma iterate_nonshared_client c k d sp :
  Inv d sp -> c <> [] -> k <> KShared ->
  iterate_nonshared (q_client c) (index_of k d) (trie_of k d) = some_ents (ents_of k c sp).
Proof.
  intros HI Hc Hk. unfold iterate_nonshared. cbn [q_client io_topic io_client is_empty negb].
  apply is_empty_false in Hc. rewrite Hc. cbn [negb].
  transitivity (flat_map (fun key => [(c, match tget (split key) (trie_of k d) with
                                          | Some x => aget c (n_clients x)
                                          | None => None
                                          end)]) (keys_at c (index_of k d))).
  { unfold keys_at. destruct (aget c (index_of k d)); [apply map_flat_map|reflexivity]. }
  rewrite (inv_idx _ _ HI). apply client_keys_map.
  intros g f s Hin Hkf. rewrite tget_clients.
  assert (Hg : g = []) by (apply (kind_of_nonshared_inv g f); congruence). subst g.
  cbn [index_key is_empty].
  pose proof (proj2 (inv_trie _ _ HI k) (split f)) as HN.
  rewrite <- obs_nil. rewrite (ni_get _ _ _ _ HN [] f c eq_refl Hkf).
  do 2 f_equal. apply In_sp_get; [apply (inv_ok _ _ HI)|exact Hin].
Qed.

Lemma lookup_client_exact ops c :
  wf_ops ops = true -> c <> [] ->
  exists l, db_iterate (q_client c) (db_run ops) = IOk (some_ents l) /\ NoDup l /\
    forall c' s, In (c', s) l <-> (c' = c /\ sp_get (c, [], s_filter s) (spec_run ops) = Some s).
Proof.
  intros Hwf Hc. pose proof (Inv_run ops Hwf) as HI.
  set (d := db_run ops) in *. set (sp := spec_run ops) in *.
  pose proof (inv_ok _ _ HI) as Hok.
  exists (ents_of KUser c sp ++ ents_of KSys c sp). split; [|split].
  - unfold db_iterate. cbn [q_client io_shared io_topic io_nonshared io_sys is_empty negb andb app].
    change (userI d) with (index_of KUser d). change (userT d) with (trie_of KUser d).
    change (sysI d) with (index_of KSys d). change (sysT d) with (trie_of KSys d).
    rewrite (iterate_nonshared_client c KUser d sp HI Hc) by discriminate.
    rewrite (iterate_nonshared_client c KSys d sp HI Hc) by discriminate.
    unfold some_ents. now rewrite map_app.
  - apply NoDup_app_disjoint; [now apply nodup_ents_of|now apply nodup_ents_of|].
    intros [c' s] H1 H2. apply (in_ents_of _ _ _ _ _ Hok) in H1, H2.
    destruct H1 as (_ & H1 & _), H2 as (_ & H2 & _). congruence.
  - intros c' s. rewrite in_app_iff, !(in_ents_of _ _ _ _ _ Hok). split.
    + intros [(-> & Hk & Hget)|(-> & Hk & Hget)]; (split; [reflexivity|]).
      * assert (Hg : s_share s = []) by (apply (kind_of_nonshared_inv _ (s_filter s)); congruence).
        now rewrite Hg in Hget.
      * assert (Hg : s_share s = []) by (apply (kind_of_nonshared_inv _ (s_filter s)); congruence).
        now rewrite Hg in Hget.
    + intros [-> Hget]. destruct (sp_get_good _ _ _ _ _ Hok Hget) as [Hg _].
      rewrite Hg, kind_of_plain. destruct (starts_dollar (s_filter s)); [right|left]; tauto.
Qed.

(* ================================================================== *)
(* 11. C11: lookups in the shared trie                                 *)
(* ================================================================== *)

Lemma db_iterate_shared_only o d :
  io_shared o = true -> io_sys o = false -> io_nonshared o = false ->
  db_iterate o d = iterate_shared o (index_of KShared d) (trie_of KShared d).
Proof.
  intros H1 H2 H3. unfold db_iterate. rewrite H1, H2, H3. cbn [andb trie_of index_of].
  destruct (iterate_shared o (sharedI d) (sharedT d)) as [l|]; [|reflexivity].
  cbn [app]. now rewrite app_nil_r.
Qed.

Lemma sh_lookup_topic_exact ops t c :
  wf_ops ops = true -> t <> [] -> no_wild_levels (split t) = true ->
  exists l, db_iterate (q_sh_topic t c) (db_run ops) = IOk (some_ents l) /\ NoDup l /\
    forall c' s, In (c', s) l <->
      (s_share s <> [] /\ sp_get (c', s_share s, s_filter s) (spec_run ops) = Some s /\
       topic_match t (s_filter s) = true /\ want_client c c').
Proof.
  intros Hwf Ht Hnw. pose proof (Inv_run ops Hwf) as HI.
  set (d := db_run ops) in *. set (sp := spec_run ops) in *.
  pose proof (inv_ok _ _ HI) as Hok.
  destruct (tmatch_top_exact KShared sp Hok (trie_of KShared d) t (inv_trie _ _ HI KShared) Hnw)
    as [Hnd Hin].
  exists (cfilter c (tmatch_top t (trie_of KShared d))). split; [|split].
  - rewrite db_iterate_shared_only by reflexivity.
    unfold iterate_shared, cfilter. cbn [q_sh_topic io_topic io_mt io_client].
    apply is_empty_false in Ht. rewrite Ht. cbn [negb].
    destruct (negb (is_empty c)); reflexivity.
  - now apply NoDup_cfilter.
  - intros c' s. rewrite in_cfilter, Hin. split.
    + intros [(Hk & Hget & Hlm) Hw]. apply kind_of_shared_inv in Hk. tauto.
    + intros (Hg & Hget & Hlm & Hw). split; [|exact Hw].
      split; [now apply kind_of_shared|]. tauto.
Qed.

Lemma is_empty_share_prefix x : is_empty (SHARE_PREFIX ++ x) = false.
Proof. reflexivity. Qed.

Lemma sh_lookup_name_exact ops g f c :
  wf_ops ops = true -> g <> [] -> no_slash g = true -> f <> [] ->
  exists l, db_iterate (q_sh_name (SHARE_PREFIX ++ g ++ SLASH :: f) c) (db_run ops) = IOk (some_ents l) /\ NoDup l /\
    forall c' s, In (c', s) l <-> (sp_get (c', g, f) (spec_run ops) = Some s /\ want_client c c').
Proof.
  intros Hwf Hg Hns Hf. pose proof (Inv_run ops Hwf) as HI.
  set (d := db_run ops) in *. set (sp := spec_run ops) in *.
  pose proof (inv_ok _ _ HI) as Hok.
  set (T := trie_of KShared d).
  pose proof (inv_trie _ _ HI KShared) as HT. fold T in HT.
  pose proof (proj2 HT (split f)) as HN.
  assert (Hkf : kind_of g f = KShared) by now apply kind_of_shared.
  exists (cfilter c (obs g (nd (split f) T))). split; [|split].
  - rewrite db_iterate_shared_only by reflexivity. fold T.
    unfold iterate_shared. cbn [q_sh_name io_topic io_mt io_client].
    rewrite is_empty_share_prefix. cbn [negb]. rewrite has_prefix_app.
    change (skipn 7 (SHARE_PREFIX ++ g ++ SLASH :: f)) with (g ++ SLASH :: f).
    rewrite (cut_slash_app g f Hns).
    destruct (tfind f T) as [x|] eqn:Ef.
    + apply tfind_some in Ef. rewrite Ef in *. rewrite (obs_ne g x Hg). unfold grp, cfilter.
      destruct (aget g (n_shared x)) as [l0|]; destruct (negb (is_empty c)); reflexivity.
    + rewrite (tfind_none KShared _ f T g HT Ef). now rewrite cfilter_nil.
  - apply NoDup_cfilter. apply NoDup_keys_NoDup. exact (ni_nd _ _ _ _ HN g).
  - intros c' s. rewrite in_cfilter. split.
    + intros [Hin Hw]. split; [|exact Hw].
      destruct (obs_entry KShared sp Hok _ _ g c' s HN Hin) as (Hgs & Hp & _ & Hget).
      apply split_inj in Hp. now rewrite Hgs, <- Hp in Hget.
    + intros [Hget Hw]. split; [|exact Hw].
      now apply (entry_complete KShared sp _ c' g f s HN Hkf).
Qed.

Lemma tget_group c g p T :
  match tget p T with
  | Some x => match aget g (n_shared x) with
              | Some grp0 => some_ents (of_client c grp0)
              | None => []
              end
  | None => []
  end = some_ents (of_client c (grp g (nd p T))).
Proof.
  rewrite nd_tget. unfold grp. destruct (tget p T) as [x|]; [|reflexivity].
  destruct (aget g (n_shared x)); reflexivity.
Qed.

Lemma sh_lookup_client_exact ops c :
  wf_ops ops = true -> c <> [] ->
  exists l, db_iterate (q_sh_client c) (db_run ops) = IOk (some_ents l) /\ NoDup l /\
    forall c' s, In (c', s) l <-> (c' = c /\ s_share s <> [] /\ sp_get (c, s_share s, s_filter s) (spec_run ops) = Some s).
Proof.
  intros Hwf Hc. pose proof (Inv_run ops Hwf) as HI.
  set (d := db_run ops) in *. set (sp := spec_run ops) in *.
  pose proof (inv_ok _ _ HI) as Hok.
  exists (ents_of KShared c sp). split; [|split].
  - rewrite db_iterate_shared_only by reflexivity.
    unfold iterate_shared. cbn [q_sh_client io_topic io_client is_empty negb].
    pose proof Hc as Hc'. apply is_empty_false in Hc'. rewrite Hc'. cbn [negb].
    set (F := fun key : str =>
                match cut_slash key with
                | (g, Some f) =>
                    match tget (split f) (trie_of KShared d) with
                    | Some x => match aget g (n_shared x) with
                                | Some grp0 => some_ents (of_client c grp0)
                                | None => []
                                end
                    | None => []
                    end
                | (_, None) => []
                end).
    transitivity (IOk (flat_map F (keys_at c (index_of KShared d)))).
    { unfold keys_at. destruct (aget c (index_of KShared d)); reflexivity. }
    f_equal. rewrite (inv_idx _ _ HI). apply client_keys_map.
    intros g f s Hin Hkf. unfold F.
    pose proof (kind_of_shared_inv g f Hkf) as Hg.
    pose proof (spec_ok_key c g f s sp Hok Hin) as Hns.
    unfold index_key. pose proof Hg as Hg'. apply is_empty_false in Hg'. rewrite Hg'.
    rewrite (cut_slash_app g f Hns), tget_group.
    pose proof (proj2 (inv_trie _ _ HI KShared) (split f)) as HN.
    rewrite <- (obs_ne g _ Hg).
    rewrite of_client_aget by exact (ni_nd _ _ _ _ HN g).
    rewrite (ni_get _ _ _ _ HN g f c eq_refl Hkf).
    assert (Hget : sp_get (c, g, f) sp = Some s) by (apply In_sp_get; [apply Hok|exact Hin]).
    match goal with |- some_ents (match ?o with Some _ => _ | None => _ end) = _ =>
      replace o with (Some s) by (symmetry; exact Hget) end.
    reflexivity.
  - now apply nodup_ents_of.
  - intros c' s. rewrite (in_ents_of _ _ _ _ _ Hok). split.
    + intros (-> & Hk & Hget). apply kind_of_shared_inv in Hk. tauto.
    + intros (-> & Hg & Hget). split; [reflexivity|]. split; [now apply kind_of_shared|exact Hget].
Qed.

(* ================================================================== *)
(* 12. frame properties of the specification                           *)
(* ================================================================== *)

Lemma leave_frame sp c :
  (forall c' g f, c' <> c -> sp_get (c', g, f) (spec_step sp (OUnsubAll c)) = sp_get (c', g, f) sp) /\
  (forall g f, sp_get (c, g, f) (spec_step sp (OUnsubAll c)) = None).
Proof.
  cbn [spec_step]. unfold sp_del_client. split.
  - intros c' g f Hne.
    rewrite (sp_get_filter (fun key => negb (str_eqb c (fst (fst key))))). cbn [fst].
    destruct (str_eqb_spec c c') as [E|E]; [congruence|reflexivity].
  - intros g f.
    rewrite (sp_get_filter (fun key => negb (str_eqb c (fst (fst key))))). cbn [fst].
    now rewrite str_eqb_refl.
Qed.

Lemma unsub_frame sp c topic k :
  k <> (c, fst (split_topic topic), snd (split_topic topic)) ->
  sp_get k (spec_step sp (OUnsub c topic)) = sp_get k sp.
Proof. intros H. rewrite spec_step_unsub. now apply sp_get_del_other. Qed.

(* ================================================================== *)
(* 13. counters                                                        *)
(* ================================================================== *)

Lemma u64_add_succ (a : nat) : u64_add (u64 a) 1 = u64 (S a).
Proof.
  unfold u64_add, u64. rewrite N.add_mod_idemp_l by discriminate.
  now rewrite Nat2N.inj_succ, N.add_1_r.
Qed.

Lemma u64_add_mod (a : N) : u64_add (a mod U64) 1 = ((a + 1) mod U64)%N.
Proof. unfold u64_add. now rewrite N.add_mod_idemp_l by discriminate. Qed.

Lemma u64_sub_add (a b : nat) : u64_sub (u64 (a + b)) (N.of_nat b) = u64 a.
Proof.
  unfold u64_sub, u64. rewrite Nat2N.inj_add.
  set (A := N.of_nat a). set (B := N.of_nat b).
  assert (HU : U64 <> 0%N) by discriminate.
  pose proof (N.div_mod B U64 HU) as Hdm. pose proof (N.mod_lt B U64 HU) as Hlt.
  set (q := (B / U64)%N) in *. set (r := (B mod U64)%N) in *.
  replace (((A + B) mod U64 + U64 - r)%N) with (((A + B) mod U64 + (U64 - r))%N)
    by (generalize ((A + B) mod U64)%N; intros m; lia).
  rewrite N.add_mod_idemp_l by exact HU.
  replace ((A + B + (U64 - r))%N) with ((A + (q + 1) * U64)%N) by (unfold U64 in *; lia).
  now rewrite N.mod_add by exact HU.
Qed.

Lemma u64_sub_one (a : nat) : u64_sub (u64 (S a)) 1 = u64 a.
Proof. rewrite <- (u64_sub_add a 1). now rewrite Nat.add_1_r. Qed.

Definition pcl (c : cid) (key : skey) : bool := str_eqb c (fst (fst key)).

Lemma count_client_keys c sp : count_client c sp = length (filter (pcl c) (map fst sp)).
Proof.
  unfold count_client. rewrite <- (map_fst_filter (pcl c)), map_length. reflexivity.
Qed.

Lemma length_keys (sp : spec) : length sp = length (map fst sp).
Proof. now rewrite map_length. Qed.

Lemma kdel_notin key L : ~ In key L -> kdel key L = L.
Proof.
  induction L as [|x r IH]; intros H; [reflexivity|]. cbn [kdel].
  destruct (skey_eqb_spec key x) as [E|E]; [exfalso; apply H; now left|].
  rewrite IH; [reflexivity|]. intros Hin. apply H. now right.
Qed.

Lemma kdel_len key L : In key L -> length L = S (length (kdel key L)).
Proof.
  induction L as [|x r IH]; intros H; [destruct H|]. cbn [kdel].
  destruct (skey_eqb_spec key x) as [E|E]; [reflexivity|].
  destruct H as [H|H]; [congruence|]. cbn [length]. now rewrite <- IH.
Qed.

Lemma filter_kdel_len (p : skey -> bool) key L :
  In key L ->
  length (filter p L) = ((if p key then 1 else 0) + length (filter p (kdel key L)))%nat.
Proof.
  induction L as [|x r IH]; intros H; [destruct H|]. cbn [kdel].
  destruct (skey_eqb_spec key x) as [E|E].
  - subst x. cbn [filter]. destruct (p key); reflexivity.
  - destruct H as [H|H]; [congruence|]. cbn [filter]. specialize (IH H).
    destruct (p x); cbn [length]; lia.
Qed.

Lemma filter_snoc_len {A} (p : A -> bool) (L : list A) (x : A) :
  length (filter p (L ++ [x])) = (length (filter p L) + (if p x then 1 else 0))%nat.
Proof. rewrite filter_app, app_length. cbn [filter]. destruct (p x); reflexivity. Qed.

Lemma partition_len {A} (q : A -> bool) (L : list A) :
  length L = (length (filter (fun x => negb (q x)) L) + length (filter q L))%nat.
Proof.
  induction L as [|x r IH]; [reflexivity|]. cbn [filter length].
  destruct (q x); cbn [negb length]; lia.
Qed.

Lemma filter_partition_len {A} (p q : A -> bool) (L : list A) :
  length (filter p L) =
  (length (filter p (filter (fun x => negb (q x)) L)) + length (filter p (filter q L)))%nat.
Proof.
  induction L as [|x r IH]; [reflexivity|]. cbn [filter].
  destruct (q x); cbn [negb filter]; destruct (p x); cbn [length]; lia.
Qed.

Lemma sp_get_none_notin key sp : sp_get key sp = None -> ~ In key (map fst sp).
Proof. intros H Hin. now apply sp_get_in_keys in Hin. Qed.

Lemma sp_get_some_in key s sp : sp_get key sp = Some s -> In key (map fst sp).
Proof. intros H. apply sp_get_In in H. apply in_map_iff. exists (key, s). now split. Qed.

(* lengths after the three spec operations *)
Lemma len_sp_set key s sp :
  length (sp_set key s sp) = match sp_get key sp with Some _ => length sp | None => S (length sp) end.
Proof.
  rewrite !length_keys, map_fst_sp_set. destruct (sp_get key sp); [reflexivity|].
  rewrite app_length. cbn [length]. lia.
Qed.

Lemma count_sp_set c' c g f s sp :
  count_client c' (sp_set (c, g, f) s sp) =
  match sp_get (c, g, f) sp with
  | Some _ => count_client c' sp
  | None => if str_eqb c' c then S (count_client c' sp) else count_client c' sp
  end.
Proof.
  rewrite !count_client_keys, map_fst_sp_set. destruct (sp_get (c, g, f) sp); [reflexivity|].
  rewrite filter_snoc_len. unfold pcl at 2. cbn [fst]. destruct (str_eqb c' c); lia.
Qed.

Lemma len_sp_del key sp :
  length sp = match sp_get key sp with Some _ => S (length (sp_del key sp)) | None => length (sp_del key sp) end.
Proof.
  rewrite !length_keys, map_fst_sp_del. destruct (sp_get key sp) as [s|] eqn:E.
  - apply kdel_len. now apply (sp_get_some_in key s).
  - now rewrite kdel_notin by now apply sp_get_none_notin.
Qed.

Lemma count_sp_del c' c g f sp :
  count_client c' sp =
  match sp_get (c, g, f) sp with
  | Some _ => if str_eqb c' c then S (count_client c' (sp_del (c, g, f) sp)) else count_client c' (sp_del (c, g, f) sp)
  | None => count_client c' (sp_del (c, g, f) sp)
  end.
Proof.
  rewrite !count_client_keys, map_fst_sp_del. destruct (sp_get (c, g, f) sp) as [s|] eqn:E.
  - rewrite (filter_kdel_len (pcl c') (c, g, f)) by now apply (sp_get_some_in _ s).
    unfold pcl at 1. cbn [fst]. destruct (str_eqb c' c); reflexivity.
  - now rewrite kdel_notin by now apply sp_get_none_notin.
Qed.

Lemma len_sp_del_kind k c sp :
  length sp = (length (sp_del_kind k c sp) + length (keys_of k c sp))%nat.
Proof.
  unfold keys_of, sp_del_kind. rewrite map_length.
  rewrite (length_keys sp), (length_keys (filter _ sp)).
  rewrite (map_fst_filter (fun key => negb (selk k c key))).
  apply partition_len.
Qed.

Lemma count_sp_del_kind c' k c sp :
  count_client c' sp =
  (count_client c' (sp_del_kind k c sp) + (if str_eqb c' c then length (keys_of k c sp) else 0))%nat.
Proof.
  unfold keys_of, sp_del_kind. rewrite map_length, !count_client_keys.
  rewrite (map_fst_filter (fun key => negb (selk k c key))).
  rewrite (filter_partition_len (pcl c') (selk k c)). f_equal.
  destruct (str_eqb_spec c' c) as [E|E].
  - subst c'. rewrite filter_filter, (filter_ext _ (selk k c)); [reflexivity|].
    intros [[c2 g2] f2]. unfold pcl. cbn [fst selk].
    destruct (str_eqb c c2); cbn [andb]; [apply andb_true_r|reflexivity].
  - rewrite filter_filter, (filter_ext _ (fun _ => false)).
    + clear. induction (map fst sp) as [|x r IH]; [reflexivity|exact IH].
    + intros [[c2 g2] f2]. unfold pcl. cbn [fst selk].
      destruct (str_eqb_spec c c2) as [E1|E1]; cbn [andb]; [|reflexivity].
      subst c2. destruct (str_eqb_spec c' c) as [E2|E2]; [contradiction|apply andb_false_r].
Qed.

(* the counters, relative to ghost totals G (global) and C (per client, None = never seen) *)
Definition mk_stats (a : N) (n : nat) : stats := {| st_total := (a mod U64)%N; st_cur := u64 n |}.

Record CInv (d : db) (sp : spec) (G : N) (C : cid -> option N) : Prop := {
  ci_g : gstats d = mk_stats G (length sp);
  ci_c : forall c, aget c (cstats d) =
                   match C c with Some a => Some (mk_stats a (count_client c sp)) | None => None end;
  ci_z : forall c, C c = None -> count_client c sp = 0%nat }.

Lemma bump_mk a n : bump (mk_stats a n) = mk_stats (a + 1) (S n).
Proof. unfold bump, mk_stats. cbn [st_total st_cur]. now rewrite u64_add_mod, u64_add_succ. Qed.

Lemma drop_mk a n m : drop (N.of_nat m) (mk_stats a (n + m)) = mk_stats a n.
Proof. unfold drop, mk_stats. cbn [st_total st_cur]. now rewrite u64_sub_add. Qed.

Lemma drop1_mk a n : drop 1 (mk_stats a (S n)) = mk_stats a n.
Proof. unfold drop, mk_stats. cbn [st_total st_cur]. now rewrite u64_sub_one. Qed.

Lemma sub_existed d sp c s :
  Inv d sp -> no_slash (s_share s) = true ->
  mem_str (index_key (s_share s) (s_filter s))
          (keys_at c (index_of (kind_of (s_share s) (s_filter s)) d)) =
  match sp_get (c, s_share s, s_filter s) sp with Some _ => true | None => false end.
Proof.
  intros HI Hns. rewrite (inv_idx _ _ HI).
  now apply mem_keys_of; [apply (inv_ok _ _ HI)| |].
Qed.

Definition sub_new (sp : spec) (c : cid) (s : sub) : N :=
  match sp_get (c, s_share s, s_filter s) sp with Some _ => 0%N | None => 1%N end.

Lemma CInv_sub d sp G C c s :
  Inv d sp -> CInv d sp G C -> no_slash (s_share s) = true ->
  CInv (fst (db_subscribe c s d)) (sp_set (c, s_share s, s_filter s) s sp)
       (G + sub_new sp c s)
       (fun c' => if str_eqb c' c
                  then Some ((match C c with Some a => a | None => 0 end) + sub_new sp c s)%N
                  else C c').
Proof.
  intros HI [Hg Hc Hz] Hns.
  pose proof (sub_existed d sp c s HI Hns) as Hex.
  rewrite db_subscribe_nf. cbn [fst].
  set (k := kind_of (s_share s) (s_filter s)) in *.
  set (idx := index_of k d) in *.
  set (key := index_key (s_share s) (s_filter s)) in *.
  set (ex := mem_str key (keys_at c idx)) in *.
  assert (Hcsk : aget c idx <> None -> aget c (cstats d) <> None) by apply (inv_cs _ _ HI).
  unfold sub_new.
  constructor.
  - rewrite gstats_upd, len_sp_set.
    destruct (sp_get (c, s_share s, s_filter s) sp); rewrite Hex.
    + now rewrite N.add_0_r.
    + rewrite Hg. apply bump_mk.
  - intros c'. rewrite cstats_upd, (sub_cs_get c idx (cstats d) ex Hcsk), count_sp_set.
    destruct (str_eqb_spec c' c) as [E|E]; [|rewrite Hc; now destruct (sp_get (c, s_share s, s_filter s) sp)].
    subst c'. f_equal. unfold stat_or_zero. rewrite Hc.
    destruct (sp_get (c, s_share s, s_filter s) sp) eqn:Eg; rewrite Hex.
    + rewrite N.add_0_r. destruct (C c) as [a|] eqn:EC; [reflexivity|].
      exfalso. assert (Hm : ex = true) by exact Hex.
      apply (mem_keys_at_some key) in Hm. apply Hcsk in Hm. rewrite Hc, EC in Hm. now elim Hm.
    + destruct (C c) as [a|] eqn:EC; [apply bump_mk|].
      rewrite (Hz c EC). reflexivity.
  - intros c'. destruct (str_eqb_spec c' c) as [E|E]; [discriminate|].
    intros HC. rewrite count_sp_set. apply Hz in HC.
    apply str_eqb_neq in E. rewrite E.
    destruct (sp_get (c, s_share s, s_filter s) sp); exact HC.
Qed.

Lemma unsub_existed d sp c g f :
  Inv d sp -> no_slash g = true ->
  mem_str (index_key g f) (keys_at c (index_of (kind_of g f) d)) =
  match sp_get (c, g, f) sp with Some _ => true | None => false end.
Proof.
  intros HI Hns. rewrite (inv_idx _ _ HI).
  now apply mem_keys_of; [apply (inv_ok _ _ HI)| |].
Qed.

Lemma CInv_unsub d sp G C c topic :
  Inv d sp -> CInv d sp G C ->
  CInv (db_unsubscribe c topic d) (spec_step sp (OUnsub c topic)) G C.
Proof.
  intros HI [Hg Hc Hz].
  rewrite db_unsubscribe_nf, spec_step_unsub.
  pose proof (split_topic_no_slash topic) as Hns.
  set (g := fst (split_topic topic)) in *. set (f := snd (split_topic topic)).
  pose proof (unsub_existed d sp c g f HI Hns) as Hex.
  set (k := kind_of g f) in *. set (idx := index_of k d) in *.
  set (key := index_key g f) in *. set (ex := mem_str key (keys_at c idx)) in *.
  pose proof (len_sp_del (c, g, f) sp) as Hlen.
  constructor.
  - rewrite gstats_upd, Hg. destruct (sp_get (c, g, f) sp); rewrite Hex.
    + rewrite Hlen. apply drop1_mk.
    + now rewrite Hlen.
  - intros c'. rewrite cstats_upd. pose proof (count_sp_del c' c g f sp) as Hcnt.
    destruct (sp_get (c, g, f) sp) eqn:Eg; rewrite Hex.
    + assert (Hcs : aget c (cstats d) <> None).
      { apply (inv_cs _ _ HI k). apply (mem_keys_at_some key). exact Hex. }
      rewrite (Hc c) in *. destruct (C c) as [a|] eqn:EC; [|now elim Hcs].
      rewrite aget_aset. destruct (str_eqb_spec c' c) as [E|E].
      * subst c'. rewrite EC. f_equal. rewrite Hcnt. apply drop1_mk.
      * rewrite Hc. now rewrite Hcnt.
    + rewrite Hc. now rewrite Hcnt.
  - intros c' HC. apply Hz in HC. pose proof (count_sp_del c' c g f sp) as Hcnt.
    destruct (sp_get (c, g, f) sp); [destruct (str_eqb c' c)|]; lia.
Qed.

Lemma CInv_unsub_all_kind d sp G C k c :
  Inv d sp -> CInv d sp G C ->
  CInv (db_unsub_all_kind k c d) (sp_del_kind k c sp) G C.
Proof.
  intros HI [Hg Hc Hz]. rewrite db_unsub_all_kind_nf.
  rewrite (inv_idx _ _ HI).
  constructor.
  - rewrite gstats_upd, Hg. rewrite (len_sp_del_kind k c sp) at 1. apply drop_mk.
  - intros c'. rewrite cstats_upd. pose proof (count_sp_del_kind c' k c sp) as Hcnt.
    rewrite (Hc c). destruct (C c) as [a|] eqn:EC.
    + rewrite aget_aset. destruct (str_eqb_spec c' c) as [E|E].
      * subst c'. rewrite EC. f_equal. rewrite Hcnt. apply drop_mk.
      * rewrite Hc. rewrite Nat.add_0_r in Hcnt. now rewrite Hcnt.
    + rewrite Hc. destruct (str_eqb_spec c' c) as [E|E].
      * subst c'. rewrite EC. reflexivity.
      * rewrite Nat.add_0_r in Hcnt. now rewrite Hcnt.
  - intros c' HC. apply Hz in HC. pose proof (count_sp_del_kind c' k c sp) as Hcnt. lia.
Qed.

Lemma CInv_ext d sp G G' C C' :
  G = G' -> (forall c, C c = C' c) -> CInv d sp G C -> CInv d sp G' C'.
Proof.
  intros <- HC [Hg Hc Hz]. constructor; [exact Hg| |].
  - intros c. rewrite <- HC. apply Hc.
  - intros c. rewrite <- HC. apply Hz.
Qed.

Lemma spec_total_app a : forall sp b who,
  spec_total sp (a ++ b) who = (spec_total sp a who + spec_total (fold_left spec_step a sp) b who)%N.
Proof.
  induction a as [|o r IH]; intros sp b who; [reflexivity|].
  cbn [app spec_total fold_left]. rewrite IH. now rewrite N.add_assoc.
Qed.

Lemma ever_app c a b : ever_subscribed c (a ++ b) = ever_subscribed c a || ever_subscribed c b.
Proof. unfold ever_subscribed. apply existsb_app. Qed.

Lemma spec_total_never c ops : forall sp,
  ever_subscribed c ops = false -> spec_total sp ops (Some c) = 0%N.
Proof.
  induction ops as [|o r IH]; intros sp H; [reflexivity|].
  cbn [ever_subscribed existsb] in H. apply orb_false_iff in H as [H1 H2].
  cbn [spec_total]. rewrite (IH _ H2). destruct o as [c0 s|c0 t|c0]; try reflexivity.
  rewrite H1. now destruct (sp_get (c0, s_share s, s_filter s) sp).
Qed.

Definition Gof (ops : list op) : N := spec_total [] ops None.
Definition Cof (ops : list op) (c : cid) : option N :=
  if ever_subscribed c ops then Some (spec_total [] ops (Some c)) else None.

Lemma CInv_init : CInv db_init [] 0 (fun _ => None).
Proof. constructor; reflexivity. Qed.

Lemma CInv_run ops : wf_ops ops = true -> CInv (db_run ops) (spec_run ops) (Gof ops) (Cof ops).
Proof.
  induction ops as [|o ops IH] using rev_ind; intros Hwf.
  - apply CInv_init.
  - unfold wf_ops in Hwf. rewrite forallb_app in Hwf. apply andb_true_iff in Hwf as [Hwf Ho].
    cbn [forallb] in Ho. rewrite andb_true_r in Ho.
    specialize (IH Hwf). pose proof (Inv_run ops Hwf) as HI.
    unfold db_run, spec_run. rewrite !fold_left_app. cbn [fold_left].
    fold (db_run ops). fold (spec_run ops).
    destruct o as [c s|c t|c].
    + cbn [wf_op] in Ho. apply andb_true_iff in Ho as [_ Hns].
      cbn [db_step spec_step].
      refine (CInv_ext _ _ _ _ _ _ _ _ (CInv_sub _ _ _ _ c s HI IH Hns)); cycle 1.
      * intros c'. unfold Cof. rewrite ever_app, spec_total_app.
        cbn [ever_subscribed existsb spec_total]. rewrite orb_false_r. fold (spec_run ops).
        unfold sub_new. destruct (str_eqb_spec c' c) as [E|E].
        -- subst c'. rewrite orb_true_r, N.add_0_r. f_equal.
           destruct (ever_subscribed c ops) eqn:Ev; [reflexivity|].
           now rewrite (spec_total_never c ops [] Ev).
        -- rewrite orb_false_r. destruct (ever_subscribed c' ops); [|reflexivity].
           f_equal. destruct (sp_get (c, s_share s, s_filter s) (spec_run ops)); now rewrite !N.add_0_r.
      * unfold Gof. rewrite spec_total_app. cbn [spec_total]. fold (spec_run ops).
        unfold sub_new. now rewrite N.add_0_r.
    + cbn [db_step].
      refine (CInv_ext _ _ _ _ _ _ _ _ (CInv_unsub _ _ _ _ c t HI IH)).
      * unfold Gof. rewrite spec_total_app. cbn [spec_total]. now rewrite !N.add_0_r.
      * intros c'. unfold Cof. rewrite ever_app, spec_total_app.
        cbn [ever_subscribed existsb spec_total]. now rewrite !orb_false_r, !N.add_0_r.
    + cbn [db_step spec_step]. rewrite sp_del_client_kinds. unfold db_unsubscribe_all.
      pose proof (Inv_unsub_all_kind _ _ KUser c HI) as HI1.
      pose proof (Inv_unsub_all_kind _ _ KSys c HI1) as HI2.
      pose proof (CInv_unsub_all_kind _ _ _ _ KUser c HI IH) as HC1.
      pose proof (CInv_unsub_all_kind _ _ _ _ KSys c HI1 HC1) as HC2.
      refine (CInv_ext _ _ _ _ _ _ _ _ (CInv_unsub_all_kind _ _ _ _ KShared c HI2 HC2)).
      * unfold Gof. rewrite spec_total_app. cbn [spec_total]. now rewrite !N.add_0_r.
      * intros c'. unfold Cof. rewrite ever_app, spec_total_app.
        cbn [ever_subscribed existsb spec_total]. now rewrite !orb_false_r, !N.add_0_r.
Qed.

Lemma already_fold ops : forall d sp, Inv d sp -> wf_ops ops = true ->
  model_already d ops = expect_already sp ops.
Proof.
  induction ops as [|o r IH]; intros d sp HI Hwf; [reflexivity|].
  cbn [wf_ops forallb] in Hwf. apply andb_true_iff in Hwf as [Ho Hr].
  cbn [model_already expect_already].
  rewrite (IH _ _ (Inv_step d sp o HI Ho) Hr). f_equal.
  destruct o as [c s|c t|c]; try reflexivity.
  cbn [wf_op] in Ho. apply andb_true_iff in Ho as [_ Hns].
  rewrite db_subscribe_nf. cbn [snd]. now rewrite (sub_existed d sp c s HI Hns).
Qed.

Lemma counts_exact ops :
  wf_ops ops = true ->
  (st_total (gstats (db_run ops)), st_cur (gstats (db_run ops))) = expect_gstats ops /\
  (forall c, db_client_stats c (db_run ops) =
             match expect_cstats ops c with Some (a, b) => Some {| st_total := a; st_cur := b |} | None => None end) /\
  model_already db_init ops = expect_already [] ops.
Proof.
  intros Hwf. destruct (CInv_run ops Hwf) as [Hg Hc _]. split; [|split].
  - rewrite Hg. reflexivity.
  - intros c. unfold db_client_stats, expect_cstats. rewrite Hc. unfold Cof.
    destruct (ever_subscribed c ops); reflexivity.
  - apply already_fold; [apply Inv_init|exact Hwf].
Qed.

