(* C14 (dynamic half): what a hook decides is what happens - proved of the broker model
   Model/Broker.v for all states, packets and hook verdicts.
     1. CONNECT refused by the authentication hook: one failing CONNACK, no table changes;
     2. SUBSCRIBE: the whole-packet verdict (h_sub_all) and the per-topic verdicts (h_sub) are what the
        SUBACK reports and what the subscription store (seen through the flat specification of
        Model/SubSpec.v) holds afterwards;
     3. PUBLISH: a rejected / dropped message reaches no queue and no retained message, a rewritten one is
        forwarded exactly as the rewritten message would be;
     4. the will: dropped -> nothing, rewritten -> deliver / retain_update of the rewritten will.
   Built on the stage equations of Proofs/BrokerInvP.v (CONNECT, SUBSCRIBE) and Proofs/BrokerQos2P.v
   (PUBLISH), and on the refinement of the subscription trie (Proofs/SubTrieP.v). *)
From Coq Require Import List NArith ZArith Bool Arith Lia ZifyN ZifyNat ZifyBool.
Import ListNotations.
From GM Require Import Base.Topic Base.Msg Model.SubTrie Model.SubSpec Model.RetTrie Model.Queue Model.Limiter
  Model.TopicMatch Model.Broker Proofs.TopicP Proofs.SubTrieP Proofs.LimiterP
  Proofs.BrokerQos2P Proofs.BrokerWillP Proofs.BrokerInvP.
Open Scope N_scope.

(* Names defined both in BrokerQos2P and in BrokerInvP (nget_nset, poll_all_frame, ...) refer to the
   BrokerInvP version here; the BrokerQos2P / BrokerWillP ones are written qualified. *)

(* ================================================================== *)
(* 0. the tables a hook verdict must leave alone                       *)
(* ================================================================== *)

(* sessions, subscriptions, retained messages, pending wills, queues, unack sets, the online and the
   offline registrations *)
Definition tables (s : st) :=
  (b_sessions s, b_subs s, b_ret s, b_wills s, (b_queues s, b_unacks s, b_online s, b_offline s)).

Section TablesFields.
  Variables s s' : st.
  Hypothesis H : tables s' = tables s.
  Lemma tb_sessions : b_sessions s' = b_sessions s. Proof. unfold tables in H. congruence. Qed.
  Lemma tb_subs : b_subs s' = b_subs s. Proof. unfold tables in H. congruence. Qed.
  Lemma tb_ret : b_ret s' = b_ret s. Proof. unfold tables in H. congruence. Qed.
  Lemma tb_wills : b_wills s' = b_wills s. Proof. unfold tables in H. congruence. Qed.
  Lemma tb_queues : b_queues s' = b_queues s. Proof. unfold tables in H. congruence. Qed.
  Lemma tb_unacks : b_unacks s' = b_unacks s. Proof. unfold tables in H. congruence. Qed.
  Lemma tb_online : b_online s' = b_online s. Proof. unfold tables in H. congruence. Qed.
  Lemma tb_offline : b_offline s' = b_offline s. Proof. unfold tables in H. congruence. Qed.
End TablesFields.

Lemma tables_upd_conn c k s : tables (upd_conn c k s) = tables s.
Proof. reflexivity. Qed.

(* the same without the queues: what is left of `tables` once the poll loops have run *)
Definition tables_nq (s : st) :=
  (b_sessions s, b_subs s, b_ret s, b_wills s, (b_unacks s, b_online s, b_offline s)).

Lemma tables_tables_nq s s' : tables s' = tables s -> tables_nq s' = tables_nq s.
Proof. unfold tables, tables_nq. congruence. Qed.

Lemma dframe_tables_nq s s' : dframe s s' -> tables_nq s' = tables_nq s.
Proof.
  intros F. unfold tables_nq.
  now rewrite (df_sessions _ _ F), (df_subs _ _ F), (df_ret _ _ F), (df_wills _ _ F), (df_unacks _ _ F),
              (df_online _ _ F), (df_offline _ _ F).
Qed.

(* the packets written to socket c, in order *)
Definition sent_to (c : N) (o : list out) : list pkt :=
  flat_map (fun x => match x with OSend c' p => if c' =? c then [p] else [] | _ => [] end) o.

Lemma sent_to_app c a b : sent_to c (a ++ b) = sent_to c a ++ sent_to c b.
Proof. unfold sent_to. apply flat_map_app. Qed.

Lemma sent_to_none c o : (forall p, ~ In (OSend c p) o) -> sent_to c o = [].
Proof.
  induction o as [|x r IH]; intros H; [reflexivity|]. cbn [sent_to flat_map].
  fold (sent_to c r). rewrite IH by (intros p Hin; apply (H p); now right). rewrite app_nil_r.
  destruct x as [c' p|c'|cid m rs]; try reflexivity.
  destruct (N.eqb_spec c' c) as [->|E]; [|reflexivity]. exfalso. apply (H p). now left.
Qed.

(* ================================================================== *)
(* 1. CONNECT refused by the authentication hook                       *)
(* ================================================================== *)

(* The verdict: hc_code (Proofs/BrokerInvP.v) is auth_code - the code the scripted OnBasicAuth hook
   returns for (user name, password) - except that a v5 CONNECT carrying an Authentication Method is
   refused with 128 whatever the hook says (enhanced authentication is not configured). *)
Lemma hc_code_is_auth_code cn s :
  (cn_ver cn =? 5) && match p_authmethod (cn_props cn) with Some _ => true | None => false end = false ->
  hc_code cn s = auth_code cn s.
Proof. unfold hc_code. now intros ->. Qed.

Lemma auth_code_hook cn s tbl dflt :
  h_auth (b_hooks s) = Some (tbl, dflt) ->
  auth_code cn s =
  match find (fun e => str_eqb (fst (fst e)) (opt_or (cn_user cn) []) && str_eqb (snd (fst e)) (opt_or (cn_pass cn) [])) tbl with
  | Some e => snd e
  | None => dflt
  end.
Proof. unfold auth_code. now intros ->. Qed.

Lemma auth_code_no_hook cn s : h_auth (b_hooks s) = None -> auth_code cn s = 0.
Proof. unfold auth_code. now intros ->. Qed.

(* The mapping of the hook's code to the CONNACK: a v5 client gets the code as it is; a v3 client gets
   the codes 1..5 as they are and 135 (0x87, the v5 "Not authorized") for every larger one. *)
Definition connack_code (v code : N) : N := if negb (v =? 5) && (5 <? code) then 135 else code.

Lemma connack_code_v5 code : connack_code 5 code = code.
Proof. reflexivity. Qed.
Lemma connack_code_v3_small v code : v <> 5 -> code <= 5 -> connack_code v code = code.
Proof. intros Hv Hc. unfold connack_code. destruct (5 <? code) eqn:E; [lia|]. now rewrite andb_false_r. Qed.
Lemma connack_code_v3_large v code : v <> 5 -> 5 < code -> connack_code v code = 135.
Proof.
  intros Hv Hc. unfold connack_code. apply N.eqb_neq in Hv. rewrite Hv.
  destruct (5 <? code) eqn:E; [reflexivity|lia].
Qed.
Lemma connack_code_fails v code : code <> 0 -> connack_code v code <> 0.
Proof. unfold connack_code. destruct (negb (v =? 5) && (5 <? code)); [discriminate|auto]. Qed.

(* the connection record left behind: never attached, ignored from now on *)
Definition dead_conn (cn : connect) : conn := set_phase PhDead (fresh_conn (cn_cid cn) (cn_ver cn)).

(* the client id passes the zero-length check (otherwise the CONNECT is refused with 133 before any hook) *)
Definition cid_allowed (cn : connect) (s : st) : bool :=
  negb (negb (c_allow_zero_len (b_cfg s)) && is_empty (cn_cid cn)).

Lemma connect_rejected_handler c cn s :
  cid_allowed cn s = true -> hc_code cn s <> 0 ->
  handle_connect c cn s =
  (upd_conn c (dead_conn cn) s, [OSend c (KConnack false (connack_code (cn_ver cn) (hc_code cn s)) [])]).
Proof.
  unfold cid_allowed. intros Hz Hc. rewrite handle_connect_eq.
  apply negb_true_iff in Hz. rewrite Hz. apply N.eqb_neq in Hc. rewrite Hc. reflexivity.
Qed.

(* socket c carries no registered client (it is new, fresh, dead or closed) *)
Definition unattached (s : st) (c : N) : Prop :=
  forall k, nget c (b_conns s) = Some k -> attached (k_phase k) = false.

Lemma unattached_not_att s c : unattached s c -> ~ att s c.
Proof. intros H (k & Hk & Ha). rewrite (H k Hk) in Ha. discriminate. Qed.

Lemma conn_gone_unattached c s :
  unattached s c ->
  tables (fst (conn_gone c s)) = tables s /\ b_hooks (fst (conn_gone c s)) = b_hooks s /\
  b_cfg (fst (conn_gone c s)) = b_cfg s /\
  filter (fun x => match x with OClose c' => negb (c' =? c) | _ => true end) (snd (conn_gone c s)) = [].
Proof.
  intros H. unfold conn_gone. destruct (nget c (b_conns s)) as [k|] eqn:Hk; [|repeat split].
  specialize (H k Hk). destruct (k_phase k); try discriminate; cbn [fst snd filter]; rewrite ?N.eqb_refl; repeat split.
Qed.

(* Target 1 at the level of the scenario event.  EConnect c cn is "a CONNECT arrives on socket c". *)
Theorem connect_rejected_leaves_nothing c cn s :
  unattached s c -> cid_allowed cn s = true -> hc_code cn s <> 0 ->
  let s' := fst (step_event s (EConnect c cn)) in
  snd (step_event s (EConnect c cn)) = [OSend c (KConnack false (connack_code (cn_ver cn) (hc_code cn s)) [])] /\
  tables s' = tables s /\
  nget c (b_conns s') = Some (dead_conn cn) /\
  (forall c', c' <> c -> nget c' (b_conns s') = nget c' (b_conns s)).
Proof.
  intros Hu Hz Hc. cbn [step_event].
  destruct (conn_gone_unattached c s Hu) as (Ht & Hh & Hcf & Ho).
  assert (Hcn : forall c', c' <> c -> nget c' (b_conns (fst (conn_gone c s))) = nget c' (b_conns s)).
  { intros c' Hne. unfold conn_gone. destruct (nget c (b_conns s)) as [k|] eqn:Hk; [|reflexivity].
    specialize (Hu k Hk). destruct (k_phase k); try discriminate; cbn [fst]; try reflexivity;
      proj; now rewrite nget_nset_other. }
  destruct (conn_gone c s) as [s0 o0]. cbn [fst snd] in *.
  assert (Hz0 : cid_allowed cn s0 = true) by (unfold cid_allowed in *; now rewrite Hcf).
  assert (Hc0 : hc_code cn s0 = hc_code cn s) by (apply hc_code_ext; exact Hh).
  rewrite (connect_rejected_handler c cn s0 Hz0) by (now rewrite Hc0).
  cbn [fst snd]. rewrite Ho, Hc0. cbn [app]. split; [reflexivity|]. split; [rewrite tables_upd_conn; exact Ht|].
  split; [proj; apply nget_nset_same|]. intros c' Hne. proj. rewrite nget_nset_other by exact Hne. now apply Hcn.
Qed.

(* what the refused socket sends later.  The read loop still runs on it, so: nothing it sends has any effect,
   except that a QoS>0 PUBLISH of a v5 client ends the read loop (the receive quota of the connection was never
   set) and the socket is closed - one OClose, no packet, no table changes.  The same with the packet's size. *)
Definition closes_dead (k : conn) (p : pkt) : bool :=
  match p with KPublish _ qos _ _ _ _ _ => (k_v k =? 5) && (0 <? qos) | _ => false end.

Theorem dead_socket_send c k p s :
  nget c (b_conns s) = Some k -> k_phase k = PhDead ->
  step_event s (ESend c p) =
    (if closes_dead k p then (upd_conn c (set_phase PhClosed k) s, [OClose c]) else (s, [])) /\
  (forall n, step_event s (ESendSz c p n) = step_event s (ESend c p)) /\
  tables (fst (step_event s (ESend c p))) = tables s.
Proof.
  intros Hk Hp.
  assert (E : step_event s (ESend c p) =
              (if closes_dead k p then (upd_conn c (set_phase PhClosed k) s, [OClose c]) else (s, []))).
  { cbn [step_event]. rewrite Hk, Hp. unfold send_unconnected, closes_dead. rewrite Hp.
    destruct p; try reflexivity. destruct ((k_v k =? 5) && (0 <? qos)); [|reflexivity].
    unfold conn_gone. now rewrite Hk, Hp. }
  split; [exact E|]. split.
  - intros n. cbn [step_event]. now rewrite Hk, Hp.
  - rewrite E. destruct (closes_dead k p); cbn [fst]; [apply tables_upd_conn|reflexivity].
Qed.

(* ... and of the whole step (the poll loops of all connections have run): socket c has been sent the CONNACK
   and nothing else, every table but the queues is as before; the queues are those the poll loops leave when
   started from the old queues (see connect_rejected_leaves_nothing: the event itself does not touch them) *)
Theorem connect_rejected_step c cn s :
  unattached s c -> cid_allowed cn s = true -> hc_code cn s <> 0 ->
  sent_to c (snd (step s (EConnect c cn))) = [KConnack false (connack_code (cn_ver cn) (hc_code cn s)) []] /\
  tables_nq (fst (step s (EConnect c cn))) = tables_nq s /\
  exists k', nget c (b_conns (fst (step s (EConnect c cn)))) = Some k' /\ k_phase k' = PhDead.
Proof.
  intros Hu Hz Hc.
  destruct (connect_rejected_leaves_nothing c cn s Hu Hz Hc) as (Ho & Ht & Hk & _).
  unfold step. destruct (step_event s (EConnect c cn)) as [s1 o1]. cbn [fst snd] in *.
  pose proof (BrokerQos2P.poll_all_frame s1) as [F _].
  assert (Hna : ~ att s1 c).
  { intros (k & Hk' & Ha). rewrite Hk in Hk'. injection Hk' as <-. discriminate. }
  pose proof (fun p => poll_all_not_att s1 c p Hna) as Hns.
  destruct (poll_all s1) as [s2 o2]. cbn [fst snd] in *.
  split; [|split].
  - rewrite sent_to_app, (sent_to_none c o2 Hns), app_nil_r, Ho. cbn [sent_to flat_map]. now rewrite N.eqb_refl.
  - rewrite (dframe_tables_nq _ _ F). now apply tables_tables_nq.
  - destruct (df_conn _ _ F c _ Hk) as (k' & Hk2 & Hs). exists k'. split; [exact Hk2|].
    now rewrite (ks_phase _ _ Hs).
Qed.

(* ================================================================== *)
(* 2. SUBSCRIBE                                                        *)
(* ================================================================== *)

(* ---- 2.1 the verdicts and what handle_subscribe makes of them ---- *)

(* OnSubscribe for one topic of the packet: the first entry of the script for (client id, full topic name) *)
Definition sub_verdict (h : hooks) (cid name : str) : sub_action :=
  opt_or (match find (fun e => str_eqb (fst (fst e)) cid && str_eqb (snd (fst e)) name) (h_sub h) with
          | Some e => Some (snd e)
          | None => None
          end) SAccept.

Lemma sub_verdict_no_hooks cid name : sub_verdict no_hooks cid name = SAccept.
Proof. reflexivity. Qed.

Definition with_sub_qos (q : N) (sb : sub) : sub :=
  {| s_share := s_share sb; s_filter := s_filter sb; s_id := s_id sb; s_qos := q;
     s_nl := s_nl sb; s_rap := s_rap sb; s_rh := s_rh sb |}.

(* the subscription the client asked for under the name of t (a name listed twice: the last entry's options) *)
Definition req_sub (subid : N) (topics : list topic_req) (t : topic_req) : sub :=
  sub_of_req (last_with_name (tq_name t) topics t) subid.

(* ... and what the hook made of it *)
Definition hs_sub (h : hooks) (k : conn) (subid : N) (topics : list topic_req) (t : topic_req) : sub :=
  match sub_verdict h (k_cid k) (tq_name t) with
  | SQos q => with_sub_qos q (req_sub subid topics t)
  | _ => req_sub subid topics t
  end.

(* the broker's own checks on a subscription: the granted QoS is the (possibly rewritten) requested one unless
   shared subscriptions / subscription identifiers / wildcards are not available to this v5 client *)
Definition cap_code (k : conn) (v5 : bool) (subid : N) (sb : sub) : N :=
  let code := s_qos sb in
  let code := if v5 && negb (is_empty (s_share sb)) && negb (k_shared k) then 158 else code in
  let code := if v5 && negb (k_subid k) && negb (subid =? 0) then 161 else code in
  if v5 && negb (k_wildcard k) && has_wildcard (s_filter sb) then 162 else code.

(* the SUBACK code of one topic *)
Definition hs_code (h : hooks) (k : conn) (v5 : bool) (subid : N) (topics : list topic_req) (t : topic_req) : N :=
  match sub_verdict h (k_cid k) (tq_name t) with
  | SReject cd => if v5 then cd else 128
  | _ => cap_code k v5 subid (hs_sub h k subid topics t)
  end.

Definition hs_replays (sb : sub) (existed : bool) (t : topic_req) : bool :=
  negb (negb (is_empty (s_share sb))) && ((negb existed && negb (tq_rh t =? 2)) || (tq_rh t =? 0)).

Lemma hs_body_eq c k v5 subid topics s0 o0 cs t :
  hs_body c k v5 subid topics (s0, o0, cs) t =
  let sb := hs_sub (b_hooks s0) k subid topics t in
  let code := hs_code (b_hooks s0) k v5 subid topics t in
  if code <? 128 then
    let '(d', existed) := db_subscribe (k_cid k) sb (b_subs s0) in
    let s1 := set_subs d' s0 in
    let '(s2, o2) := if hs_replays sb existed t then replay_retained c k sb s1 else (s1, []) in
    (s2, o0 ++ o2, cs ++ [code])
  else (s0, o0, cs ++ [code]).
Proof.
  unfold hs_body, hs_code, hs_sub, cap_code, sub_verdict, req_sub, hs_replays. cbv zeta.
  destruct (find (fun e => str_eqb (fst (fst e)) (k_cid k) && str_eqb (snd (fst e)) (tq_name t)) (h_sub (b_hooks s0)))
    as [[[a b] [|cd|q]]|]; reflexivity.
Qed.

(* ---- 2.2 what one topic and the whole fold leave alone ---- *)

(* everything `dproj` lists except the subscription store *)
Definition sproj (s : st) :=
  (b_cfg s, b_hooks s, b_now s, b_rt s, (b_sessions s, b_online s, b_offline s, b_wills s), (b_ret s, b_unacks s, b_auto s)).

Lemma dframe_sproj s s' : dframe s s' -> sproj s' = sproj s.
Proof. intros [A _]. unfold dproj in A. unfold sproj. congruence. Qed.

Section SprojFields.
  Variables s s' : st.
  Hypothesis H : sproj s' = sproj s.
  Lemma sp_cfg : b_cfg s' = b_cfg s. Proof. unfold sproj in H. congruence. Qed.
  Lemma sp_hooks : b_hooks s' = b_hooks s. Proof. unfold sproj in H. congruence. Qed.
  Lemma sp_sessions : b_sessions s' = b_sessions s. Proof. unfold sproj in H. congruence. Qed.
  Lemma sp_online : b_online s' = b_online s. Proof. unfold sproj in H. congruence. Qed.
  Lemma sp_offline : b_offline s' = b_offline s. Proof. unfold sproj in H. congruence. Qed.
  Lemma sp_wills : b_wills s' = b_wills s. Proof. unfold sproj in H. congruence. Qed.
  Lemma sp_ret : b_ret s' = b_ret s. Proof. unfold sproj in H. congruence. Qed.
  Lemma sp_unacks : b_unacks s' = b_unacks s. Proof. unfold sproj in H. congruence. Qed.
End SprojFields.

Lemma replay_retained_dframe c k sb s :
  dframe s (fst (replay_retained c k sb s)) /\ only_drops (snd (replay_retained c k sb s)).
Proof.
  unfold replay_retained.
  match goal with |- context [fold_left ?f ?l (s, [])] =>
    destruct (fold_frame f l) with (s := s) (o := @nil out) as [F [o' [E D]]] end.
  - intros s0 o0 m. cbv beta iota zeta.
    destruct (aget (k_cid k) (b_queues s0)) as [q|];
      [|cbn [fst snd]; split; [apply dframe_refl|exists []; rewrite app_nil_r; split; [reflexivity|constructor]]].
    match goal with |- context [q_add ?a ?b ?d] => destruct (q_add a b d) as [[q' evs]| | |] end;
      try (cbn [fst snd]; split; [apply dframe_refl|exists []; rewrite app_nil_r; split; [reflexivity|constructor]]).
    cbn [fst snd]. split.
    + eapply dframe_trans; [|apply BrokerQos2P.release_dropped_frame].
      eapply dframe_trans; [apply dframe_set_queues|apply dframe_set_picks_tag].
    + eexists. split; [reflexivity|apply drops_of_only].
  - split; [exact F|]. rewrite E. exact D.
Qed.

(* the store after the topics of l have been processed, starting from d *)
Definition hs_store (h : hooks) (k : conn) (v5 : bool) (subid : N) (topics l : list topic_req) (d : db) : db :=
  fold_left (fun d t => if hs_code h k v5 subid topics t <? 128
                        then fst (db_subscribe (k_cid k) (hs_sub h k subid topics t) d) else d) l d.

Lemma hs_body_spec c k v5 subid topics s0 o0 cs t :
  let r := hs_body c k v5 subid topics (s0, o0, cs) t in
  sproj (fst (fst r)) = sproj s0 /\
  b_subs (fst (fst r)) = hs_store (b_hooks s0) k v5 subid topics [t] (b_subs s0) /\
  snd r = cs ++ [hs_code (b_hooks s0) k v5 subid topics t] /\
  exists o', snd (fst r) = o0 ++ o' /\ only_drops o'.
Proof.
  cbv zeta. rewrite hs_body_eq. cbv zeta. unfold hs_store. cbn [fold_left].
  destruct (hs_code (b_hooks s0) k v5 subid topics t <? 128);
    [|cbn [fst snd]; repeat split; exists []; rewrite app_nil_r; split; [reflexivity|constructor]].
  destruct (db_subscribe (k_cid k) (hs_sub (b_hooks s0) k subid topics t) (b_subs s0)) as [d' existed]. cbn [fst].
  destruct (hs_replays (hs_sub (b_hooks s0) k subid topics t) existed t).
  - pose proof (replay_retained_dframe c k (hs_sub (b_hooks s0) k subid topics t) (set_subs d' s0)) as [F D].
    destruct (replay_retained c k (hs_sub (b_hooks s0) k subid topics t) (set_subs d' s0)) as [s2 o2].
    cbn [fst snd] in *. split; [|split; [|split]].
    + now rewrite (dframe_sproj _ _ F).
    + now rewrite (df_subs _ _ F).
    + reflexivity.
    + exists o2. now split.
  - cbn [fst snd]. repeat split. exists []. split; [reflexivity|constructor].
Qed.

Lemma hs_fold_spec c k v5 subid topics : forall l s0 o0 cs,
  let r := fold_left (hs_body c k v5 subid topics) l (s0, o0, cs) in
  sproj (fst (fst r)) = sproj s0 /\
  b_subs (fst (fst r)) = hs_store (b_hooks s0) k v5 subid topics l (b_subs s0) /\
  snd r = cs ++ map (hs_code (b_hooks s0) k v5 subid topics) l /\
  exists o', snd (fst r) = o0 ++ o' /\ only_drops o'.
Proof.
  induction l as [|t l IH]; intros s0 o0 cs; cbv zeta; cbn [fold_left map].
  - cbn [fst snd]. rewrite app_nil_r. repeat split. exists []. rewrite app_nil_r. split; [reflexivity|constructor].
  - pose proof (hs_body_spec c k v5 subid topics s0 o0 cs t) as H. cbv zeta in H.
    destruct (hs_body c k v5 subid topics (s0, o0, cs) t) as [[s1 o1] cs1]. cbn [fst snd] in H.
    destruct H as (P1 & S1 & C1 & o' & O1 & D1).
    specialize (IH s1 o1 cs1). cbv zeta in IH. destruct IH as (P2 & S2 & C2 & o'' & O2 & D2).
    rewrite (sp_hooks _ _ P1) in S2, C2.
    split; [congruence|]. split; [|split].
    + rewrite S2, S1. reflexivity.
    + rewrite C2, C1, <- app_assoc. reflexivity.
    + exists (o' ++ o''). rewrite O2, O1, app_assoc. split; [reflexivity|now apply only_drops_app].
Qed.

(* ---- 2.3 handle_subscribe ---- *)

(* the Subscription Identifier the subscriptions of the packet carry *)
Definition sub_subid (k : conn) (props : list prop) : N :=
  if (k_v k =? 5) && k_subid k then match p_subids props with i :: _ => i | [] => 0 end else 0.

(* the packet is refused as a whole before any hook is asked: a v5 client sends a Subscription Identifier
   although the broker does not support them (DISCONNECT 161) *)
Definition sub_refused (k : conn) (props : list prop) (s : st) : bool :=
  (k_v k =? 5) && negb (c_subid (b_cfg s)) && negb (sub_subid k props =? 0).

Lemma subscribe_refused c k pid props topics s :
  sub_refused k props s = true -> handle_subscribe c k pid props topics s = HErr s [] (Some 161).
Proof. intros H. rewrite handle_subscribe_eq. cbv zeta. fold (sub_subid k props). unfold sub_refused in H. now rewrite H. Qed.

(* (a) OnSubscribe fails for the packet as a whole (h_sub_all = Some code): a SUBACK with that code for every
   topic (128 towards a v3 client), the connection goes on, and the state - in particular the subscription
   store - is exactly as before *)
Theorem subscribe_all_rejected c k pid props topics s code :
  sub_refused k props s = false -> h_sub_all (b_hooks s) = Some code ->
  handle_subscribe c k pid props topics s =
  HOk s [OSend c (KSuback pid (map (fun _ => if k_v k =? 5 then code else 128) topics) [])].
Proof.
  intros Hr Ha. rewrite handle_subscribe_eq. cbv zeta. fold (sub_subid k props).
  unfold sub_refused in Hr. now rewrite Hr, Ha.
Qed.

(* (b) the per-topic verdicts *)
Theorem subscribe_spec c k pid props topics s :
  sub_refused k props s = false -> h_sub_all (b_hooks s) = None ->
  let h := b_hooks s in
  let v5 := k_v k =? 5 in
  let subid := sub_subid k props in
  exists s' o,
    handle_subscribe c k pid props topics s =
      HOk s' (o ++ [OSend c (KSuback pid (map (hs_code h k v5 subid topics) topics) [])]) /\
    only_drops o /\
    sproj s' = sproj s /\
    b_subs s' = hs_store h k v5 subid topics topics (b_subs s).
Proof.
  intros Hr Ha. cbv zeta. rewrite handle_subscribe_eq. cbv zeta. fold (sub_subid k props).
  unfold sub_refused in Hr. rewrite Hr, Ha.
  pose proof (hs_fold_spec c k (k_v k =? 5) (sub_subid k props) topics topics s [] []) as H. cbv zeta in H.
  destruct (fold_left (hs_body c k (k_v k =? 5) (sub_subid k props) topics) topics (s, [], [])) as [[s' o] codes].
  cbn [fst snd] in H. destruct H as (P & S & C & o' & O & D). cbn [app] in C, O. subst codes o.
  exists s', o'. repeat split; assumption.
Qed.

(* ---- 2.4 the verdicts one by one ---- *)

Lemma hs_reject h k v5 subid topics t cd :
  sub_verdict h (k_cid k) (tq_name t) = SReject cd ->
  hs_code h k v5 subid topics t = (if v5 then cd else 128).
Proof. unfold hs_code. now intros ->. Qed.

Lemma hs_downgrade h k v5 subid topics t q :
  sub_verdict h (k_cid k) (tq_name t) = SQos q ->
  hs_sub h k subid topics t = with_sub_qos q (req_sub subid topics t) /\
  hs_code h k v5 subid topics t = cap_code k v5 subid (with_sub_qos q (req_sub subid topics t)).
Proof. unfold hs_code, hs_sub. now intros ->. Qed.

(* a topic the hook has no opinion on is treated exactly as it is without any hook *)
Lemma hs_untouched h k v5 subid topics t :
  sub_verdict h (k_cid k) (tq_name t) = SAccept ->
  hs_sub h k subid topics t = hs_sub no_hooks k subid topics t /\
  hs_sub h k subid topics t = req_sub subid topics t /\
  hs_code h k v5 subid topics t = hs_code no_hooks k v5 subid topics t.
Proof. unfold hs_code, hs_sub. rewrite !sub_verdict_no_hooks. now intros ->. Qed.

(* when nothing is switched off for the client the broker's own checks grant what is asked *)
Lemma cap_code_plain k v5 subid sb :
  v5 = false \/ (k_shared k = true /\ k_subid k = true /\ k_wildcard k = true) ->
  cap_code k v5 subid sb = s_qos sb.
Proof.
  unfold cap_code. intros [->|(-> & -> & ->)]; [reflexivity|]. cbn [negb]. now rewrite !andb_false_r.
Qed.

Lemma cap_code_cases k v5 subid sb :
  cap_code k v5 subid sb = s_qos sb \/ cap_code k v5 subid sb = 158 \/ cap_code k v5 subid sb = 161 \/
  cap_code k v5 subid sb = 162.
Proof.
  unfold cap_code.
  destruct (v5 && negb (k_wildcard k) && has_wildcard (s_filter sb)); [auto|].
  destruct (v5 && negb (k_subid k) && negb (subid =? 0)); [auto|].
  destruct (v5 && negb (is_empty (s_share sb)) && negb (k_shared k)); auto.
Qed.

(* ---- 2.5 the store seen through the flat specification (Model/SubSpec.v) ---- *)

(* the accepted subscriptions of the packet, in order *)
Definition hs_subs (h : hooks) (k : conn) (v5 : bool) (subid : N) (topics l : list topic_req) : list sub :=
  flat_map (fun t => if hs_code h k v5 subid topics t <? 128 then [hs_sub h k subid topics t] else []) l.

Definition hs_ops (h : hooks) (k : conn) (v5 : bool) (subid : N) (topics : list topic_req) : list op :=
  map (OSub (k_cid k)) (hs_subs h k v5 subid topics topics).

Lemma hs_store_ops h k v5 subid topics : forall l d,
  hs_store h k v5 subid topics l d = fold_left db_step (map (OSub (k_cid k)) (hs_subs h k v5 subid topics l)) d.
Proof.
  unfold hs_store, hs_subs. induction l as [|t l IH]; intros d; cbn [fold_left flat_map map]; [reflexivity|].
  rewrite map_app, fold_left_app, IH.
  destruct (hs_code h k v5 subid topics t <? 128); reflexivity.
Qed.

Lemma in_hs_subs h k v5 subid topics l sb :
  In sb (hs_subs h k v5 subid topics l) <->
  exists t, In t l /\ hs_code h k v5 subid topics t < 128 /\ sb = hs_sub h k subid topics t.
Proof.
  unfold hs_subs. rewrite in_flat_map. split.
  - intros (t & Hin & Hs). destruct (hs_code h k v5 subid topics t <? 128) eqn:E; [|destruct Hs].
    destruct Hs as [<-|[]]. exists t. repeat split; [exact Hin|lia].
  - intros (t & Hin & Hc & ->). exists t. split; [exact Hin|].
    destruct (hs_code h k v5 subid topics t <? 128) eqn:E; [now left|lia].
Qed.

Lemma last_with_name_name name : forall l d, tq_name d = name -> tq_name (last_with_name name l d) = name.
Proof.
  induction l as [|t l IH]; intros d Hd; cbn [last_with_name]; [exact Hd|]. apply IH.
  destruct (str_eqb_spec (tq_name t) name) as [E|E]; [exact E|exact Hd].
Qed.

Lemma last_with_name_default name : forall l d d',
  (exists t, In t l /\ tq_name t = name) -> last_with_name name l d = last_with_name name l d'.
Proof.
  induction l as [|t0 l IH]; intros d d' (t & Hin & Hn); [destruct Hin|]. cbn [last_with_name].
  destruct (str_eqb_spec (tq_name t0) name) as [E|E]; [reflexivity|].
  apply IH. exists t. split; [|exact Hn]. destruct Hin as [->|Hin]; [contradiction|exact Hin].
Qed.

(* the key under which the subscription of t is stored: its share name and filter *)
Definition tkey (cid : str) (t : topic_req) : skey := (cid, fst (split_topic (tq_name t)), snd (split_topic (tq_name t))).
Definition sub_key (c : str) (sb : sub) : skey := (c, s_share sb, s_filter sb).

Lemma sub_of_req_key t id :
  s_share (sub_of_req t id) = fst (split_topic (tq_name t)) /\ s_filter (sub_of_req t id) = snd (split_topic (tq_name t)).
Proof. unfold sub_of_req. destruct (split_topic (tq_name t)) as [g f]. split; reflexivity. Qed.

Lemma hs_sub_key h k subid topics t : sub_key (k_cid k) (hs_sub h k subid topics t) = tkey (k_cid k) t.
Proof.
  unfold sub_key, tkey, hs_sub, req_sub.
  destruct (sub_of_req_key (last_with_name (tq_name t) topics t) subid) as [E1 E2].
  rewrite (last_with_name_name (tq_name t) topics t eq_refl) in E1, E2.
  destruct (sub_verdict h (k_cid k) (tq_name t)); cbn [with_sub_qos s_share s_filter]; now rewrite E1, E2.
Qed.

(* two entries of the packet with the same name get the same subscription and the same code *)
Lemma hs_same_name h k v5 subid topics t t' :
  In t topics -> In t' topics -> tq_name t' = tq_name t ->
  hs_sub h k subid topics t' = hs_sub h k subid topics t /\
  hs_code h k v5 subid topics t' = hs_code h k v5 subid topics t.
Proof.
  intros Hin Hin' Hn.
  assert (E : hs_sub h k subid topics t' = hs_sub h k subid topics t).
  { unfold hs_sub, req_sub. rewrite Hn.
    rewrite (last_with_name_default (tq_name t) topics t' t) by (exists t; now split). reflexivity. }
  split; [exact E|]. unfold hs_code. now rewrite Hn, E.
Qed.

Lemma hs_ops_wf h k v5 subid topics : k_cid k <> [] -> wf_ops (hs_ops h k v5 subid topics) = true.
Proof.
  intros Hne. unfold wf_ops, hs_ops. apply forallb_forall. intros o Hin.
  apply in_map_iff in Hin as (sb & <- & Hin). apply in_hs_subs in Hin as (t & _ & _ & ->).
  cbn [wf_op]. apply andb_true_intro. split; [now apply negb_true_iff, is_empty_false|].
  pose proof (hs_sub_key h k subid topics t) as E. unfold sub_key, tkey in E. injection E as E _. rewrite E.
  apply split_topic_no_slash.
Qed.

(* the value of key K after the subscriptions of l have been written over a store in which it was acc *)
Fixpoint last_sub (K : skey) (c : str) (l : list sub) (acc : option sub) : option sub :=
  match l with
  | [] => acc
  | sb :: r => last_sub K c r (if skey_eqb K (sub_key c sb) then Some sb else acc)
  end.

Lemma sp_get_subs K c : forall l sp,
  sp_get K (fold_left spec_step (map (OSub c) l) sp) = last_sub K c l (sp_get K sp).
Proof.
  induction l as [|sb l IH]; intros sp; cbn [map fold_left last_sub]; [reflexivity|].
  rewrite IH. cbn [spec_step]. rewrite sp_get_set. reflexivity.
Qed.

Lemma last_sub_cases K c : forall l acc,
  (last_sub K c l acc = acc /\ forall sb, In sb l -> sub_key c sb <> K) \/
  (exists sb, In sb l /\ sub_key c sb = K /\ last_sub K c l acc = Some sb).
Proof.
  induction l as [|sb l IH]; intros acc; cbn [last_sub].
  - left. split; [reflexivity|]. intros sb [].
  - destruct (IH (if skey_eqb K (sub_key c sb) then Some sb else acc)) as [[E Hn]|(sb' & Hin & Hk & E)].
    + destruct (skey_eqb_spec K (sub_key c sb)) as [Ek|Ek].
      * right. exists sb. split; [now left|]. split; [now symmetry|exact E].
      * left. split; [exact E|]. intros sb' [<-|Hin]; [congruence|now apply Hn].
    + right. exists sb'. split; [now right|]. now split.
Qed.

(* in a packet, every entry stored under the key of t carries the name of t (always so when no two distinct
   names of the packet denote the same share name and filter, e.g. when none of them starts with "$share/") *)
Definition name_owns_key (topics : list topic_req) (t : topic_req) : Prop :=
  forall t', In t' topics -> split_topic (tq_name t') = split_topic (tq_name t) -> tq_name t' = tq_name t.

Lemma plain_names_own_keys topics t :
  (forall t', In t' topics -> has_prefix SHARE_PREFIX (tq_name t') = false) -> In t topics -> name_owns_key topics t.
Proof.
  intros Hp Hin t' Hin' E. rewrite (split_topic_plain _ (Hp t' Hin')), (split_topic_plain _ (Hp t Hin)) in E.
  now injection E.
Qed.

Lemma tkey_eq cid t t' : tkey cid t' = tkey cid t -> split_topic (tq_name t') = split_topic (tq_name t).
Proof.
  unfold tkey. destruct (split_topic (tq_name t')) as [g' f'], (split_topic (tq_name t)) as [g f]. cbn [fst snd].
  now intros [= -> ->].
Qed.

Theorem subscribe_store h k v5 subid topics ops :
  k_cid k <> [] -> wf_ops ops = true ->
  let cid := k_cid k in
  let ops' := ops ++ hs_ops h k v5 subid topics in
  wf_ops ops' = true /\
  hs_store h k v5 subid topics topics (db_run ops) = db_run ops' /\
  (* a key under which the packet installs nothing keeps its entry, or stays absent *)
  (forall K, (forall t, In t topics -> hs_code h k v5 subid topics t < 128 -> tkey cid t <> K) ->
             sp_get K (spec_run ops') = sp_get K (spec_run ops)) /\
  (* an accepted topic is stored as the hook left it *)
  (forall t, In t topics -> hs_code h k v5 subid topics t < 128 -> name_owns_key topics t ->
             sp_get (tkey cid t) (spec_run ops') = Some (hs_sub h k subid topics t)) /\
  (* a refused topic leaves no trace *)
  (forall t, In t topics -> 128 <= hs_code h k v5 subid topics t -> name_owns_key topics t ->
             sp_get (tkey cid t) (spec_run ops') = sp_get (tkey cid t) (spec_run ops)).
Proof.
  intros Hne Hwf. cbv zeta.
  assert (Hget : forall K, sp_get K (spec_run (ops ++ hs_ops h k v5 subid topics)) =
                           last_sub K (k_cid k) (hs_subs h k v5 subid topics topics) (sp_get K (spec_run ops))).
  { intros K. unfold spec_run, hs_ops. rewrite fold_left_app. apply sp_get_subs. }
  assert (Hno : forall K, (forall t, In t topics -> hs_code h k v5 subid topics t < 128 -> tkey (k_cid k) t <> K) ->
                sp_get K (spec_run (ops ++ hs_ops h k v5 subid topics)) = sp_get K (spec_run ops)).
  { intros K HK. rewrite Hget.
    destruct (last_sub_cases K (k_cid k) (hs_subs h k v5 subid topics topics) (sp_get K (spec_run ops)))
      as [[E _]|(sb & Hin & Hk & _)]; [exact E|].
    apply in_hs_subs in Hin as (t & Hin & Hc & ->). rewrite hs_sub_key in Hk. now elim (HK t Hin Hc). }
  split; [|split; [|split; [|split]]].
  - unfold wf_ops in *. rewrite forallb_app, Hwf. now apply hs_ops_wf.
  - rewrite hs_store_ops. unfold db_run, hs_ops. now rewrite fold_left_app.
  - exact Hno.
  - intros t Hin Hc Hown. rewrite Hget.
    destruct (last_sub_cases (tkey (k_cid k) t) (k_cid k) (hs_subs h k v5 subid topics topics)
                             (sp_get (tkey (k_cid k) t) (spec_run ops))) as [[_ Hn]|(sb & Hin' & Hk & ->)].
    + exfalso. apply (Hn (hs_sub h k subid topics t)); [|apply hs_sub_key].
      apply in_hs_subs. exists t. now repeat split.
    + apply in_hs_subs in Hin' as (t' & Hin' & _ & ->). rewrite hs_sub_key in Hk.
      apply tkey_eq in Hk. apply (Hown t' Hin') in Hk.
      now rewrite (proj1 (hs_same_name h k v5 subid topics t t' Hin Hin' Hk)).
  - intros t Hin Hc Hown. apply Hno. intros t' Hin' Hc' Hk.
    apply tkey_eq in Hk. apply (Hown t' Hin') in Hk.
    rewrite (proj2 (hs_same_name h k v5 subid topics t t' Hin Hin' Hk)) in Hc'. lia.
Qed.

(* "the store holds it" said of the trie: the lookup by exact filter name (the query the broker's
   subscription API and `deliver` are built from) returns the entry of the specification *)
Lemma installed_lookup ops cid f sb :
  wf_ops ops = true -> cid <> [] -> f <> [] ->
  sp_get (cid, [], f) (spec_run ops) = Some sb ->
  exists l, db_iterate (q_name f cid) (db_run ops) = IOk (some_ents l) /\
            forall c' s', In (c', s') l <-> (c' = cid /\ s' = sb).
Proof.
  intros Hwf Hc Hf Hget. destruct (lookup_name_exact ops f cid Hwf Hf) as (l & E & _ & Hl).
  exists l. split; [exact E|]. intros c' s'. rewrite Hl. unfold want_client. split.
  - intros [Hg [Hw|Hw]]; [contradiction|]. subst c'. split; [reflexivity|].
    pose proof (eq_trans (eq_sym Hg) Hget) as X. now injection X.
  - intros [-> ->]. split; [exact Hget|now right].
Qed.

Lemma not_installed_lookup ops cid f :
  wf_ops ops = true -> cid <> [] -> f <> [] ->
  sp_get (cid, [], f) (spec_run ops) = None ->
  db_iterate (q_name f cid) (db_run ops) = IOk [].
Proof.
  intros Hwf Hc Hf Hget. destruct (lookup_name_exact ops f cid Hwf Hf) as (l & E & _ & Hl).
  rewrite E. destruct l as [|[c' s'] r]; [reflexivity|]. exfalso.
  destruct (proj1 (Hl c' s') (or_introl eq_refl)) as [Hg [Hw|Hw]]; [contradiction|]. subst c'.
  pose proof (eq_trans (eq_sym Hg) Hget) as X. discriminate X.
Qed.

Lemma installed_lookup_shared ops cid g f sb :
  wf_ops ops = true -> cid <> [] -> g <> [] -> no_slash g = true -> f <> [] ->
  sp_get (cid, g, f) (spec_run ops) = Some sb ->
  exists l, db_iterate (q_sh_name (SHARE_PREFIX ++ g ++ SLASH :: f) cid) (db_run ops) = IOk (some_ents l) /\
            forall c' s', In (c', s') l <-> (c' = cid /\ s' = sb).
Proof.
  intros Hwf Hc Hg Hns Hf Hget. destruct (sh_lookup_name_exact ops g f cid Hwf Hg Hns Hf) as (l & E & _ & Hl).
  exists l. split; [exact E|]. intros c' s'. rewrite Hl. unfold want_client. split.
  - intros [Hg' [Hw|Hw]]; [contradiction|]. subst c'. split; [reflexivity|].
    pose proof (eq_trans (eq_sym Hg') Hget) as X. now injection X.
  - intros [-> ->]. split; [exact Hget|now right].
Qed.

(* the i-th code of the SUBACK is the code of the i-th topic *)
Lemma suback_nth (f : topic_req -> N) topics i t :
  nth_error topics i = Some t -> nth_error (map f topics) i = Some (f t).
Proof. intros H. now apply map_nth_error. Qed.

(* ---- 2.6 Target 2 ---- *)
Theorem subscribe_hook_enforced c k pid props topics s ops :
  k_cid k <> [] -> wf_ops ops = true -> b_subs s = db_run ops ->
  sub_refused k props s = false ->
  let h := b_hooks s in
  let cid := k_cid k in
  let v5 := k_v k =? 5 in
  let subid := sub_subid k props in
  match h_sub_all h with
  | Some code =>
      (* (a) *)
      handle_subscribe c k pid props topics s =
      HOk s [OSend c (KSuback pid (map (fun _ => if v5 then code else 128) topics) [])]
  | None =>
      (* (b) *)
      exists s' o,
        let ops' := ops ++ hs_ops h k v5 subid topics in
        handle_subscribe c k pid props topics s =
          HOk s' (o ++ [OSend c (KSuback pid (map (hs_code h k v5 subid topics) topics) [])]) /\
        only_drops o /\ sproj s' = sproj s /\
        b_subs s' = db_run ops' /\ wf_ops ops' = true /\
        (forall t, In t topics ->
           match sub_verdict h cid (tq_name t) with
           | SReject cd =>
               hs_code h k v5 subid topics t = (if v5 then cd else 128) /\
               (128 <= (if v5 then cd else 128) -> name_owns_key topics t ->
                sp_get (tkey cid t) (spec_run ops') = sp_get (tkey cid t) (spec_run ops))
           | SQos q =>
               let sb := with_sub_qos q (req_sub subid topics t) in
               hs_code h k v5 subid topics t = cap_code k v5 subid sb /\
               (cap_code k v5 subid sb < 128 -> name_owns_key topics t ->
                sp_get (tkey cid t) (spec_run ops') = Some sb) /\
               (128 <= cap_code k v5 subid sb -> name_owns_key topics t ->
                sp_get (tkey cid t) (spec_run ops') = sp_get (tkey cid t) (spec_run ops))
           | SAccept =>
               let sb := req_sub subid topics t in
               hs_code h k v5 subid topics t = hs_code no_hooks k v5 subid topics t /\
               hs_code h k v5 subid topics t = cap_code k v5 subid sb /\
               (cap_code k v5 subid sb < 128 -> name_owns_key topics t ->
                sp_get (tkey cid t) (spec_run ops') = Some sb) /\
               (128 <= cap_code k v5 subid sb -> name_owns_key topics t ->
                sp_get (tkey cid t) (spec_run ops') = sp_get (tkey cid t) (spec_run ops))
           end) /\
        (forall K, (forall t, In t topics -> tkey cid t <> K) -> sp_get K (spec_run ops') = sp_get K (spec_run ops))
  end.
Proof.
  intros Hne Hwf Hd Hr. cbv zeta.
  destruct (h_sub_all (b_hooks s)) as [code|] eqn:Ha; [now apply subscribe_all_rejected|].
  destruct (subscribe_spec c k pid props topics s Hr Ha) as (s' & o & E & D & P & S). cbv zeta in E, S.
  set (h := b_hooks s) in *. set (v5 := k_v k =? 5) in *. set (subid := sub_subid k props) in *.
  destruct (subscribe_store h k v5 subid topics ops Hne Hwf) as (W & R & Hno & Hacc & Hrej). cbv zeta in *.
  exists s', o. split; [exact E|]. split; [exact D|]. split; [exact P|].
  split; [now rewrite S, Hd|]. split; [exact W|]. split.
  - intros t Hin. destruct (sub_verdict h (k_cid k) (tq_name t)) as [|cd|q] eqn:Ev.
    + destruct (hs_untouched h k v5 subid topics t Ev) as (_ & E2 & E3).
      assert (E4 : hs_code h k v5 subid topics t = cap_code k v5 subid (req_sub subid topics t)).
      { unfold hs_code. now rewrite Ev, E2. }
      split; [exact E3|]. split; [exact E4|]. split.
      * intros Hc Hown. rewrite <- E2. apply Hacc; [exact Hin| |exact Hown]. now rewrite E4.
      * intros Hc Hown. apply Hrej; [exact Hin| |exact Hown]. now rewrite E4.
    + pose proof (hs_reject h k v5 subid topics t cd Ev) as E1. split; [exact E1|].
      intros Hc Hown. apply Hrej; [exact Hin| |exact Hown]. now rewrite E1.
    + destruct (hs_downgrade h k v5 subid topics t q Ev) as (E1 & E2). split; [exact E2|]. split.
      * intros Hc Hown. rewrite <- E1. apply Hacc; [exact Hin| |exact Hown]. now rewrite E2.
      * intros Hc Hown. apply Hrej; [exact Hin| |exact Hown]. now rewrite E2.
  - intros K HK. apply Hno. intros t Hin _. now apply HK.
Qed.

(* the same for the scenario event: a SUBSCRIBE with valid filters arriving on a connected socket *)
Lemma subscribe_event c k pid props topics s :
  nget c (b_conns s) = Some k -> k_phase k = PhConnected ->
  forallb (fun t => let '(g, f) := split_topic (tq_name t) in valid_filter_spec f) topics = true ->
  forall s' o, handle_subscribe c k pid props topics s = HOk s' o ->
  step_event s (ESend c (KSubscribe pid props topics)) = (s', o).
Proof.
  intros Hk Hp Hv s' o E. cbn [step_event]. rewrite Hk, Hp. cbn [handle_packet]. now rewrite Hv, E.
Qed.

(* a packet that its handler accepts, as a scenario event on a connected socket *)
Lemma send_event_ok c k p s s' o :
  nget c (b_conns s) = Some k -> k_phase k = PhConnected ->
  handle_packet c k p s = HOk s' o -> step_event s (ESend c p) = (s', o).
Proof. intros Hk Hp E. cbn [step_event]. now rewrite Hk, Hp, E. Qed.

(* ================================================================== *)
(* 3. PUBLISH                                                          *)
(* ================================================================== *)

(* OnMsgArrived for a message on topic t (pub_action of Proofs/BrokerQos2P.v reads it for the message the
   topic-alias stage produced) *)
Definition msg_verdict (h : hooks) (t : str) : msg_action :=
  if h_msg_on h then opt_or (aget t (h_msg h)) MAccept else MAccept.

Lemma pub_action_verdict m s : pub_action m s = msg_verdict (b_hooks s) (m_topic m).
Proof. reflexivity. Qed.

(* a refusing verdict and the error it hands to the acknowledgement: reject = Some code, drop = none *)
Definition refusal (a : msg_action) : option (option N) :=
  match a with MReject cd => Some (Some cd) | MDrop => Some None | _ => None end.

(* the reason code of the PUBACK / PUBREC after a refusal: towards a v5 publisher the hook's code, or 16
   ("no matching subscribers") when the hook dropped the message silently; always 0 towards a v3 publisher *)
Lemma pub_code_refused v5 err :
  pub_code v5 false err = if v5 then match err with Some cd => cd | None => 16 end else 0.
Proof. reflexivity. Qed.

(* what forwarding a message means when no hook interferes *)
Definition fwd_plain (k : conn) (m : msg) (s : st) : st * list out * bool * option N :=
  let '(s', o, mt) := deliver (k_cid k) m (retain_update m s) in (s', o, mt, None).

Lemma pub_fwd_refused k m s err :
  refusal (msg_verdict (b_hooks s) (m_topic m)) = Some err -> pub_fwd k m false s = (s, [], false, err).
Proof.
  unfold pub_fwd. rewrite pub_action_verdict.
  destruct (msg_verdict (b_hooks s) (m_topic m)); cbn [refusal]; intros [= <-]; reflexivity.
Qed.

Lemma pub_fwd_accepted k m s :
  msg_verdict (b_hooks s) (m_topic m) = MAccept -> pub_fwd k m false s = fwd_plain k m s.
Proof. unfold pub_fwd. rewrite pub_action_verdict. now intros ->. Qed.

Lemma pub_fwd_rewritten k m s t p q :
  msg_verdict (b_hooks s) (m_topic m) = MRewrite t p q ->
  pub_fwd k m false s = fwd_plain k (rewrite_msg t p q m) s.
Proof. unfold pub_fwd. rewrite pub_action_verdict. now intros ->. Qed.

Lemma pub_fwd_no_hook k m s : h_msg_on (b_hooks s) = false -> pub_fwd k m false s = fwd_plain k m s.
Proof. intros H. apply pub_fwd_accepted. unfold msg_verdict. now rewrite H. Qed.

(* the bookkeeping before and after the forwarding stage touches only the unack sets and the publisher's
   connection record *)
Lemma pub_mark_fresh c k v5 qos pid s :
  (qos = 2 -> ~ In pid (Uof (k_cid k) s)) ->
  exists s1, pub_mark c k v5 qos pid s = (s1, false) /\ qproj s1 = qproj s.
Proof.
  intros Hn. destruct (qos =? 2) eqn:E.
  - apply N.eqb_eq in E. subst qos. rewrite pub_mark_qos2. cbv zeta.
    rewrite (memN_false _ _ (Hn eq_refl)). eexists. split; reflexivity.
  - rewrite (pub_mark_not2 _ _ _ _ _ _ E). eexists. split; reflexivity.
Qed.

Lemma pub_finish_qproj c k v5 qos pid s o mt err :
  exists s', pub_finish c k v5 qos pid (s, o, mt, err) = HOk s' (o ++ pub_ack c qos pid (pub_code v5 mt err)) /\
             qproj s' = qproj s.
Proof.
  unfold pub_finish, pub_ack.
  match goal with |- context [nget c (b_conns ?X)] =>
    assert (Q : qproj X = qproj s) by (destruct ((qos =? 2) && (128 <=? pub_code v5 mt err)); reflexivity);
    destruct (nget c (b_conns X)) as [k1|] end.
  - match goal with |- context [if ?b then upd_conn _ _ _ else _] => destruct b end;
      eexists; (split; [reflexivity|exact Q]).
  - eexists. split; [reflexivity|exact Q].
Qed.

(* handle_packet for a PUBLISH that passes the protocol checks and is not a QoS 2 retransmission: the three
   stages with the duplicate flag resolved *)
Lemma handle_packet_publish_fresh c k dup qos retain topic payload pid props s :
  let v5 := k_v k =? 5 in
  pub_accepts k qos retain topic props = true ->
  (qos = 2 -> ~ In pid (Uof (k_cid k) s)) ->
  exists k' m s1,
    pub_alias v5 (charge k qos) topic props (msg_of_publish v5 dup qos retain topic payload pid props) = inl (Some (k', m)) /\
    k_cid k' = k_cid k /\ qproj s1 = qproj s /\
    handle_packet c k (KPublish dup qos retain topic payload pid props) s = pub_finish c k' v5 qos pid (pub_fwd k' m false s1).
Proof.
  intros v5 Hacc Hn.
  destruct (handle_packet_publish c k dup qos retain topic payload pid props s Hacc) as (k' & m & Hal & E).
  fold v5 in Hal, E. pose proof (pub_alias_cid _ _ _ _ _ _ _ Hal) as (Ec & _).
  destruct (charge_fields k qos) as (Ec2 & _). rewrite Ec2 in Ec.
  destruct (pub_mark_fresh c k' v5 qos pid (upd_conn c k' (upd_conn c (charge k qos) s))) as (s1 & Em & Q).
  { rewrite Ec. exact Hn. }
  exists k', m, s1. split; [exact Hal|]. split; [exact Ec|]. split; [exact Q|].
  rewrite E. cbv zeta. now rewrite Em.
Qed.

(* Target 3a.  The hook rejects or drops the PUBLISH: the publisher gets the acknowledgement of its QoS with
   the code above and nothing else is written; every table except the unack sets and the connection records -
   queues, retained store, subscriptions, sessions, wills, even the tag and pick counters - is as before:
   `deliver` and `retain_update` have not been applied. *)
Theorem publish_refused_by_hook c k s dup qos retain topic payload pid props k' m err :
  let v5 := k_v k =? 5 in
  pub_accepts k qos retain topic props = true ->
  (qos = 2 -> ~ In pid (Uof (k_cid k) s)) ->
  pub_alias v5 (charge k qos) topic props (msg_of_publish v5 dup qos retain topic payload pid props) = inl (Some (k', m)) ->
  refusal (msg_verdict (b_hooks s) (m_topic m)) = Some err ->
  exists s',
    handle_packet c k (KPublish dup qos retain topic payload pid props) s =
      HOk s' (pub_ack c qos pid (if v5 then match err with Some cd => cd | None => 16 end else 0)) /\
    qproj s' = qproj s.
Proof.
  intros v5 Hacc Hn Hal Hv.
  destruct (handle_packet_publish_fresh c k dup qos retain topic payload pid props s Hacc Hn)
    as (k'' & m'' & s1 & Hal' & _ & Q1 & E).
  fold v5 in Hal', E. rewrite Hal in Hal'. injection Hal' as <- <-.
  rewrite E, (pub_fwd_refused k' m s1 err) by (now rewrite (qp_hooks _ _ Q1)).
  destruct (pub_finish_qproj c k' v5 qos pid s1 [] false err) as (s' & E' & Q').
  exists s'. split; [rewrite E'; reflexivity|congruence].
Qed.

(* the usual case: no topic alias in the packet, so the message is the packet's and the hook is asked about
   the packet's topic *)
Corollary publish_refused_by_hook_plain c k s dup qos retain topic payload pid props err :
  let v5 := k_v k =? 5 in
  pub_accepts k qos retain topic props = true ->
  (qos = 2 -> ~ In pid (Uof (k_cid k) s)) ->
  (if v5 then p_alias props else None) = None ->
  refusal (msg_verdict (b_hooks s) topic) = Some err ->
  exists s',
    handle_packet c k (KPublish dup qos retain topic payload pid props) s =
      HOk s' (pub_ack c qos pid (if v5 then match err with Some cd => cd | None => 16 end else 0)) /\
    qproj s' = qproj s.
Proof.
  intros v5 Hacc Hn Hna Hv.
  eapply publish_refused_by_hook; [exact Hacc|exact Hn|apply pub_alias_none; exact Hna|exact Hv].
Qed.

(* Target 3b.  The hook rewrites the message to m' = rewrite_msg t p q m: the handler is the explicit
   composition  bookkeeping ; retain_update m' ; deliver m' ; acknowledgement  - the forwarding stage is
   fwd_plain, the one an un-hooked broker applies (pub_fwd_no_hook), applied to m'. *)
Theorem publish_rewritten_is_what_is_seen c k s dup qos retain topic payload pid props k' m t p q :
  let v5 := k_v k =? 5 in
  pub_accepts k qos retain topic props = true ->
  (qos = 2 -> ~ In pid (Uof (k_cid k) s)) ->
  pub_alias v5 (charge k qos) topic props (msg_of_publish v5 dup qos retain topic payload pid props) = inl (Some (k', m)) ->
  msg_verdict (b_hooks s) (m_topic m) = MRewrite t p q ->
  let m' := rewrite_msg t p q m in
  exists s1,
    qproj s1 = qproj s /\
    handle_packet c k (KPublish dup qos retain topic payload pid props) s =
      (let '(s2, o, mt) := deliver (k_cid k) m' (retain_update m' s1) in
       pub_finish c k' v5 qos pid (s2, o, mt, None)).
Proof.
  intros v5 Hacc Hn Hal Hv m'.
  destruct (handle_packet_publish_fresh c k dup qos retain topic payload pid props s Hacc Hn)
    as (k'' & m'' & s1 & Hal' & Ec & Q1 & E).
  fold v5 in Hal', E. rewrite Hal in Hal'. injection Hal' as <- <-.
  exists s1. split; [exact Q1|].
  rewrite E, (pub_fwd_rewritten k' m s1 t p q) by (now rewrite (qp_hooks _ _ Q1)).
  unfold fwd_plain. rewrite Ec. fold m'.
  destruct (deliver (k_cid k) m' (retain_update m' s1)) as [[s2 o] mt]. reflexivity.
Qed.

(* the same seen from outside: outputs and tables *)
Corollary publish_rewritten_outputs c k s dup qos retain topic payload pid props k' m t p q :
  let v5 := k_v k =? 5 in
  pub_accepts k qos retain topic props = true ->
  (qos = 2 -> ~ In pid (Uof (k_cid k) s)) ->
  pub_alias v5 (charge k qos) topic props (msg_of_publish v5 dup qos retain topic payload pid props) = inl (Some (k', m)) ->
  msg_verdict (b_hooks s) (m_topic m) = MRewrite t p q ->
  let m' := rewrite_msg t p q m in
  exists s1 s2 s3 o mt,
    qproj s1 = qproj s /\ deliver (k_cid k) m' (retain_update m' s1) = (s2, o, mt) /\
    handle_packet c k (KPublish dup qos retain topic payload pid props) s =
      HOk s3 (o ++ pub_ack c qos pid (if v5 then if mt then 0 else 16 else 0)) /\
    qproj s3 = qproj s2 /\
    b_ret s3 = b_ret (retain_update m' s).
Proof.
  intros v5 Hacc Hn Hal Hv m'.
  destruct (publish_rewritten_is_what_is_seen c k s dup qos retain topic payload pid props k' m t p q Hacc Hn Hal Hv)
    as (s1 & Q1 & E). fold v5 m' in E.
  pose proof (deliver_frame (k_cid k) m' (retain_update m' s1)) as [F _].
  destruct (deliver (k_cid k) m' (retain_update m' s1)) as [[s2 o] mt] eqn:Ed. cbn [fst] in F.
  destruct (pub_finish_qproj c k' v5 qos pid s2 o mt None) as (s3 & E3 & Q3).
  exists s1, s2, s3, o, mt. split; [exact Q1|]. split; [exact Ed|]. split; [rewrite E, E3; reflexivity|].
  split; [exact Q3|].
  rewrite (qp_ret _ _ Q3), (df_ret _ _ F). unfold retain_update.
  destruct (m_retained m'); [|apply (qp_ret _ _ Q1)]. cbn [b_ret set_ret]. now rewrite (qp_ret _ _ Q1).
Qed.

(* ================================================================== *)
(* 4. the will                                                         *)
(* ================================================================== *)

(* OnWillPublish for the will of client cid *)
Definition will_verdict (h : hooks) (cid : str) : msg_action :=
  if h_will_on h then opt_or (aget cid (h_will h)) MAccept else MAccept.

Lemma will_action_verdict cid s : will_action cid s = will_verdict (b_hooks s) cid.
Proof. reflexivity. Qed.

(* dropped (or refused): send_will is the identity - no queue, no retained message, nothing at all changes and
   nothing is written *)
Theorem will_dropped cid m s err :
  refusal (will_verdict (b_hooks s) cid) = Some err -> send_will cid m s = (s, []).
Proof.
  unfold send_will. rewrite will_action_verdict.
  destruct (will_verdict (b_hooks s) cid); cbn [refusal]; intros [= <-]; reflexivity.
Qed.

(* rewritten: exactly retain_update and deliver of the rewritten will *)
Theorem will_rewritten cid m s t p q :
  will_verdict (b_hooks s) cid = MRewrite t p q ->
  let m' := with_topic_payload_qos t p q m in
  send_will cid m s = (let '(s', o, _) := deliver cid m' (retain_update m' s) in (s', o)).
Proof. unfold send_will. rewrite will_action_verdict. now intros ->. Qed.

(* untouched: the registered will *)
Theorem will_untouched cid m s :
  will_verdict (b_hooks s) cid = MAccept ->
  send_will cid m s = (let '(s', o, _) := deliver cid m (retain_update m s) in (s', o)).
Proof. unfold send_will. rewrite will_action_verdict. now intros ->. Qed.

(* the edit touches topic, payload, QoS and the RETAIN flag only (the last argument packs QoS and RETAIN: rw_qos, rw_retain) *)
Lemma will_rewrite_fields t p q m :
  let m' := with_topic_payload_qos t p q m in
  m_topic m' = t /\ m_payload m' = p /\ m_qos m' = rw_qos q /\ m_retained m' = rw_retain q (m_retained m) /\ m_dup m' = m_dup m /\
  m_ctype m' = m_ctype m /\ m_corr m' = m_corr m /\ m_expiry m' = m_expiry m /\ m_pfmt m' = m_pfmt m /\
  m_resp m' = m_resp m /\ m_uprops m' = m_uprops m.
Proof. repeat split. Qed.

Lemma pub_rewrite_fields t p q m :
  let m' := rewrite_msg t p q m in
  m_topic m' = t /\ m_payload m' = p /\ m_qos m' = rw_qos q /\ m_retained m' = rw_retain q (m_retained m) /\ m_dup m' = m_dup m /\
  m_ctype m' = m_ctype m /\ m_corr m' = m_corr m /\ m_expiry m' = m_expiry m /\ m_pfmt m' = m_pfmt m /\
  m_resp m' = m_resp m /\ m_uprops m' = m_uprops m.
Proof. repeat split. Qed.

(* Target 4 in one statement *)
Theorem will_hook_enforced cid m s :
  match will_verdict (b_hooks s) cid with
  | MDrop | MReject _ => send_will cid m s = (s, [])
  | MRewrite t p q =>
      let m' := with_topic_payload_qos t p q m in
      send_will cid m s = (let '(s', o, _) := deliver cid m' (retain_update m' s) in (s', o)) /\
      b_ret (fst (send_will cid m s)) = b_ret (retain_update m' s)
  | MAccept =>
      send_will cid m s = (let '(s', o, _) := deliver cid m (retain_update m s) in (s', o)) /\
      b_ret (fst (send_will cid m s)) = b_ret (retain_update m s)
  end.
Proof.
  destruct (will_verdict (b_hooks s) cid) as [|cd| |t p q] eqn:Ev.
  - rewrite (will_untouched cid m s Ev). split; [reflexivity|].
    pose proof (deliver_frame cid m (retain_update m s)) as [F _].
    destruct (deliver cid m (retain_update m s)) as [[s' o] mt]. cbn [fst] in *. apply (df_ret _ _ F).
  - apply (will_dropped cid m s (Some cd)). now rewrite Ev.
  - apply (will_dropped cid m s None). now rewrite Ev.
  - cbv zeta. rewrite (will_rewritten cid m s t p q Ev). cbv zeta. split; [reflexivity|].
    set (m' := with_topic_payload_qos t p q m).
    pose proof (deliver_frame cid m' (retain_update m' s)) as [F _].
    destruct (deliver cid m' (retain_update m' s)) as [[s' o] mt]. cbn [fst] in *. apply (df_ret _ _ F).
Qed.

(* the call site that matters most - the connection of a client with an armed, undelayed will goes away
   (will_immediate of Proofs/BrokerWillP.v) - under a dropping hook: unregister writes nothing and is the
   plain end of a session (ur_finish) on the untouched state *)
Theorem will_dropped_at_unregister c k s se w err :
  aget (k_cid k) (b_sessions s) = Some se -> se_will se = Some w -> k_clean_will k = false ->
  ur_delay k se s = 0 \/ ur_store k se s = false ->
  refusal (will_verdict (b_hooks s) (k_cid k)) = Some err ->
  unregister c k s = ur_finish (k_cid k) se (BrokerWillP.ur_expiry k se s) (ur_store k se s) s [] /\
  snd (unregister c k s) = [] /\
  b_ret (fst (unregister c k s)) = b_ret s.
Proof.
  intros Hse Hw Hcw Hnow Hv.
  destruct (will_immediate c k s se w Hse Hw Hcw Hnow) as [E _].
  rewrite (will_dropped (k_cid k) w s err Hv) in E. rewrite E. split; [reflexivity|].
  unfold ur_finish. destruct (ur_store k se s); split; reflexivity.
Qed.

(* ================================================================== *)
(* 5. non-vacuity, and the statements that are false as first written  *)
(* ================================================================== *)

Definition ex_A : str := [97].  Definition ex_B : str := [98].  Definition ex_D : str := [100].
Definition ex_Q : str := [113]. Definition ex_U : str := [117]. Definition ex_V : str := [118].
Definition ex_X : str := [120]. Definition ex_Y : str := [121]. Definition ex_Z : str := [122].
(* ex_T "t", ex_S "s", ex_P "p" (Proofs/BrokerQos2P.v), ex_W "w" (Proofs/BrokerWillP.v) *)

(* a hooks record with every kind of verdict:
   - authentication: user "u" / password "p" is let in, user "v" / password "p" gets code 4, everybody else 134;
   - OnSubscribe for client "s": "a" refused with 135, "b" down-graded to QoS 0, "d" "refused" with the
     non-failure code 1;
   - OnMsgArrived: "x" refused with 135, "q" "refused" with code 1, "y" dropped, "z" rewritten to topic "t",
     payload [9], QoS 0;
   - OnWillPublish: the will of "w" is dropped, that of "v" rewritten to topic "t", payload [7], QoS 0 *)
Definition ex_hooks : hooks :=
  {| h_auth := Some ([(ex_U, ex_P, 0); (ex_V, ex_P, 4)], 134);
     h_sub_all := None;
     h_sub := [(ex_S, ex_A, SReject 135); (ex_S, ex_B, SQos 0); (ex_S, ex_D, SReject 1)];
     h_msg := [(ex_X, MReject 135); (ex_Q, MReject 1); (ex_Y, MDrop); (ex_Z, MRewrite ex_T [9] 0)]; h_msg_on := true;
     h_will := [(ex_W, MDrop); (ex_V, MRewrite ex_T [7] 0)]; h_will_on := true |}.

Definition ex_hooks_all : hooks :=
  {| h_auth := None; h_sub_all := Some 135; h_sub := []; h_msg := []; h_msg_on := false; h_will := []; h_will_on := false |}.

Definition ex_cn (v : N) (cid user pass : str) (will : option willspec) : connect :=
  {| cn_ver := v; cn_cid := cid; cn_clean := true; cn_keepalive := 0; cn_user := Some user; cn_pass := Some pass;
     cn_will := will; cn_props := [] |}.
Definition ex_tr (n : str) (q : N) : topic_req := {| tq_name := n; tq_qos := q; tq_nl := false; tq_rap := false; tq_rh := 0 |}.
Definition ex_wl (t : str) : willspec := {| w_topic := t; w_payload := [5]; w_qos := 1; w_retain := false; w_props := [] |}.

(* the v5 subscriber "s" is connected on socket 1 *)
Definition ex_h0 : st := fst (run (st_init BrokerQos2P.ex_cfg ex_hooks []) [EConnect 1 (ex_cn 5 ex_S ex_U ex_P None)]).
Definition ex_sub1 : pkt := KSubscribe 5 [] [ex_tr ex_A 1; ex_tr ex_B 1; ex_tr ex_T 1; ex_tr ex_D 2].
(* ... has sent ex_sub1 *)
Definition ex_h1 : st := fst (run ex_h0 [ESend 1 ex_sub1]).
(* ... has subscribed to the hooked topics too, and the v5 publisher "p" is connected on socket 2 *)
Definition ex_h2 : st :=
  fst (run ex_h1 [ESend 1 (KSubscribe 6 [] [ex_tr ex_X 1; ex_tr ex_Q 1; ex_tr ex_Y 1; ex_tr ex_Z 1]);
                  EConnect 2 (ex_cn 5 ex_P ex_U ex_P None)]).

(* --- 1. CONNECT --- *)
Definition ex_bad5 : connect := ex_cn 5 ex_P ex_U ex_X None.     (* wrong password, v5 *)
Definition ex_bad3 : connect := ex_cn 4 ex_P ex_U ex_X None.     (* wrong password, v3.1.1 *)
Definition ex_bad3_4 : connect := ex_cn 4 ex_P ex_V ex_P None.   (* the hook says 4, v3.1.1 *)

Example ex_connect_rejected_hyps :
  unattached ex_h0 2 /\ cid_allowed ex_bad5 ex_h0 = true /\ hc_code ex_bad5 ex_h0 = 134 /\
  hc_code ex_bad3 ex_h0 = 134 /\ hc_code ex_bad3_4 ex_h0 = 4.
Proof.
  split; [intros k H; vm_compute in H; discriminate|]. vm_compute. repeat split.
Qed.

(* what the clients see: v5 134 as it is; v3.1.1 135 for 134 (not a CONNACK return code of MQTT 3.1.1, where
   5 is "not authorized": server/client.go sendErrConnack overrides with codes.NotAuthorized = 0x87), 4 as it is *)
Example ex_connect_rejected_run :
  snd (run ex_h0 [EConnect 2 ex_bad5]) = [[OSend 2 (KConnack false 134 [])]] /\
  snd (run ex_h0 [EConnect 2 ex_bad3]) = [[OSend 2 (KConnack false 135 [])]] /\
  snd (run ex_h0 [EConnect 2 ex_bad3_4]) = [[OSend 2 (KConnack false 4 [])]] /\
  tables (fst (run ex_h0 [EConnect 2 ex_bad5])) = tables ex_h0 /\
  aget ex_P (b_sessions (fst (run ex_h0 [EConnect 2 ex_bad5]))) = None.
Proof. vm_compute. repeat split. Qed.

(* the hypothesis `unattached`: a CONNECT event on a socket that still carries a client first ends that
   client's connection (the model's way of re-using a socket number), which of course changes the tables *)
Example ex_connect_on_attached_socket :
  hc_code ex_bad5 ex_h0 <> 0 /\ ~ unattached ex_h0 1 /\
  aget ex_S (b_sessions ex_h0) <> None /\
  aget ex_S (b_sessions (fst (step_event ex_h0 (EConnect 1 ex_bad5)))) = None.
Proof.
  split; [vm_compute; discriminate|]. split; [|split; [vm_compute; discriminate|vm_compute; reflexivity]].
  intros H. destruct (nget 1 (b_conns ex_h0)) as [k|] eqn:E; [|vm_compute in E; discriminate].
  specialize (H k E). vm_compute in E. injection E as <-. discriminate.
Qed.

(* --- 2. SUBSCRIBE --- *)
Example ex_subscribe_hyps :
  exists k, nget 1 (b_conns ex_h0) = Some k /\ k_phase k = PhConnected /\ k_cid k = ex_S /\ k_cid k <> [] /\
            wf_ops [] = true /\ b_subs ex_h0 = db_run [] /\ sub_refused k [] ex_h0 = false /\
            h_sub_all (b_hooks ex_h0) = None /\
            sub_verdict (b_hooks ex_h0) (k_cid k) ex_A = SReject 135 /\
            sub_verdict (b_hooks ex_h0) (k_cid k) ex_B = SQos 0 /\
            sub_verdict (b_hooks ex_h0) (k_cid k) ex_T = SAccept /\
            name_owns_key [ex_tr ex_A 1; ex_tr ex_B 1; ex_tr ex_T 1; ex_tr ex_D 2] (ex_tr ex_B 1).
Proof.
  eexists. split; [vm_compute; reflexivity|]. repeat (split; [vm_compute; try reflexivity; discriminate|]).
  apply plain_names_own_keys; [|now right; left].
  intros t' [<-|[<-|[<-|[<-|[]]]]]; reflexivity.
Qed.

(* the SUBACK reports the verdicts; the refused filter "a" is not in the store, "b" is there with QoS 0, the
   untouched "t" as asked *)
Example ex_subscribe_run :
  snd (run ex_h0 [ESend 1 ex_sub1]) = [[OSend 1 (KSuback 5 [135; 0; 1; 1] [])]] /\
  db_iterate (q_name ex_A ex_S) (b_subs ex_h1) = IOk [] /\
  db_iterate (q_name ex_B ex_S) (b_subs ex_h1) = IOk (some_ents [(ex_S, with_sub_qos 0 (sub_of_req (ex_tr ex_B 1) 0))]) /\
  db_iterate (q_name ex_T ex_S) (b_subs ex_h1) = IOk (some_ents [(ex_S, sub_of_req (ex_tr ex_T 1) 0)]).
Proof. vm_compute. repeat split. Qed.

(* FALSE as first written ("if the hook rejects topic i with code c ... the store has no new entry"): a v5
   client whose topic the hook refuses with a code below 128 gets that code in the SUBACK - and the
   subscription is installed, with the QoS the client asked for.  Hence the hypothesis 128 <= code in
   subscribe_hook_enforced. *)
Example ex_subscribe_reject_below_128_installs :
  sub_verdict ex_hooks ex_S ex_D = SReject 1 /\
  nth 3 (match snd (run ex_h0 [ESend 1 ex_sub1]) with [[OSend _ (KSuback _ codes _)]] => codes | _ => [] end) 0 = 1 /\
  db_iterate (q_name ex_D ex_S) (b_subs ex_h0) = IOk [] /\
  db_iterate (q_name ex_D ex_S) (b_subs ex_h1) = IOk (some_ents [(ex_S, sub_of_req (ex_tr ex_D 2) 0)]).
Proof. vm_compute. repeat split. Qed.

(* (a): the whole packet fails *)
Definition ex_ha0 : st := fst (run (st_init BrokerQos2P.ex_cfg ex_hooks_all []) [EConnect 1 (ex_cn 5 ex_S ex_U ex_P None)]).
Example ex_subscribe_all_rejected_run :
  h_sub_all (b_hooks ex_ha0) = Some 135 /\
  snd (run ex_ha0 [ESend 1 ex_sub1]) = [[OSend 1 (KSuback 5 [135; 135; 135; 135] [])]] /\
  b_subs (fst (run ex_ha0 [ESend 1 ex_sub1])) = b_subs ex_ha0 /\
  (exists k, nget 1 (b_conns ex_ha0) = Some k /\ sub_refused k [] ex_ha0 = false).
Proof. vm_compute. repeat split. eexists. split; reflexivity. Qed.

(* --- 3. PUBLISH --- *)
Definition ex_pub (qos : N) (topic : str) (pid : N) : pkt := KPublish false qos true topic [1] pid [].

Example ex_publish_hyps :
  exists k, nget 2 (b_conns ex_h2) = Some k /\ k_phase k = PhConnected /\ k_v k = 5 /\
            pub_accepts k 1 true ex_X [] = true /\ Uof (k_cid k) ex_h2 = [] /\
            msg_verdict (b_hooks ex_h2) ex_X = MReject 135 /\ msg_verdict (b_hooks ex_h2) ex_Y = MDrop /\
            msg_verdict (b_hooks ex_h2) ex_Z = MRewrite ex_T [9] 0.
Proof. eexists. split; [vm_compute; reflexivity|]. vm_compute. repeat split. Qed.

(* the subscriber on socket 1 is subscribed to "x", "y", "z" and "t"; it sees nothing of the refused and the
   dropped message, and the rewritten one as the hook wrote it *)
Example ex_publish_run :
  snd (run ex_h2 [ESend 2 (ex_pub 1 ex_X 7); ESend 2 (ex_pub 1 ex_Y 8); ESend 2 (ex_pub 1 ex_Z 9)]) =
    [[OSend 2 (KPuback 7 135 [])]; [OSend 2 (KPuback 8 16 [])];
     [OSend 2 (KPuback 9 0 []); OSend 1 (KPublish false 0 false ex_T [9] 0 [])]] /\
  b_ret (fst (run ex_h2 [ESend 2 (ex_pub 1 ex_X 7); ESend 2 (ex_pub 1 ex_Y 8)])) = b_ret ex_h2 /\
  b_queues (fst (run ex_h2 [ESend 2 (ex_pub 1 ex_X 7); ESend 2 (ex_pub 1 ex_Y 8)])) = b_queues ex_h2.
Proof. vm_compute. repeat split. Qed.

(* the retained store holds the rewritten message (under "t"), nothing under "z" *)
Example ex_publish_rewritten_retained :
  let s := fst (run ex_h2 [ESend 2 (ex_pub 1 ex_Z 9)]) in
  map (fun m => (m_topic m, m_payload m, m_qos m)) (rdb_matched ex_T (b_ret s)) = [(ex_T, [9], 0)] /\
  rdb_matched ex_Z (b_ret s) = [] /\ rdb_matched ex_T (b_ret ex_h2) = [].
Proof. vm_compute. repeat split. Qed.

(* FALSE as first written ("the publisher gets the ack with the hook's code") for a retransmitted QoS 2
   PUBLISH: the hook "refuses" topic "q" with code 1, below 128, so the packet id stays recorded; the
   retransmission is recognised as a duplicate before the hook is asked and is answered with 16.  Hence the
   hypothesis qos = 2 -> ~ In pid (Uof cid s). *)
Example ex_publish_qos2_retransmission :
  msg_verdict ex_hooks ex_Q = MReject 1 /\
  snd (run ex_h2 [ESend 2 (KPublish false 2 false ex_Q [1] 8 []); ESend 2 (KPublish true 2 false ex_Q [1] 8 [])]) =
    [[OSend 2 (KPubrec 8 1 [])]; [OSend 2 (KPubrec 8 16 [])]].
Proof. vm_compute. repeat split. Qed.

(* --- 4. the will --- *)
Example ex_will_hyps :
  refusal (will_verdict (b_hooks ex_h2) ex_W) = Some None /\
  will_verdict (b_hooks ex_h2) ex_V = MRewrite ex_T [7] 0 /\ will_verdict (b_hooks ex_h2) ex_A = MAccept.
Proof. vm_compute. repeat split. Qed.

(* three v3 clients with a will lose their connection: the will of "w" (on "t") is dropped; that of "v" (on "b",
   where "s" subscribes with QoS 0 only) is published as the hook rewrote it, on "t" with payload [7]; that of
   "a" is published as registered *)
Example ex_will_run :
  snd (run ex_h2 [EConnect 3 (ex_cn 4 ex_W ex_U ex_P (Some (ex_wl ex_T))); EClose 3;
                  EConnect 4 (ex_cn 4 ex_V ex_U ex_P (Some (ex_wl ex_B))); EClose 4;
                  EConnect 5 (ex_cn 4 ex_A ex_U ex_P (Some (ex_wl ex_T))); EClose 5]) =
    [[OSend 3 (KConnack false 0 [])]; [];
     [OSend 4 (KConnack false 0 [])]; [OSend 1 (KPublish false 0 false ex_T [7] 0 [])];
     [OSend 5 (KConnack false 0 [])]; [OSend 1 (KPublish false 1 false ex_T [5] 101 [])]].
Proof. vm_compute. reflexivity. Qed.

Example ex_will_dropped_at_unregister_hyps :
  let s := fst (run ex_h2 [EConnect 3 (ex_cn 4 ex_W ex_U ex_P (Some (ex_wl ex_T)))]) in
  exists k se, nget 3 (b_conns s) = Some k /\ aget (k_cid k) (b_sessions s) = Some se /\
               se_will se = Some (will_msg (ex_wl ex_T)) /\ k_clean_will k = false /\ ur_store k se s = false /\
               refusal (will_verdict (b_hooks s) (k_cid k)) = Some None.
Proof. eexists _, _. split; [vm_compute; reflexivity|]. split; [vm_compute; reflexivity|]. vm_compute. repeat split. Qed.

(* ================================================================== *)
(* 6. the statements of Props/C14.v, tables spelled out                *)
(* ================================================================== *)

Theorem connect_rejected_explicit c cn s s' o :
  unattached s c -> cid_allowed cn s = true -> hc_code cn s <> 0 ->
  step_event s (EConnect c cn) = (s', o) ->
  o = [OSend c (KConnack false (connack_code (cn_ver cn) (hc_code cn s)) [])] /\
  b_sessions s' = b_sessions s /\ b_subs s' = b_subs s /\ b_ret s' = b_ret s /\ b_wills s' = b_wills s /\
  b_queues s' = b_queues s /\ b_unacks s' = b_unacks s /\ b_online s' = b_online s /\ b_offline s' = b_offline s /\
  (exists k, nget c (b_conns s') = Some k /\ k_phase k = PhDead) /\
  (forall c', c' <> c -> nget c' (b_conns s') = nget c' (b_conns s)).
Proof.
  intros Hu Hz Hc E. destruct (connect_rejected_leaves_nothing c cn s Hu Hz Hc) as (Ho & Ht & Hk & Hn).
  rewrite E in Ho, Ht, Hk, Hn. cbn [fst snd] in *.
  split; [exact Ho|]. unfold tables in Ht. injection Ht as -> -> -> -> -> -> -> ->.
  repeat (split; [reflexivity|]). split; [|exact Hn]. eexists. split; [exact Hk|reflexivity].
Qed.

(* the poll loops that follow an event leave every table but the queues alone *)
Lemma step_tables_nq s e : tables_nq (fst (step s e)) = tables_nq (fst (step_event s e)).
Proof.
  unfold step. destruct (step_event s e) as [s1 o1]. cbn [fst].
  pose proof (BrokerQos2P.poll_all_frame s1) as [F _]. destruct (poll_all s1) as [s2 o2]. cbn [fst] in *.
  now apply dframe_tables_nq.
Qed.

Theorem publish_rejected_explicit c k s dup qos retain topic payload pid props k' m err :
  let v5 := k_v k =? 5 in
  nget c (b_conns s) = Some k -> k_phase k = PhConnected ->
  pub_accepts k qos retain topic props = true ->
  (qos = 2 -> ~ In pid (Uof (k_cid k) s)) ->
  pub_alias v5 (charge k qos) topic props (msg_of_publish v5 dup qos retain topic payload pid props) = inl (Some (k', m)) ->
  refusal (msg_verdict (b_hooks s) (m_topic m)) = Some err ->
  exists s',
    step_event s (ESend c (KPublish dup qos retain topic payload pid props)) =
      (s', pub_ack c qos pid (if v5 then match err with Some cd => cd | None => 16 end else 0)) /\
    b_queues s' = b_queues s /\ b_ret s' = b_ret s /\ b_subs s' = b_subs s /\ b_sessions s' = b_sessions s /\
    b_wills s' = b_wills s /\ b_online s' = b_online s /\ b_offline s' = b_offline s /\
    b_tag s' = b_tag s /\ b_npick s' = b_npick s.
Proof.
  intros v5 Hk Hp Hacc Hn Hal Hv.
  destruct (publish_refused_by_hook c k s dup qos retain topic payload pid props k' m err Hacc Hn Hal Hv) as (s' & E & Q).
  exists s'. split; [now apply (send_event_ok c k)|]. unfold qproj in Q. injection Q as Q1 Q2 Q3 Q4 Q5 Q6 Q7 Q8 Q9 Q10 Q11 Q12 Q13 Q14 Q15.
  repeat split; assumption.
Qed.

(* ================================================================== *)
(* 7. a refused CONNECT and the poll loops                             *)
(* ================================================================== *)

(* every poll loop is parked: nothing is left to be written (the state the harness observes) *)
Definition quiescent (s : st) : bool :=
  forallb (fun ck => match poll_once (fst ck) s with None => true | Some _ => false end) (b_conns s).

Lemma poll_conn_parked fuel c s : poll_once c s = None -> poll_conn fuel c s = (s, []).
Proof. intros H. destruct fuel; cbn [poll_conn]; [reflexivity|]. now rewrite H. Qed.

Lemma poll_all_quiescent s : quiescent s = true -> poll_all s = (s, []).
Proof.
  unfold quiescent, poll_all. intros H. rewrite forallb_forall in H.
  assert (G : forall l, (forall ck, In ck l -> poll_once (fst ck) s = None) ->
              fold_left (fun (acc : st * list out) (ck : N * conn) =>
                           let '(s0, o0) := acc in let '(s', o') := poll_conn 400 (fst ck) s0 in (s', o0 ++ o'))
                        l (s, []) = (s, [])).
  { induction l as [|ck l IH]; intros Hl; cbn [fold_left]; [reflexivity|].
    rewrite (poll_conn_parked 400 (fst ck) s) by (apply Hl; now left). cbn [app].
    apply IH. intros ck' Hin. apply Hl. now right. }
  apply G. intros ck Hin. specialize (H ck Hin). destruct (poll_once (fst ck) s); [discriminate|reflexivity].
Qed.

(* whether a poll loop is parked depends on its own connection record, the queues and the clock only *)
Lemma poll_once_none_ext c s s' :
  nget c (b_conns s') = nget c (b_conns s) -> b_queues s' = b_queues s -> b_now s' = b_now s ->
  poll_once c s = None -> poll_once c s' = None.
Proof.
  unfold poll_once. intros -> -> ->. destruct (nget c (b_conns s)) as [k|]; [|auto].
  destruct (k_phase k); auto.
  all: destruct (aget (k_cid k) (b_queues s)) as [q|]; auto.
  all: destruct (negb (k_drained k)).
  all: try (destruct (q_read_inflight (b_now s) (N.to_nat (k_max_inflight k)) q) as [q' [|r rs]]; [discriminate|];
            match goal with |- context [fold_left ?f ?l ?a] => destruct (fold_left f l a) end; discriminate).
  all: destruct (k_held k) as [ids|].
  all: try (destruct (q_read (b_now s) ids q) as [[[q' rs] evs]| | |]; auto;
            match goal with |- context [fold_left ?f ?l ?a] => destruct (fold_left f l a) end; discriminate).
  all: match goal with |- context [lim_poll ?a ?b] => destruct (lim_poll a b) as [l' [| | |ids]] end; auto; discriminate.
Qed.

Lemma poll_once_unattached c s : ~ att s c -> poll_once c s = None.
Proof.
  intros H. unfold poll_once. destruct (nget c (b_conns s)) as [k|] eqn:Hk; [|reflexivity].
  destruct (k_phase k) eqn:Hp; try reflexivity; exfalso; apply H; exists k; rewrite Hp; now split.
Qed.

Lemma in_nset {V} (c c' : N) (v v' : V) l : In (c', v') (nset c v l) -> c' = c \/ In (c', v') l.
Proof.
  induction l as [|[k0 v0] r IH]; cbn [nset In]; intros H.
  - destruct H as [[= <- _]|[]]. now left.
  - destruct (c =? k0); cbn [In] in H.
    + destruct H as [[= <- _]|H]; [now left|right; now right].
    + destruct H as [H|H]; [right; now left|]. apply IH in H as [H|H]; [now left|right; now right].
Qed.

(* replacing the record of socket c by one that is not attached keeps a quiescent broker quiescent *)
Lemma quiescent_upd_unattached c k s :
  attached (k_phase k) = false -> quiescent s = true -> quiescent (upd_conn c k s) = true.
Proof.
  intros Ha Hq. unfold quiescent in *. rewrite forallb_forall in *. intros [c' k'] Hin. cbn [fst].
  proj_in Hin. apply in_nset in Hin.
  destruct (N.eq_dec c' c) as [->|Hne].
  - rewrite poll_once_unattached; [reflexivity|].
    intros (k0 & Hk0 & Ha0). proj_in Hk0. rewrite nget_nset_same in Hk0. injection Hk0 as <-. congruence.
  - destruct Hin as [->|Hin]; [contradiction|]. specialize (Hq (c', k') Hin). cbn [fst] in Hq.
    destruct (poll_once c' s) eqn:E; [discriminate|].
    rewrite (poll_once_none_ext c' s (upd_conn c k s)); [reflexivity| | | |exact E]; proj; try reflexivity.
    now apply nget_nset_other.
Qed.

(* Target 1 for the whole step of a quiescent broker: the poll loops have nothing to do, the step is the event -
   exactly one CONNACK, all tables including every queue as before *)
Theorem connect_rejected_step_quiescent c cn s :
  quiescent s = true -> unattached s c -> cid_allowed cn s = true -> hc_code cn s <> 0 ->
  step s (EConnect c cn) = step_event s (EConnect c cn) /\
  snd (step s (EConnect c cn)) = [OSend c (KConnack false (connack_code (cn_ver cn) (hc_code cn s)) [])] /\
  tables (fst (step s (EConnect c cn))) = tables s /\
  quiescent (fst (step s (EConnect c cn))) = true.
Proof.
  intros Hq Hu Hz Hc.
  assert (Hq1 : quiescent (fst (step_event s (EConnect c cn))) = true).
  { cbn [step_event].
    assert (Hq0 : quiescent (fst (conn_gone c s)) = true).
    { unfold conn_gone. destruct (nget c (b_conns s)) as [k|] eqn:Hk; [|exact Hq].
      specialize (Hu k Hk). destruct (k_phase k); try discriminate; cbn [fst]; try exact Hq;
        now apply quiescent_upd_unattached. }
    destruct (conn_gone_unattached c s Hu) as (_ & Hh & Hcf & _).
    destruct (conn_gone c s) as [s0 o0]. cbn [fst] in *.
    assert (Hz0 : cid_allowed cn s0 = true) by (unfold cid_allowed in *; now rewrite Hcf).
    assert (Hc0 : hc_code cn s0 <> 0) by (now rewrite (hc_code_ext cn s s0 Hh)).
    rewrite (connect_rejected_handler c cn s0 Hz0 Hc0). cbn [fst].
    now apply quiescent_upd_unattached. }
  destruct (connect_rejected_leaves_nothing c cn s Hu Hz Hc) as (Ho & Ht & _).
  assert (E : step s (EConnect c cn) = step_event s (EConnect c cn)).
  { unfold step. destruct (step_event s (EConnect c cn)) as [s1 o1]. cbn [fst] in Hq1.
    rewrite (poll_all_quiescent s1 Hq1). now rewrite app_nil_r. }
  rewrite E. repeat split; assumption.
Qed.

Example ex_quiescent : quiescent ex_h0 = true /\ quiescent ex_h2 = true.
Proof. vm_compute. split; reflexivity. Qed.

(* ================================================================== *)
(* 8. "rewritten" against the broker without hooks                     *)
(* ================================================================== *)

(* the same broker state with another hooks record *)
Definition set_hooks (h : hooks) (s : st) : st :=
  {| b_cfg := b_cfg s; b_hooks := h; b_now := b_now s; b_rt := b_rt s; b_sessions := b_sessions s;
     b_online := b_online s; b_offline := b_offline s; b_wills := b_wills s; b_subs := b_subs s; b_ret := b_ret s;
     b_queues := b_queues s; b_unacks := b_unacks s; b_conns := b_conns s; b_picks := b_picks s; b_tag := b_tag s;
     b_auto := b_auto s; b_npick := b_npick s |}.

Lemma set_hooks_id s : set_hooks (b_hooks s) s = s.
Proof. destruct s; reflexivity. Qed.
Lemma set_hooks_set_hooks h h' s : set_hooks h (set_hooks h' s) = set_hooks h s.
Proof. reflexivity. Qed.
Lemma set_hooks_restore h s s' : b_hooks s' = b_hooks s -> set_hooks (b_hooks s) (set_hooks h s') = s'.
Proof. intros <-. rewrite set_hooks_set_hooks. apply set_hooks_id. Qed.

Definition lift_hooks (h : hooks) (r : st * list out) : st * list out := (set_hooks h (fst r), snd r).

Lemma release_dropped_hooks h cid evs s : release_dropped cid evs (set_hooks h s) = set_hooks h (release_dropped cid evs s).
Proof.
  unfold release_dropped. cbn [b_online b_conns set_hooks].
  destruct (aget cid (b_online s)) as [c|]; [|reflexivity]. destruct (nget c (b_conns s)); reflexivity.
Qed.

Lemma add_to_queue_hooks h cid m sb ids s :
  add_to_queue cid m sb ids (set_hooks h s) = lift_hooks h (add_to_queue cid m sb ids s).
Proof.
  unfold add_to_queue. cbn [b_queues b_online b_cfg b_now b_tag b_picks set_hooks].
  destruct (aget cid (b_queues s)) as [q0|]; [|reflexivity].
  destruct (negb (c_queue_qos0 (b_cfg s)) && negb (ahas cid (b_online s)) && (m_qos m =? 0)); [reflexivity|].
  match goal with |- context [q_add ?a ?b ?d] => destruct (q_add a b d) as [[q' evs]| | |] end; try reflexivity.
  unfold lift_hooks. cbn [fst snd]. rewrite <- release_dropped_hooks. reflexivity.
Qed.

Lemma take_pick_hooks h n s : take_pick n (set_hooks h s) = (fst (take_pick n s), set_hooks h (snd (take_pick n s))).
Proof. unfold take_pick. cbn [b_picks set_hooks]. destruct (b_picks s); reflexivity. Qed.

Lemma fold_hooks {A} h (f : st * list out -> A -> st * list out) (l : list A) :
  (forall s o a, f (set_hooks h s, o) a = lift_hooks h (f (s, o) a)) ->
  forall s o, fold_left f l (set_hooks h s, o) = lift_hooks h (fold_left f l (s, o)).
Proof.
  intros Hf. induction l as [|a l IH]; intros s o; cbn [fold_left]; [reflexivity|].
  rewrite Hf. destruct (f (s, o) a) as [s1 o1]. unfold lift_hooks at 1. cbn [fst snd]. apply IH.
Qed.

(* `deliver` never looks at the hooks *)
Lemma deliver_hooks h src m s :
  deliver src m (set_hooks h s) =
  (set_hooks h (fst (fst (deliver src m s))), snd (fst (deliver src m s)), snd (deliver src m s)).
Proof.
  unfold deliver. cbn [b_subs b_cfg set_hooks].
  set (ents := filter (fun e => negb (s_nl (snd e) && str_eqb (fst e) src)) _).
  set (shared := filter (fun e => negb (is_empty (s_share (snd e)))) ents).
  set (plain := filter (fun e => is_empty (s_share (snd e))) ents).
  (* stage 1 *)
  match goal with |- context [if c_onlyonce (b_cfg s) then (set_hooks h s, []) else fold_left ?f plain (set_hooks h s, [])] =>
    assert (E1 : (if c_onlyonce (b_cfg s) then (set_hooks h s, []) else fold_left f plain (set_hooks h s, [])) =
                 lift_hooks h (if c_onlyonce (b_cfg s) then (s, []) else fold_left f plain (s, []))) end.
  { destruct (c_onlyonce (b_cfg s)); [reflexivity|]. apply fold_hooks. intros s0 o0 a.
    rewrite add_to_queue_hooks. destruct (add_to_queue (fst a) m (snd a) [s_id (snd a)] s0); reflexivity. }
  rewrite E1. clear E1.
  match goal with |- context [lift_hooks h ?X] => destruct X as [s1 o1] end. unfold lift_hooks. cbn [fst snd].
  (* stage 2 *)
  match goal with |- context [fold_left ?f (group_shared shared []) (set_hooks h s1, o1)] =>
    rewrite (fold_hooks h f (group_shared shared [])); [destruct (fold_left f (group_shared shared []) (s1, o1)) as [s2 o2]|] end.
  2:{ intros s0 o0 g.
      assert (EP : (match snd g with [_] => (0%nat, set_hooks h s0) | _ => take_pick (length (snd g)) (set_hooks h s0) end) =
                   (fst (match snd g with [_] => (0%nat, s0) | _ => take_pick (length (snd g)) s0 end),
                    set_hooks h (snd (match snd g with [_] => (0%nat, s0) | _ => take_pick (length (snd g)) s0 end)))).
      { destruct (snd g) as [|x [|y r]]; try apply take_pick_hooks. reflexivity. }
      rewrite EP. destruct (match snd g with [_] => (0%nat, s0) | _ => take_pick (length (snd g)) s0 end) as [i s0'].
      cbn [fst snd]. destruct (nth_error (snd g) i) as [[c sb]|]; [|reflexivity].
      rewrite add_to_queue_hooks. destruct (add_to_queue c m sb [s_id sb] s0'); reflexivity. }
  unfold lift_hooks. cbn [fst snd].
  (* stage 3 *)
  destruct (c_onlyonce (b_cfg s)); [|reflexivity].
  match goal with |- context [fold_left ?f (group_by_client plain []) (set_hooks h s2, o2)] =>
    rewrite (fold_hooks h f (group_by_client plain [])); [destruct (fold_left f (group_by_client plain []) (s2, o2)) as [s3 o3]|] end.
  2:{ intros s0 o0 g. set (best := filter (fun x => s_qos x =? max_qos_of (snd g)) (snd g)).
      assert (EP : (match best with [_] => (0%nat, set_hooks h s0) | _ => take_pick (length best) (set_hooks h s0) end) =
                   (fst (match best with [_] => (0%nat, s0) | _ => take_pick (length best) s0 end),
                    set_hooks h (snd (match best with [_] => (0%nat, s0) | _ => take_pick (length best) s0 end)))).
      { destruct best as [|x [|y r]]; try apply take_pick_hooks. reflexivity. }
      rewrite EP. destruct (match best with [_] => (0%nat, s0) | _ => take_pick (length best) s0 end) as [i s0'].
      cbn [fst snd]. destruct (nth_error best i) as [sb|]; [|reflexivity].
      rewrite add_to_queue_hooks. destruct (add_to_queue (fst g) m sb (map s_id (snd g)) s0'); reflexivity. }
  reflexivity.
Qed.

Lemma retain_update_hooks h m s : retain_update m (set_hooks h s) = set_hooks h (retain_update m s).
Proof. unfold retain_update. destruct (m_retained m); reflexivity. Qed.

(* forwarding m under a hook that rewrites it to m' IS forwarding m' in the broker without any hook *)
Theorem publish_rewritten_as_unhooked k m s t p q :
  msg_verdict (b_hooks s) (m_topic m) = MRewrite t p q ->
  pub_fwd k m false s =
  (let '(s', o, mt, e) := pub_fwd k (rewrite_msg t p q m) false (set_hooks no_hooks s) in (set_hooks (b_hooks s) s', o, mt, e)).
Proof.
  intros Hv. rewrite (pub_fwd_rewritten k m s t p q Hv), (pub_fwd_no_hook k _ (set_hooks no_hooks s)) by reflexivity.
  set (m' := rewrite_msg t p q m). unfold fwd_plain. rewrite retain_update_hooks, deliver_hooks.
  pose proof (deliver_frame (k_cid k) m' (retain_update m' s)) as [F _].
  destruct (deliver (k_cid k) m' (retain_update m' s)) as [[s' o] mt]. cbn [fst snd] in *.
  rewrite set_hooks_restore; [reflexivity|].
  rewrite (df_hooks _ _ F). unfold retain_update. destruct (m_retained m'); reflexivity.
Qed.

(* ... and an accepted message is forwarded as without hooks *)
Theorem publish_accepted_as_unhooked k m s :
  msg_verdict (b_hooks s) (m_topic m) = MAccept ->
  pub_fwd k m false s =
  (let '(s', o, mt, e) := pub_fwd k m false (set_hooks no_hooks s) in (set_hooks (b_hooks s) s', o, mt, e)).
Proof.
  intros Hv. rewrite (pub_fwd_accepted k m s Hv), (pub_fwd_no_hook k _ (set_hooks no_hooks s)) by reflexivity.
  unfold fwd_plain. rewrite retain_update_hooks, deliver_hooks.
  pose proof (deliver_frame (k_cid k) m (retain_update m s)) as [F _].
  destruct (deliver (k_cid k) m (retain_update m s)) as [[s' o] mt]. cbn [fst snd] in *.
  rewrite set_hooks_restore; [reflexivity|].
  rewrite (df_hooks _ _ F). unfold retain_update. destruct (m_retained m); reflexivity.
Qed.

(* the will: published under the rewriting hook = the rewritten will published by the broker without hooks *)
Theorem will_rewritten_as_unhooked cid m s t p q :
  will_verdict (b_hooks s) cid = MRewrite t p q ->
  send_will cid m s = lift_hooks (b_hooks s) (send_will cid (with_topic_payload_qos t p q m) (set_hooks no_hooks s)).
Proof.
  intros Hv. rewrite (will_rewritten cid m s t p q Hv). cbv zeta. set (m' := with_topic_payload_qos t p q m).
  rewrite (will_untouched cid m' (set_hooks no_hooks s)) by reflexivity.
  rewrite retain_update_hooks, deliver_hooks.
  pose proof (deliver_frame cid m' (retain_update m' s)) as [F _].
  destruct (deliver cid m' (retain_update m' s)) as [[s' o] mt]. unfold lift_hooks. cbn [fst snd] in *.
  rewrite set_hooks_restore; [reflexivity|].
  rewrite (df_hooks _ _ F). unfold retain_update. destruct (m_retained m'); reflexivity.
Qed.

(* ================================================================== *)
(* 9. the hypotheses of subscribe_hook_enforced hold in every reachable state *)
(* ================================================================== *)
Theorem subscribe_hyps_reachable cfg h picks es c k :
  let s := fst (run (st_init cfg h picks) es) in
  nget c (b_conns s) = Some k -> k_phase k = PhConnected ->
  k_cid k <> [] /\ exists ops, wf_ops ops = true /\ b_subs s = db_run ops.
Proof.
  intros s Hk Hp. pose proof (reachable_inv cfg h picks es) as HI. fold s in HI.
  destruct (reachable_subsinv cfg h picks es) as (ops & Hwf & Hd & _). fold s in Hd.
  split; [|exists ops; now split].
  assert (Ha : attached (k_phase k) = true) by now rewrite Hp.
  pose proof (BInv_attached_online s c k HI Hk Ha) as Hon.
  apply (bi_ne _ _ HI). apply (bi_has _ _ HI). now rewrite (ahas_some _ _ _ Hon).
Qed.
