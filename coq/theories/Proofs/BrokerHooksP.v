(* C14 (dynamic half): what a hook decides is what happens - proved of the broker model
   Model/Broker.v for all states, packets and hook verdicts.
     1. CONNECT refused by the authentication hook: one failing CONNACK, no table changes;
     2. SUBSCRIBE: the whole-packet verdict (h_sub_all) and the per-topic verdicts (h_sub) are what the
        SUBACK reports and what the subscription store (seen through the flat specification of
        Model/SubSpec.v) holds afterwards;
     3. PUBLISH: a rejected / dropped message reaches no queue and no retained message, a rewritten one is
        forwarded exactly as the rewritten message would be;
     4. the will: dropped -> nothing, rewritten -> deliver / retain_update of the rewritten will.
   Built on the stage equations of Proofs/BrokerInvP.v (CONNECT, SUBSCRIBE) and Proofs/BrokerQos2P.v
   (PUBLISH), and on the refinement of the subscription trie (Proofs/SubTrieP.v). *)
From Coq Require Import List NArith ZArith Bool Arith Lia ZifyN ZifyNat ZifyBool.
Import ListNotations.
From GM Require Import Base.Topic Base.Msg Model.SubTrie Model.SubSpec Model.RetTrie Model.Queue Model.Limiter
  Model.TopicMatch Model.Broker Proofs.TopicP Proofs.SubTrieP Proofs.LimiterP
  Proofs.BrokerQos2P Proofs.BrokerWillP Proofs.BrokerInvP.
Open Scope N_scope.

(* Names defined both in BrokerQos2P and in BrokerInvP (nget_nset, poll_all_frame, ...) refer to the
   BrokerInvP version here; the BrokerQos2P / BrokerWillP ones are written qualified. *)

(* ================================================================== *)
(* 0. the tables a hook verdict must leave alone                       *)
(* ================================================================== *)

(* sessions, subscriptions, retained messages, pending wills, queues, unack sets, the online and the
   offline registrations *)
Definition tables (s : st) :=
  (b_sessions s, b_subs s, b_ret s, b_wills s, (b_queues s, b_unacks s, b_online s, b_offline s)).

Section TablesFields.
  Variables s s' : st.
  Hypothesis H : tables s' = tables s.
  Lemma tb_sessions : b_sessions s' = b_sessions s. Proof. unfold tables in H. congruence. Qed.
  Lemma tb_subs : b_subs s' = b_subs s. Proof. unfold tables in H. congruence. Qed.
  Lemma tb_ret : b_ret s' = b_ret s. Proof. unfold tables in H. congruence. Qed.
  Lemma tb_wills : b_wills s' = b_wills s. Proof. unfold tables in H. congruence. Qed.
  Lemma tb_queues : b_queues s' = b_queues s. Proof. unfold tables in H. congruence. Qed.
  Lemma tb_unacks : b_unacks s' = b_unacks s. Proof. unfold tables in H. congruence. Qed.
  Lemma tb_online : b_online s' = b_online s. Proof. unfold tables in H. congruence. Qed.
  Lemma tb_offline : b_offline s' = b_offline s. Proof. unfold tables in H. congruence. Qed.
End TablesFields.

Lemma tables_upd_conn c k s : tables (upd_conn c k s) = tables s.
Proof. reflexivity. Qed.

(* the same without the queues: what is left of `tables` once the poll loops have run *)
Definition tables_nq (s : st) :=
  (b_sessions s, b_subs s, b_ret s, b_wills s, (b_unacks s, b_online s, b_offline s)).

Lemma tables_tables_nq s s' : tables s' = tables s -> tables_nq s' = tables_nq s.
Proof. unfold tables, tables_nq. congruence. Qed.

Lemma dframe_tables_nq s s' : dframe s s' -> tables_nq s' = tables_nq s.
Proof.
  intros F. unfold tables_nq.
  now rewrite (df_sessions _ _ F), (df_subs _ _ F), (df_ret _ _ F), (df_wills _ _ F), (df_unacks _ _ F),
              (df_online _ _ F), (df_offline _ _ F).
Qed.

(* the packets written to socket c, in order *)
Definition sent_to (c : N) (o : list out) : list pkt :=
  flat_map (fun x => match x with OSend c' p => if c' =? c then [p] else [] | _ => [] end) o.

Lemma sent_to_app c a b : sent_to c (a ++ b) = sent_to c a ++ sent_to c b.
Proof. unfold sent_to. apply flat_map_app. Qed.

Lemma sent_to_none c o : (forall p, ~ In (OSend c p) o) -> sent_to c o = [].
Proof.
  induction o as [|x r IH]; intros H; [reflexivity|]. cbn [sent_to flat_map].
  fold (sent_to c r). rewrite IH by (intros p Hin; apply (H p); now right). rewrite app_nil_r.
  destruct x as [c' p|c'|cid m rs]; try reflexivity.
  destruct (N.eqb_spec c' c) as [->|E]; [|reflexivity]. exfalso. apply (H p). now left.
Qed.

(* ================================================================== *)
(* 1. CONNECT refused by the authentication hook                       *)
(* ================================================================== *)

(* The verdict: hc_code (Proofs/BrokerInvP.v) is auth_code - the code the scripted OnBasicAuth hook
   returns for (user name, password) - except that a v5 CONNECT carrying an Authentication Method is
   refused with 128 whatever the hook says (enhanced authentication is not configured). *)
Lemma hc_code_is_auth_code cn s :
  (cn_ver cn =? 5) && match p_authmethod (cn_props cn) with Some _ => true | None => false end = false ->
  hc_code cn s = auth_code cn s.
Proof. unfold hc_code. now intros ->. Qed.

Lemma auth_code_hook cn s tbl dflt :
  h_auth (b_hooks s) = Some (tbl, dflt) ->
  auth_code cn s =
  match find (fun e => str_eqb (fst (fst e)) (opt_or (cn_user cn) []) && str_eqb (snd (fst e)) (opt_or (cn_pass cn) [])) tbl with
  | Some e => snd e
  | None => dflt
  end.
Proof. unfold auth_code. now intros ->. Qed.

Lemma auth_code_no_hook cn s : h_auth (b_hooks s) = None -> auth_code cn s = 0.
Proof. unfold auth_code. now intros ->. Qed.

(* The mapping of the hook's code to the CONNACK: a v5 client gets the code as it is; a v3 client gets
   the codes 1..5 as they are and 135 (0x87, the v5 "Not authorized") for every larger one. *)
Definition connack_code (v code : N) : N := if negb (v =? 5) && (5 <? code) then 135 else code.

Lemma connack_code_v5 code : connack_code 5 code = code.
Proof. reflexivity. Qed.
Lemma connack_code_v3_small v code : v <> 5 -> code <= 5 -> connack_code v code = code.
Proof. intros Hv Hc. unfold connack_code. destruct (5 <? code) eqn:E; [lia|]. now rewrite andb_false_r. Qed.
Lemma connack_code_v3_large v code : v <> 5 -> 5 < code -> connack_code v code = 135.
Proof.
  intros Hv Hc. unfold connack_code. apply N.eqb_neq in Hv. rewrite Hv.
  destruct (5 <? code) eqn:E; [reflexivity|lia].
Qed.
Lemma connack_code_fails v code : code <> 0 -> connack_code v code <> 0.
Proof. unfold connack_code. destruct (negb (v =? 5) && (5 <? code)); [discriminate|auto]. Qed.

(* the connection record left behind: never attached, ignored from now on *)
Definition dead_conn (cn : connect) : conn := set_phase PhDead (fresh_conn (cn_cid cn) (cn_ver cn)).

(* the client id passes the zero-length check (otherwise the CONNECT is refused with 133 before any hook) *)
Definition cid_allowed (cn : connect) (s : st) : bool :=
  negb (negb (c_allow_zero_len (b_cfg s)) && is_empty (cn_cid cn)).

Lemma connect_rejected_handler c cn s :
  cid_allowed cn s = true -> hc_code cn s <> 0 ->
  handle_connect c cn s =
  (upd_conn c (dead_conn cn) s, [OSend c (KConnack false (connack_code (cn_ver cn) (hc_code cn s)) [])]).
Proof.
  unfold cid_allowed. intros Hz Hc. rewrite handle_connect_eq.
  apply negb_true_iff in Hz. rewrite Hz. apply N.eqb_neq in Hc. rewrite Hc. reflexivity.
Qed.

(* socket c carries no registered client (it is new, fresh, dead or closed) *)
Definition unattached (s : st) (c : N) : Prop :=
  forall k, nget c (b_conns s) = Some k -> attached (k_phase k) = false.

Lemma unattached_not_att s c : unattached s c -> ~ att s c.
Proof. intros H (k & Hk & Ha). rewrite (H k Hk) in Ha. discriminate. Qed.

Lemma conn_gone_unattached c s :
  unattached s c ->
  tables (fst (conn_gone c s)) = tables s /\ b_hooks (fst (conn_gone c s)) = b_hooks s /\
  b_cfg (fst (conn_gone c s)) = b_cfg s /\
  filter (fun x => match x with OClose c' => negb (c' =? c) | _ => true end) (snd (conn_gone c s)) = [].
Proof.
  intros H. unfold conn_gone. destruct (nget c (b_conns s)) as [k|] eqn:Hk; [|repeat split].
  specialize (H k Hk). destruct (k_phase k); try discriminate; cbn [fst snd filter]; rewrite ?N.eqb_refl; repeat split.
Qed.

(* Target 1 at the level of the scenario event.  EConnect c cn is "a CONNECT arrives on socket c". *)
Theorem connect_rejected_leaves_nothing c cn s :
  unattached s c -> cid_allowed cn s = true -> hc_code cn s <> 0 ->
  let s' := fst (step_event s (EConnect c cn)) in
  snd (step_event s (EConnect c cn)) = [OSend c (KConnack false (connack_code (cn_ver cn) (hc_code cn s)) [])] /\
  tables s' = tables s /\
  nget c (b_conns s') = Some (dead_conn cn) /\
  (forall c', c' <> c -> nget c' (b_conns s') = nget c' (b_conns s)).
Proof.
  intros Hu Hz Hc. cbn [step_event].
  destruct (conn_gone_unattached c s Hu) as (Ht & Hh & Hcf & Ho).
  assert (Hcn : forall c', c' <> c -> nget c' (b_conns (fst (conn_gone c s))) = nget c' (b_conns s)).
  { intros c' Hne. unfold conn_gone. destruct (nget c (b_conns s)) as [k|] eqn:Hk; [|reflexivity].
    specialize (Hu k Hk). destruct (k_phase k); try discriminate; cbn [fst]; try reflexivity;
      proj; now rewrite nget_nset_other. }
  destruct (conn_gone c s) as [s0 o0]. cbn [fst snd] in *.
  assert (Hz0 : cid_allowed cn s0 = true) by (unfold cid_allowed in *; now rewrite Hcf).
  assert (Hc0 : hc_code cn s0 = hc_code cn s) by (apply hc_code_ext; exact Hh).
  rewrite (connect_rejected_handler c cn s0 Hz0) by (now rewrite Hc0).
  cbn [fst snd]. rewrite Ho, Hc0. cbn [app]. split; [reflexivity|]. split; [rewrite tables_upd_conn; exact Ht|].
  split; [proj; apply nget_nset_same|]. intros c' Hne. proj. rewrite nget_nset_other by exact Hne. now apply Hcn.
Qed.

(* ... and of the whole step (the poll loops of all connections have run): socket c has been sent the CONNACK
   and nothing else, every table but the queues is as before; the queues are those the poll loops leave when
   started from the old queues (see connect_rejected_leaves_nothing: the event itself does not touch them) *)
Theorem connect_rejected_step c cn s :
  unattached s c -> cid_allowed cn s = true -> hc_code cn s <> 0 ->
  sent_to c (snd (step s (EConnect c cn))) = [KConnack false (connack_code (cn_ver cn) (hc_code cn s)) []] /\
  tables_nq (fst (step s (EConnect c cn))) = tables_nq s /\
  exists k', nget c (b_conns (fst (step s (EConnect c cn)))) = Some k' /\ k_phase k' = PhDead.
Proof.
  intros Hu Hz Hc.
  destruct (connect_rejected_leaves_nothing c cn s Hu Hz Hc) as (Ho & Ht & Hk & _).
  unfold step. destruct (step_event s (EConnect c cn)) as [s1 o1]. cbn [fst snd] in *.
  pose proof (BrokerQos2P.poll_all_frame s1) as [F _].
  assert (Hna : ~ att s1 c).
  { intros (k & Hk' & Ha). rewrite Hk in Hk'. injection Hk' as <-. discriminate. }
  pose proof (fun p => poll_all_not_att s1 c p Hna) as Hns.
  destruct (poll_all s1) as [s2 o2]. cbn [fst snd] in *.
  split; [|split].
  - rewrite sent_to_app, (sent_to_none c o2 Hns), app_nil_r, Ho. cbn [sent_to flat_map]. now rewrite N.eqb_refl.
  - rewrite (dframe_tables_nq _ _ F). now apply tables_tables_nq.
  - destruct (df_conn _ _ F c _ Hk) as (k' & Hk2 & Hs). exists k'. split; [exact Hk2|].
    now rewrite (ks_phase _ _ Hs).
Qed.

(* ================================================================== *)
(* 2. SUBSCRIBE                                                        *)
(* ================================================================== *)

(* ---- 2.1 the verdicts and what handle_subscribe makes of them ---- *)

(* OnSubscribe for one topic of the packet: the first entry of the script for (client id, full topic name) *)
Definition sub_verdict (h : hooks) (cid name : str) : sub_action :=
  opt_or (match find (fun e => str_eqb (fst (fst e)) cid && str_eqb (snd (fst e)) name) (h_sub h) with
          | Some e => Some (snd e)
          | None => None
          end) SAccept.

Lemma sub_verdict_no_hooks cid name : sub_verdict no_hooks cid name = SAccept.
Proof. reflexivity. Qed.

Definition with_sub_qos (q : N) (sb : sub) : sub :=
  {| s_share := s_share sb; s_filter := s_filter sb; s_id := s_id sb; s_qos := q;
     s_nl := s_nl sb; s_rap := s_rap sb; s_rh := s_rh sb |}.

(* the subscription the client asked for under the name of t (a name listed twice: the last entry's options) *)
Definition req_sub (subid : N) (topics : list topic_req) (t : topic_req) : sub :=
  sub_of_req (last_with_name (tq_name t) topics t) subid.

(* ... and what the hook made of it *)
Definition hs_sub (h : hooks) (k : conn) (subid : N) (topics : list topic_req) (t : topic_req) : sub :=
  match sub_verdict h (k_cid k) (tq_name t) with
  | SQos q => with_sub_qos q (req_sub subid topics t)
  | _ => req_sub subid topics t
  end.

(* the broker's own checks on a subscription: the granted QoS is the (possibly rewritten) requested one unless
   shared subscriptions / subscription identifiers / wildcards are not available to this v5 client *)
Definition cap_code (k : conn) (v5 : bool) (subid : N) (sb : sub) : N :=
  let code := s_qos sb in
  let code := if v5 && negb (is_empty (s_share sb)) && negb (k_shared k) then 158 else code in
  let code := if v5 && negb (k_subid k) && negb (subid =? 0) then 161 else code in
  if v5 && negb (k_wildcard k) && has_wildcard (s_filter sb) then 162 else code.

(* the SUBACK code of one topic *)
Definition hs_code (h : hooks) (k : conn) (v5 : bool) (subid : N) (topics : list topic_req) (t : topic_req) : N :=
  match sub_verdict h (k_cid k) (tq_name t) with
  | SReject cd => if v5 then cd else 128
  | _ => cap_code k v5 subid (hs_sub h k subid topics t)
  end.

Definition hs_replays (v5 : bool) (sb : sub) (existed : bool) (t : topic_req) : bool :=
  negb (v5 && negb (is_empty (s_share sb))) && ((negb existed && negb (tq_rh t =? 2)) || (tq_rh t =? 0)).

Lemma hs_body_eq c k v5 subid topics s0 o0 cs t :
  hs_body c k v5 subid topics (s0, o0, cs) t =
  let sb := hs_sub (b_hooks s0) k subid topics t in
  let code := hs_code (b_hooks s0) k v5 subid topics t in
  if code <? 128 then
    let '(d', existed) := db_subscribe (k_cid k) sb (b_subs s0) in
    let s1 := set_subs d' s0 in
    let '(s2, o2) := if hs_replays v5 sb existed t then replay_retained c k sb s1 else (s1, []) in
    (s2, o0 ++ o2, cs ++ [code])
  else (s0, o0, cs ++ [code]).
Proof.
  unfold hs_body, hs_code, hs_sub, cap_code, sub_verdict, req_sub, hs_replays. cbv zeta.
  destruct (find (fun e => str_eqb (fst (fst e)) (k_cid k) && str_eqb (snd (fst e)) (tq_name t)) (h_sub (b_hooks s0)))
    as [[[a b] [|cd|q]]|]; reflexivity.
Qed.

(* ---- 2.2 what one topic and the whole fold leave alone ---- *)

(* everything `dproj` lists except the subscription store *)
Definition sproj (s : st) :=
  (b_cfg s, b_hooks s, b_now s, b_rt s, (b_sessions s, b_online s, b_offline s, b_wills s), (b_ret s, b_unacks s, b_auto s)).

Lemma dframe_sproj s s' : dframe s s' -> sproj s' = sproj s.
Proof. intros [A _]. unfold dproj in A. unfold sproj. congruence. Qed.

Section SprojFields.
  Variables s s' : st.
  Hypothesis H : sproj s' = sproj s.
  Lemma sp_cfg : b_cfg s' = b_cfg s. Proof. unfold sproj in H. congruence. Qed.
  Lemma sp_hooks : b_hooks s' = b_hooks s. Proof. unfold sproj in H. congruence. Qed.
  Lemma sp_sessions : b_sessions s' = b_sessions s. Proof. unfold sproj in H. congruence. Qed.
  Lemma sp_online : b_online s' = b_online s. Proof. unfold sproj in H. congruence. Qed.
  Lemma sp_offline : b_offline s' = b_offline s. Proof. unfold sproj in H. congruence. Qed.
  Lemma sp_wills : b_wills s' = b_wills s. Proof. unfold sproj in H. congruence. Qed.
  Lemma sp_ret : b_ret s' = b_ret s. Proof. unfold sproj in H. congruence. Qed.
  Lemma sp_unacks : b_unacks s' = b_unacks s. Proof. unfold sproj in H. congruence. Qed.
End SprojFields.

Lemma replay_retained_dframe c k sb s :
  dframe s (fst (replay_retained c k sb s)) /\ only_drops (snd (replay_retained c k sb s)).
Proof.
  unfold replay_retained.
  match goal with |- context [fold_left ?f ?l (s, [])] =>
    destruct (fold_frame f l) with (s := s) (o := @nil out) as [F [o' [E D]]] end.
  - intros s0 o0 m. cbv beta iota zeta.
    destruct (aget (k_cid k) (b_queues s0)) as [q|];
      [|cbn [fst snd]; split; [apply dframe_refl|exists []; rewrite app_nil_r; split; [reflexivity|constructor]]].
    match goal with |- context [q_add ?a ?b ?d] => destruct (q_add a b d) as [[q' evs]| | |] end;
      try (cbn [fst snd]; split; [apply dframe_refl|exists []; rewrite app_nil_r; split; [reflexivity|constructor]]).
    cbn [fst snd]. split.
    + eapply dframe_trans; [|apply BrokerQos2P.release_dropped_frame].
      eapply dframe_trans; [apply dframe_set_queues|apply dframe_set_picks_tag].
    + eexists. split; [reflexivity|apply drops_of_only].
  - split; [exact F|]. rewrite E. exact D.
Qed.

(* the store after the topics of l have been processed, starting from d *)
Definition hs_store (h : hooks) (k : conn) (v5 : bool) (subid : N) (topics l : list topic_req) (d : db) : db :=
  fold_left (fun d t => if hs_code h k v5 subid topics t <? 128
                        then fst (db_subscribe (k_cid k) (hs_sub h k subid topics t) d) else d) l d.

Lemma hs_body_spec c k v5 subid topics s0 o0 cs t :
  let r := hs_body c k v5 subid topics (s0, o0, cs) t in
  sproj (fst (fst r)) = sproj s0 /\
  b_subs (fst (fst r)) = hs_store (b_hooks s0) k v5 subid topics [t] (b_subs s0) /\
  snd r = cs ++ [hs_code (b_hooks s0) k v5 subid topics t] /\
  exists o', snd (fst r) = o0 ++ o' /\ only_drops o'.
Proof.
  cbv zeta. rewrite hs_body_eq. cbv zeta. unfold hs_store. cbn [fold_left].
  destruct (hs_code (b_hooks s0) k v5 subid topics t <? 128);
    [|cbn [fst snd]; repeat split; exists []; rewrite app_nil_r; split; [reflexivity|constructor]].
  destruct (db_subscribe (k_cid k) (hs_sub (b_hooks s0) k subid topics t) (b_subs s0)) as [d' existed]. cbn [fst].
  destruct (hs_replays v5 (hs_sub (b_hooks s0) k subid topics t) existed t).
  - pose proof (replay_retained_dframe c k (hs_sub (b_hooks s0) k subid topics t) (set_subs d' s0)) as [F D].
    destruct (replay_retained c k (hs_sub (b_hooks s0) k subid topics t) (set_subs d' s0)) as [s2 o2].
    cbn [fst snd] in *. split; [|split; [|split]].
    + now rewrite (dframe_sproj _ _ F).
    + now rewrite (df_subs _ _ F).
    + reflexivity.
    + exists o2. now split.
  - cbn [fst snd]. repeat split. exists []. split; [reflexivity|constructor].
Qed.

Lemma hs_fold_spec c k v5 subid topics : forall l s0 o0 cs,
  let r := fold_left (hs_body c k v5 subid topics) l (s0, o0, cs) in
  sproj (fst (fst r)) = sproj s0 /\
  b_subs (fst (fst r)) = hs_store (b_hooks s0) k v5 subid topics l (b_subs s0) /\
  snd r = cs ++ map (hs_code (b_hooks s0) k v5 subid topics) l /\
  exists o', snd (fst r) = o0 ++ o' /\ only_drops o'.
Proof.
  induction l as [|t l IH]; intros s0 o0 cs; cbv zeta; cbn [fold_left map].
  - cbn [fst snd]. rewrite app_nil_r. repeat split. exists []. rewrite app_nil_r. split; [reflexivity|constructor].
  - pose proof (hs_body_spec c k v5 subid topics s0 o0 cs t) as H. cbv zeta in H.
    destruct (hs_body c k v5 subid topics (s0, o0, cs) t) as [[s1 o1] cs1]. cbn [fst snd] in H.
    destruct H as (P1 & S1 & C1 & o' & O1 & D1).
    specialize (IH s1 o1 cs1). cbv zeta in IH. destruct IH as (P2 & S2 & C2 & o'' & O2 & D2).
    rewrite (sp_hooks _ _ P1) in S2, C2.
    split; [congruence|]. split; [|split].
    + rewrite S2, S1. reflexivity.
    + rewrite C2, C1, <- app_assoc. reflexivity.
    + exists (o' ++ o''). rewrite O2, O1, app_assoc. split; [reflexivity|now apply only_drops_app].
Qed.

(* ---- 2.3 handle_subscribe ---- *)

(* the Subscription Identifier the subscriptions of the packet carry *)
Definition sub_subid (k : conn) (props : list prop) : N :=
  if (k_v k =? 5) && k_subid k then match p_subids props with i :: _ => i | [] => 0 end else 0.

(* the packet is refused as a whole before any hook is asked: a v5 client sends a Subscription Identifier
   although the broker does not support them (DISCONNECT 161) *)
Definition sub_refused (k : conn) (props : list prop) (s : st) : bool :=
  (k_v k =? 5) && negb (c_subid (b_cfg s)) && negb (sub_subid k props =? 0).

Lemma subscribe_refused c k pid props topics s :
  sub_refused k props s = true -> handle_subscribe c k pid props topics s = HErr s [] (Some 161).
Proof. intros H. rewrite handle_subscribe_eq. cbv zeta. fold (sub_subid k props). unfold sub_refused in H. now rewrite H. Qed.

(* (a) OnSubscribe fails for the packet as a whole (h_sub_all = Some code): a SUBACK with that code for every
   topic (128 towards a v3 client), the connection goes on, and the state - in particular the subscription
   store - is exactly as before *)
Theorem subscribe_all_rejected c k pid props topics s code :
  sub_refused k props s = false -> h_sub_all (b_hooks s) = Some code ->
  handle_subscribe c k pid props topics s =
  HOk s [OSend c (KSuback pid (map (fun _ => if k_v k =? 5 then code else 128) topics) [])].
Proof.
  intros Hr Ha. rewrite handle_subscribe_eq. cbv zeta. fold (sub_subid k props).
  unfold sub_refused in Hr. now rewrite Hr, Ha.
Qed.

(* (b) the per-topic verdicts *)
Theorem subscribe_spec c k pid props topics s :
  sub_refused k props s = false -> h_sub_all (b_hooks s) = None ->
  let h := b_hooks s in
  let v5 := k_v k =? 5 in
  let subid := sub_subid k props in
  exists s' o,
    handle_subscribe c k pid props topics s =
      HOk s' (o ++ [OSend c (KSuback pid (map (hs_code h k v5 subid topics) topics) [])]) /\
    only_drops o /\
    sproj s' = sproj s /\
    b_subs s' = hs_store h k v5 subid topics topics (b_subs s).
Proof.
  intros Hr Ha. cbv zeta. rewrite handle_subscribe_eq. cbv zeta. fold (sub_subid k props).
  unfold sub_refused in Hr. rewrite Hr, Ha.
  pose proof (hs_fold_spec c k (k_v k =? 5) (sub_subid k props) topics topics s [] []) as H. cbv zeta in H.
  destruct (fold_left (hs_body c k (k_v k =? 5) (sub_subid k props) topics) topics (s, [], [])) as [[s' o] codes].
  cbn [fst snd] in H. destruct H as (P & S & C & o' & O & D). cbn [app] in C, O. subst codes o.
  exists s', o'. repeat split; assumption.
Qed.
