(* C19 (broker half): "No broker state is reachable without passing authentication" - proved of the
   broker model Model/Broker.v for all states and event lists.  The authentication plugin is the table
   h_auth of the hooks record (the scripted OnBasicAuth hook), consulted by auth_code / hc_code in
   handle_connect.
     1. a socket without a successful CONNECT (no record, PhFresh, PhDead, PhClosed): whatever it sends
        changes no table, queues nothing, and is answered by a failing CONNACK, a close, or nothing;
     2. a CONNECT the hook refuses: one failing CONNACK, no table changes; the verdict against the table;
        CONNACK code 0 iff the table lets the (user, password) pair in;
     3. history form: a client id that has a session / registration / subscription / queue / pending will
        in a reachable state was let in by an earlier CONNECT that passed hc_code = 0;
     4. the retained store changes and a message is queued only by packets on sockets that passed CONNECT,
        by wills of existing sessions, or by the administrative API.
   Built on Proofs/BrokerInvP.v (invariant, frames, CONNECT stages) and Proofs/BrokerHooksP.v. *)
From Coq Require Import List NArith ZArith Bool Arith Lia ZifyN ZifyNat ZifyBool.
Import ListNotations.
From GM Require Import Base.Topic Base.Msg Model.SubTrie Model.SubSpec Model.RetTrie Model.Queue Model.Limiter
  Model.TopicMatch Model.Broker Proofs.TopicP Proofs.SubTrieP Proofs.LimiterP Proofs.BrokerBasicP
  Proofs.BrokerQos2P Proofs.BrokerWillP Proofs.BrokerInvP Proofs.BrokerHooksP.
Open Scope N_scope.

(* Names defined both in BrokerQos2P / BrokerWillP and in BrokerInvP (wframe, att, nget_nset, poll_all_frame ...)
   refer to the BrokerInvP version here; the others are written qualified. *)

(* ================================================================== *)
(* 1. packets on a socket that has not passed CONNECT                  *)
(* ================================================================== *)

(* `unattached s c` (Proofs/BrokerHooksP.v): socket c has no record, or its record is not attached.  In terms
   of phases: PhFresh (opened, no CONNECT yet), PhDead (CONNECT refused), PhClosed *)
Lemma unattached_phases s c :
  unattached s c <->
  forall k, nget c (b_conns s) = Some k -> k_phase k = PhFresh \/ k_phase k = PhDead \/ k_phase k = PhClosed.
Proof.
  unfold unattached. split; intros H k Hk; specialize (H k Hk).
  - destruct (k_phase k); try discriminate; auto.
  - destruct H as [-> | [-> | ->]]; reflexivity.
Qed.

(* what send_unconnected does, per phase: before CONNECT (PhFresh) any packet - it is not a CONNECT, which is a
   separate event - is malformed: CONNACK 129 in the 3.x form and the socket is dead; on a dead socket only a
   QoS>0 PUBLISH of a v5 client has an effect: the read loop ends on the (never granted) receive quota and the
   socket is closed; a closed or unknown socket: nothing *)
Definition unconnected_reply (s : st) (c : N) (p : pkt) : st * list out :=
  match nget c (b_conns s) with
  | None => (s, [])
  | Some k =>
      match k_phase k with
      | PhFresh => (upd_conn c (set_phase PhDead k) s, [OSend c (KConnack false 129 [])])
      | PhDead => if closes_dead k p then (upd_conn c (set_phase PhClosed k) s, [OClose c]) else (s, [])
      | _ => (s, [])
      end
  end.

(* everything but the connection records *)
Definition nonconn (s : st) :=
  (tables s, b_cfg s, b_hooks s, (b_now s, b_rt s, b_picks s), (b_tag s, b_auto s, b_npick s)).

Lemma nonconn_upd_conn c k s : nonconn (upd_conn c k s) = nonconn s.
Proof. reflexivity. Qed.

Section NonconnFields.
  Variables s s' : st.
  Hypothesis H : nonconn s' = nonconn s.
  Lemma nc_tables : tables s' = tables s. Proof. unfold nonconn in H. congruence. Qed.
  Lemma nc_cfg : b_cfg s' = b_cfg s. Proof. unfold nonconn in H. congruence. Qed.
  Lemma nc_hooks : b_hooks s' = b_hooks s. Proof. unfold nonconn in H. congruence. Qed.
  Lemma nc_tag : b_tag s' = b_tag s. Proof. unfold nonconn in H. congruence. Qed.
  Lemma nc_auto : b_auto s' = b_auto s. Proof. unfold nonconn in H. congruence. Qed.
  Lemma nc_npick : b_npick s' = b_npick s. Proof. unfold nonconn in H. congruence. Qed.
  Lemma nc_now : b_now s' = b_now s. Proof. unfold nonconn in H. congruence. Qed.
End NonconnFields.

Lemma send_unattached_event s c p :
  unattached s c ->
  step_event s (ESend c p) = unconnected_reply s c p /\
  forall n, step_event s (ESendSz c p n) = unconnected_reply s c p.
Proof.
  intros Hu. cbn [step_event]. unfold unconnected_reply.
  destruct (nget c (b_conns s)) as [k|] eqn:Hk; [|split; reflexivity].
  specialize (Hu k Hk). unfold send_unconnected, closes_dead.
  destruct (k_phase k) eqn:Hp; try discriminate; try (split; reflexivity).
  assert (E : match p with
              | KPublish _ qos _ _ _ _ _ => if (k_v k =? 5) && (0 <? qos) then conn_gone c s else (s, [])
              | _ => (s, [])
              end =
              if match p with KPublish _ qos _ _ _ _ _ => (k_v k =? 5) && (0 <? qos) | _ => false end
              then (upd_conn c (set_phase PhClosed k) s, [OClose c]) else (s, [])).
  { destruct p; try reflexivity. destruct ((k_v k =? 5) && (0 <? qos)); [|reflexivity].
    unfold conn_gone. now rewrite Hk, Hp. }
  split; [exact E|intros n; exact E].
Qed.

Lemma unconnected_reply_spec s c p :
  unattached s c ->
  let r := unconnected_reply s c p in
  nonconn (fst r) = nonconn s /\
  (snd r = [] \/ snd r = [OSend c (KConnack false 129 [])] \/ snd r = [OClose c]) /\
  (forall c', c' <> c -> nget c' (b_conns (fst r)) = nget c' (b_conns s)) /\
  unattached (fst r) c.
Proof.
  intros Hu. unfold unconnected_reply. destruct (nget c (b_conns s)) as [k|] eqn:Hk.
  - destruct (k_phase k) eqn:Hp; cbn [fst snd]; try (repeat split; auto; fail).
    + split; [apply nonconn_upd_conn|]. split; [auto|]. split.
      * intros c' Hne. proj. now apply nget_nset_other.
      * intros k' Hk'. proj_in Hk'. rewrite nget_nset_same in Hk'. now injection Hk' as <-.
    + destruct (closes_dead k p); cbn [fst snd]; [|repeat split; auto].
      split; [apply nonconn_upd_conn|]. split; [auto|]. split.
      * intros c' Hne. proj. now apply nget_nset_other.
      * intros k' Hk'. proj_in Hk'. rewrite nget_nset_same in Hk'. now injection Hk' as <-.
  - cbn [fst snd]. repeat split; auto.
Qed.

(* Target 1 *)
Theorem no_state_without_connect s c p s' o :
  unattached s c ->
  step_event s (ESend c p) = (s', o) \/ (exists n, step_event s (ESendSz c p n) = (s', o)) ->
  (s', o) = unconnected_reply s c p /\
  b_sessions s' = b_sessions s /\ b_subs s' = b_subs s /\ b_ret s' = b_ret s /\ b_wills s' = b_wills s /\
  b_queues s' = b_queues s /\ b_unacks s' = b_unacks s /\ b_online s' = b_online s /\ b_offline s' = b_offline s /\
  b_tag s' = b_tag s /\ b_npick s' = b_npick s /\ b_auto s' = b_auto s /\
  (o = [] \/ o = [OSend c (KConnack false 129 [])] \/ o = [OClose c]) /\
  (forall c', c' <> c -> nget c' (b_conns s') = nget c' (b_conns s)) /\
  unattached s' c.
Proof.
  intros Hu H. destruct (send_unattached_event s c p Hu) as [E1 E2].
  assert (E : (s', o) = unconnected_reply s c p).
  { destruct H as [H|[n H]]; [rewrite <- H; exact E1|rewrite <- H; apply E2]. }
  destruct (unconnected_reply_spec s c p Hu) as (Hn & Ho & Hc & Hu').
  rewrite <- E in Hn, Ho, Hc, Hu'. cbn [fst snd] in *.
  split; [exact E|].
  pose proof (nc_tables _ _ Hn) as Ht.
  rewrite (tb_sessions _ _ Ht), (tb_subs _ _ Ht), (tb_ret _ _ Ht), (tb_wills _ _ Ht), (tb_queues _ _ Ht),
    (tb_unacks _ _ Ht), (tb_online _ _ Ht), (tb_offline _ _ Ht), (nc_tag _ _ Hn), (nc_npick _ _ Hn), (nc_auto _ _ Hn).
  repeat (split; [reflexivity|]). split; [exact Ho|]. split; [exact Hc|exact Hu'].
Qed.

(* the whole step: the poll loops that follow write nothing to socket c and leave every table but the queues
   alone (what they do to the queues they do for attached connections, from the queues as they were) *)
Theorem no_state_without_connect_step s c p e :
  unattached s c -> e = ESend c p \/ (exists n, e = ESendSz c p n) ->
  tables_nq (fst (step s e)) = tables_nq s /\
  sent_to c (snd (step s e)) = sent_to c (snd (unconnected_reply s c p)) /\
  unattached (fst (step s e)) c.
Proof.
  intros Hu He. destruct (send_unattached_event s c p Hu) as [E1 E2].
  assert (E : step_event s e = unconnected_reply s c p) by (destruct He as [->|[n ->]]; auto).
  destruct (unconnected_reply_spec s c p Hu) as (Hn & _ & _ & Hu').
  rewrite step_tables_nq. unfold step. rewrite E.
  destruct (unconnected_reply s c p) as [s1 o1]. cbn [fst snd] in *.
  pose proof (BrokerQos2P.poll_all_frame s1) as [F _].
  pose proof (fun q => poll_all_not_att s1 c q (unattached_not_att _ _ Hu')) as Hns.
  destruct (poll_all s1) as [s2 o2]. cbn [fst snd] in *.
  split; [now apply tables_tables_nq, nc_tables|]. split.
  - now rewrite sent_to_app, (sent_to_none c o2 Hns), app_nil_r.
  - intros k2 Hk2. destruct (nget c (b_conns s1)) as [k1|] eqn:Hk1.
    + destruct (df_conn _ _ F c _ Hk1) as (k' & Hk' & Hs). rewrite Hk2 in Hk'. injection Hk' as <-.
      rewrite (ks_phase _ _ Hs). now apply Hu'.
    + rewrite (df_conn_none _ _ F c Hk1) in Hk2. discriminate.
Qed.

(* ... and for a quiescent broker (every poll loop parked: the state the harness observes) the step is the event *)
Theorem no_state_without_connect_quiescent s c p e :
  quiescent s = true -> unattached s c -> e = ESend c p \/ (exists n, e = ESendSz c p n) ->
  step s e = unconnected_reply s c p /\ tables (fst (step s e)) = tables s /\ quiescent (fst (step s e)) = true.
Proof.
  intros Hq Hu He. destruct (send_unattached_event s c p Hu) as [E1 E2].
  assert (E : step_event s e = unconnected_reply s c p) by (destruct He as [->|[n ->]]; auto).
  assert (Hq1 : quiescent (fst (unconnected_reply s c p)) = true).
  { unfold unconnected_reply. destruct (nget c (b_conns s)) as [k|] eqn:Hk; [|exact Hq].
    destruct (k_phase k); cbn [fst]; try exact Hq; [now apply quiescent_upd_unattached|].
    destruct (closes_dead k p); cbn [fst]; [now apply quiescent_upd_unattached|exact Hq]. }
  destruct (unconnected_reply_spec s c p Hu) as (Hn & _).
  assert (Es : step s e = unconnected_reply s c p).
  { unfold step. rewrite E. destruct (unconnected_reply s c p) as [s1 o1]. cbn [fst] in Hq1.
    rewrite (poll_all_quiescent s1 Hq1). now rewrite app_nil_r. }
  rewrite Es. split; [reflexivity|]. split; [now apply nc_tables|exact Hq1].
Qed.

(* ================================================================== *)
(* 2. CONNECT against the authentication table                         *)
(* ================================================================== *)

(* Target 2a: a CONNECT that hc_code refuses - exactly one failing CONNACK, no table changes, the socket is dead
   (connect_rejected_explicit of Proofs/BrokerHooksP.v, with the queue tag and the id counter added) *)
Theorem rejected_connect_no_state c cn s s' o :
  unattached s c -> cid_allowed cn s = true -> hc_code cn s <> 0 ->
  step_event s (EConnect c cn) = (s', o) ->
  o = [OSend c (KConnack false (connack_code (cn_ver cn) (hc_code cn s)) [])] /\
  connack_code (cn_ver cn) (hc_code cn s) <> 0 /\
  b_sessions s' = b_sessions s /\ b_subs s' = b_subs s /\ b_ret s' = b_ret s /\ b_wills s' = b_wills s /\
  b_queues s' = b_queues s /\ b_unacks s' = b_unacks s /\ b_online s' = b_online s /\ b_offline s' = b_offline s /\
  (exists k, nget c (b_conns s') = Some k /\ k_phase k = PhDead) /\
  (forall c', c' <> c -> nget c' (b_conns s') = nget c' (b_conns s)) /\
  unattached s' c.
Proof.
  intros Hu Hz Hc E.
  destruct (connect_rejected_explicit c cn s s' o Hu Hz Hc E)
    as (Ho & H1 & H2 & H3 & H4 & H5 & H6 & H7 & H8 & (k & Hk & Hp) & Hn).
  split; [exact Ho|]. split; [now apply connack_code_fails|].
  repeat (split; [assumption|]). split; [now exists k|]. split; [exact Hn|].
  intros k' Hk'. rewrite Hk in Hk'. injection Hk' as <-. now rewrite Hp.
Qed.

(* the verdict of the table: the first entry for (user, password) decides, the default when there is none.
   An absent user name / password counts as the empty string. *)
Definition cn_user_s (cn : connect) : str := opt_or (cn_user cn) [].
Definition cn_pass_s (cn : connect) : str := opt_or (cn_pass cn) [].

Definition table_code (tbl : list (str * str * N)) (dflt : N) (u p : str) : N :=
  match find (fun e => str_eqb (fst (fst e)) u && str_eqb (snd (fst e)) p) tbl with
  | Some e => snd e
  | None => dflt
  end.

(* a v5 CONNECT with an Authentication Method asks for enhanced authentication, which is not configured *)
Definition enhanced_auth (cn : connect) : bool :=
  (cn_ver cn =? 5) && match p_authmethod (cn_props cn) with Some _ => true | None => false end.

Lemma hc_code_table cn s tbl dflt :
  h_auth (b_hooks s) = Some (tbl, dflt) ->
  hc_code cn s = if enhanced_auth cn then 128 else table_code tbl dflt (cn_user_s cn) (cn_pass_s cn).
Proof. intros H. unfold hc_code, auth_code, enhanced_auth, table_code, cn_user_s, cn_pass_s. now rewrite H. Qed.

Lemma hc_code_no_table cn s :
  h_auth (b_hooks s) = None -> hc_code cn s = if enhanced_auth cn then 128 else 0.
Proof. intros H. unfold hc_code, auth_code, enhanced_auth. now rewrite H. Qed.

(* what "the table maps the pair to 0" means, without `find` *)
Lemma table_code_zero tbl dflt u p :
  table_code tbl dflt u p = 0 <->
  (exists pre post, tbl = pre ++ (u, p, 0) :: post /\ forall c, ~ In (u, p, c) pre) \/
  ((forall c, ~ In (u, p, c) tbl) /\ dflt = 0).
Proof.
  unfold table_code. induction tbl as [|[[u0 p0] c0] r IH]; cbn [find fst snd].
  - split.
    + intros ->. right. split; [intros c []|reflexivity].
    + intros [(pre & post & E & _)|[_ E]]; [destruct pre; discriminate|exact E].
  - destruct (str_eqb_spec u0 u) as [Eu|Eu]; [destruct (str_eqb_spec p0 p) as [Ep|Ep]|]; cbn [andb snd].
    + subst u0 p0. split.
      * intros ->. left. exists [], r. split; [reflexivity|intros c []].
      * intros [(pre & post & E & Hpre)|[Hno _]].
        -- destruct pre as [|x pre]; cbn [app] in E; [now injection E as ->|].
           injection E as <- _. exfalso. apply (Hpre c0). now left.
        -- exfalso. apply (Hno c0). now left.
    + rewrite IH. split.
      * intros [(pre & post & E & Hpre)|[Hno E]].
        -- left. exists ((u0, p0, c0) :: pre), post. split; [cbn [app]; now rewrite E|].
           intros c [H|H]; [congruence|now apply (Hpre c)].
        -- right. split; [|exact E]. intros c [H|H]; [congruence|now apply (Hno c)].
      * intros [(pre & post & E & Hpre)|[Hno E]].
        -- destruct pre as [|x pre]; cbn [app] in E; [congruence|]. injection E as _ E.
           left. exists pre, post. split; [exact E|]. intros c H. apply (Hpre c). now right.
        -- right. split; [|exact E]. intros c H. apply (Hno c). now right.
    + rewrite IH. split.
      * intros [(pre & post & E & Hpre)|[Hno E]].
        -- left. exists ((u0, p0, c0) :: pre), post. split; [cbn [app]; now rewrite E|].
           intros c [H|H]; [congruence|now apply (Hpre c)].
        -- right. split; [|exact E]. intros c [H|H]; [congruence|now apply (Hno c)].
      * intros [(pre & post & E & Hpre)|[Hno E]].
        -- destruct pre as [|x pre]; cbn [app] in E; [congruence|]. injection E as _ E.
           left. exists pre, post. split; [exact E|]. intros c H. apply (Hpre c). now right.
        -- right. split; [|exact E]. intros c H. apply (Hno c). now right.
Qed.

(* the code is 0 iff the table maps the pair to 0 (or does not know it and the default is 0) and the CONNECT
   asks for no enhanced authentication *)
Theorem hc_code_zero_iff cn s tbl dflt :
  h_auth (b_hooks s) = Some (tbl, dflt) ->
  (hc_code cn s = 0 <-> enhanced_auth cn = false /\ table_code tbl dflt (cn_user_s cn) (cn_pass_s cn) = 0).
Proof.
  intros H. rewrite (hc_code_table cn s tbl dflt H). destruct (enhanced_auth cn); split.
  - discriminate.
  - intros [E _]. discriminate.
  - auto.
  - now intros [_ E].
Qed.

Lemma hc_rejected_iff cn s : hc_rejected cn s = false <-> cid_allowed cn s = true /\ hc_code cn s = 0.
Proof.
  unfold hc_rejected, cid_allowed. rewrite orb_false_iff, !negb_false_iff, negb_true_iff, N.eqb_eq. reflexivity.
Qed.

Definition is_connack_ok (c : N) (x : out) : Prop := exists sp props, x = OSend c (KConnack sp 0 props).
Definition connack_ok (c : N) (o : list out) : Prop := exists sp props, In (OSend c (KConnack sp 0 props)) o.

Lemma poll_out_no_connack o c sp code props : Forall is_poll_out o -> ~ In (OSend c (KConnack sp code props)) o.
Proof. intros H Hin. rewrite Forall_forall in H. exact (H _ Hin). Qed.

(* the CONNECT event is answered with a successful CONNACK iff handle_connect accepts in the state the socket's
   previous connection (if any) leaves - and cfg, hooks and the id counter are those of s *)
Lemma connect_event_connack s c cn :
  connack_ok c (snd (step_event s (EConnect c cn))) <-> hc_rejected cn s = false.
Proof.
  cbn [step_event]. pose proof (conn_gone_nosend c s) as Hn. pose proof (conn_gone_misc c s) as (Hcfg & Hhooks & _).
  destruct (conn_gone c s) as [s0 o0]. cbn [fst snd] in *.
  rewrite <- (hc_rejected_ext cn s s0 Hhooks Hcfg), (connack_success_iff c cn s0).
  destruct (handle_connect c cn s0) as [s1 o1]. cbn [snd]. unfold connack_ok.
  split; intros (sp & props & Hin); exists sp, props.
  - apply in_app_or in Hin as [Hin|Hin]; [|exact Hin].
    apply filter_In in Hin as [Hin _]. now apply nosend_not_in in Hin.
  - apply in_or_app. now right.
Qed.

Lemma connect_step_connack s c cn :
  connack_ok c (snd (step s (EConnect c cn))) <-> hc_rejected cn s = false.
Proof.
  rewrite <- connect_event_connack. rewrite step_outputs. unfold connack_ok.
  split; intros (sp & props & Hin); exists sp, props.
  - apply in_app_or in Hin as [Hin|Hin]; [exact Hin|].
    exfalso. revert Hin. apply poll_out_no_connack, BrokerQos2P.poll_all_frame.
  - apply in_or_app. now left.
Qed.

(* Target 2b: with the authentication hook loaded, the CONNECT is answered with CONNACK code 0 iff the table
   lets the (user, password) pair in, no enhanced authentication is asked for, and the client id passes the
   zero-length check *)
Theorem accept_iff_table s c cn tbl dflt :
  h_auth (b_hooks s) = Some (tbl, dflt) ->
  (connack_ok c (snd (step s (EConnect c cn))) <->
   cid_allowed cn s = true /\ enhanced_auth cn = false /\
   table_code tbl dflt (cn_user_s cn) (cn_pass_s cn) = 0).
Proof.
  intros H. rewrite connect_step_connack, hc_rejected_iff, (hc_code_zero_iff cn s tbl dflt H). reflexivity.
Qed.

Theorem accept_iff_table_event s c cn tbl dflt :
  h_auth (b_hooks s) = Some (tbl, dflt) ->
  (connack_ok c (snd (step_event s (EConnect c cn))) <->
   cid_allowed cn s = true /\ enhanced_auth cn = false /\
   table_code tbl dflt (cn_user_s cn) (cn_pass_s cn) = 0).
Proof.
  intros H. rewrite connect_event_connack, hc_rejected_iff, (hc_code_zero_iff cn s tbl dflt H). reflexivity.
Qed.

(* without a hook everybody who asks for no enhanced authentication is let in *)
Theorem accept_iff_no_table s c cn :
  h_auth (b_hooks s) = None ->
  (connack_ok c (snd (step s (EConnect c cn))) <-> cid_allowed cn s = true /\ enhanced_auth cn = false).
Proof.
  intros H. rewrite connect_step_connack, hc_rejected_iff, (hc_code_no_table cn s H).
  destruct (enhanced_auth cn); split; try tauto; intros [A B]; try discriminate; auto.
Qed.

(* ================================================================== *)
(* 3. client ids enter the tables only through an accepted CONNECT     *)
(* ================================================================== *)

(* ---- 3.1 keys of the association lists ---- *)
Lemma ahas_aset_sub {V} (k k' : str) (v : V) l : ahas k (aset k' v l) = true -> ahas k l = true \/ k = k'.
Proof. rewrite ahas_aset. destruct (str_eqb_spec k k') as [->|E]; auto. Qed.

Lemma ahas_aset_in {V} (k k' : str) (v : V) l : ahas k' l = true -> ahas k (aset k' v l) = true -> ahas k l = true.
Proof. intros Hk H. apply ahas_aset_sub in H as [H| ->]; assumption. Qed.

(* no NoDup needed in this direction *)
Lemma ahas_adel_sub {V} (k k' : str) (l : list (str * V)) : ahas k (adel k' l) = true -> ahas k l = true.
Proof.
  unfold ahas. induction l as [|[k0 v0] r IH]; cbn [adel aget]; [auto|].
  destruct (str_eqb k' k0) eqn:E1.
  - destruct (str_eqb k k0); auto.
  - cbn [aget]. destruct (str_eqb k k0); auto.
Qed.

(* the queue table of s' has no key the one of s does not have *)
Definition qsub (s s' : st) : Prop := forall k, ahas k (b_queues s') = true -> ahas k (b_queues s) = true.

Lemma qsub_refl s : qsub s s. Proof. intros k H. exact H. Qed.
Lemma qsub_trans a b c : qsub a b -> qsub b c -> qsub a c. Proof. intros H1 H2 k H. auto. Qed.
Lemma qsub_eq s s' : b_queues s' = b_queues s -> qsub s s'. Proof. intros E k. now rewrite E. Qed.
Lemma qsub_aset s s' cid0 q :
  ahas cid0 (b_queues s) = true -> b_queues s' = aset cid0 q (b_queues s) -> qsub s s'.
Proof. intros Hk E k. rewrite E. now apply ahas_aset_in. Qed.

Lemma fold_qsub {A} (f : st * list out -> A -> st * list out) (l : list A) :
  (forall s0 o0 x, qsub s0 (fst (f (s0, o0) x))) ->
  forall s0 o0, qsub s0 (fst (fold_left f l (s0, o0))).
Proof.
  intros Hf s0 o0. apply (fold_inv (fun s1 => qsub s0 s1)); [|apply qsub_refl].
  intros s1 o1 x H. eapply qsub_trans; [exact H|apply Hf].
Qed.

(* ---- 3.2 delivery ---- *)
Lemma add_to_queue_qsub cid0 m sb ids s : qsub s (fst (add_to_queue cid0 m sb ids s)).
Proof.
  unfold add_to_queue. destruct (aget cid0 (b_queues s)) as [q|] eqn:Eq; [|apply qsub_refl].
  destruct (negb (c_queue_qos0 (b_cfg s)) && negb (ahas cid0 (b_online s)) && (m_qos m =? 0)); [apply qsub_refl|].
  match goal with |- context [q_add ?a ?b ?c] => destruct (q_add a b c) as [[q' evs]| | |] end; try apply qsub_refl.
  cbn [fst]. eapply qsub_aset; [eapply ahas_some; exact Eq|]. rewrite release_dropped_queues. reflexivity.
Qed.

Lemma pick_qsub {A} (l : list A) s i s' :
  match l with [_] => (0%nat, s) | _ => take_pick (length l) s end = (i, s') -> qsub s s'.
Proof. intros H. apply qsub_eq. eapply pick_queues; eauto. Qed.

Lemma deliver_qsub src m s : qsub s (fst (fst (deliver src m s))).
Proof.
  unfold deliver. cbv zeta.
  dlet E1. rename s0 into s1, l into o1.
  assert (Q1 : qsub s s1).
  { change s1 with (fst (s1, o1)). rewrite <- E1. destruct (c_onlyonce (b_cfg s)); [apply qsub_refl|].
    apply fold_qsub. intros s0 o0 x. cbv beta iota.
    pose proof (add_to_queue_qsub (fst x) m (snd x) [s_id (snd x)] s0) as HA.
    destruct (add_to_queue (fst x) m (snd x) [s_id (snd x)] s0) as [s' o']. exact HA. }
  dlet E2. rename s0 into s2, l into o2.
  assert (Q2 : qsub s1 s2).
  { change s2 with (fst (s2, o2)). rewrite <- E2. apply fold_qsub. intros s0 o0 g. cbv beta iota zeta.
    destruct (match snd g with [_] => (0%nat, s0) | _ => take_pick (length (snd g)) s0 end) as [i s0'] eqn:Ep.
    apply pick_qsub in Ep.
    destruct (nth_error (snd g) i) as [[c s_]|]; [|exact Ep].
    pose proof (add_to_queue_qsub c m s_ [s_id s_] s0') as HA.
    destruct (add_to_queue c m s_ [s_id s_] s0') as [s' o']. cbn [fst] in *. eapply qsub_trans; eauto. }
  dlet E3. rename s0 into s3, l into o3.
  assert (Q3 : qsub s2 s3).
  { change s3 with (fst (s3, o3)). rewrite <- E3. destruct (c_onlyonce (b_cfg s)); [|apply qsub_refl].
    apply fold_qsub. intros s0 o0 g. cbv beta iota zeta.
    match goal with |- context [nth_error ?L _] => set (best := L) end.
    destruct (match best with [_] => (0%nat, s0) | _ => take_pick (length best) s0 end) as [i s0'] eqn:Ep.
    apply pick_qsub in Ep.
    destruct (nth_error best i) as [s_|]; [|exact Ep].
    match goal with |- context [add_to_queue (fst g) m s_ ?ids s0'] =>
      pose proof (add_to_queue_qsub (fst g) m s_ ids s0') as HA;
      destruct (add_to_queue (fst g) m s_ ids s0') as [s' o'] end. cbn [fst] in *. eapply qsub_trans; eauto. }
  cbn [fst]. eauto using qsub_trans.
Qed.

Lemma retain_update_queues m s : b_queues (retain_update m s) = b_queues s.
Proof. unfold retain_update. destruct (m_retained m); reflexivity. Qed.

Lemma send_will_qsub cid0 m s : qsub s (fst (send_will cid0 m s)).
Proof.
  unfold send_will. destruct (will_action cid0 s) as [|code| |t p q]; try apply qsub_refl.
  - pose proof (deliver_qsub cid0 m (retain_update m s)) as HD.
    destruct (deliver cid0 m (retain_update m s)) as [[s' o] b]. cbn [fst] in *.
    eapply qsub_trans; [apply qsub_eq, retain_update_queues|exact HD].
  - set (m' := with_topic_payload_qos t p q m).
    pose proof (deliver_qsub cid0 m' (retain_update m' s)) as HD.
    destruct (deliver cid0 m' (retain_update m' s)) as [[s' o] b]. cbn [fst] in *.
    eapply qsub_trans; [apply qsub_eq, retain_update_queues|exact HD].
Qed.

(* ---- 3.3 the poll loops: no queue is created, no message queued ---- *)
Definition pstep (s s' : st) : Prop := b_tag s' = b_tag s /\ qsub s s'.

Lemma pstep_refl s : pstep s s. Proof. split; [reflexivity|apply qsub_refl]. Qed.
Lemma pstep_trans a b c : pstep a b -> pstep b c -> pstep a c.
Proof. intros [A1 A2] [B1 B2]. split; [congruence|eapply qsub_trans; eauto]. Qed.

Lemma poll_once_pstep c s s' o : poll_once c s = Some (s', o) -> pstep s s'.
Proof.
  unfold poll_once. intros H.
  destruct (nget c (b_conns s)) as [k|] eqn:Hk; [|discriminate].
  match type of H with
  | match k_phase k with PhFresh => _ | PhConnected => ?X | PhZombie => _ | PhDead => _ | PhClosed => _ end = _ =>
      assert (HX : X = Some (s', o)) by (destruct (k_phase k); first [discriminate|exact H])
  end.
  clear H. rename HX into H.
  destruct (aget (k_cid k) (b_queues s)) as [q|] eqn:Eq; [|discriminate].
  pose proof (ahas_some _ _ _ Eq) as Hq.
  destruct (negb (k_drained k)).
  - destruct (q_read_inflight (b_now s) (N.to_nat (k_max_inflight k)) q) as [q' rs].
    destruct rs as [|r0 rr].
    + injection H as <- <-. split; [reflexivity|]. eapply qsub_aset; [exact Hq|reflexivity].
    + match type of H with context [fold_left ?f ?l ?b] => destruct (fold_left f l b) as [k' o'] end.
      injection H as <- <-. split; [reflexivity|]. intros k0 H0. proj_in H0.
      apply ahas_aset_in in H0; [now apply ahas_aset_in in H0|]. rewrite ahas_aset, str_eqb_refl. reflexivity.
  - destruct (k_held k) as [ids|].
    + destruct (q_read (b_now s) ids q) as [[[q' rs] evs]| | |]; try discriminate.
      match type of H with context [fold_left ?f ?l ?b] => destruct (fold_left f l b) as [k' o'] end.
      injection H as <- <-. split; [reflexivity|]. eapply qsub_aset; [exact Hq|reflexivity].
    + match type of H with context [lim_poll ?a ?b] => destruct (lim_poll a b) as [l' [| | |ids]] end; try discriminate.
      injection H as <- <-. split; [reflexivity|apply qsub_eq; reflexivity].
Qed.

Lemma poll_conn_pstep fuel c : forall s, pstep s (fst (poll_conn fuel c s)).
Proof.
  induction fuel as [|f IH]; intros s; cbn [poll_conn]; [apply pstep_refl|].
  destruct (poll_once c s) as [[s' o]|] eqn:E; [|apply pstep_refl].
  apply poll_once_pstep in E. specialize (IH s'). destruct (poll_conn f c s') as [s'' o'']. cbn [fst] in *.
  eapply pstep_trans; eauto.
Qed.

Lemma poll_all_pstep s : pstep s (fst (poll_all s)).
Proof.
  unfold poll_all. apply (fold_inv (fun s1 => pstep s s1)); [|apply pstep_refl].
  intros s1 o1 ck H. pose proof (poll_conn_pstep 400 (fst ck) s1) as HP.
  destruct (poll_conn 400 (fst ck) s1) as [s' o']. cbn [fst] in *. eapply pstep_trans; eauto.
Qed.

(* ---- 3.4 the packet handlers create no queue ---- *)
Lemma bump_quota_queues c s (b : conn -> bool) :
  b_queues (match nget c (b_conns s) with
            | Some k1 => if b k1 then upd_conn c (set_quota (k_quota k1 + 1) k1) s else s
            | None => s
            end) = b_queues s.
Proof. destruct (nget c (b_conns s)) as [k1|]; [|reflexivity]. destruct (b k1); reflexivity. Qed.

Lemma hp_dupcheck_queues c k v5 qos pid s : b_queues (fst (hp_dupcheck c k v5 qos pid s)) = b_queues s.
Proof.
  unfold hp_dupcheck. destruct (qos =? 2); [|reflexivity]. cbv zeta.
  destruct (unack_set pid (opt_or (aget (k_cid k) (b_unacks s)) [])) as [u' ex]. cbn [fst].
  destruct (ex && v5); [|reflexivity].
  now rewrite (bump_quota_queues c _ (fun k1 => k_quota k1 <? k_recv_max k1)).
Qed.

Lemma hp_finish_queues c k v5 qos pid o matched err s :
  b_queues (hres_st (hp_finish c k v5 qos pid o matched err s)) = b_queues s.
Proof.
  unfold hp_finish. cbv zeta. cbn [hres_st].
  match goal with |- context [if ?b then set_unacks ?u s else s] =>
    assert (E : b_queues (if b then set_unacks u s else s) = b_queues s) by (destruct b; reflexivity);
    set (s1 := if b then set_unacks u s else s) in * end.
  match goal with |- context [if ?v && ?x && _ then _ else _] =>
    now rewrite (bump_quota_queues c s1 (fun k1 => v && x && (k_quota k1 <? k_recv_max k1))) end.
Qed.

Lemma hp_deliver_qsub k m isdup action s : qsub s (fst (fst (fst (hp_deliver k m isdup action s)))).
Proof.
  unfold hp_deliver. destruct isdup; [apply qsub_refl|].
  destruct action as [|code| |t p q]; try apply qsub_refl.
  - pose proof (deliver_qsub (k_cid k) m (retain_update m s)) as HD.
    destruct (deliver (k_cid k) m (retain_update m s)) as [[s' o] b]. cbn [fst] in *.
    eapply qsub_trans; [apply qsub_eq, retain_update_queues|exact HD].
  - cbv zeta. set (m' := rewrite_msg t p q m).
    pose proof (deliver_qsub (k_cid k) m' (retain_update m' s)) as HD.
    destruct (deliver (k_cid k) m' (retain_update m' s)) as [[s' o] b]. cbn [fst] in *.
    eapply qsub_trans; [apply qsub_eq, retain_update_queues|exact HD].
Qed.

Lemma handle_publish_qsub c k dup qos retain topic payload pid props s :
  qsub s (hres_st (handle_publish c k dup qos retain topic payload pid props s)).
Proof.
  rewrite handle_publish_eq. cbv zeta.
  destruct (negb (k_retain_avail k) && retain); [apply qsub_refl|].
  destruct (hp_alias k (k_v k =? 5) topic props _) as [[[k' m']|]|code]; try apply qsub_refl.
  pose proof (hp_dupcheck_queues c k' (k_v k =? 5) qos pid (upd_conn c k' s)) as E1.
  destruct (hp_dupcheck c k' (k_v k =? 5) qos pid (upd_conn c k' s)) as [s1 isdup]. cbn [fst] in E1.
  pose proof (hp_deliver_qsub k' m' isdup (hp_action m' s1) s1) as Q2.
  destruct (hp_deliver k' m' isdup (hp_action m' s1) s1) as [[[s2 o] matched] err]. cbn [fst] in Q2.
  eapply qsub_trans; [apply qsub_eq; exact E1|]. eapply qsub_trans; [exact Q2|].
  apply qsub_eq, hp_finish_queues.
Qed.

Lemma replay_retained_qsub c k sb s : qsub s (fst (replay_retained c k sb s)).
Proof.
  unfold replay_retained. apply fold_qsub. intros s0 o0 m. cbv beta iota zeta.
  destruct (aget (k_cid k) (b_queues s0)) as [q|] eqn:Eq; [|apply qsub_refl].
  match goal with |- context [q_add ?a ?b ?c] => destruct (q_add a b c) as [[q' evs]| | |] end; try apply qsub_refl.
  cbn [fst]. eapply qsub_aset; [eapply ahas_some; exact Eq|]. rewrite release_dropped_queues. reflexivity.
Qed.

Lemma hs_body_qsub c k v5 subid topics acc t : qsub (fst (fst acc)) (fst (fst (hs_body c k v5 subid topics acc t))).
Proof.
  destruct acc as [[s0 o0] cs]. unfold hs_body. cbv zeta.
  match goal with |- context [if ?b <? 128 then _ else _] => destruct (b <? 128) end; [|apply qsub_refl].
  match goal with |- context [db_subscribe ?a ?b ?d] => destruct (db_subscribe a b d) as [d' existed]; set (sb := b) in * end.
  match goal with |- context [if ?b then replay_retained c k sb ?S else _] =>
    destruct b; [pose proof (replay_retained_qsub c k sb S) as H1;
                 destruct (replay_retained c k sb S) as [s2 o2]|] end; cbn [fst] in *.
  - exact H1.
  - apply qsub_eq. reflexivity.
Qed.

Lemma handle_subscribe_qsub c k pid props topics s : qsub s (hres_st (handle_subscribe c k pid props topics s)).
Proof.
  rewrite handle_subscribe_eq. cbv zeta.
  match goal with |- context [if ?b then HErr s [] (Some 161) else _] => destruct b end; [apply qsub_refl|].
  destruct (h_sub_all (b_hooks s)); [apply qsub_refl|].
  match goal with |- context [fold_left ?f topics ?a] =>
    pose proof (fold_rel (fun b b' : st * list out * list N => qsub (fst (fst b)) (fst (fst b'))) f topics) as HF;
    destruct (fold_left f topics a) as [[s' o] codes] eqn:E end.
  cbn [hres_st].
  match type of HF with _ -> _ -> _ -> forall b, _ => specialize (fun a b c => HF a b c (s, [], [])) end.
  rewrite E in HF. cbn [fst] in HF. apply HF.
  - intros b. apply qsub_refl.
  - intros a b d. apply qsub_trans.
  - intros b x. apply hs_body_qsub.
Qed.

Lemma release_queue_qsub c pid cid0 f s : qsub s (release_id c pid (queue_op cid0 f s)).
Proof.
  assert (Q : qsub s (queue_op cid0 f s)).
  { unfold queue_op. destruct (aget cid0 (b_queues s)) eqn:Eq; [|apply qsub_refl].
    eapply qsub_aset; [eapply ahas_some; exact Eq|reflexivity]. }
  eapply qsub_trans; [exact Q|]. apply qsub_eq. unfold release_id.
  match goal with |- context [nget c ?l] => destruct (nget c l) end; reflexivity.
Qed.

Lemma handle_packet_qsub c k p s : qsub s (hres_st (handle_packet c k p s)).
Proof.
  destruct p; cbn [handle_packet]; try apply qsub_refl.
  - destruct (has_wild topic); [apply qsub_refl|].
    match goal with |- context [if ?b then HErrRead s (Some 148) else _] => destruct b end; [apply qsub_refl|].
    match goal with |- context [if ?b then HErrRead s (Some 130) else _] => destruct b end; [apply qsub_refl|].
    match goal with |- context [if ?b then HErrRead s (Some 147) else _] => destruct b end; [apply qsub_refl|].
    match goal with |- context [handle_publish c ?K ?a ?b ?d ?e ?f ?g ?h ?S] =>
      apply (qsub_trans s S); [apply qsub_eq; reflexivity|apply handle_publish_qsub] end.
  - cbn [hres_st]. apply release_queue_qsub.
  - destruct ((k_v k =? 5) && (128 <=? code)); cbn [hres_st]; [apply release_queue_qsub|].
    unfold queue_op. destruct (aget (k_cid k) (b_queues s)) eqn:Eq; [|apply qsub_refl].
    eapply qsub_aset; [eapply ahas_some; exact Eq|reflexivity].
  - cbv zeta. cbn [hres_st]. apply qsub_eq.
    match goal with |- b_queues (match nget c (b_conns ?S) with _ => _ end) = _ =>
      now rewrite (bump_quota_queues c S (fun k1 => (k_v k =? 5) && (k_quota k1 <? k_recv_max k1))) end.
  - cbn [hres_st]. apply release_queue_qsub.
  - match goal with |- context [if ?b then handle_subscribe _ _ _ _ _ _ else _] => destruct b end; [|apply qsub_refl].
    apply handle_subscribe_qsub.
  - unfold handle_unsubscribe. cbn [hres_st]. apply qsub_eq. reflexivity.
  - destruct (k_v k =? 5); [|apply qsub_eq; reflexivity]. cbv zeta.
    destruct (aget (k_cid k) (b_sessions s)) as [se|]; [|apply qsub_refl].
    match goal with |- context [if ?b then HErr s [] None else _] => destruct b end; [apply qsub_refl|].
    cbn [hres_st]. apply qsub_eq. destruct (p_sei props) as [x|]; [|reflexivity]. destruct (x =? 0); reflexivity.
Qed.

(* ---- 3.5 the monotone relation: which client ids can appear in the session, queue and will tables ---- *)
Record mono (X : str -> Prop) (s s' : st) : Prop := {
  mo_cfg : b_cfg s' = b_cfg s;
  mo_hooks : b_hooks s' = b_hooks s;
  mo_sess : forall k, ahas k (b_sessions s') = true -> ahas k (b_sessions s) = true \/ X k;
  mo_q : forall k, ahas k (b_queues s') = true -> ahas k (b_queues s) = true \/ X k;
  mo_w : forall k, ahas k (b_wills s') = true -> ahas k (b_wills s) = true \/ ahas k (b_sessions s) = true \/ X k }.

Definition nobody : str -> Prop := fun _ => False.

Lemma mono_refl X s : mono X s s.
Proof. constructor; auto. Qed.

Lemma mono_trans X a b c : mono X a b -> mono X b c -> mono X a c.
Proof.
  intros [A1 A2 A3 A4 A5] [B1 B2 B3 B4 B5]. constructor; try congruence.
  - intros k H. destruct (B3 k H) as [H1|H1]; auto.
  - intros k H. destruct (B4 k H) as [H1|H1]; auto.
  - intros k H. destruct (B5 k H) as [H1|[H1|H1]]; auto.
Qed.

Lemma mono_weaken (X Y : str -> Prop) s s' : (forall k, X k -> Y k) -> mono X s s' -> mono Y s s'.
Proof.
  intros HXY [A1 A2 A3 A4 A5]. constructor; auto.
  - intros k H. destruct (A3 k H); auto.
  - intros k H. destruct (A4 k H); auto.
  - intros k H. destruct (A5 k H) as [H1|[H1|H1]]; auto.
Qed.

Lemma mono_nobody X s s' : mono nobody s s' -> mono X s s'.
Proof. apply mono_weaken. intros k []. Qed.

(* the tables are the same except for the queues, which get no new key *)
Lemma mono_same X s s' :
  b_cfg s' = b_cfg s -> b_hooks s' = b_hooks s -> b_sessions s' = b_sessions s -> b_wills s' = b_wills s ->
  qsub s s' -> mono X s s'.
Proof. intros E1 E2 E3 E4 Q. constructor; auto; intros k; rewrite ?E3, ?E4; auto. Qed.

Lemma mono_dframe X s s' : dframe s s' -> qsub s s' -> mono X s s'.
Proof. intros F. apply mono_same; [apply (df_cfg _ _ F)|apply (df_hooks _ _ F)|apply (df_sessions _ _ F)|apply (df_wills _ _ F)]. Qed.

Lemma mono_upd_conn X c k s : mono X s (upd_conn c k s).
Proof. apply mono_same; try reflexivity. apply qsub_eq; reflexivity. Qed.

Lemma fold_mono {A} X (f : st * list out -> A -> st * list out) (l : list A) :
  (forall s0 o0 x, mono X s0 (fst (f (s0, o0) x))) ->
  forall s0 o0, mono X s0 (fst (fold_left f l (s0, o0))).
Proof.
  intros Hf s0 o0. apply (fold_inv (fun s1 => mono X s0 s1)); [|apply mono_refl].
  intros s1 o1 x H. eapply mono_trans; [exact H|apply Hf].
Qed.

Lemma deliver_mono X src m s : mono X s (fst (fst (deliver src m s))).
Proof. apply mono_dframe; [apply deliver_frame|apply deliver_qsub]. Qed.

Lemma send_will_mono X cid0 m s : mono X s (fst (send_will cid0 m s)).
Proof.
  destruct (send_will_frame cid0 m s) as [F _].
  apply mono_same; [apply (BrokerWillP.wf_cfg _ _ F)|apply (BrokerWillP.wf_hooks _ _ F)|
                    apply (BrokerWillP.wf_sessions _ _ F)|apply (BrokerWillP.wf_wills _ _ F)|apply send_will_qsub].
Qed.

Lemma mono_wills_adel X cid0 s :
  mono X s (set_tables (b_sessions s) (b_online s) (b_offline s) (adel cid0 (b_wills s)) (b_queues s) (b_unacks s) s).
Proof.
  constructor; proj; auto. intros k H. left. eapply ahas_adel_sub; eauto.
Qed.

Lemma release_will_mono X cid0 s : mono X s (fst (release_will cid0 s)).
Proof.
  unfold release_will. destruct (aget cid0 (b_wills s)) as [[w t]|]; [|apply mono_refl].
  eapply mono_trans; [apply (mono_wills_adel X cid0)|apply send_will_mono].
Qed.

Lemma fire_wills_mono X s : mono X s (fst (fire_wills s)).
Proof.
  unfold fire_wills. apply fold_mono. intros s0 o0 [cid0 [m at_]]. cbv beta iota zeta.
  destruct (at_ <=? b_rt s0); [|apply mono_refl].
  destruct (aget cid0 (b_wills s0)); [|apply mono_refl].
  match goal with |- context [send_will cid0 m ?S] =>
    pose proof (send_will_mono X cid0 m S) as HS; destruct (send_will cid0 m S) as [s2 o2] end.
  cbn [fst] in *. eapply mono_trans; [apply (mono_wills_adel X cid0)|exact HS].
Qed.

Lemma hc_wills_mono X o_will s : mono X s (fst (hc_wills o_will s)).
Proof.
  unfold hc_wills. apply fold_mono. intros s0 o0 cw. cbv beta iota.
  pose proof (send_will_mono X (fst cw) (snd cw) s0) as HS.
  destruct (send_will (fst cw) (snd cw) s0) as [s' o']. exact HS.
Qed.

Lemma remove_session_mono X cid0 s : mono X s (remove_session cid0 s).
Proof.
  constructor; proj; auto; intros k H; left; eapply ahas_adel_sub; eauto.
Qed.

Lemma ur_will_mono X cid0 k se expiry store s :
  ahas cid0 (b_sessions s) = true -> mono X s (fst (ur_will cid0 k se expiry store s)).
Proof.
  intros Hs. unfold ur_will. destruct (se_will se) as [w|]; [|apply mono_refl].
  destruct (k_clean_will k); [apply mono_refl|]. cbv zeta.
  match goal with |- context [if ?b then (set_tables _ _ _ _ _ _ _, []) else _] => destruct b end.
  - cbn [fst]. constructor; proj; auto. intros k0 H. apply ahas_aset_sub in H as [H| ->]; auto.
  - apply send_will_mono.
Qed.

Lemma unregister_mono X c k s : mono X s (fst (unregister c k s)).
Proof.
  rewrite unregister_eq. cbv zeta. destruct (aget (k_cid k) (b_sessions s)) as [se|] eqn:Es.
  - pose proof (ahas_some _ _ _ Es) as Hs.
    set (expiry := ur_expiry k se (b_cfg s)).
    pose proof (ur_will_mono X (k_cid k) k se expiry (negb (k_force_remove k) && negb (expiry =? 0)) s Hs) as M1.
    destruct (ur_will (k_cid k) k se expiry (negb (k_force_remove k) && negb (expiry =? 0)) s) as [s1 o1].
    cbn [fst] in M1. destruct (negb (k_force_remove k) && negb (expiry =? 0)); cbn [fst].
    + destruct M1 as [A1 A2 A3 A4 A5]. unfold store_tables. constructor; proj; auto.
      intros k0 H. apply ahas_aset_sub in H as [H| ->]; auto.
    + eapply mono_trans; [exact M1|apply remove_session_mono].
  - cbn [fst]. apply remove_session_mono.
Qed.

Lemma closed_q_mono X cid0 s : mono X s (closed_q cid0 s).
Proof.
  unfold closed_q. destruct (aget cid0 (b_queues s)) eqn:Eq; [|apply mono_refl].
  apply mono_same; try reflexivity. eapply qsub_aset; [eapply ahas_some; exact Eq|reflexivity].
Qed.

Lemma conn_gone_mono X c s : mono X s (fst (conn_gone c s)).
Proof.
  destruct (cv s c) as [[cid0 f]|] eqn:Ec.
  - apply cv_some in Ec as (k & Hk & _ & Ha & _). rewrite (conn_gone_att c k s Hk Ha). cbn [fst].
    eapply mono_trans; [|apply unregister_mono].
    eapply mono_trans; [apply closed_q_mono|apply mono_upd_conn].
  - destruct (conn_gone_unatt c s Ec) as [->|(k & Hk & ->)]; cbn [fst]; [apply mono_refl|apply mono_upd_conn].
Qed.

Lemma fail_conn_mono X c code br s : mono X s (fst (fail_conn c code br s)).
Proof.
  unfold fail_conn. destruct (nget c (b_conns s)) as [k|]; [|apply mono_refl].
  destruct (k_phase k); try apply mono_refl.
  match goal with |- context [if ?b then _ else _] => destruct b end.
  - pose proof (conn_gone_mono X c s) as H. destruct (conn_gone c s) as [s' o]. exact H.
  - cbn [fst]. apply mono_upd_conn.
Qed.

Lemma handle_packet_mono X c k p s :
  nget c (b_conns s) = Some k -> mono X s (hres_st (handle_packet c k p s)).
Proof.
  intros Hk. destruct (handle_packet_frame c k p s Hk) as [F _].
  pose proof (handle_packet_gframe c k p s Hk) as (_ & _ & _ & Gw & _).
  pose proof (handle_packet_qsub c k p s) as Q.
  destruct (handle_packet c k p s) as [s' o|s' o code|s' code]; cbn [hres_st BrokerWillP.hres_st] in *.
  all: constructor; [apply (wf_cfg _ _ F)|apply (wf_hooks _ _ F)| | |].
  all: try (intros k0 H; left; destruct (wf_sess _ _ F) as [_ E]; now rewrite <- E).
  all: try (intros k0 H; left; now apply Q).
  all: intros k0 H; left; now rewrite <- Gw.
Qed.

Lemma send_unconnected_mono X c k p s : mono X s (fst (send_unconnected c k p s)).
Proof.
  unfold send_unconnected. destruct (k_phase k); try apply mono_refl.
  - cbn [fst]. apply mono_upd_conn.
  - destruct p; try apply mono_refl. destruct ((k_v k =? 5) && (0 <? qos)); [|apply mono_refl].
    destruct (k_quota k =? 0); [apply conn_gone_mono|]. cbn [fst]. apply mono_upd_conn.
  - destruct p; try apply mono_refl. destruct ((k_v k =? 5) && (0 <? qos)); [|apply mono_refl]. apply conn_gone_mono.
Qed.

(* ---- 3.6 CONNECT: the only place where a client id enters ---- *)
Lemma hc_old_mono X cid0 v5 cmax r0 s : mono X s (fst (fst (hc_old cid0 v5 cmax r0 s))).
Proof.
  unfold hc_old. destruct (aget cid0 (b_sessions s)) as [se|]; [|apply mono_refl]. destruct r0.
  - destruct (aget cid0 (b_queues s)) as [q|] eqn:Eq; [|apply mono_refl].
    destruct (aget cid0 (b_unacks s)) as [u|]; [|apply mono_refl]. cbn [fst].
    constructor; proj; auto.
    + intros k H. left. eapply ahas_aset_in; [eapply ahas_some; exact Eq|exact H].
    + intros k H. left. eapply ahas_adel_sub; eauto.
  - cbv zeta. destruct (aget cid0 (b_wills (remove_session cid0 s))) as [[w t]|]; cbn [fst].
    + eapply mono_trans; [apply remove_session_mono|apply (mono_wills_adel X cid0)].
    + apply remove_session_mono.
Qed.

Lemma hc_accept_mono c cn s : mono (fun k => k = hc_cid cn s) s (fst (hc_accept c cn s)).
Proof.
  unfold hc_accept. cbv zeta. set (cid0 := hc_cid cn s). set (X := fun k : str => k = cid0).
  assert (M0 : mono X s (hc_auto cn s)).
  { unfold hc_auto. destruct (is_empty (cn_cid cn)); [|apply mono_refl].
    apply mono_same; try reflexivity. apply qsub_eq. reflexivity. }
  assert (M1 : mono X (hc_auto cn s) (fst (hc_takeover cid0 (hc_auto cn s)))).
  { unfold hc_takeover. destruct (aget cid0 (b_online (hc_auto cn s))); [apply conn_gone_mono|apply mono_refl]. }
  destruct (hc_takeover cid0 (hc_auto cn s)) as [s1 o_dup]. cbn [fst] in M1.
  pose proof (hc_old_mono X cid0 (cn_ver cn =? 5) (hc_cmax cn) (hc_resume0 cid0 cn s1) s1) as M2.
  destruct (hc_old cid0 (cn_ver cn =? 5) (hc_cmax cn) (hc_resume0 cid0 cn s1) s1) as [[s2 o_will] resume].
  cbn [fst] in M2.
  set (s3 := hc_fresh cid0 (cn_ver cn =? 5) (hc_cmax cn) (b_cfg s) resume s2).
  assert (M3 : mono X s2 s3).
  { unfold s3, hc_fresh. destruct resume; [apply mono_refl|]. constructor; proj; auto.
    intros k H. apply ahas_aset_sub in H as [H|H]; auto. }
  destruct (hc_wd_exp cn (b_cfg s)) as [wd ex].
  match goal with |- context [hc_wills o_will ?S] =>
    pose proof (hc_wills_mono X o_will S) as M5; set (s4 := S) in *; destruct (hc_wills o_will s4) as [s5 o_w] end.
  cbn [fst] in *.
  assert (M4 : mono X s3 s4).
  { unfold s4, hc_register. constructor; proj; auto.
    intros k H. apply ahas_aset_sub in H as [H|H]; auto. }
  exact (mono_trans _ _ _ _ M0 (mono_trans _ _ _ _ M1 (mono_trans _ _ _ _ M2 (mono_trans _ _ _ _ M3 (mono_trans _ _ _ _ M4 M5))))).
Qed.

(* the CONNECT event e lets client id k in, in state s *)
Definition lets_in (s : st) (e : event) (k : str) : Prop :=
  exists c cn, e = EConnect c cn /\ hc_rejected cn s = false /\ hc_cid cn s = k.

Lemma handle_connect_mono c cn s :
  mono (fun k => hc_rejected cn s = false /\ hc_cid cn s = k) s (fst (handle_connect c cn s)).
Proof.
  destruct (hc_rejected cn s) eqn:Er.
  - apply mono_nobody. rewrite handle_connect_eq. unfold hc_rejected in Er.
    destruct (negb (c_allow_zero_len (b_cfg s)) && is_empty (cn_cid cn)); [cbn [fst]; apply mono_upd_conn|].
    cbn [Datatypes.orb] in Er. rewrite Er. cbn [fst]. apply mono_upd_conn.
  - rewrite (handle_connect_accepted c cn s Er). eapply mono_weaken; [|apply hc_accept_mono].
    intros k ->. now split.
Qed.

Lemma step_event_mono s e : mono (lets_in s e) s (fst (step_event s e)).
Proof.
  assert (HSend : forall c p, mono (lets_in s e) s (fst (step_event s (ESend c p)))).
  { intros c p. cbn [step_event].
    destruct (nget c (b_conns s)) as [k|] eqn:Hk; [|apply mono_refl].
    destruct (k_phase k) eqn:Ep; try apply send_unconnected_mono.
    pose proof (handle_packet_mono (lets_in s e) c k p s Hk) as M.
    destruct (handle_packet c k p s) as [s' o|s' o code|s' code]; cbn [hres_st] in M.
    - exact M.
    - pose proof (fail_conn_mono (lets_in s e) c code false s') as H.
      destruct (fail_conn c code false s') as [s'' o']. cbn [fst] in *. eapply mono_trans; eauto.
    - eapply mono_trans; [exact M|apply fail_conn_mono]. }
  destruct e as [c cn|c|c p|c p n|c|m|cid0|ms| |ms|]; cbn [step_event].
  - (* EConnect *)
    pose proof (conn_gone_mono (lets_in s (EConnect c cn)) c s) as M0.
    pose proof (conn_gone_misc c s) as (Hcfg & Hhooks & _ & Hauto).
    destruct (conn_gone c s) as [s0 o0]. cbn [fst] in *.
    pose proof (handle_connect_mono c cn s0) as M1. destruct (handle_connect c cn s0) as [s1 o1]. cbn [fst] in *.
    eapply mono_trans; [exact M0|]. eapply mono_weaken; [|exact M1].
    intros k [Hr Hc]. exists c, cn. split; [reflexivity|]. split.
    + now rewrite <- (hc_rejected_ext cn s s0 Hhooks Hcfg).
    + rewrite <- Hc. unfold hc_cid. now rewrite Hauto.
  - (* EOpen *)
    pose proof (conn_gone_mono (lets_in s (EOpen c)) c s) as M0. destruct (conn_gone c s) as [s0 o0]. cbn [fst] in *.
    eapply mono_trans; [exact M0|apply mono_upd_conn].
  - apply (HSend c p).
  - (* ESendSz *)
    fold (step_event s (ESendSz c p n)).
    destruct (step_event_sz s c p n) as [E|(k & Hk & Hp & _ & [[code E]|[E|[q E]]])]; rewrite E.
    + apply HSend.
    + apply fail_conn_mono.
    + apply fail_conn_mono.
    + eapply mono_trans; [apply mono_upd_conn|apply fail_conn_mono].
  - (* EClose *)
    pose proof (conn_gone_mono (lets_in s (EClose c)) c s) as M0. destruct (conn_gone c s) as [s0 o0]. exact M0.
  - (* EApiPublish *)
    pose proof (deliver_mono (lets_in s (EApiPublish m)) [] m s) as M0. destruct (deliver [] m s) as [[s' o] b]. exact M0.
  - (* ETerminate *)
    destruct (aget cid0 (b_online s)) as [c|].
    + destruct (nget c (b_conns s)) as [k|]; [|apply mono_refl].
      eapply mono_trans; [apply mono_upd_conn|apply conn_gone_mono].
    + destruct (ahas cid0 (b_offline s)); [|apply mono_refl].
      eapply mono_trans; [apply remove_session_mono|apply release_will_mono].
  - (* EAdvance *)
    cbn [fst]. apply mono_same; try reflexivity. apply qsub_eq. reflexivity.
  - (* EExpireCheck *)
    match goal with |- context [fold_left ?f ?l (?S, [])] => apply (mono_trans _ s S) end.
    + apply (fold_left_inv (fun s1 => mono (lets_in s EExpireCheck) s s1)); [|apply mono_refl].
      intros s1 cd H. eapply mono_trans; [exact H|apply remove_session_mono].
    + apply fold_mono. intros s0 o0 cd.
      pose proof (release_will_mono (lets_in s EExpireCheck) (fst cd) s0) as H.
      destruct (release_will (fst cd) s0) as [s' o']. exact H.
  - (* ESleep *)
    set (s0 := set_time (b_now s + ms) (b_rt s + ms) s).
    assert (M0 : mono (lets_in s (ESleep ms)) s s0) by (apply mono_same; try reflexivity; apply qsub_eq; reflexivity).
    match goal with |- context [fold_left ?f (b_conns s0) (s0, [])] =>
      pose proof (fold_mono (lets_in s (ESleep ms)) f (b_conns s0)) as HF;
      destruct (fold_left f (b_conns s0) (s0, [])) as [s1 o1] eqn:E1 end.
    assert (M1 : mono (lets_in s (ESleep ms)) s0 s1).
    { specialize (fun H => HF H s0 []). rewrite E1 in HF. apply HF.
      intros sa oa ck. destruct (k_phase (snd ck)); try apply mono_refl;
        (match goal with |- context [if ?b then _ else _] => destruct b end; [|apply mono_refl]);
        pose proof (conn_gone_mono (lets_in s (ESleep ms)) (fst ck) sa) as Hg;
        destruct (conn_gone (fst ck) sa) as [sb ob]; exact Hg. }
    pose proof (fire_wills_mono (lets_in s (ESleep ms)) s1) as M2. destruct (fire_wills s1) as [s2 o2]. cbn [fst] in *.
    exact (mono_trans _ _ _ _ M0 (mono_trans _ _ _ _ M1 M2)).
  - apply mono_refl.
Qed.

Lemma poll_all_mono X s : mono X s (fst (poll_all s)).
Proof. apply mono_dframe; [apply BrokerQos2P.poll_all_frame|apply poll_all_pstep]. Qed.

Theorem step_mono s e : mono (lets_in s e) s (fst (step s e)).
Proof.
  unfold step. pose proof (step_event_mono s e) as M. destruct (step_event s e) as [s1 o1].
  pose proof (poll_all_mono (lets_in s e) s1) as M2. destruct (poll_all s1) as [s2 o2]. cbn [fst] in *.
  eapply mono_trans; eauto.
Qed.

(* ---- 3.7 along a run ---- *)

(* the event e, arriving in state s, is a CONNECT that passes authentication (hc_code = 0: see hc_code_zero_iff for
   what that means against the table) and the zero-length check, is registered under client id cid0 (its own, or the
   one the broker assigns: hc_cid) and is answered with a successful CONNACK *)
Definition accepts (s : st) (e : event) (cid0 : str) : Prop :=
  exists c cn, e = EConnect c cn /\ cid_allowed cn s = true /\ hc_code cn s = 0 /\ hc_cid cn s = cid0 /\
               connack_ok c (snd (step s e)).

Lemma lets_in_accepts s e k : lets_in s e k <-> accepts s e k.
Proof.
  unfold lets_in, accepts. split.
  - intros (c & cn & -> & Hr & Hc). exists c, cn. pose proof Hr as Hr'. apply hc_rejected_iff in Hr' as [H1 H2].
    repeat (split; [assumption || reflexivity|]). now apply connect_step_connack.
  - intros (c & cn & -> & H1 & H2 & H3 & _). exists c, cn. split; [reflexivity|]. split; [|exact H3].
    apply hc_rejected_iff. now split.
Qed.

(* some prefix of es (run from init) ends with an accepted CONNECT of cid0 *)
Definition accepted (init : st) (cid0 : str) (es : list event) : Prop :=
  exists pre e post, es = pre ++ e :: post /\ accepts (fst (run init pre)) e cid0.

Lemma run_fst_cons s e r : fst (run s (e :: r)) = fst (run (fst (step s e)) r).
Proof. cbn [run]. destruct (step s e) as [s' o]. cbn [fst]. destruct (run s' r). reflexivity. Qed.

Lemma accepted_cons s e r k : accepted (fst (step s e)) k r -> accepted s k (e :: r).
Proof.
  intros (pre & e0 & post & -> & H). exists (e :: pre), e0, post. split; [reflexivity|]. now rewrite run_fst_cons.
Qed.

Lemma accepted_here s e r k : accepts s e k -> accepted s k (e :: r).
Proof. intros H. exists [], e, r. split; [reflexivity|exact H]. Qed.

Lemma accepted_app init k es es' : accepted init k es -> accepted init k (es ++ es').
Proof.
  intros (pre & e & post & -> & H). exists pre, e, (post ++ es'). split; [|exact H].
  now rewrite <- app_assoc.
Qed.

(* client id k is known to the broker: it has a session, a queue or a pending will *)
Definition known (k : str) (s : st) : Prop :=
  ahas k (b_sessions s) = true \/ ahas k (b_queues s) = true \/ ahas k (b_wills s) = true.

Lemma step_known s e k : known k (fst (step s e)) -> known k s \/ accepts s e k.
Proof.
  pose proof (step_mono s e) as [_ _ M1 M2 M3]. rewrite <- lets_in_accepts. unfold known.
  intros [H|[H|H]].
  - destruct (M1 k H); auto.
  - destruct (M2 k H); auto.
  - destruct (M3 k H) as [H1|[H1|H1]]; auto.
Qed.

Theorem run_known : forall es s k, known k (fst (run s es)) -> known k s \/ accepted s k es.
Proof.
  induction es as [|e r IH]; intros s k H; [now left|].
  rewrite run_fst_cons in H. destruct (IH _ _ H) as [H1|H1].
  - destruct (step_known s e k H1) as [H2|H2]; [now left|right; now apply accepted_here].
  - right. now apply accepted_cons.
Qed.

Lemma init_unknown cf h p k : ~ known k (st_init cf h p).
Proof. intros [H|[H|H]]; discriminate. Qed.

(* the configuration and the hooks (the authentication table) never change *)
Lemma run_cfg_hooks : forall es s, b_cfg (fst (run s es)) = b_cfg s /\ b_hooks (fst (run s es)) = b_hooks s.
Proof.
  induction es as [|e r IH]; intros s; [split; reflexivity|].
  rewrite run_fst_cons. destruct (IH (fst (step s e))) as [E1 E2].
  pose proof (step_mono s e) as [A1 A2 _ _ _]. split; congruence.
Qed.

(* Target 3, for the tables the monotone relation covers *)
Theorem state_only_after_accept_known cf h p es k :
  known k (fst (run (st_init cf h p) es)) -> accepted (st_init cf h p) k es.
Proof. intros H. destruct (run_known es _ k H) as [H1|H1]; [now apply init_unknown in H1|exact H1]. Qed.

(* a client with a subscription entry - one that `deliver` would find for some topic - has a session *)
Lemma subscriber_has_session s topic l c x :
  SubsInv s -> db_iterate (deliver_opts topic) (b_subs s) = IOk l -> In (c, x) l -> ahas c (b_sessions s) = true.
Proof.
  intros (ops & Hwf & Hd & Hc) Hl Hin. rewrite Hd in Hl.
  destruct (deliver_ents_clients topic _ _ l (Inv_run ops Hwf) Hl c x Hin) as (sb & _ & Hk).
  exact (Hc _ _ _ Hk).
Qed.

(* ... and so has one found by the per-client lookups (plain and shared subscriptions of client c) *)
Lemma client_subs_have_session s c e l :
  SubsInv s -> c <> [] ->
  db_iterate (q_client c) (b_subs s) = IOk l \/ db_iterate (q_sh_client c) (b_subs s) = IOk l ->
  In e l -> ahas c (b_sessions s) = true.
Proof.
  intros (ops & Hwf & Hd & Hc) Hne Hl Hin. rewrite Hd in Hl. destruct Hl as [Hl|Hl].
  - destruct (lookup_client_exact ops c Hwf Hne) as (l0 & E & _ & Hl0). rewrite E in Hl. injection Hl as <-.
    unfold some_ents in Hin. apply in_map_iff in Hin as ([c' sb] & _ & Hin). apply Hl0 in Hin as [-> Hget].
    apply sp_get_some_in in Hget. exact (Hc _ _ _ Hget).
  - destruct (sh_lookup_client_exact ops c Hwf Hne) as (l0 & E & _ & Hl0). rewrite E in Hl. injection Hl as <-.
    unfold some_ents in Hin. apply in_map_iff in Hin as ([c' sb] & _ & Hin). apply Hl0 in Hin as (-> & _ & Hget).
    apply sp_get_some_in in Hget. exact (Hc _ _ _ Hget).
Qed.

(* what "client id k has state in the broker" covers: session, online / offline registration, queue, pending will,
   a subscription that `deliver` finds, a subscription the per-client lookups find *)
Inductive has_state (k : str) (s : st) : Prop :=
| hs_session : ahas k (b_sessions s) = true -> has_state k s
| hs_online : ahas k (b_online s) = true -> has_state k s
| hs_offline : ahas k (b_offline s) = true -> has_state k s
| hs_queue : ahas k (b_queues s) = true -> has_state k s
| hs_will : ahas k (b_wills s) = true -> has_state k s
| hs_sub topic l x : db_iterate (deliver_opts topic) (b_subs s) = IOk l -> In (k, x) l -> has_state k s
| hs_sub_client e l : k <> [] -> db_iterate (q_client k) (b_subs s) = IOk l \/ db_iterate (q_sh_client k) (b_subs s) = IOk l ->
                      In e l -> has_state k s.

Lemma has_state_known k s : BInv s -> SubsInv s -> has_state k s -> known k s.
Proof.
  intros HI HS [H|H|H|H|H|topic l x Hl Hin|e l Hne Hl Hin].
  - now left.
  - left. apply (bi_has _ _ HI). now rewrite H.
  - left. apply (bi_has _ _ HI). rewrite H. apply orb_true_r.
  - right. now left.
  - right. now right.
  - left. eapply subscriber_has_session; eauto.
  - left. eapply client_subs_have_session; eauto.
Qed.

(* Target 3: along any event list from the initial state, a client id with any state in the broker was let in by
   an earlier CONNECT that passed authentication *)
Theorem state_only_after_accept cf h p es k :
  has_state k (fst (run (st_init cf h p) es)) -> accepted (st_init cf h p) k es.
Proof.
  intros H. apply state_only_after_accept_known. apply has_state_known; [apply reachable_inv|apply reachable_subsinv|exact H].
Qed.

(* ... and that CONNECT carried a (user, password) pair the table of the initial hooks record maps to 0 *)
Theorem state_only_after_table_accept cf h p es k tbl dflt :
  h_auth h = Some (tbl, dflt) ->
  has_state k (fst (run (st_init cf h p) es)) ->
  exists pre c cn post,
    es = pre ++ EConnect c cn :: post /\
    table_code tbl dflt (cn_user_s cn) (cn_pass_s cn) = 0 /\ enhanced_auth cn = false /\
    hc_cid cn (fst (run (st_init cf h p) pre)) = k /\
    connack_ok c (snd (step (fst (run (st_init cf h p) pre)) (EConnect c cn))).
Proof.
  intros Hh H. destruct (state_only_after_accept cf h p es k H) as (pre & e & post & -> & c & cn & -> & H1 & H2 & H3 & H4).
  exists pre, c, cn, post. split; [reflexivity|].
  destruct (run_cfg_hooks pre (st_init cf h p)) as [_ Eh].
  assert (Hh' : h_auth (b_hooks (fst (run (st_init cf h p) pre))) = Some (tbl, dflt)) by (rewrite Eh; exact Hh).
  apply (hc_code_zero_iff cn _ tbl dflt Hh') in H2 as [A B]. auto.
Qed.

(* ================================================================== *)
(* 4. who can change the retained store or queue a message             *)
(* ================================================================== *)

(* Every message that is queued takes a tag (b_tag counts them: add_to_queue and replay_retained), and the
   retained store changes only in retain_update.  So "b_ret or b_tag changed" is "a retained message was stored
   or removed, or a message was queued for somebody". *)

(* no will anywhere: no stored session has one, none is pending *)
Definition NW (s : st) : Prop :=
  (forall k se, In (k, se) (b_sessions s) -> se_will se = None) /\ b_wills s = [].

(* NW is kept, the retained store and the tag are as before *)
Definition still (s s' : st) : Prop := NW s' /\ b_ret s' = b_ret s /\ b_tag s' = b_tag s.

Lemma still_refl s : NW s -> still s s.
Proof. intros H. now split. Qed.
Lemma still_trans a b c : still a b -> still b c -> still a c.
Proof. intros (A1 & A2 & A3) (B1 & B2 & B3). split; [exact B1|]. split; congruence. Qed.

Lemma still_same s s' :
  b_sessions s' = b_sessions s -> b_wills s' = b_wills s -> b_ret s' = b_ret s -> b_tag s' = b_tag s ->
  NW s -> still s s'.
Proof. intros E1 E2 E3 E4 [H1 H2]. split; [split; rewrite ?E1, ?E2; assumption|now split]. Qed.

Lemma in_adel {V} (x : str * V) k l : In x (adel k l) -> In x l.
Proof.
  induction l as [|[k0 v0] r IH]; cbn [adel]; [auto|].
  destruct (str_eqb k k0); cbn [In]; [auto|]. intros [H|H]; auto.
Qed.

Lemma remove_session_still cid0 s : NW s -> still s (remove_session cid0 s).
Proof.
  intros [H1 H2]. split; [|split; reflexivity]. split; proj; [|exact H2].
  intros k se Hin. apply in_adel in Hin. eauto.
Qed.

Lemma unregister_still c k s : NW s -> still s (fst (unregister c k s)).
Proof.
  intros HN. rewrite unregister_eq. cbv zeta. destruct (aget (k_cid k) (b_sessions s)) as [se|] eqn:Es.
  - assert (Hw : se_will se = None) by (apply (proj1 HN (k_cid k)); now apply aget_In).
    unfold ur_will. rewrite Hw.
    destruct (negb (k_force_remove k) && negb (ur_expiry k se (b_cfg s) =? 0)); cbn [fst].
    + destruct HN as [H1 H2]. split; [|split; reflexivity]. unfold store_tables. split; proj; [|exact H2].
      intros k0 se0 Hin. apply in_aset in Hin as [Hin|Hin]; [|eauto]. injection Hin as _ ->. exact Hw.
    + now apply remove_session_still.
  - cbn [fst]. now apply remove_session_still.
Qed.

Lemma conn_gone_still c s : NW s -> still s (fst (conn_gone c s)).
Proof.
  intros HN. destruct (cv s c) as [[cid0 f]|] eqn:Ec.
  - apply cv_some in Ec as (k & Hk & _ & Ha & _). rewrite (conn_gone_att c k s Hk Ha). cbn [fst].
    eapply still_trans; [|apply unregister_still].
    + apply still_same; try reflexivity; [| | | |exact HN]; proj; unfold closed_q; destruct (aget (k_cid k) (b_queues s)); reflexivity.
    + destruct HN as [H1 H2]. split; proj; unfold closed_q; destruct (aget (k_cid k) (b_queues s)); assumption.
  - destruct (conn_gone_unatt c s Ec) as [->|(k & Hk & ->)]; cbn [fst]; [now apply still_refl|].
    now apply still_same.
Qed.

Lemma release_will_nw cid0 s : b_wills s = [] -> release_will cid0 s = (s, []).
Proof. intros H. unfold release_will. now rewrite H. Qed.

Lemma fire_wills_nw s : b_wills s = [] -> fire_wills s = (s, []).
Proof. intros H. unfold fire_wills. now rewrite H. Qed.

Lemma hc_old_nw cid0 v5 cmax r0 s :
  NW s -> still s (fst (fst (hc_old cid0 v5 cmax r0 s))) /\ snd (fst (hc_old cid0 v5 cmax r0 s)) = [].
Proof.
  intros HN. unfold hc_old. destruct (aget cid0 (b_sessions s)) as [se|]; [|split; [now apply still_refl|reflexivity]].
  destruct r0.
  - destruct (aget cid0 (b_queues s)) as [q|]; [|split; [now apply still_refl|reflexivity]].
    destruct (aget cid0 (b_unacks s)) as [u|]; [|split; [now apply still_refl|reflexivity]].
    cbn [fst snd]. split; [|reflexivity]. apply still_same; try reflexivity; [|exact HN]. proj.
    destruct HN as [_ ->]. reflexivity.
  - cbv zeta. pose proof (remove_session_still cid0 s HN) as HR.
    assert (E : b_wills (remove_session cid0 s) = []) by (proj; apply (proj2 HN)).
    rewrite E. cbn [aget fst snd]. now split.
Qed.

Lemma hc_accept_rt c cn s :
  NW s -> b_ret (fst (hc_accept c cn s)) = b_ret s /\ b_tag (fst (hc_accept c cn s)) = b_tag s.
Proof.
  intros HN. unfold hc_accept. cbv zeta. set (cid0 := hc_cid cn s).
  assert (S0 : still s (hc_auto cn s)).
  { unfold hc_auto. destruct (is_empty (cn_cid cn)); [|now apply still_refl]. now apply still_same. }
  assert (S1 : still (hc_auto cn s) (fst (hc_takeover cid0 (hc_auto cn s)))).
  { unfold hc_takeover. destruct (aget cid0 (b_online (hc_auto cn s))); [apply conn_gone_still|apply still_refl]; apply S0. }
  destruct (hc_takeover cid0 (hc_auto cn s)) as [s1 o_dup]. cbn [fst] in S1.
  destruct (hc_old_nw cid0 (cn_ver cn =? 5) (hc_cmax cn) (hc_resume0 cid0 cn s1) s1 (proj1 S1)) as [S2 Ew].
  destruct (hc_old cid0 (cn_ver cn =? 5) (hc_cmax cn) (hc_resume0 cid0 cn s1) s1) as [[s2 o_will] resume].
  cbn [fst snd] in S2, Ew. subst o_will.
  set (s3 := hc_fresh cid0 (cn_ver cn =? 5) (hc_cmax cn) (b_cfg s) resume s2).
  assert (S3 : b_ret s3 = b_ret s2 /\ b_tag s3 = b_tag s2).
  { unfold s3, hc_fresh. destruct resume; split; reflexivity. }
  destruct (hc_wd_exp cn (b_cfg s)) as [wd ex]. unfold hc_wills, hc_register. cbn [fold_left fst]. proj.
  destruct S0 as (_ & A1 & A2), S1 as (_ & B1 & B2), S2 as (_ & C1 & C2), S3 as (D1 & D2). split; congruence.
Qed.

Definition rt_same (s s' : st) : Prop := b_ret s' = b_ret s /\ b_tag s' = b_tag s.

Lemma still_rt s s' : still s s' -> rt_same s s'.
Proof. intros (_ & A & B). now split. Qed.

Lemma handle_connect_rt c cn s : NW s -> rt_same s (fst (handle_connect c cn s)).
Proof.
  intros HN. rewrite handle_connect_eq.
  destruct (negb (c_allow_zero_len (b_cfg s)) && is_empty (cn_cid cn)); [split; reflexivity|].
  destruct (negb (hc_code cn s =? 0)); [split; reflexivity|]. now apply hc_accept_rt.
Qed.

(* the event is a packet on a socket that passed CONNECT (connected, or a zombie whose read loop still runs) *)
Definition on_attached (s : st) (e : event) : Prop :=
  exists c p, (e = ESend c p \/ exists n, e = ESendSz c p n) /\ att s c.

Definition is_api (e : event) : Prop := exists m, e = EApiPublish m.

Lemma not_att_unattached s c : ~ att s c -> unattached s c.
Proof.
  intros H k Hk. destruct (attached (k_phase k)) eqn:E; [|reflexivity]. exfalso. apply H. now exists k.
Qed.

Lemma step_event_nw s e : NW s -> ~ on_attached s e -> ~ is_api e -> rt_same s (fst (step_event s e)).
Proof.
  intros HN Hna Hapi.
  assert (HSend : forall c p e0, e0 = ESend c p \/ (exists n, e0 = ESendSz c p n) -> ~ on_attached s e0 ->
                                 rt_same s (fst (step_event s e0))).
  { intros c p e0 He0 Hn.
    assert (Hu : unattached s c) by (apply not_att_unattached; intros Ha; apply Hn; now exists c, p).
    destruct (send_unattached_event s c p Hu) as [E1 E2].
    assert (E : step_event s e0 = unconnected_reply s c p) by (destruct He0 as [->|[n ->]]; auto).
    destruct (unconnected_reply_spec s c p Hu) as (Hn' & _). rewrite E.
    split; [apply tb_ret, nc_tables, Hn'|apply nc_tag, Hn']. }
  destruct e as [c cn|c|c p|c p n|c|m|cid0|ms| |ms|].
  - (* EConnect *)
    cbn [step_event]. pose proof (conn_gone_still c s HN) as (N0 & A0 & B0). destruct (conn_gone c s) as [s0 o0].
    cbn [fst] in *. pose proof (handle_connect_rt c cn s0 N0) as [A1 B1].
    destruct (handle_connect c cn s0) as [s1 o1]. cbn [fst] in *. split; congruence.
  - (* EOpen *)
    cbn [step_event]. pose proof (conn_gone_still c s HN) as (N0 & A0 & B0). destruct (conn_gone c s) as [s0 o0].
    cbn [fst] in *. split; assumption.
  - apply (HSend c p); auto.
  - apply (HSend c p); eauto.
  - (* EClose *)
    cbn [step_event]. pose proof (conn_gone_still c s HN) as (N0 & A0 & B0). destruct (conn_gone c s) as [s0 o0].
    cbn [fst] in *. split; assumption.
  - exfalso. apply Hapi. now exists m.
  - (* ETerminate *)
    cbn [step_event]. destruct (aget cid0 (b_online s)) as [c|].
    + destruct (nget c (b_conns s)) as [k|]; [|split; reflexivity].
      apply still_rt. eapply still_trans; [|apply conn_gone_still].
      * now apply still_same.
      * destruct HN as [H1 H2]. now split.
    + destruct (ahas cid0 (b_offline s)); [|split; reflexivity].
      pose proof (remove_session_still cid0 s HN) as S1. rewrite release_will_nw by apply S1. cbn [fst]. now apply still_rt.
  - split; reflexivity.
  - (* EExpireCheck *)
    cbn [step_event].
    match goal with |- context [fold_left ?f ?l (?S, [])] => assert (S1 : still s S) end.
    { apply (fold_left_inv (fun s1 => still s s1)); [|now apply still_refl].
      intros s1 cd H. eapply still_trans; [exact H|apply remove_session_still, H]. }
    apply still_rt. apply (fold_inv (fun s1 => still s s1)); [|exact S1].
    intros s0 o0 cd H. rewrite release_will_nw by apply H. exact H.
  - (* ESleep *)
    cbn [step_event]. set (s0 := set_time (b_now s + ms) (b_rt s + ms) s).
    assert (S0 : still s s0) by now apply still_same.
    match goal with |- context [fold_left ?f (b_conns s0) (s0, [])] =>
      pose proof (fold_inv (fun s1 => still s s1) f (b_conns s0)) as HF;
      destruct (fold_left f (b_conns s0) (s0, [])) as [s1 o1] eqn:E1 end.
    assert (S1 : still s s1).
    { specialize (fun H => HF H s0 [] S0). rewrite E1 in HF. apply HF.
      intros sa oa ck Ha. destruct (k_phase (snd ck)); try exact Ha;
        (match goal with |- context [if ?b then _ else _] => destruct b end; [|exact Ha]);
        pose proof (conn_gone_still (fst ck) sa (proj1 Ha)) as Hg;
        destruct (conn_gone (fst ck) sa) as [sb ob]; cbn [fst] in *; eapply still_trans; eauto. }
    rewrite fire_wills_nw by apply S1. cbn [fst]. now apply still_rt.
  - split; reflexivity.
Qed.

Lemma poll_all_rt s : rt_same s (fst (poll_all s)).
Proof.
  split; [apply df_ret, BrokerQos2P.poll_all_frame|apply poll_all_pstep].
Qed.

Lemma step_rt_of_event s e : rt_same s (fst (step_event s e)) -> rt_same s (fst (step s e)).
Proof.
  intros [A B]. unfold step.
  destruct (step_event s e) as [s1 o1]. pose proof (poll_all_rt s1) as [A2 B2].
  destruct (poll_all s1) as [s2 o2]. cbn [fst] in *. split; congruence.
Qed.

Lemma step_nw s e : NW s -> ~ on_attached s e -> ~ is_api e -> rt_same s (fst (step s e)).
Proof. intros HN H1 H2. now apply step_rt_of_event, step_event_nw. Qed.

(* a packet on a socket that has not passed CONNECT: no will is needed for that *)
Lemma send_unattached_rt s c p e :
  unattached s c -> e = ESend c p \/ (exists n, e = ESendSz c p n) -> rt_same s (fst (step s e)).
Proof.
  intros Hu He. apply step_rt_of_event.
  destruct (send_unattached_event s c p Hu) as [E1 E2].
  assert (E : step_event s e = unconnected_reply s c p) by (destruct He as [->|[n ->]]; auto).
  destruct (unconnected_reply_spec s c p Hu) as (Hn' & _). rewrite E.
  split; [apply tb_ret, nc_tables, Hn'|apply nc_tag, Hn'].
Qed.

(* some stored session has a will, or a will is pending *)
Definition has_will (s : st) : Prop :=
  (exists k se w, In (k, se) (b_sessions s) /\ se_will se = Some w) \/ (exists k w t, In (k, (w, t)) (b_wills s)).

Lemma nw_or_has_will s : NW s \/ has_will s.
Proof.
  destruct (b_wills s) as [|[k [w t]] r] eqn:Ew.
  - assert (H : (forall k se, In (k, se) (b_sessions s) -> se_will se = None) \/
                (exists k se w, In (k, se) (b_sessions s) /\ se_will se = Some w)).
    { induction (b_sessions s) as [|[k0 se0] l IH]; [left; intros k se []|].
      destruct (se_will se0) as [w|] eqn:E0.
      - right. exists k0, se0, w. split; [now left|exact E0].
      - destruct IH as [IH|(k & se & w & Hin & E)].
        + left. intros k se [Hin|Hin]; [now injection Hin as <- <-|eauto].
        + right. exists k, se, w. split; [now right|exact E]. }
    destruct H as [H|H]; [left; now split|right; now left].
  - right. right. exists k, w, t. rewrite Ew. now left.
Qed.

(* the events that end connections, end sessions or let timers fire *)
Definition lifecycle_event (e : event) : Prop :=
  match e with
  | EConnect _ _ | EOpen _ | EClose _ | ETerminate _ | EExpireCheck | ESleep _ => True
  | _ => False
  end.

(* Target 4: apart from the administrative API, the retained store changes or a message is queued only in a
   step whose event is a packet on a socket that passed CONNECT, or a connection / session / timer event in a
   broker that holds the will of some session *)
Theorem retained_and_publish_need_session s e :
  ~ is_api e ->
  b_ret (fst (step s e)) <> b_ret s \/ b_tag (fst (step s e)) <> b_tag s ->
  on_attached s e \/ (lifecycle_event e /\ has_will s).
Proof.
  intros Hapi Hch.
  assert (Hatt : on_attached s e \/ ~ on_attached s e).
  { destruct e as [c cn|c|c p|c p n|c|m|cid0|ms| |ms|];
      try (right; intros (c0 & p0 & [E|[n0 E]] & _); discriminate).
    - destruct (cv s c) as [[cid0 f]|] eqn:Ec.
      + left. exists c, p. split; [now left|]. apply cv_att. eauto.
      + right. intros (c0 & p0 & [E|[n0 E]] & Ha); [|discriminate]. injection E as <- <-.
        apply cv_att in Ha as (cid0 & f & Ha). congruence.
    - destruct (cv s c) as [[cid0 f]|] eqn:Ec.
      + left. exists c, p. split; [right; now exists n|]. apply cv_att. eauto.
      + right. intros (c0 & p0 & [E|[n0 E]] & Ha); [discriminate|]. injection E as <- <- _.
        apply cv_att in Ha as (cid0 & f & Ha). congruence. }
  destruct Hatt as [Ha|Hna]; [now left|]. right.
  destruct (nw_or_has_will s) as [HN|HW].
  - exfalso. destruct (step_nw s e HN Hna Hapi) as [A B]. destruct Hch as [H|H]; contradiction.
  - split; [|exact HW].
    destruct e as [c cn|c|c p|c p n|c|m|cid0|ms| |ms|]; cbn [lifecycle_event]; try exact I; exfalso.
    + (* ESend on an unattached socket *)
      assert (Hu : unattached s c) by (apply not_att_unattached; intros Hx; apply Hna; exists c, p; auto).
      destruct (send_unattached_rt s c p (ESend c p) Hu (or_introl eq_refl)) as [A B].
      destruct Hch as [H|H]; contradiction.
    + assert (Hu : unattached s c) by (apply not_att_unattached; intros Hx; apply Hna; exists c, p; eauto).
      destruct (send_unattached_rt s c p (ESendSz c p n) Hu (or_intror (ex_intro _ n eq_refl))) as [A B].
      destruct Hch as [H|H]; contradiction.
    + apply Hapi. now exists m.
    + destruct (step_rt_of_event s (EAdvance ms)) as [A B]; [split; reflexivity|].
      destruct Hch as [H|H]; contradiction.
    + destruct (step_rt_of_event s EInspect) as [A B]; [split; reflexivity|].
      destruct Hch as [H|H]; contradiction.
Qed.

(* ... and both alternatives presuppose an accepted CONNECT: along a run from the initial state, before anybody
   has passed authentication only the administrative API can store a retained message or queue anything *)
Lemma has_will_known s : has_will s -> exists k, known k s.
Proof.
  intros [(k & se & w & Hin & _)|(k & w & t & Hin)]; exists k.
  - left. apply ahas_in_keys. apply in_map_iff. now exists (k, se).
  - right. right. apply ahas_in_keys. apply in_map_iff. now exists (k, (w, t)).
Qed.

Theorem retained_and_publish_need_accept cf h p es e :
  let s := fst (run (st_init cf h p) es) in
  ~ is_api e ->
  b_ret (fst (step s e)) <> b_ret s \/ b_tag (fst (step s e)) <> b_tag s ->
  exists k, accepted (st_init cf h p) k es.
Proof.
  intros s Hapi Hch. destruct (retained_and_publish_need_session s e Hapi Hch) as [(c & q & _ & Ha)|[_ HW]].
  - apply cv_att in Ha as (k & f & Hc). exists k. apply state_only_after_accept. apply hs_online.
    eapply ahas_some. eapply (bi_conn _ _ (reachable_inv cf h p es)). exact Hc.
  - destruct (has_will_known s HW) as [k Hk]. exists k. now apply state_only_after_accept_known.
Qed.

(* a socket that is attached belongs to a client that was let in *)
Theorem attached_socket_was_accepted cf h p es c :
  att (fst (run (st_init cf h p) es)) c ->
  exists k f, cv (fst (run (st_init cf h p) es)) c = Some (k, f) /\ accepted (st_init cf h p) k es.
Proof.
  intros Ha. apply cv_att in Ha as (k & f & Hc). exists k, f. split; [exact Hc|].
  apply state_only_after_accept. apply hs_online.
  eapply ahas_some. eapply (bi_conn _ _ (reachable_inv cf h p es)). exact Hc.
Qed.

(* the administrative API queues messages but never touches the retained store: for the retained store the
   exception is not needed *)
Lemma api_keeps_ret s m : b_ret (fst (step s (EApiPublish m))) = b_ret s.
Proof.
  unfold step. cbn [step_event]. pose proof (deliver_frame [] m s) as [F _].
  destruct (deliver [] m s) as [[s1 o1] b]. cbn [fst] in F.
  pose proof (poll_all_rt s1) as [A _]. destruct (poll_all s1) as [s2 o2]. cbn [fst] in *.
  rewrite A. apply (df_ret _ _ F).
Qed.

Theorem retained_needs_session s e :
  b_ret (fst (step s e)) <> b_ret s -> on_attached s e \/ (lifecycle_event e /\ has_will s).
Proof.
  intros H. destruct e as [c cn|c|c p|c p n|c|m|cid0|ms| |ms|];
    try (apply retained_and_publish_need_session; [intros [m0 E]; discriminate|now left]).
  exfalso. apply H, api_keeps_ret.
Qed.

(* ================================================================== *)
(* 5. non-vacuity: a table that lets in ("u", "p") only                *)
(* ================================================================== *)

Definition ax_U : str := [117].   (* "u" *)
Definition ax_P : str := [112].   (* "p" *)
Definition ax_A : str := [97].    (* client id "a" *)
Definition ax_B : str := [98].    (* client id "b" *)
Definition ax_T : str := [116].   (* topic "t" *)

Definition ax_hooks : hooks :=
  {| h_auth := Some ([(ax_U, ax_P, 0)], 134); h_sub_all := None; h_sub := []; h_msg := []; h_msg_on := false;
     h_will := []; h_will_on := false |}.

Definition ax_init : st := st_init BrokerQos2P.ex_cfg ax_hooks [].

Definition ax_cn (v : N) (cid0 : str) (user pass : option str) (will : option willspec) (props : list prop) : connect :=
  {| cn_ver := v; cn_cid := cid0; cn_clean := true; cn_keepalive := 0; cn_user := user; cn_pass := pass;
     cn_will := will; cn_props := props |}.

Definition ax_good : connect := ax_cn 5 ax_A (Some ax_U) (Some ax_P) None [].
Definition ax_wrong_pw : connect := ax_cn 5 ax_B (Some ax_U) (Some [120]) None [].
Definition ax_anonymous : connect := ax_cn 4 ax_B None None None [].
Definition ax_enhanced : connect := ax_cn 5 ax_B (Some ax_U) (Some ax_P) None [PAuthMethod [109]].

Definition ax_sub : pkt := KSubscribe 1 [] [{| tq_name := ax_T; tq_qos := 1; tq_nl := false; tq_rap := false; tq_rh := 0 |}].
Definition ax_pub (qos : N) : pkt := KPublish false qos true ax_T [1] 7 [].

(* a stranger opens socket 1 and sends SUBSCRIBE / PUBLISH without CONNECT *)
Definition ax_opened : st := fst (run ax_init [EOpen 1]).

Example ax_stranger_hyps : unattached ax_opened 1 /\ quiescent ax_opened = true /\ unattached ax_init 1.
Proof.
  split; [intros k H; vm_compute in H; injection H as <-; reflexivity|].
  split; [vm_compute; reflexivity|]. intros k H. vm_compute in H. discriminate.
Qed.

Example ax_stranger_subscribe :
  snd (run ax_opened [ESend 1 ax_sub; ESend 1 (ax_pub 1)]) = [[OSend 1 (KConnack false 129 [])]; []] /\
  tables (fst (run ax_opened [ESend 1 ax_sub; ESend 1 (ax_pub 1)])) = tables ax_init /\
  b_tag (fst (run ax_opened [ESend 1 ax_sub; ESend 1 (ax_pub 1)])) = b_tag ax_init.
Proof. vm_compute. repeat split. Qed.

Example ax_stranger_publish :
  snd (run ax_opened [ESend 1 (ax_pub 1)]) = [[OSend 1 (KConnack false 129 [])]] /\
  snd (run ax_init [ESend 1 (ax_pub 1)]) = [[]] /\
  tables (fst (run ax_opened [ESend 1 (ax_pub 1)])) = tables ax_init /\
  rdb_matched ax_T (b_ret (fst (run ax_opened [ESend 1 (ax_pub 1)]))) = [].
Proof. vm_compute. repeat split. Qed.

(* a refused CONNECT (wrong password; no credentials; enhanced authentication) followed by PUBLISH *)
Example ax_refused_hyps :
  unattached ax_init 2 /\ cid_allowed ax_wrong_pw ax_init = true /\
  hc_code ax_wrong_pw ax_init = 134 /\ hc_code ax_anonymous ax_init = 134 /\ hc_code ax_enhanced ax_init = 128 /\
  table_code [(ax_U, ax_P, 0)] 134 (cn_user_s ax_wrong_pw) (cn_pass_s ax_wrong_pw) = 134 /\
  table_code [(ax_U, ax_P, 0)] 134 (cn_user_s ax_enhanced) (cn_pass_s ax_enhanced) = 0 /\
  enhanced_auth ax_enhanced = true.
Proof. split; [intros k H; vm_compute in H; discriminate|]. vm_compute. repeat split. Qed.

Example ax_refused_then_publish :
  snd (run ax_init [EConnect 2 ax_wrong_pw; ESend 2 (ax_pub 0); ESend 2 ax_sub; ESend 2 (ax_pub 1)]) =
    [[OSend 2 (KConnack false 134 [])]; []; []; [OClose 2]] /\
  snd (run ax_init [EConnect 2 ax_anonymous; ESend 2 (ax_pub 1)]) = [[OSend 2 (KConnack false 135 [])]; []] /\
  snd (run ax_init [EConnect 2 ax_enhanced]) = [[OSend 2 (KConnack false 128 [])]] /\
  tables (fst (run ax_init [EConnect 2 ax_wrong_pw; ESend 2 (ax_pub 0); ESend 2 ax_sub; ESend 2 (ax_pub 1)])) = tables ax_init /\
  b_tag (fst (run ax_init [EConnect 2 ax_wrong_pw; ESend 2 (ax_pub 0); ESend 2 ax_sub; ESend 2 (ax_pub 1)])) = b_tag ax_init.
Proof. vm_compute. repeat split. Qed.

(* an accepted CONNECT: the client gets its session, can subscribe, publish and store a retained message *)
Definition ax_in : st := fst (run ax_init [EConnect 3 ax_good]).

Example ax_accepted :
  hc_code ax_good ax_init = 0 /\ cid_allowed ax_good ax_init = true /\ enhanced_auth ax_good = false /\
  table_code [(ax_U, ax_P, 0)] 134 (cn_user_s ax_good) (cn_pass_s ax_good) = 0 /\
  connack_ok 3 (snd (step ax_init (EConnect 3 ax_good))) /\
  ahas ax_A (b_sessions ax_in) = true /\ ahas ax_A (b_online ax_in) = true /\ ahas ax_A (b_queues ax_in) = true /\
  snd (run ax_in [ESend 3 ax_sub; ESend 3 (ax_pub 1)]) =
    [[OSend 3 (KSuback 1 [1] [])]; [OSend 3 (KPuback 7 0 []); OSend 3 (KPublish false 1 false ax_T [1] 1 [])]] /\
  map m_payload (rdb_matched ax_T (b_ret (fst (run ax_in [ESend 3 ax_sub; ESend 3 (ax_pub 1)])))) = [[1]].
Proof.
  repeat (split; [vm_compute; reflexivity|]).
  split; [eexists _, _; vm_compute; left; reflexivity|]. vm_compute. repeat split.
Qed.

Example ax_accepted_history :
  accepted ax_init ax_A [EConnect 2 ax_wrong_pw; EConnect 3 ax_good; ESend 3 ax_sub] /\
  has_state ax_A (fst (run ax_init [EConnect 2 ax_wrong_pw; EConnect 3 ax_good; ESend 3 ax_sub])) /\
  ~ known ax_B (fst (run ax_init [EConnect 2 ax_wrong_pw; EConnect 3 ax_good; ESend 3 ax_sub])).
Proof.
  split; [|split].
  - exists [EConnect 2 ax_wrong_pw], (EConnect 3 ax_good), [ESend 3 ax_sub]. split; [reflexivity|].
    exists 3, ax_good. split; [reflexivity|]. repeat (split; [vm_compute; reflexivity|]).
    eexists _, _. vm_compute. left. reflexivity.
  - apply hs_session. vm_compute. reflexivity.
  - intros [H|[H|H]]; vm_compute in H; discriminate.
Qed.

(* Target 4: the step that changes the retained store is a packet on an attached socket; a will of an accepted
   client that fires at EClose changes it too (has_will) *)
Definition ax_will : willspec := {| w_topic := ax_T; w_payload := [9]; w_qos := 0; w_retain := true; w_props := [] |}.
Definition ax_good_will : connect := ax_cn 4 ax_A (Some ax_U) (Some ax_P) (Some ax_will) [].
Definition ax_in_w : st := fst (run ax_init [EConnect 3 ax_good_will]).

Example ax_retained_changes :
  b_ret (fst (step ax_in (ESend 3 (ax_pub 1)))) <> b_ret ax_in /\ att ax_in 3 /\
  b_ret (fst (step ax_in_w (EClose 3))) <> b_ret ax_in_w /\ lifecycle_event (EClose 3) /\ has_will ax_in_w /\
  (* the administrative API queues for the subscriber; it does not touch the retained store *)
  b_tag (fst (step (fst (run ax_in [ESend 3 ax_sub])) (EApiPublish (will_msg ax_will)))) <> b_tag (fst (run ax_in [ESend 3 ax_sub])) /\
  b_ret (fst (step ax_init (EApiPublish (will_msg ax_will)))) = b_ret ax_init.
Proof.
  split; [vm_compute; discriminate|]. split; [eexists; split; vm_compute; reflexivity|].
  split; [vm_compute; discriminate|]. split; [exact I|].
  split; [left; eexists _, _, _; split; [vm_compute; left; reflexivity|reflexivity]|].
  split; [vm_compute; discriminate|vm_compute; reflexivity].
Qed.

(* the hypotheses of step_nw: the accepted client "a" has no will; its connection is closed - nothing is published *)
Example ax_no_will_hyps :
  NW ax_in /\ ~ on_attached ax_in (EClose 3) /\ ~ is_api (EClose 3) /\
  b_ret (fst (step ax_in (EClose 3))) = b_ret ax_in /\ b_tag (fst (step ax_in (EClose 3))) = b_tag ax_in.
Proof.
  split; [split|].
  - intros k se H. vm_compute in H. destruct H as [H|[]]. injection H as _ <-. reflexivity.
  - vm_compute. reflexivity.
  - split; [intros (c & p & [E|[n E]] & _); discriminate|]. split; [intros [m E]; discriminate|].
    vm_compute. split; reflexivity.
Qed.
