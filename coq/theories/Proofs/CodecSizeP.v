(* Bytes consumed by ReadPacket, allocation, and TotalBytes = length of the encoding. *)
From Coq Require Import List NArith ZArith Bool Lia ZifyN ZifyNat ZifyBool.
Import ListNotations.
From GM Require Import Base.Topic Base.Msg Model.CodecBase Model.CodecProps Model.CodecPackets Oracle.C06O
  Proofs.CodecBaseP Proofs.CodecStrP Proofs.CodecTotalP.
Open Scope N_scope.

Ltac Zify.zify_post_hook ::= Z.div_mod_to_equations.

Lemma land_128_zero_or_big : forall d, N.land d 128 = 0 \/ 128 <= d.
Proof. intros. destruct (N.lt_ge_cases d 128); [left; now apply land_128_small|right; assumption]. Qed.

Lemma read_vbi_span : forall b vbi mult v r,
  read_vbi b vbi mult = Ok (v, r) -> len b - len r <= varint_span b /\ len r <= len b.
Proof.
  induction b; intros vbi mult v r H; cbn [read_vbi] in H; [discriminate|].
  - destruct (21 <? mult); [discriminate|]. destruct (_ <? _); [discriminate|].
    cbn [varint_span]. rewrite len_cons.
    destruct (N.eqb_spec (N.land a 128) 0) as [E|E].
    + destruct (_ && _); [discriminate|]. inversion H; subst. destruct (a <? 128); lia.
    + apply IHb in H. destruct (land_128_zero_or_big a); [congruence|].
      replace (a <? 128) with false by lia. lia.
Qed.

(* C06_consumes: an accepted packet is a prefix of the input; the bytes taken are the first
   byte, the Remaining Length field and exactly the declared Remaining Length *)
Theorem read_packet_consumes : forall v bs p rest,
  read_packet v bs = Ok (p, rest) ->
  exists h pre, p_fh p = Some h /\ bs = pre ++ rest
    /\ len pre <= 1 + varint_span (tl bs) + fh_rl h
    /\ fh_rl h <= len bs.
Proof.
  intros v bs p rest H. unfold read_packet, read_packet_full in H.
  destruct bs as [|first r]; [discriminate|].
  destruct (read_varint r) as [[rl r1]| | |] eqn:Ev; try discriminate.
  destruct (read_vbi_span _ _ _ _ _ Ev) as [Hsp Hle].
  destruct (read_vbi_suffix _ _ _ _ _ Ev) as [vpre Hvp].
  destruct (precheck _) as [[|b]| | |] eqn:Ep; try discriminate.
  - (* a body of rl bytes is read *)
    rewrite shorter_spec in H. destruct (N.ltb_spec (len r1) rl); [discriminate|].
    unfold buf_next in H. cbn [fst] in H.
    destruct (parse_body _ _ _) as [b| | |]; try discriminate. cbn [bind] in H.
    inversion H; subst p rest; clear H. cbn [p_fh].
    eexists. exists (first :: vpre ++ takeN rl r1). split; [reflexivity|].
    split; [| split].
    + cbn [app]. f_equal. rewrite <- app_assoc, take_drop. assumption.
    + cbn [tl fh_rl]. rewrite len_cons, len_app, takeN_len.
      assert (Hlen : len r = len vpre + len r1) by (rewrite Hvp, len_app; reflexivity). lia.
    + cbn [fh_rl]. rewrite len_cons. lia.
  - (* no body: PINGREQ, PINGRESP, AUTH with remaining length 0 *)
    cbn [fst] in H. inversion H; subst p rest; clear H. cbn [p_fh].
    eexists. exists (first :: vpre). split; [reflexivity|].
    split; [| split].
    + cbn [app]. f_equal. assumption.
    + cbn [tl fh_rl]. rewrite len_cons.
      assert (Hlen : len r = len vpre + len r1) by (rewrite Hvp, len_app; reflexivity). lia.
    + cbn [fh_rl]. unfold precheck in Ep. cbn [fh_type fh_flags fh_rl] in Ep.
      assert (rl = 0).
      { repeat match type of Ep with
               | (if ?c then _ else _) = _ => destruct c eqn:?; try discriminate
               | bind _ _ = _ => destruct (publish_flags _); try discriminate
               end; lia. }
      lia.
Qed.

(* what readRemaining asks for before the bytes have arrived: at most 4096 bytes, or no more
   than the input holds *)
Theorem read_alloc_bounded : forall v bs, read_alloc v bs <= 4096 \/ read_alloc v bs <= len bs.
Proof.
  intros. unfold read_alloc, read_packet_full.
  destruct bs as [|first r]; [left; cbn; lia|].
  destruct (read_varint r) as [[rl r1]| | |] eqn:Ev; try (left; cbn; lia).
  destruct (read_vbi_span _ _ _ _ _ Ev) as [_ Hle].
  destruct (precheck _) as [[|b]| | |]; try (left; cbn; lia).
  assert (Ha : (if rl <=? 4096 then rl else N.min rl (len r1)) <= 4096
               \/ (if rl <=? 4096 then rl else N.min rl (len r1)) <= len (first :: r)).
  { rewrite len_cons. destruct (N.leb_spec rl 4096); [left; lia|right; lia]. }
  destruct (shorter r1 rl); [exact Ha|]. unfold buf_next. exact Ha.
Qed.

(* an accepted packet never made the decoder allocate more than the input holds *)
Theorem read_alloc_accepted : forall v bs p rest,
  read_packet v bs = Ok (p, rest) -> read_alloc v bs <= len bs.
Proof.
  intros v bs p rest H. unfold read_packet, read_alloc in *. unfold read_packet_full in *.
  destruct bs as [|first r]; [discriminate|].
  destruct (read_varint r) as [[rl r1]| | |] eqn:Ev; try discriminate.
  destruct (read_vbi_span _ _ _ _ _ Ev) as [Hsp Hle].
  destruct (precheck _) as [[|b]| | |]; try discriminate.
  rewrite shorter_spec in *. destruct (N.ltb_spec (len r1) rl); [discriminate|].
  unfold buf_next. cbn [snd]. rewrite len_cons. destruct (rl <=? 4096); lia.
Qed.

(* allocation in proportion to the bytes supplied *)
Definition alloc_proportional (v : N) (bs : list N) : Prop := read_alloc v bs <= 64 * len bs + 4096.
Theorem alloc_proportional_all : forall v bs, alloc_proportional v bs.
Proof. intros v bs. unfold alloc_proportional. destruct (read_alloc_bounded v bs); lia. Qed.
(* the former counterexample: five bytes declaring 268435455 *)
Lemma alloc_witness_repaired : read_alloc 4 [48; 255; 255; 255; 127] = 0.
Proof. vm_compute. reflexivity. Qed.

(* ---------------------------------------------------------------- TotalBytes *)
Lemma pack_fixhdr_len : forall fh l, pack_fixhdr fh = Ok l ->
  fh_rl fh < 268435456 /\
  len l = (if fh_rl fh <? 128 then 2 else if fh_rl fh <? 16384 then 3 else if fh_rl fh <? 2097152 then 4 else 5).
Proof.
  intros fh l H. unfold pack_fixhdr in H.
  destruct (N.ltb_spec (fh_rl fh) 268435456) as [Hlt|Hge].
  - rewrite encode_varint_bytes in H by assumption. cbn [bind] in H. inversion H; subst. split; [assumption|].
    rewrite len_cons, varint_bytes_len by assumption.
    destruct (_ <? 128); [reflexivity|]. destruct (_ <? 16384); [reflexivity|]. destruct (_ <? 2097152); reflexivity.
  - exfalso. unfold encode_varint, varint_size in H.
    replace (fh_rl fh <? 128) with false in H by lia. replace (fh_rl fh <? 16384) with false in H by lia.
    replace (fh_rl fh <? 2097152) with false in H by lia. replace (fh_rl fh <? 268435456) with false in H by lia.
    discriminate.
Qed.

(* C06_size: after Pack, TotalBytes reports the number of bytes written *)
Theorem total_bytes_pack : forall b bs fh,
  pack_full b = Ok (bs, fh) -> total_bytes {| p_fh := Some fh; p_body := b |} = len bs.
Proof.
  intros b bs fh H. unfold pack_full in H.
  destruct (pack_body b) as [[[t flags] bytes]| | |]; try discriminate. cbn [bind] in H.
  destruct (pack_fixhdr _) as [l| | |] eqn:Eh; try discriminate. cbn [bind] in H.
  inversion H; subst bs fh; clear H.
  apply pack_fixhdr_len in Eh. cbn [fh_rl] in Eh. destruct Eh as [Hlt Hl].
  unfold total_bytes. cbn [p_fh fh_rl]. rewrite len_app, Hl.
  destruct (N.ltb_spec (len bytes) 128); [replace (len bytes <=? 127) with true by lia; lia|].
  replace (len bytes <=? 127) with false by lia.
  destruct (N.ltb_spec (len bytes) 16384); [replace (len bytes <=? 16383) with true by lia; lia|].
  replace (len bytes <=? 16383) with false by lia.
  destruct (N.ltb_spec (len bytes) 2097152); [replace (len bytes <=? 2097151) with true by lia; lia|].
  replace (len bytes <=? 2097151) with false by lia.
  replace (len bytes <=? 268435455) with true by lia. lia.
Qed.

(* the header Pack leaves in the packet declares the length of what follows it *)
Lemma pack_full_header : forall b bs fh,
  pack_full b = Ok (bs, fh) -> exists h body, bs = h ++ body /\ pack_fixhdr fh = Ok h /\ fh_rl fh = len body.
Proof.
  intros b bs fh H. unfold pack_full in H.
  destruct (pack_body b) as [[[t flags] bytes]| | |]; try discriminate. cbn [bind] in H.
  destruct (pack_fixhdr _) as [l| | |] eqn:Eh; try discriminate. cbn [bind] in H.
  inversion H; subst bs fh; clear H. exists l, bytes. auto.
Qed.
