(* C14 (static half) - the loop shape found in initPluginHooks computes `compose`, and the
   statements over the generated table Gen/HookKinds.v. *)
From Coq Require Import List Arith Bool String Lia.
Import ListNotations.
From GM Require Import Gen.HookKinds Model.Hooks.

Section ComposeP.
  Context {H : Type}.

  Lemma compose_app (ws1 ws2 : list (H -> H)) base :
    compose (ws1 ++ ws2) base = compose ws1 (compose ws2 base).
  Proof. unfold compose. now rewrite fold_right_app. Qed.

  Lemma firstn_S_nth (ws : list (H -> H)) i d :
    i < List.length ws -> firstn (S i) ws = firstn i ws ++ [nth i ws d].
  Proof.
    revert i; induction ws as [|w ws IH]; intros i Hi; cbn in Hi; [lia|].
    destruct i as [|i]; [reflexivity|]. simpl. f_equal. apply IH. lia.
  Qed.

  Lemma loop_desc_firstn (ws : list (H -> H)) :
    forall i h, i <= List.length ws -> loop_desc ws i h = compose (firstn i ws) h.
  Proof.
    induction i as [|i IH]; intros h Hi; [reflexivity|].
    cbn [loop_desc]. rewrite IH by lia.
    rewrite (firstn_S_nth ws i (fun x => x)) by lia. now rewrite compose_app.
  Qed.

  (* the descending loop of initPluginHooks installs compose ws base *)
  Theorem loop_desc_compose (ws : list (H -> H)) base :
    loop_desc ws (List.length ws) base = compose ws base.
  Proof. rewrite loop_desc_firstn by lia. now rewrite firstn_all. Qed.

  (* the ascending loop would install the wrappers in the opposite nesting *)
  Theorem loop_asc_compose_rev (ws : list (H -> H)) base :
    loop_asc ws base = compose (rev ws) base.
  Proof. unfold loop_asc, compose. now rewrite fold_left_rev_right. Qed.

  (* first plugin outermost *)
  Theorem compose_first_outermost (w : H -> H) ws base :
    compose (w :: ws) base = w (compose ws base).
  Proof. reflexivity. Qed.

  Theorem compose_nil (base : H) : compose [] base = base.
  Proof. reflexivity. Qed.
End ComposeP.

(* ---------------------------------------------------------------- over the generated table *)

(* what initPluginHooks installs for a row, as a function of the contents of the local wrapper
   slices (`sl` maps the name of a slice to the wrappers collected into it, in plugin_order) and of
   the hook the fold starts from: the loop runs over the LENGTH of slice hr_bound and takes its
   wrappers from slice hr_indexed *)
Definition installed {H : Type} (row : hook_row) (sl : string -> list (H -> H)) (base : H) : H :=
  if hr_applied row then
    match hr_dir row with
    | Desc => loop_desc (sl (hr_indexed row)) (List.length (sl (hr_bound row))) base
    | Asc => loop_asc (firstn (List.length (sl (hr_bound row))) (sl (hr_indexed row))) base
    | NoLoop => base
    end
  else base.

Definition row_installed (row : hook_row) : bool := hr_collected row && hr_applied row.

(* shape of an apply block: folds downwards over the field's OWN slice (bound and indexed slice are
   the slice the field is collected into), starts from and stores to the hook of its kind *)
Definition row_order_ok (row : hook_row) : bool :=
  match hr_dir row with Desc => true | _ => false end
  && String.eqb (hr_bound row) (hr_slice row) && String.eqb (hr_indexed row) (hr_slice row)
  && String.eqb (hr_base row) (hr_kind row) && String.eqb (hr_store row) (hr_kind row).

Fixpoint strs_eqb (a b : list string) : bool :=
  match a, b with
  | [], [] => true
  | x :: a', y :: b' => String.eqb x y && strs_eqb a' b'
  | _, _ => false
  end.

Definition mem_str (x : string) (l : list string) : bool := existsb (String.eqb x) l.

(* the table has exactly one row per HookWrapper field, and the kinds are exactly the Hooks fields *)
Definition table_covers : bool :=
  strs_eqb (map hr_field hook_rows) hook_wrapper_fields
  && forallb (fun k => mem_str k hooks_fields) (map hr_kind hook_rows)
  && forallb (fun k => mem_str k (map hr_kind hook_rows)) hooks_fields
  && Nat.eqb (List.length hook_rows) (List.length hooks_fields).

Lemma table_covers_ok : table_covers = true.
Proof. vm_compute. reflexivity. Qed.

Definition reauth : string := "OnReAuthWrapper"%string.

(* FULL statement (holds since repair 00ceffb; before it OnReAuthWrapper was collected and never applied) *)
Lemma installed_all :
  forall row, In row hook_rows -> row_installed row = true.
Proof.
  assert (H : forallb row_installed hook_rows = true) by (vm_compute; reflexivity).
  intros row Hin. rewrite forallb_forall in H. exact (H row Hin).
Qed.

Lemma reauth_row_installed :
  exists row, In row hook_rows /\ hr_field row = reauth /\ hr_collected row = true /\ hr_applied row = true.
Proof.
  destruct (find (fun r => String.eqb (hr_field r) reauth) hook_rows) as [row|] eqn:F.
  - pose proof (find_some _ _ F) as [Hin Hf]. exists row. split; [exact Hin|].
    apply String.eqb_eq in Hf. split; [exact Hf|].
    revert F. vm_compute. intros F. inversion F. subst. split; reflexivity.
  - exfalso. revert F. vm_compute. discriminate.
Qed.

(* every apply block that exists folds right-to-left from the hook of its own kind *)
Lemma order_table :
  forall row, In row hook_rows -> hr_applied row = true -> row_order_ok row = true.
Proof.
  assert (H : forallb (fun r => negb (hr_applied r) || row_order_ok r) hook_rows = true)
    by (vm_compute; reflexivity).
  intros row Hin Ha. rewrite forallb_forall in H. specialize (H row Hin).
  rewrite Ha in H. exact H.
Qed.

Theorem order_installed :
  forall row, In row hook_rows -> hr_applied row = true ->
    hr_base row = hr_kind row /\ hr_store row = hr_kind row /\
    hr_bound row = hr_slice row /\ hr_indexed row = hr_slice row /\
    forall (H : Type) (sl : string -> list (H -> H)) (base : H),
      installed row sl base = compose (sl (hr_slice row)) base.
Proof.
  intros row Hin Ha. pose proof (order_table row Hin Ha) as Ok.
  unfold row_order_ok in Ok. apply andb_true_iff in Ok as [Ok Hs]. apply andb_true_iff in Ok as [Ok Hb].
  apply andb_true_iff in Ok as [Ok Hi]. apply andb_true_iff in Ok as [Hd Hbd].
  apply String.eqb_eq in Hs. apply String.eqb_eq in Hb. apply String.eqb_eq in Hi. apply String.eqb_eq in Hbd.
  split; [exact Hb|]. split; [exact Hs|]. split; [exact Hbd|]. split; [exact Hi|].
  intros H sl base. unfold installed. rewrite Ha, Hbd, Hi.
  destruct (hr_dir row); try discriminate. apply loop_desc_compose.
Qed.

(* the collect slices are pairwise different: no two fields share a slice *)
Fixpoint nodup_strs (l : list string) : bool :=
  match l with [] => true | x :: tl => negb (existsb (String.eqb x) tl) && nodup_strs tl end.

Lemma slices_distinct : nodup_strs (map hr_slice hook_rows) = true.
Proof. vm_compute. reflexivity. Qed.

(* a loop bounded by the length of ANOTHER slice installs something else: too short a bound drops
   the wrappers of the first plugins *)
Example wrong_bound_differs : loop_desc [tag 1; tag 2; tag 3] 1 [] = [1] /\ compose [tag 1; tag 2; tag 3] [] = [1; 2; 3].
Proof. split; reflexivity. Qed.

(* non-vacuity: the nesting matters, and the two loop shapes differ *)
Example compose_trace : compose [tag 1; tag 2; tag 3] [] = [1; 2; 3].
Proof. reflexivity. Qed.

Example loop_desc_trace : loop_desc [tag 1; tag 2; tag 3] 3 [] = [1; 2; 3].
Proof. reflexivity. Qed.

Example loop_asc_trace : loop_asc [tag 1; tag 2; tag 3] [] = [3; 2; 1].
Proof. reflexivity. Qed.

Example some_row_applied : exists row, In row hook_rows /\ hr_applied row = true.
Proof.
  destruct (find hr_applied hook_rows) as [row|] eqn:F.
  - pose proof (find_some _ _ F) as [Hin Hf]. now exists row.
  - exfalso. revert F. vm_compute. discriminate.
Qed.

Theorem first_outermost :
  forall (H : Type) (w : H -> H) (ws : list (H -> H)) (base : H),
    compose (w :: ws) base = w (compose ws base).
Proof. intros H w ws base. exact (compose_first_outermost w ws base). Qed.

Theorem loop_shape :
  forall (H : Type) (ws : list (H -> H)) (base : H),
    loop_desc ws (List.length ws) base = compose ws base /\ loop_asc ws base = compose (rev ws) base.
Proof. intros H ws base. split; [apply loop_desc_compose | apply loop_asc_compose_rev]. Qed.

Example nesting_matters :
  compose [tag 1; tag 2; tag 3] [] = [1; 2; 3] /\ loop_desc [tag 1; tag 2; tag 3] 3 [] = [1; 2; 3]
  /\ loop_asc [tag 1; tag 2; tag 3] [] = [3; 2; 1].
Proof. exact (conj compose_trace (conj loop_desc_trace loop_asc_trace)). Qed.
