(* C15 - proofs about the lock semantics of Model/LockOrder.v:
   lock_order_sound : if every request respects a strict partial order on lock classes, no
                      reachable state has a cycle in the wait-for graph (induction over runs);
   acyclicb_sound   : the executable check yields a ranking, hence a strict order compatible
                      with the relation, hence no cycle in the relation;
   soundness of the small search functions (two_cycleb, reachb). *)
From Coq Require Import List Arith Bool String Relations Lia.
Import ListNotations.
From GM Require Import Model.LockOrder.

Section Sound.
  Context {L C : Type}.
  Context (cls : L -> C).
  Context (lt : C -> C -> Prop).
  Context (lt_irrefl : forall c, ~ lt c c).
  Context (lt_trans : forall a b c, lt a b -> lt b c -> lt a c).

  (* the invariant: a waiting thread waits for a lock above everything it holds *)
  Definition wait_inv (s : lstate L) : Prop :=
    forall t l, waiting s t = Some l -> forall l', In l' (held s t) -> lt (cls l') (cls l).

  Lemma upd_same {A} (f : nat -> A) t v : upd f t v t = v.
  Proof. unfold upd. now rewrite Nat.eqb_refl. Qed.

  Lemma upd_other {A} (f : nat -> A) t t' v : t' <> t -> upd f t v t' = f t'.
  Proof. intros H. unfold upd. apply Nat.eqb_neq in H. now rewrite H. Qed.

  Lemma wait_inv_init : wait_inv linit.
  Proof. intros t l H. discriminate. Qed.

  Lemma wait_inv_step (s s' : lstate L) : wait_inv s -> lstep cls lt s s' -> wait_inv s'.
  Proof.
    intros I St. destruct St as [s t l Hw Hr | s t l Hw | s t l pre post Hw Hh]; intros u m Hu m' Hm'; cbn in *.
    - (* request *)
      destruct (Nat.eq_dec u t) as [->|Ne].
      + rewrite upd_same in Hu. inversion Hu; subst. now apply Hr.
      + rewrite upd_other in Hu by assumption. eapply I; eassumption.
    - (* grant: the thread no longer waits *)
      destruct (Nat.eq_dec u t) as [->|Ne].
      + rewrite upd_same in Hu. discriminate.
      + rewrite upd_other in Hu by assumption. rewrite upd_other in Hm' by assumption. eapply I; eassumption.
    - (* release: only a thread that does not wait releases *)
      destruct (Nat.eq_dec u t) as [->|Ne].
      + congruence.
      + rewrite upd_other in Hm' by assumption. eapply I; eassumption.
  Qed.

  Lemma wait_inv_reach (s : lstate L) : lreach cls lt s -> wait_inv s.
  Proof. induction 1; [apply wait_inv_init | eapply wait_inv_step; eassumption]. Qed.

  (* along a path of the wait-for graph the wanted classes strictly increase *)
  Lemma wait_path_increases (s : lstate L) : wait_inv s ->
    forall t t', clos_trans nat (wait_for s) t t' ->
      forall l', waiting s t' = Some l' -> exists l, waiting s t = Some l /\ lt (cls l) (cls l').
  Proof.
    intros I t t' P. induction P as [t t' [l [Hw Hin]] | t m t' _ IH1 _ IH2]; intros l' Hl'.
    - exists l. split; [assumption|]. eapply I; eassumption.
    - destruct (IH2 _ Hl') as [lm [Hm Hlt2]]. destruct (IH1 _ Hm) as [l [Hl Hlt1]].
      exists l. split; [assumption|]. eapply lt_trans; eassumption.
  Qed.

  Lemma wait_path_src_waits (s : lstate L) t t' : clos_trans nat (wait_for s) t t' -> exists l, waiting s t = Some l.
  Proof. induction 1 as [t t' [l [Hw _]] | t m t' _ IH1 _ _]; [now exists l | exact IH1]. Qed.

  Theorem lock_order_sound : forall s : lstate L, lreach cls lt s -> ~ deadlocked s.
  Proof.
    intros s R [t Cy]. pose proof (wait_inv_reach s R) as I.
    destruct (wait_path_src_waits s t t Cy) as [l Hl].
    destruct (wait_path_increases s I t t Cy l Hl) as [l0 [Hl0 Hlt]].
    rewrite Hl in Hl0. inversion Hl0; subst. exact (lt_irrefl _ Hlt).
  Qed.
End Sound.

(* ------------------------------------------------------------------------------------ *)

Section ChecksP.
  Context {C : Type}.
  Context (eqb : C -> C -> bool).

  (* a ranking that increases along every edge *)
  Definition ranking (r : list (C * C)) (f : C -> nat) : Prop := forall a b, In (a, b) r -> f a < f b.

  Lemma rank_okb_sound rk r : rank_okb eqb rk r = true -> ranking r (lookup eqb rk).
  Proof.
    unfold rank_okb. intros H a b Hin. rewrite forallb_forall in H. specialize (H (a, b) Hin).
    cbn in H. now apply Nat.ltb_lt in H.
  Qed.

  Theorem acyclicb_sound r : acyclicb eqb r = true -> exists f, ranking r f.
  Proof. intros H. exists (lookup eqb (ranks eqb r)). now apply rank_okb_sound. Qed.

  Lemma ranking_path r f : ranking r f -> forall a b, clos_trans C (edge r) a b -> f a < f b.
  Proof. intros Rk a b P. induction P as [a b E | a m b _ IH1 _ IH2]; [now apply Rk | lia]. Qed.

  Theorem ranking_no_cycle r f : ranking r f -> forall x, ~ clos_trans C (edge r) x x.
  Proof. intros Rk x P. pose proof (ranking_path r f Rk x x P). lia. Qed.

  (* the order induced by a ranking is a strict partial order that contains the relation *)
  Definition rank_lt (f : C -> nat) (a b : C) : Prop := f a < f b.

  Lemma rank_lt_irrefl f c : ~ rank_lt f c c.
  Proof. unfold rank_lt. lia. Qed.

  Lemma rank_lt_trans f a b c : rank_lt f a b -> rank_lt f b c -> rank_lt f a c.
  Proof. unfold rank_lt. lia. Qed.

  Theorem acyclicb_no_cycle r : acyclicb eqb r = true -> forall x, ~ clos_trans C (edge r) x x.
  Proof. intros H. destruct (acyclicb_sound r H) as [f Rk]. now apply (ranking_no_cycle r f). Qed.

  (* search functions: a positive answer exhibits what was searched for *)
  Context (eqb_eq : forall a b, eqb a b = true -> a = b).

  Theorem two_cycleb_sound r : two_cycleb eqb r = true ->
    exists a b, In (a, b) r /\ In (b, a) r.
  Proof.
    unfold two_cycleb. intros H. apply existsb_exists in H as [[a b] [Hin H]].
    apply existsb_exists in H as [[c d] [Hin' H]]. cbn in H.
    apply andb_true_iff in H as [H1 H2]. apply eqb_eq in H1. apply eqb_eq in H2. subst.
    now exists d, c.
  Qed.

  Corollary two_cycleb_cycle r : two_cycleb eqb r = true -> exists x, clos_trans C (edge r) x x.
  Proof.
    intros H. destruct (two_cycleb_sound r H) as [a [b [H1 H2]]]. exists a.
    eapply t_trans; apply t_step; [exact H1 | exact H2].
  Qed.

  Theorem reachb_sound r n : forall a b, reachb eqb r n a b = true -> clos_refl_trans C (edge r) a b.
  Proof.
    induction n as [|n IH]; intros a b H; cbn in H.
    - apply eqb_eq in H. subst. apply rt_refl.
    - apply orb_true_iff in H as [H|H].
      + apply eqb_eq in H. subst. apply rt_refl.
      + apply existsb_exists in H as [[c d] [Hin H]]. cbn in H. apply andb_true_iff in H as [H1 H2].
        apply eqb_eq in H1. subst. eapply rt_trans; [apply rt_step; exact Hin | now apply IH].
  Qed.

  (* a closed set that contains a contains everything reachable from a (no law of eqb needed) *)
  Theorem closed_setb_sound r S : closed_setb eqb r S = true ->
    forall a b, clos_refl_trans C (edge r) a b -> memb eqb a S = true -> memb eqb b S = true.
  Proof.
    intros H a b P. induction P as [a b E | a | a m b _ IH1 _ IH2]; intros Ha.
    - unfold closed_setb in H. rewrite forallb_forall in H. specialize (H (a, b) E). cbn in H.
      rewrite Ha in H. exact H.
    - exact Ha.
    - auto.
  Qed.
End ChecksP.

(* ------------------------------------------------------------------------------------ *)
(* The combination used by C15: a relation R that contains every (held class, requested
   class) pair of the program and passes the check excludes lock deadlocks. *)

Section Combined.
  Context {L C : Type}.
  Context (cls : L -> C).
  Context (eqb : C -> C -> bool).

  (* the discipline "every request is in R": the class of each held lock is R-related to the
     class of the requested one *)
  Definition in_relation (r : list (C * C)) (a b : C) : Prop := In (a, b) r.

  Theorem acyclic_relation_no_deadlock (r : list (C * C)) :
    acyclicb eqb r = true ->
    forall s : lstate L, lreach cls (in_relation r) s -> ~ deadlocked s.
  Proof.
    intros H s R. destruct (acyclicb_sound eqb r H) as [f Rk].
    (* every run that respects R also respects the order induced by the ranking *)
    assert (Mono : forall s : lstate L, lreach cls (in_relation r) s -> lreach cls (rank_lt f) s).
    { clear s R. induction 1 as [|s s' _ IH St]; [constructor|].
      eapply lreach_step; [exact IH|].
      destruct St as [s t l Hw Hr | s t l Hw | s t l pre post Hw Hh].
      - apply step_request; [assumption|]. intros l' Hl'. apply Rk. now apply Hr.
      - now apply step_grant.
      - eapply step_release; eassumption. }
    eapply (lock_order_sound cls (rank_lt f)).
    - apply rank_lt_irrefl.
    - apply rank_lt_trans.
    - now apply Mono.
  Qed.
End Combined.
