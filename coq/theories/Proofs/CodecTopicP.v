(* ValidUTF8 / ValidTopicName / ValidTopicFilter / ValidV5Topic against the specification's
   predicates: where they differ (witnesses), and where they provably agree. *)
From Coq Require Import List NArith ZArith Bool Lia ZifyN ZifyNat ZifyBool.
Import ListNotations.
From GM Require Import Base.Topic Base.Msg Model.TopicMatch Model.CodecBase Model.CodecSpec Oracle.C06O
  Proofs.CodecBaseP Proofs.CodecStrP Proofs.CodecUtf8P.
Open Scope N_scope.

Ltac Zify.zify_post_hook ::= Z.div_mod_to_equations.

(* ---------------------------------------------------------------- witnesses of the repaired defects *)
(* "" is not a topic name; U+0000 is refused; "+a", "+a/#", "$share/g/+a" are refused;
   U+FFFD is accepted in names, filters, share names *)
Lemma empty_name_refused : valid_topic_name_impl true [] = Ok false /\ valid_topic_name_impl false [] = Ok false.
Proof. split; reflexivity. Qed.
Lemma nul_refused :
  valid_topic_name_impl true [97; 0] = Ok false /\ valid_topic_name_impl false [97; 0] = Ok false
  /\ valid_topic_filter_impl true [97; 0] = Ok false /\ valid_v5_topic_impl [97; 0] = Ok false
  /\ valid_v5_topic_impl [36; 115; 104; 97; 114; 101; 47; 0; 47; 97] = Ok false.
Proof. repeat split; vm_compute; reflexivity. Qed.
Lemma plus_prefix_refused :
  valid_topic_filter_impl true [43; 97] = Ok false /\ valid_topic_filter_impl false [43; 97; 47; 35] = Ok false
  /\ valid_v5_topic_impl [36; 115; 104; 97; 114; 101; 47; 103; 47; 43; 97] = Ok false.
Proof. repeat split; vm_compute; reflexivity. Qed.
Lemma fffd_topics_accepted :
  valid_topic_name_impl true [239; 191; 189] = Ok true /\ valid_topic_filter_impl true [239; 191; 189; 47; 35] = Ok true
  /\ valid_v5_topic_impl [36; 115; 104; 97; 114; 101; 47; 239; 191; 189; 47; 239; 191; 189] = Ok true.
Proof. repeat split; vm_compute; reflexivity. Qed.

(* ---------------------------------------------------------------- runes and bytes *)
(* a multi-byte rune consists of bytes >= 128 *)
Lemma decode_rune_multi : forall p, 1 <? snd (decode_rune p) = true ->
  forallb (fun x => 128 <=? x) (takeN (snd (decode_rune p)) p) = true.
Proof.
  intros p H. destruct p as [|p0 t]; [cbn in H; discriminate|]. unfold decode_rune in *.
  destruct (N.ltb_spec p0 128); [cbn in H; discriminate|].
  destruct ((p0 <? 194) || (244 <? p0)); [cbn in H; discriminate|].
  cbv zeta in *.
  destruct t as [|b1 t1]; [cbn in H; discriminate|].
  destruct ((b1 <? _) || (_ <? b1)) eqn:E1; [cbn in H; discriminate|].
  assert (Hb1 : 128 <= b1).
  { destruct (p0 =? 224), (p0 =? 240); lia. }
  destruct (p0 <? 224).
  { cbn [snd takeN N.eqb N.pred Pos.pred_N forallb]. rewrite takeN_0. cbn [forallb]. lia. }
  destruct t1 as [|b2 t2]; [cbn in H; discriminate|].
  destruct (N.ltb_spec b2 128); cbn [orb] in *; [cbn in H; discriminate|].
  destruct (191 <? b2); [cbn in H; discriminate|].
  destruct (p0 <? 240).
  { cbn [snd takeN N.eqb N.pred Pos.pred_N Pos.pred_double forallb]. rewrite takeN_0. cbn [forallb]. lia. }
  destruct t2 as [|b3 t3]; [cbn in H; discriminate|].
  destruct (N.ltb_spec b3 128); cbn [orb] in *; [cbn in H; discriminate|].
  destruct (191 <? b3); [cbn in H; discriminate|].
  cbn [snd takeN N.eqb N.pred Pos.pred_N Pos.pred_double forallb]. rewrite takeN_0. cbn [forallb]. lia.
Qed.

Lemma has_wild_app : forall a b, has_wild (a ++ b) = has_wild a || has_wild b.
Proof. intros. unfold has_wild. apply existsb_app. Qed.
Lemma has_wild_high : forall l, forallb (fun x => 128 <=? x) l = true -> has_wild l = false.
Proof.
  induction l; intros H; [reflexivity|]. cbn [forallb] in H. apply andb_prop in H. destruct H as [Ha Hl].
  cbn [has_wild existsb]. fold (has_wild l). rewrite IHl by assumption. unfold PLUS, HASH. lia.
Qed.

(* the bytes DecodeRune steps over contain a wildcard only if it is a one-byte rune *)
Lemma rune_wild : forall p0 t, let p := p0 :: t in
  has_wild (takeN (snd (decode_rune p)) p) = (snd (decode_rune p) =? 1) && ((p0 =? PLUS) || (p0 =? HASH)).
Proof.
  intros p0 t p. destruct (decode_rune_size p ltac:(discriminate)) as [H1 H2].
  destruct (N.eqb_spec (snd (decode_rune p)) 1) as [E|E].
  - rewrite E. subst p. cbn [takeN N.eqb N.pred Pos.pred_N]. rewrite takeN_0.
    cbn [has_wild existsb andb]. rewrite orb_false_r. reflexivity.
  - cbn [andb]. apply has_wild_high. apply decode_rune_multi. lia.
Qed.

(* ---------------------------------------------------------------- ValidTopicName(false, p) *)
Lemma no_nul_app : forall a b, no_nul (a ++ b) = no_nul a && no_nul b.
Proof. intros. unfold no_nul. rewrite existsb_app. destruct (existsb _ a), (existsb _ b); reflexivity. Qed.
Lemma no_nul_high : forall l, forallb (fun x => 128 <=? x) l = true -> no_nul l = true.
Proof.
  induction l; intros H; [reflexivity|]. cbn [forallb] in H. apply andb_prop in H. destruct H as [Ha Hl].
  unfold no_nul in *. cbn [existsb]. replace (0 =? a) with false by lia. cbn [orb]. now apply IHl.
Qed.
Lemma no_nul_cons : forall a t, no_nul (a :: t) = negb (a =? 0) && no_nul t.
Proof. intros. unfold no_nul. cbn [existsb]. rewrite N.eqb_sym. destruct (a =? 0); reflexivity. Qed.

(* the bytes DecodeRune steps over contain U+0000 only if the rune is U+0000 *)
Lemma rune_nul : forall p0 t, let p := p0 :: t in
  no_nul (takeN (snd (decode_rune p)) p) = negb (fst (decode_rune p) =? 0).
Proof.
  intros p0 t p. destruct (decode_rune_size p ltac:(discriminate)) as [H1 H2].
  unfold p at 3. rewrite decode_rune_zero.
  destruct (N.eqb_spec (snd (decode_rune p)) 1) as [E|E].
  - rewrite E. subst p. cbn [takeN N.eqb N.pred Pos.pred_N]. rewrite takeN_0.
    rewrite no_nul_cons. unfold no_nul. cbn [existsb]. rewrite andb_true_r. reflexivity.
  - pose proof (decode_rune_multi p ltac:(lia)) as Hh. rewrite (no_nul_high _ Hh).
    assert (Hp0 : 128 <= p0).
    { subst p. cbn [takeN] in Hh. replace (snd (decode_rune (p0 :: t)) =? 0) with false in Hh by lia.
      cbn [forallb] in Hh. lia. }
    replace (p0 =? 0) with false by lia. reflexivity.
Qed.

Lemma valid_topic_name_loop_bytes : forall fuel p, (length p < fuel)%nat ->
  valid_topic_name_loop fuel false p = Ok (negb (has_wild p) && no_nul p).
Proof.
  induction fuel; intros p Hf; [lia|]. cbn [valid_topic_name_loop].
  destruct p as [|p0 t] eqn:Ep; [reflexivity|]. rewrite <- Ep in *.
  assert (Hp : p <> []) by (subst; discriminate).
  destruct (rune_step p Hp) as [Hs Hl].
  pose proof (rune_wild p0 t) as Hw. pose proof (rune_nul p0 t) as Hz. cbv zeta in Hw, Hz. rewrite <- Ep in Hw, Hz.
  destruct (decode_rune p) as [ru size]. cbn [fst snd andb] in *.
  rewrite <- (take_drop _ p size) at 2 3. rewrite has_wild_app, no_nul_app, Hw, Hz.
  destruct (ru =? 0); cbn [negb andb]; [now rewrite andb_false_r|].
  destruct ((size =? 1) && ((p0 =? PLUS) || (p0 =? HASH))); [reflexivity|].
  rewrite Hs. cbn [bind orb negb]. apply IHfuel. lia.
Qed.

(* ValidTopicName(false, p): non-empty, no wildcard byte, no null byte - MQTT 4.7.3-1, 4.7.1-1,
   4.7.3-2 - on every byte string *)
Theorem name_bytes_exact : forall s,
  valid_topic_name_impl false s = Ok (valid_name_spec s && no_nul s).
Proof.
  intros s. unfold valid_topic_name_impl. destruct s as [|c t] eqn:Es; [reflexivity|]. rewrite <- Es.
  rewrite valid_topic_name_loop_bytes by lia. unfold valid_name_spec. subst s. reflexivity.
Qed.

(* ---------------------------------------------------------------- ValidUTF8 *)
(* ValidUTF8 gives the verdict MQTT 1.5.4 asks for on EVERY byte string: it accepts what must be
   accepted, and refuses only ill-formed UTF-8, U+0000 and control characters (which a receiver
   may refuse) *)
Theorem utf8_verdict : forall s, utf8_verdict_ok s (tb_of (valid_utf8_impl s)) = true.
Proof.
  intros s. rewrite valid_utf8_impl_spec. cbn [tb_of]. unfold utf8_verdict_ok.
  destruct (spec_utf8 s) eqn:E1; destruct (has_ctl s) eqn:E2; cbn [andb negb orb]; try reflexivity; assumption.
Qed.

(* every string of a well-formed packet value (wf_str) passes ValidUTF8 *)
Theorem wf_str_accepted : forall s, wf_str s = true -> valid_utf8_impl s = Ok true.
Proof.
  intros s Hw. rewrite valid_utf8_impl_spec. unfold wf_str in Hw.
  destruct (spec_utf8 s); destruct (has_ctl s); cbn in *; try reflexivity; lia.
Qed.

(* ---------------------------------------------------------------- ValidTopicName(true, s) on strings that passed ValidUTF8 *)
(* the decoder always calls readUTF8String(true, ..) before ValidTopicName(true, ..): on such
   strings the invalid-encoding test (RuneError with size 1) never fires *)
Lemma name_loop_must : forall fuel p, valid_utf8_loop fuel p = Ok true ->
  valid_topic_name_loop fuel true p = valid_topic_name_loop fuel false p.
Proof.
  induction fuel; intros p H; [reflexivity|]. cbn [valid_utf8_loop valid_topic_name_loop] in *.
  destruct p as [|p0 t] eqn:Ep; [reflexivity|]. rewrite <- Ep in *.
  assert (Hp : p <> []) by (subst; discriminate).
  destruct (decode_rune_size p Hp) as [H1 _].
  destruct (decode_rune p) as [ru size]. cbn [fst snd] in *.
  destruct (ru <=? 31); [discriminate|]. destruct ((127 <=? ru) && (ru <=? 159)); [discriminate|].
  cbn [andb] in *. destruct ((ru =? RUNE_ERROR) && (size <=? 1)); [discriminate|].
  destruct (negb (valid_rune ru)); [discriminate|].
  destruct (ru =? 0); [reflexivity|].
  destruct ((size =? 1) && ((p0 =? PLUS) || (p0 =? HASH))); [reflexivity|].
  replace (size =? 0) with false in H by lia.
  destruct (slice_from size p) as [p'| | |] eqn:Es; cbn [bind] in *; try reflexivity.
  now apply IHfuel.
Qed.

Lemma G_no_nul : forall s, spec_utf8 s = true -> no_nul s = true.
Proof. intros s H. unfold spec_utf8 in H. apply andb_prop in H. unfold no_nul. tauto. Qed.

(* ValidTopicName(true, s) on every string the decoder passes to it gives the verdict of the
   specification *)
Theorem name_decoder_exact : forall s,
  valid_utf8_impl s = Ok true -> valid_topic_name_impl true s = Ok (spec_topic_name s).
Proof.
  intros s Hu. rewrite valid_utf8_impl_spec in Hu.
  assert (Hsu : spec_utf8 s = true) by (destruct (spec_utf8 s); [reflexivity|cbn in Hu; discriminate]).
  rewrite <- valid_utf8_impl_spec in Hu.
  transitivity (valid_topic_name_impl false s).
  2:{ rewrite name_bytes_exact, (G_no_nul s Hsu), andb_true_r. unfold spec_topic_name. rewrite Hsu. reflexivity. }
  unfold valid_topic_name_impl. destruct s as [|c t] eqn:Es; [reflexivity|]. rewrite <- Es in *.
  now apply name_loop_must.
Qed.
