(* Proofs about the model of the mem session queue (Model/Queue.v), for all histories:
   raw invariants (bound, cursor), shape invariant, absence of panics for well-formed
   callers, and refinement of the abstract queue of the C10 oracle (Oracle/C10O.v). *)
From Coq Require Import List NArith ZArith Bool Arith Lia.
Import ListNotations.
From GM Require Import Base.Topic Base.Msg Model.Queue Oracle.C10O.
Open Scope N_scope.

(* ------------------------------------------------------------------ *)
(* 0. list helpers                                                     *)
(* ------------------------------------------------------------------ *)

Lemma remove_nth_length_le {A} (l : list A) : forall i, (length (remove_nth i l) <= length l)%nat.
Proof. induction l as [|x r IH]; intros [|i]; simpl; auto. specialize (IH i). lia. Qed.

Lemma remove_nth_length {A} (l : list A) : forall i, (i < length l)%nat ->
  length (remove_nth i l) = (length l - 1)%nat.
Proof.
  induction l as [|x r IH]; intros [|i] Hi; simpl in *; try lia.
  rewrite IH by lia. lia.
Qed.

Lemma replace_nth_length {A} (y : A) (l : list A) : forall i, length (replace_nth i y l) = length l.
Proof. induction l as [|x r IH]; intros [|i]; simpl; auto. Qed.

Lemma nth_error_lt {A} (l : list A) i x : nth_error l i = Some x -> (i < length l)%nat.
Proof. intros H. apply nth_error_Some. congruence. Qed.

Lemma remove_nth_app1 {A} (a b : list A) : forall i, (i < length a)%nat ->
  remove_nth i (a ++ b) = remove_nth i a ++ b.
Proof.
  induction a as [|x r IH]; intros [|i] Hi; simpl in *; try lia; auto.
  rewrite IH by lia. reflexivity.
Qed.

Lemma remove_nth_app2 {A} (a b : list A) : forall k,
  remove_nth (length a + k) (a ++ b) = a ++ remove_nth k b.
Proof. induction a as [|x r IH]; intros k; simpl; auto. rewrite IH. reflexivity. Qed.

Lemma replace_nth_app1 {A} (y : A) (a b : list A) : forall i, (i < length a)%nat ->
  replace_nth i y (a ++ b) = replace_nth i y a ++ b.
Proof.
  induction a as [|x r IH]; intros [|i] Hi; simpl in *; try lia; auto.
  rewrite IH by lia. reflexivity.
Qed.

Lemma replace_nth_mid {A} (y x : A) (a b : list A) :
  replace_nth (length a) y (a ++ x :: b) = a ++ y :: b.
Proof. induction a as [|z r IH]; simpl; auto. rewrite IH. reflexivity. Qed.

Lemma remove_nth_mid {A} (x : A) (a b : list A) :
  remove_nth (length a) (a ++ x :: b) = a ++ b.
Proof. induction a as [|z r IH]; simpl; auto. rewrite IH. reflexivity. Qed.

Lemma nth_error_mid {A} (a b : list A) : nth_error (a ++ b) (length a) = hd_error b.
Proof. induction a as [|z r IH]; simpl; auto. Qed.

Lemma map_remove_nth {A B} (f : A -> B) (l : list A) : forall i,
  map f (remove_nth i l) = remove_nth i (map f l).
Proof. induction l as [|x r IH]; intros [|i]; simpl; auto. rewrite IH. reflexivity. Qed.

Lemma Forall2_remove_nth {A B} (P : A -> B -> Prop) (l : list A) (m : list B) :
  Forall2 P l m -> forall i, Forall2 P (remove_nth i l) (remove_nth i m).
Proof.
  intros H. induction H as [|x y l m Hxy H IH]; intros [|i]; simpl; auto.
Qed.

Lemma Forall2_replace_nth {A B} (P : A -> B -> Prop) (l : list A) (m : list B) x y :
  Forall2 P l m -> P x y -> forall i, Forall2 P (replace_nth i x l) (replace_nth i y m).
Proof.
  intros H Hp. induction H as [|x0 y0 l m Hxy H IH]; intros [|i]; simpl; auto.
Qed.

Lemma Forall_remove_nth {A} (P : A -> Prop) (l : list A) :
  Forall P l -> forall i, Forall P (remove_nth i l).
Proof.
  intros H. induction H as [|x l Hx H IH]; intros [|i]; simpl; auto.
Qed.

Lemma Forall2_length' {A B} (P : A -> B -> Prop) l m : Forall2 P l m -> length l = length m.
Proof. intros H. induction H; simpl; auto. Qed.

Lemma Forall2_nth {A B} (P : A -> B -> Prop) l m : Forall2 P l m ->
  forall i x, nth_error l i = Some x -> exists y, nth_error m i = Some y /\ P x y.
Proof.
  intros H. induction H as [|x0 y0 l m Hxy H IH]; intros [|i] x Hn; simpl in *; try discriminate.
  - inversion Hn; subst. eauto.
  - eauto.
Qed.

(* subsequences *)
Inductive subseq {A} : list A -> list A -> Prop :=
| ss_nil : subseq [] []
| ss_keep x l m : subseq l m -> subseq (x :: l) (x :: m)
| ss_skip x l m : subseq l m -> subseq l (x :: m).

Lemma subseq_refl {A} (l : list A) : subseq l l.
Proof. induction l; constructor; auto. Qed.

Lemma subseq_in {A} (l m : list A) : subseq l m -> forall x, In x l -> In x m.
Proof.
  intros H. induction H as [|x l m H IH|x l m H IH]; intros y Hy; simpl in *; auto.
  destruct Hy as [->|Hy]; auto.
Qed.

Lemma subseq_NoDup {A} (l m : list A) : subseq l m -> NoDup m -> NoDup l.
Proof.
  intros H. induction H as [|x l m H IH|x l m H IH]; intros Hn; auto.
  - inversion Hn; subst. constructor; auto. intros Hi. eapply subseq_in in Hi; eauto.
  - inversion Hn; subst. auto.
Qed.

Lemma subseq_app {A} (a b c d : list A) : subseq a b -> subseq c d -> subseq (a ++ c) (b ++ d).
Proof. intros H. induction H; intros Hc; simpl; auto; constructor; auto. Qed.

Lemma subseq_remove_nth {A} (l : list A) : forall i, subseq (remove_nth i l) l.
Proof.
  induction l as [|x r IH]; intros [|i]; simpl; try constructor; auto using subseq_refl.
Qed.

Lemma subseq_trans {A} (a b c : list A) : subseq a b -> subseq b c -> subseq a c.
Proof.
  intros Hab Hbc. revert a Hab. induction Hbc as [|x l m H IH|x l m H IH]; intros a Hab.
  - auto.
  - inversion Hab; subst; constructor; auto.
  - constructor; auto.
Qed.

(* ------------------------------------------------------------------ *)
(* 1. raw invariants: no hypothesis on the caller                      *)
(* ------------------------------------------------------------------ *)

Lemma q_run_fst_ind (P : queue -> Prop) :
  (forall q o, P q -> P (fst (q_step q o))) ->
  forall ops q, P q -> P (fst (q_run q ops)).
Proof.
  intros Hstep. induction ops as [|o r IH]; intros q Hq; simpl; auto.
  specialize (Hstep q o Hq). destruct (q_step q o) as [q' out] eqn:Hs. simpl in Hstep.
  specialize (IH q' Hstep).
  destruct (q_run q' r) as [q'' outs] eqn:Hr. simpl in IH.
  destruct out; simpl; auto.
Qed.

Definition raw_inv (M : nat) (q : queue) : Prop :=
  q_max q = M /\ (length (q_l q) <= M)%nat /\ (q_cur q <= length (q_l q))%nat.

Lemma read_loop_raw now : forall n pids l cur limit v5 ifexp dq di evs rs l' cur' dq' di' evs' rs',
  read_loop now n pids l cur limit v5 ifexp dq di evs rs = Some (l', cur', dq', di', evs', rs') ->
  (cur <= length l)%nat -> (length l' <= length l)%nat /\ (cur' <= length l')%nat.
Proof.
  induction n as [|k IH]; intros pids l cur limit v5 ifexp dq di evs rs l' cur' dq' di' evs' rs' H Hc; simpl in H.
  - inversion H; subst. auto.
  - destruct (nth_error l cur) as [v|] eqn:Hn.
    2:{ inversion H; subst. auto. }
    pose proof (nth_error_lt _ _ _ Hn) as Hlt.
    pose proof (remove_nth_length l cur Hlt) as Hrl.
    destruct (expired now v) eqn:Hx.
    { apply IH in H; [|lia]. lia. }
    destruct (e_body v) as [m|p] eqn:Hb; [|discriminate].
    destruct (limit <? msg_total_bytes v5 m) eqn:Hlim.
    { apply IH in H; [|lia]. lia. }
    destruct (m_qos m =? 0) eqn:Hq.
    { apply IH in H; [|lia]. lia. }
    destruct pids as [|p pids']; [discriminate|].
    apply IH in H; rewrite replace_nth_length in *; lia.
Qed.

Lemma rif_loop_raw now ifexp : forall n l cur rs l' cur' dr rs',
  rif_loop now n l cur ifexp rs = (l', cur', dr, rs') ->
  (cur <= length l)%nat -> length l' = length l /\ (cur' <= length l')%nat.
Proof.
  induction n as [|k IH]; intros l cur rs l' cur' dr rs' H Hc; simpl in H.
  - inversion H; subst. auto.
  - destruct (nth_error l cur) as [e|] eqn:Hn.
    2:{ inversion H; subst. auto. }
    pose proof (nth_error_lt _ _ _ Hn) as Hlt.
    destruct (e_id e =? 0) eqn:Hid.
    { inversion H; subst. auto. }
    apply IH in H; rewrite replace_nth_length in *; lia.
Qed.

Lemma find_id_bound pid : forall l n i j, find_id pid l n i = Some j ->
  (i <= j)%nat /\ (j - i < n)%nat /\ (j - i < length l)%nat.
Proof.
  induction l as [|e r IH]; intros [|k] i j H; simpl in H; try discriminate.
  destruct (e_id e =? pid) eqn:He.
  - inversion H; subst. simpl. lia.
  - apply IH in H. simpl. lia.
Qed.

Lemma q_step_raw M q o : raw_inv M q -> raw_inv M (fst (q_step q o)).
Proof.
  intros (Hm & Hl & Hc). destruct o as [now e|now pids|now n|pid|e|c v lim|]; simpl.
  - (* Add *)
    unfold q_add. destruct (q_max q <=? length (q_l q))%nat eqn:Hfull.
    + destruct (add_victim now e q) as [|r|i r]; simpl; try (repeat split; auto; fail).
      destruct (nth_error (q_l q) i) as [d|] eqn:Hn; simpl; [|repeat split; auto].
      pose proof (nth_error_lt _ _ _ Hn) as Hlt.
      repeat split; simpl; auto; rewrite app_length, remove_nth_length by auto; simpl; try lia.
      destruct (i <? q_cur q)%nat; lia.
    + apply Nat.leb_gt in Hfull. repeat split; simpl; auto; rewrite app_length; simpl; lia.
  - (* Read *)
    unfold q_read. destruct (negb (q_drained q)); simpl; [repeat split; auto|].
    destruct (q_closed q); simpl; [repeat split; auto|].
    destruct (q_cur q =? length (q_l q))%nat; simpl; [repeat split; auto|].
    destruct (read_loop _ _ _ _ _ _ _ _ _ _ _ _) as [[[[[[l' cur'] dq] di] evs] rs]|] eqn:Hr; simpl; [|repeat split; auto].
    apply read_loop_raw in Hr; auto. repeat split; simpl; auto; lia.
  - (* ReadInflight *)
    unfold q_read_inflight.
    destruct ((length (q_l q) =? 0)%nat || (q_cur q =? length (q_l q))%nat); simpl; [repeat split; auto|].
    destruct (rif_loop _ _ _ _ _ _) as [[[l' cur'] dr] rs] eqn:Hr. simpl.
    apply rif_loop_raw in Hr; auto. repeat split; simpl; auto; lia.
  - (* Remove *)
    unfold q_remove. destruct (find_id pid (q_l q) (q_cur q) 0) as [i|] eqn:Hf; simpl; [|repeat split; auto].
    apply find_id_bound in Hf.
    repeat split; simpl; auto; rewrite remove_nth_length by lia; lia.
  - (* Replace *)
    unfold q_replace. destruct (find_id (e_id e) (q_l q) (q_cur q) 0) as [i|] eqn:Hf; simpl; [|repeat split; auto].
    repeat split; simpl; auto; rewrite replace_nth_length; lia.
  - repeat split; simpl; auto; try lia. destruct c; simpl; lia.
  - repeat split; simpl; auto.
Qed.

Lemma q_run_raw max ifexp ops : raw_inv max (fst (q_run (q_new max ifexp) ops)).
Proof.
  apply q_run_fst_ind with (P := raw_inv max).
  - intros q o. apply q_step_raw.
  - repeat split; simpl; lia.
Qed.

Lemma q_bounded max ifexp ops : (1 <= max)%nat ->
  (length (q_l (fst (q_run (q_new max ifexp) ops))) <= max)%nat.
Proof. intros _. apply (q_run_raw max ifexp ops). Qed.

Lemma q_cursor_in_range max ifexp ops :
  (q_cur (fst (q_run (q_new max ifexp) ops)) <= length (q_l (fst (q_run (q_new max ifexp) ops))))%nat.
Proof. apply (q_run_raw max ifexp ops). Qed.

(* ------------------------------------------------------------------ *)
(* 2. well-formed histories: what the broker guarantees                *)
(* ------------------------------------------------------------------ *)

Definition is_pub0 (e : elem) : bool :=
  match e_body e with QPub m => m_pid m =? 0 | QRel _ => false end.

Fixpoint nodupb (l : list N) : bool :=
  match l with [] => true | x :: r => negb (memN x r) && nodupb r end.

(* Add gets a PUBLISH without packet id and with a fresh non-zero tag; Read is only called once
   the in-flight entries are drained and gets distinct non-zero ids that are not in flight;
   Replace gets a PUBREL with a non-zero id (its ghost tag is 0: the code never reads tags) *)
Definition wf_step (q : queue) (seen : list N) (o : qop) : bool :=
  match o with
  | OAdd _ e => is_pub0 e && negb (e_tag e =? 0) && negb (memN (e_tag e) seen)
  | ORead _ pids => q_drained q && forallb (fun p => negb (p =? 0)) pids && nodupb pids
                    && forallb (fun p => negb (existsb (fun e => e_id e =? p) (q_l q))) pids
  | OReplace e => match e_body e with QRel p => negb (p =? 0) && (e_tag e =? 0) | QPub _ => false end
  | _ => true
  end.

(* tags passed to Add since the last Init(clean) *)
Definition seen_step (seen : list N) (o : qop) : list N :=
  match o with OAdd _ e => e_tag e :: seen | OInit true _ _ => [] | _ => seen end.

Fixpoint wf_run (q : queue) (seen : list N) (ops : list qop) : bool :=
  match ops with
  | [] => true
  | o :: r => wf_step q seen o &&
              (let '(q', out) := q_step q o in
               match out with RPanic => true | _ => wf_run q' (seen_step seen o) r end)
  end.

Lemma memN_In x l : memN x l = true <-> In x l.
Proof.
  induction l as [|y r IH]; simpl; [split; [discriminate|tauto]|].
  rewrite orb_true_iff, IH, N.eqb_eq. split; intros [H|H]; auto.
Qed.

(* ------------------------------------------------------------------ *)
(* 3. the simulation relation                                          *)
(* ------------------------------------------------------------------ *)

Definition eqos (e : elem) : N := match e_body e with QPub m => m_qos m | QRel _ => 1 end.

(* an in-flight element of the model and its abstract entry *)
Definition inf_rel (e : elem) (a : aent) : Prop :=
  e_id e <> 0 /\ a_pid a = e_id e /\ a_exp a = e_expiry e /\
  match e_body e with
  | QPub m => a_rel a = false /\ aqos a = m_qos m /\ a_tag a = e_tag e
  | QRel _ => a_rel a = true /\ e_tag e = 0
  end.

Definition tags_ok (seen : list N) (T : list N) : Prop :=
  NoDup T /\ (forall t, In t T -> t <> 0 /\ In t seen).

Lemma tags_ok_subseq seen T T' : tags_ok seen T -> subseq T' T -> tags_ok seen T'.
Proof.
  intros [Hn Hi] Hs. split.
  - eapply subseq_NoDup; eauto.
  - intros t Ht. apply Hi. eapply subseq_in; eauto.
Qed.

Lemma NoDup_snoc {A} (l : list A) x : NoDup l -> ~ In x l -> NoDup (l ++ [x]).
Proof.
  induction l as [|y r IH]; intros Hn Hx; simpl.
  - constructor; auto.
  - inversion Hn; subst. constructor.
    + intros Hi. apply in_app_or in Hi. destruct Hi as [Hi|[->|[]]]; auto. apply Hx. left; auto.
    + apply IH; auto. intros Hi. apply Hx. right; auto.
Qed.

Lemma tags_ok_snoc seen T t : tags_ok seen T -> t <> 0 -> ~ In t seen -> tags_ok (t :: seen) (T ++ [t]).
Proof.
  intros [Hn Hi] Ht0 Hts. split.
  - apply NoDup_snoc; auto. intros Hx. apply Hts. apply Hi; auto.
  - intros x Hx. apply in_app_or in Hx. destruct Hx as [Hx|[<-|[]]].
    + destruct (Hi x Hx). split; auto. right; auto.
    + split; auto. left; auto.
Qed.

Record R (q : queue) (seen : list N) (s : ast) (inf que : list elem) : Prop := {
  R_l : q_l q = inf ++ que;
  R_inf : Forall2 inf_rel inf (a_inf s);
  R_que : Forall (fun e => is_pub0 e = true) que;
  R_aq : a_q s = map ent_of_elem que;
  R_rem : (a_rem s <= length (a_inf s))%nat;
  R_cur : q_cur q = (length (a_inf s) - a_rem s)%nat;
  R_dr : q_drained q = true -> a_rem s = 0%nat;
  R_fdr : a_drained s = q_drained q;
  R_fcl : a_closed s = q_closed q;
  R_lim : a_limit s = q_limit q;
  R_v5 : a_v5 s = q_v5 q;
  R_max : a_max s = q_max q;
  R_ifexp : a_ifexp s = q_ifexp q;
  R_tags : tags_ok seen (map a_tag (a_inf s ++ a_q s));
  R_cq : a_cq s = Z.of_nat (length (a_inf s) + length (a_q s));
  R_ci : a_ci s = Z.of_nat (length (a_inf s));
  R_len : (length (a_inf s) + length (a_q s) <= a_max s)%nat }.

Definition Rx (q : queue) (seen : list N) (s : ast) : Prop := exists inf que, R q seen s inf que.

Lemma R_inv_ok q seen s : Rx q seen s -> inv_ok s = true.
Proof.
  intros (inf & que & H). unfold inv_ok.
  rewrite (R_cq _ _ _ _ _ H), (R_ci _ _ _ _ _ H), !Z.eqb_refl. simpl.
  apply orb_true_iff. left. apply Nat.leb_le. apply (R_len _ _ _ _ _ H).
Qed.

Lemma R_len_inf q seen s inf que : R q seen s inf que -> length inf = length (a_inf s).
Proof. intros H. apply (Forall2_length' _ _ _ (R_inf _ _ _ _ _ H)). Qed.

Definition step_sim (q : queue) (seen : list N) (s : ast) (o : qop) : Prop :=
  snd (q_step q o) <> RPanic /\
  exists s', step_ok s o (oout_of (snd (q_step q o))) = Some s' /\
             Rx (fst (q_step q o)) (seen_step seen o) s'.

(* ---- Init, Close ---- *)
Lemma init_sim q seen s c v lim : Rx q seen s -> step_sim q seen s (OInit c v lim).
Proof.
  intros (inf & que & H). split; [discriminate|]. simpl.
  eexists; split; [reflexivity|]. destruct c.
  - exists [], []. constructor; simpl; auto; try (apply (R_max _ _ _ _ _ H)); try (apply (R_ifexp _ _ _ _ _ H)); try lia.
    split; [constructor|intros t []].
  - exists inf, que. destruct H. constructor; simpl; auto; try lia.
Qed.

Lemma close_sim q seen s : Rx q seen s -> step_sim q seen s OClose.
Proof.
  intros (inf & que & H). split; [discriminate|]. simpl.
  eexists; split; [reflexivity|]. exists inf, que. destruct H. constructor; simpl; auto.
Qed.

(* ---- Remove, Replace ---- *)
Lemma find_id_sim pid que : forall inf ainf, Forall2 inf_rel inf ainf ->
  forall n i, (n <= length inf)%nat -> find_id pid (inf ++ que) n i = find_pid_idx pid ainf n i.
Proof.
  intros inf ainf H. induction H as [|e a inf ainf Hea H IH]; intros [|k] i Hn; simpl in *; try lia; auto.
  - destruct que; reflexivity.
  - destruct Hea as (_ & Hp & _). rewrite Hp. destruct (e_id e =? pid); auto. apply IH. lia.
Qed.

Lemma tags_remove_inf (ainf aq : list aent) i :
  subseq (map a_tag (remove_nth i ainf ++ aq)) (map a_tag (ainf ++ aq)).
Proof.
  rewrite !map_app. apply subseq_app; [|apply subseq_refl].
  rewrite map_remove_nth. apply subseq_remove_nth.
Qed.

Lemma remove_sim q seen s pid : Rx q seen s -> step_sim q seen s (ORemove pid).
Proof.
  intros (inf & que & H). pose proof (R_len_inf _ _ _ _ _ H) as Hli. destruct H.
  unfold step_sim. simpl. unfold q_remove, remove_ok.
  rewrite R_l0, <- R_cur0.
  rewrite (find_id_sim pid que inf (a_inf s) R_inf0) by lia.
  pose proof (find_id_bound pid (inf ++ que) (q_cur q) 0) as Hb.
  rewrite (find_id_sim pid que inf (a_inf s) R_inf0) in Hb by lia.
  destruct (find_pid_idx pid (a_inf s) (q_cur q) 0) as [i|] eqn:Hf; simpl.
  - split; [discriminate|]. specialize (Hb i eq_refl).
    eexists; split; [reflexivity|]. exists (remove_nth i inf), que.
    assert (Hlen : length (remove_nth i (a_inf s)) = (length (a_inf s) - 1)%nat) by (apply remove_nth_length; lia).
    constructor; simpl; auto; try lia.
    + apply remove_nth_app1. lia.
    + apply Forall2_remove_nth; auto.
    + eapply tags_ok_subseq; eauto. apply tags_remove_inf.
  - split; [discriminate|]. eexists; split; [reflexivity|]. exists inf, que. constructor; auto.
Qed.

Lemma map_replace_nth_same {A B} (f : A -> B) (l : list A) y : forall i old,
  nth_error l i = Some old -> f y = f old -> map f (replace_nth i y l) = map f l.
Proof.
  induction l as [|x r IH]; intros [|i] old Hn Hf; simpl in *; try discriminate.
  - inversion Hn; subst. rewrite Hf. reflexivity.
  - erewrite IH; eauto.
Qed.

Lemma replace_sim q seen s e : Rx q seen s -> wf_step q seen (OReplace e) = true ->
  step_sim q seen s (OReplace e).
Proof.
  intros (inf & que & H) Hwf. pose proof (R_len_inf _ _ _ _ _ H) as Hli. destruct H.
  simpl in Hwf. destruct (e_body e) as [m|p] eqn:Hb; [discriminate|].
  apply andb_true_iff in Hwf. destruct Hwf as [Hp Ht].
  apply negb_true_iff, N.eqb_neq in Hp. apply N.eqb_eq in Ht.
  assert (Hid : e_id e = p) by (unfold e_id; rewrite Hb; reflexivity).
  unfold step_sim. simpl. unfold q_replace, replace_ok.
  rewrite R_l0, <- R_cur0.
  rewrite (find_id_sim (e_id e) que inf (a_inf s) R_inf0) by lia.
  pose proof (find_id_bound (e_id e) (inf ++ que) (q_cur q) 0) as Hbd.
  rewrite (find_id_sim (e_id e) que inf (a_inf s) R_inf0) in Hbd by lia.
  destruct (find_pid_idx (e_id e) (a_inf s) (q_cur q) 0) as [i|] eqn:Hf; simpl.
  - split; [discriminate|]. specialize (Hbd i eq_refl).
    destruct (nth_error (a_inf s) i) as [old|] eqn:Hold.
    2:{ apply nth_error_None in Hold. lia. }
    eexists; split; [reflexivity|]. exists (replace_nth i e inf), que.
    constructor; simpl; auto; rewrite ?replace_nth_length; auto.
    + apply replace_nth_app1. lia.
    + apply Forall2_replace_nth; auto.
      unfold inf_rel, ent_of_elem. rewrite Hb, Hid. simpl. auto.
    + rewrite map_app. erewrite map_replace_nth_same; eauto. rewrite <- map_app. auto.
  - split; [discriminate|]. eexists; split; [reflexivity|]. exists inf, que. constructor; auto.
Qed.

(* ---- ReadInflight ---- *)
Definition etouch (now ifexp : N) (e : elem) : elem :=
  if ifexp =? 0 then e else with_expiry (Some (now + ifexp)) e.
Definition atouch (now ifexp : N) (a : aent) : aent :=
  {| a_tag := a_tag a; a_pid := a_pid a; a_rel := a_rel a; a_msg := a_msg a;
     a_exp := if ifexp =? 0 then a_exp a else Some (now + ifexp) |}.
Definition isnil {A} (l : list A) : bool := match l with [] => true | _ => false end.

Lemma is_pub0_id e : is_pub0 e = true -> e_id e = 0.
Proof. unfold is_pub0, e_id. destruct (e_body e); [apply N.eqb_eq|discriminate]. Qed.

Lemma rif_loop_spec now ifexp que : Forall (fun e => is_pub0 e = true) que ->
  forall n mid pre rs, Forall (fun e => e_id e <> 0) mid ->
  rif_loop now n (pre ++ mid ++ que) (length pre) ifexp rs =
  (pre ++ map (etouch now ifexp) (firstn n mid) ++ skipn n mid ++ que,
   (length pre + length (firstn n mid))%nat,
   (length mid <? n)%nat && negb (isnil que),
   rs ++ map (etouch now ifexp) (firstn n mid)).
Proof.
  intros Hq. induction n as [|k IH]; intros mid pre rs Hm.
  - simpl. rewrite app_nil_r, Nat.add_0_r. reflexivity.
  - simpl rif_loop. rewrite nth_error_mid. destruct mid as [|e mid'].
    + simpl. rewrite app_nil_r, Nat.add_0_r. destruct que as [|e r]; simpl; [reflexivity|].
      inversion Hq; subst. rewrite (is_pub0_id e) by assumption. reflexivity.
    + inversion Hm; subst. simpl hd_error. cbv iota.
      destruct (e_id e =? 0) eqn:Hid; [apply N.eqb_eq in Hid; contradiction|].
      rewrite <- app_comm_cons, replace_nth_mid.
      change (pre ++ (if ifexp =? 0 then e else with_expiry (Some (now + ifexp)) e) :: mid' ++ que)
        with (pre ++ [etouch now ifexp e] ++ mid' ++ que).
      rewrite app_assoc.
      replace (S (length pre)) with (length (pre ++ [etouch now ifexp e])) by (rewrite app_length; simpl; lia).
      rewrite IH by assumption. simpl. rewrite !app_length. simpl.
      rewrite <- !app_assoc. simpl. f_equal. f_equal. f_equal. lia.
Qed.

Lemma inf_rel_touch now ifexp e a : inf_rel e a -> inf_rel (etouch now ifexp e) (atouch now ifexp a).
Proof.
  unfold inf_rel, etouch, atouch. intros (H1 & H2 & H3 & H4).
  destruct (ifexp =? 0); simpl; auto.
Qed.

Lemma oelem_of_touch now ifexp e : oelem_of (etouch now ifexp e) = oelem_of e.
Proof. unfold etouch. destruct (ifexp =? 0); reflexivity. Qed.

Lemma inf_rel_matches e a : inf_rel e a -> oelem_matches (oelem_of e) a = true.
Proof.
  unfold inf_rel, oelem_of, e_id. intros (H1 & H2 & H3 & H4).
  destruct (e_body e) as [m|p]; simpl.
  - destruct H4 as (Hr & Hq & Ht). rewrite Hr, Hq, Ht, H2, !N.eqb_refl. reflexivity.
  - destruct H4 as (Hr & Ht). rewrite Hr, H2, N.eqb_refl. reflexivity.
Qed.

Lemma all2_matches now ifexp l al : Forall2 inf_rel l al ->
  all2 oelem_matches (map oelem_of (map (etouch now ifexp) l)) al = true.
Proof.
  intros H. induction H as [|e a l al Hea H IH]; simpl; auto.
  rewrite oelem_of_touch, inf_rel_matches, IH; auto.
Qed.

Lemma Forall2_firstn {A B} (P : A -> B -> Prop) l m : Forall2 P l m -> forall n, Forall2 P (firstn n l) (firstn n m).
Proof. intros H. induction H; intros [|n]; simpl; auto. Qed.
Lemma Forall2_skipn {A B} (P : A -> B -> Prop) l m : Forall2 P l m -> forall n, Forall2 P (skipn n l) (skipn n m).
Proof. intros H. induction H; intros [|n]; simpl; auto. Qed.
Lemma Forall2_map2 {A B} (P : A -> B -> Prop) (f : A -> A) (g : B -> B) l m :
  (forall x y, P x y -> P (f x) (g y)) -> Forall2 P l m -> Forall2 P (map f l) (map g m).
Proof. intros Hf H. induction H; simpl; auto. Qed.

Lemma skipn_firstn_len {A} (l : list A) : forall n, skipn (length (firstn n l)) l = skipn n l.
Proof. induction l as [|x r IH]; intros [|n]; simpl; auto. Qed.

Lemma firstn_min_len {A} (l : list A) n m : (length l <= m)%nat -> firstn (Nat.min n m) l = firstn n l.
Proof. intros H. rewrite <- firstn_firstn. rewrite (firstn_all2 (n := m)); auto. Qed.

Lemma skipn_min_len {A} (l : list A) n m : (length l <= m)%nat -> skipn (Nat.min n m) l = skipn n l.
Proof.
  intros H. destruct (Nat.min_spec n m) as [[_ ->]|[Hle ->]]; auto.
  rewrite !skipn_all2; auto; lia.
Qed.

Lemma readinflight_ok_eq now n rs s apre amid :
  a_inf s = apre ++ amid -> length amid = a_rem s ->
  all2 oelem_matches rs (firstn n amid) = true ->
  readinflight_ok now n rs s =
  Some (set_flags (upd s (apre ++ map (atouch now (a_ifexp s)) (firstn n amid) ++ skipn n amid)
                         (a_rem s - length (firstn n amid))%nat (a_q s) (a_added s) (a_handed s) (a_dropped s) (a_cq s) (a_ci s))
                  (a_drained s || ((a_rem s =? 0)%nat && isnil (a_q s)) ||
                   ((length (firstn n amid) <? Nat.min n (length (a_inf s) + length (a_q s)))%nat && negb (isnil (a_q s))))
                  (a_closed s)).
Proof.
  intros Hi Hl Hall. unfold readinflight_ok.
  replace (length (a_inf s) - a_rem s)%nat with (length apre) by (rewrite Hi, app_length; lia).
  assert (Hs : skipn (length apre) (a_inf s) = amid).
  { rewrite Hi, skipn_app, Nat.sub_diag, skipn_all. reflexivity. }
  assert (Hf : firstn (length apre) (a_inf s) = apre).
  { rewrite Hi, firstn_app, Nat.sub_diag, firstn_all. simpl. apply app_nil_r. }
  rewrite !Hs, Hf, Hall, skipn_firstn_len. reflexivity.
Qed.

Lemma map_tag_touch now ifexp l : map a_tag (map (atouch now ifexp) l) = map a_tag l.
Proof. induction l; simpl; congruence. Qed.

Lemma readinflight_sim q seen s now n : Rx q seen s -> step_sim q seen s (OReadInflight now n).
Proof.
  intros (inf & que & H). pose proof (R_len_inf _ _ _ _ _ H) as Hli. destruct H.
  set (pre := firstn (q_cur q) inf). set (mid := skipn (q_cur q) inf).
  assert (Hpm : inf = pre ++ mid) by (symmetry; apply firstn_skipn).
  assert (Hlp : length pre = q_cur q) by (apply firstn_length_le; lia).
  assert (Hlm : length mid = a_rem s) by (unfold mid; rewrite skipn_length; lia).
  pose proof R_inf0 as Hf2. rewrite Hpm in Hf2. apply Forall2_app_inv_l in Hf2.
  destruct Hf2 as (apre & amid & Hfp & Hfm & Hai).
  pose proof (Forall2_length' _ _ _ Hfp) as Hlap. pose proof (Forall2_length' _ _ _ Hfm) as Hlam.
  assert (Hmid_id : Forall (fun e => e_id e <> 0) mid).
  { clear - Hfm. induction Hfm as [|e a l al Hea H IH]; constructor; auto. destruct Hea; auto. }
  unfold step_sim. simpl.
  destruct (q_read_inflight now n q) as [q' rs] eqn:Hq. simpl. split; [discriminate|].
  unfold q_read_inflight in Hq.
  assert (Hll : length (q_l q) = (length inf + length que)%nat) by (rewrite R_l0, app_length; lia).
  destruct ((length (q_l q) =? 0)%nat || (q_cur q =? length (q_l q))%nat) eqn:Hc.
  - (* already past the in-flight entries *)
    inversion Hq; subst q' rs; clear Hq.
    assert (Hz : a_rem s = 0%nat /\ que = []).
    { apply orb_true_iff in Hc. destruct Hc as [Hc|Hc]; apply Nat.eqb_eq in Hc.
      - split; [lia|]. destruct que; [reflexivity|simpl in Hll; lia].
      - split; [lia|]. destruct que; [reflexivity|simpl in Hll; lia]. }
    destruct Hz as [Hr0 ->]. destruct amid as [|? ?]; [|simpl in Hlam; lia].
    change (map oelem_of []) with (@nil oelem).
    rewrite (readinflight_ok_eq now n [] s apre []); auto.
    2:{ rewrite firstn_nil. reflexivity. }
    eexists; split; [reflexivity|]. exists inf, []. rewrite app_nil_r in Hai.
    rewrite firstn_nil, skipn_nil. simpl. rewrite app_nil_r, <- Hai, Nat.sub_0_r.
    constructor; simpl; auto.
    rewrite R_aq0, Hr0. simpl. rewrite orb_true_r. reflexivity.
  - (* replay *)
    apply orb_false_iff in Hc. destruct Hc as [Hc1 Hc2]. apply Nat.eqb_neq in Hc1, Hc2.
    rewrite R_l0, Hpm, <- app_assoc, <- Hlp in Hq.
    rewrite (rif_loop_spec now (q_ifexp q) que R_que0) in Hq by assumption.
    inversion Hq; subst q' rs; clear Hq.
    assert (Hlen_le : (length mid <= length (pre ++ mid ++ que))%nat) by (rewrite !app_length; lia).
    rewrite firstn_min_len, skipn_min_len by assumption. simpl.
    rewrite (readinflight_ok_eq now n _ s apre amid); auto; [|lia|].
    2:{ apply all2_matches. apply Forall2_firstn. assumption. }
    eexists; split; [reflexivity|].
    exists (pre ++ map (etouch now (q_ifexp q)) (firstn n mid) ++ skipn n mid), que.
    assert (Hk : length (firstn n mid) = length (firstn n amid)) by (rewrite !firstn_length; lia).
    assert (Hlen' : length (apre ++ map (atouch now (a_ifexp s)) (firstn n amid) ++ skipn n amid) = length (a_inf s)).
    { rewrite Hai, !app_length, map_length, firstn_length, skipn_length. lia. }
    constructor; simpl; auto; rewrite ?Hlen'; auto.
    + rewrite <- !app_assoc. reflexivity.
    + apply Forall2_app; auto. apply Forall2_app.
      * rewrite R_ifexp0. apply Forall2_map2; [apply inf_rel_touch|]. apply Forall2_firstn; auto.
      * apply Forall2_skipn; auto.
    + lia.
    + rewrite firstn_length in *. lia.
    + rewrite firstn_length in *. intros Hd. apply orb_true_iff in Hd. destruct Hd as [Hd|Hd].
      * apply R_dr0 in Hd. lia.
      * apply andb_true_iff in Hd. destruct Hd as [Hd _]. apply Nat.ltb_lt in Hd. lia.
    + rewrite R_fdr0, R_aq0. rewrite firstn_length, app_length, map_length, Hai, app_length.
      rewrite !app_length. destruct que as [|e0 que']; simpl.
      * rewrite !andb_false_r, !orb_false_r, andb_true_r.
        destruct (a_rem s =? 0)%nat eqn:Hr0; [apply Nat.eqb_eq in Hr0|]; [|rewrite orb_false_r; reflexivity].
        exfalso. simpl in Hll. lia.
      * rewrite !andb_false_r, !andb_true_r, orb_false_r. f_equal.
        destruct (Nat.ltb_spec (length mid) (Nat.min n (length pre + (length mid + S (length que')))));
        destruct (Nat.ltb_spec (Nat.min n (length amid)) (Nat.min n (length apre + length amid + S (length que')))); auto; lia.
    + rewrite !map_app, map_tag_touch. rewrite <- (map_app a_tag (firstn n amid)), firstn_skipn, <- !map_app, <- Hai. auto.
Qed.

(* ---- Read ---- *)
Lemma rw_nil now s q pids inf nq ni :
  read_walk now s q [] [] pids inf nq ni = Some (q, [], [], inf, nq, ni).
Proof. destruct q; reflexivity. Qed.

Lemma rw_expired now s a q' rs drops' pids i0 h0 d0 nq ni :
  aexpired now a = true ->
  read_walk now s (a :: q') rs ((a_tag a, DExpired) :: drops') pids (i0, h0, d0) nq ni =
  read_walk now s q' rs drops' pids (i0, h0, d0 ++ [a_tag a]) (nq - 1)%Z ni.
Proof. intros H. simpl. rewrite H, N.eqb_refl. destruct rs; reflexivity. Qed.

Lemma rw_oversize now s a q' rs drops' pids i0 h0 d0 nq ni :
  aexpired now a = false -> (a_limit s <? asize (a_v5 s) a) = true ->
  read_walk now s (a :: q') rs ((a_tag a, DExceedsMax) :: drops') pids (i0, h0, d0) nq ni =
  read_walk now s q' rs drops' pids (i0, h0, d0 ++ [a_tag a]) (nq - 1)%Z ni.
Proof. intros H1 H2. simpl. rewrite H1, H2, N.eqb_refl. destruct rs; reflexivity. Qed.

Lemma rw_qos0 now s a q' rs' drops pids i0 h0 d0 nq ni :
  aexpired now a = false -> (a_limit s <? asize (a_v5 s) a) = false -> aqos a = 0 ->
  read_walk now s (a :: q') (OPub (a_tag a) 0 0 :: rs') drops pids (i0, h0, d0) nq ni =
  read_walk now s q' rs' drops pids (i0, h0 ++ [a_tag a], d0) (nq - 1)%Z ni.
Proof. intros H1 H2 H3. simpl. rewrite H1, H2, H3, N.eqb_refl. reflexivity. Qed.

Definition ahand (now ifexp p : N) (a : aent) : aent :=
  {| a_tag := a_tag a; a_pid := p; a_rel := false; a_msg := a_msg a;
     a_exp := if ifexp =? 0 then a_exp a else Some (now + ifexp) |}.
Definition hand (now ifexp p : N) (m : msg) (v : elem) : elem :=
  if ifexp =? 0 then with_body (QPub (set_pid p m)) v
  else with_expiry (Some (now + ifexp)) (with_body (QPub (set_pid p m)) v).

Lemma rw_qos1 now s a q' rs' drops p pids' i0 h0 d0 nq ni :
  aexpired now a = false -> (a_limit s <? asize (a_v5 s) a) = false -> aqos a <> 0 ->
  read_walk now s (a :: q') (OPub (a_tag a) p (aqos a) :: rs') drops (p :: pids') (i0, h0, d0) nq ni =
  read_walk now s q' rs' drops pids' (i0 ++ [ahand now (a_ifexp s) p a], h0 ++ [a_tag a], d0) nq (ni + 1)%Z.
Proof.
  intros H1 H2 H3. apply N.eqb_neq in H3. simpl. rewrite H1, H2, H3, !N.eqb_refl. reflexivity.
Qed.

Lemma pub0_inv v : is_pub0 v = true -> exists m, e_body v = QPub m /\ m_pid m = 0.
Proof. unfold is_pub0. destruct (e_body v) as [m|p]; [|discriminate]. intros H. apply N.eqb_eq in H. eauto. Qed.

Lemma ent_pub v m : e_body v = QPub m ->
  ent_of_elem v = {| a_tag := e_tag v; a_pid := m_pid m; a_rel := false; a_msg := Some m; a_exp := e_expiry v |}.
Proof. intros H. unfold ent_of_elem. rewrite H. reflexivity. Qed.

Lemma ent_tag_pub0 v : is_pub0 v = true -> a_tag (ent_of_elem v) = e_tag v.
Proof. intros H. destruct (pub0_inv v H) as (m & Hb & _). rewrite (ent_pub v m Hb). reflexivity. Qed.

Lemma ent_expired now v : aexpired now (ent_of_elem v) = expired now v.
Proof. unfold ent_of_elem, aexpired, expired. destruct (e_body v); reflexivity. Qed.

Lemma map_ent_tag que : Forall (fun e => is_pub0 e = true) que -> map a_tag (map ent_of_elem que) = map e_tag que.
Proof. intros H. induction H as [|e l He H IH]; simpl; auto. rewrite ent_tag_pub0, IH; auto. Qed.

Lemma inf_rel_hand now ifexp p m v : p <> 0 -> e_body v = QPub m ->
  inf_rel (hand now ifexp p m v) (ahand now ifexp p (ent_of_elem v)).
Proof.
  intros Hp Hb. rewrite (ent_pub v m Hb). unfold inf_rel, hand, ahand, e_id, aqos.
  destruct (ifexp =? 0); simpl; auto 10.
Qed.

Section ReadLoop.
Variables (now : N) (s : ast).

Lemma read_loop_sim : forall n que inf pids dq di evs rs,
  Forall (fun e => is_pub0 e = true) que -> (n <= length pids)%nat -> Forall (fun p => p <> 0) pids ->
  exists inf2 ainf2 que2 rs2 drops2 x y,
    read_loop now n pids (inf ++ que) (length inf) (a_limit s) (a_v5 s) (a_ifexp s) dq di evs rs
      = Some ((inf ++ inf2) ++ que2, length (inf ++ inf2), (dq + x)%Z, (di + y)%Z,
              evs ++ map (fun dr => EvDropped (fst dr) (snd dr)) drops2, rs ++ rs2) /\
    x = (Z.of_nat (length inf2 + length que2) - Z.of_nat (length que))%Z /\
    y = Z.of_nat (length inf2) /\
    Forall2 inf_rel inf2 ainf2 /\ Forall (fun e => is_pub0 e = true) que2 /\
    subseq (map a_tag ainf2 ++ map e_tag que2) (map e_tag que) /\
    (length inf2 + length que2 <= length que)%nat /\
    forall i0 h0 d0 nq ni, exists h1 d1,
      read_walk now s (map ent_of_elem que) (map oelem_of rs2)
                (map (fun dr => (e_tag (fst dr), snd dr)) drops2) pids (i0, h0, d0) nq ni
      = Some (map ent_of_elem que2, [], [], (i0 ++ ainf2, h1, d1), (nq + x)%Z, (ni + y)%Z).
Proof.
  assert (Hstop : forall n que inf pids dq di evs rs,
    read_loop now n pids (inf ++ que) (length inf) (a_limit s) (a_v5 s) (a_ifexp s) dq di evs rs
      = Some (inf ++ que, length inf, dq, di, evs, rs) ->
    Forall (fun e => is_pub0 e = true) que ->
    exists inf2 ainf2 que2 rs2 drops2 x y,
    read_loop now n pids (inf ++ que) (length inf) (a_limit s) (a_v5 s) (a_ifexp s) dq di evs rs
      = Some ((inf ++ inf2) ++ que2, length (inf ++ inf2), (dq + x)%Z, (di + y)%Z,
              evs ++ map (fun dr => EvDropped (fst dr) (snd dr)) drops2, rs ++ rs2) /\
    x = (Z.of_nat (length inf2 + length que2) - Z.of_nat (length que))%Z /\
    y = Z.of_nat (length inf2) /\
    Forall2 inf_rel inf2 ainf2 /\ Forall (fun e => is_pub0 e = true) que2 /\
    subseq (map a_tag ainf2 ++ map e_tag que2) (map e_tag que) /\
    (length inf2 + length que2 <= length que)%nat /\
    forall i0 h0 d0 nq ni, exists h1 d1,
      read_walk now s (map ent_of_elem que) (map oelem_of rs2)
                (map (fun dr => (e_tag (fst dr), snd dr)) drops2) pids (i0, h0, d0) nq ni
      = Some (map ent_of_elem que2, [], [], (i0 ++ ainf2, h1, d1), (nq + x)%Z, (ni + y)%Z)).
  { intros n que inf pids dq di evs rs Heq Hq.
    exists [], [], que, [], [], 0%Z, 0%Z. rewrite Heq. simpl.
    rewrite !app_nil_r, !Z.add_0_r. repeat split; auto.
    - lia.
    - apply subseq_refl.
    - intros i0 h0 d0 nq ni. exists h0, d0. rewrite rw_nil, app_nil_r, !Z.add_0_r. reflexivity. }
  induction n as [|k IH]; intros que inf pids dq di evs rs Hq Hn Hp.
  - apply Hstop; auto.
  - destruct que as [|v que'].
    { apply Hstop; auto. simpl. rewrite nth_error_mid. reflexivity. }
    inversion Hq as [|? ? Hv Hq']; subst.
    destruct (pub0_inv v Hv) as (m & Hb & Hpid).
    simpl read_loop. rewrite nth_error_mid. simpl hd_error. cbv iota.
    pose proof (ent_expired now v) as Hexp.
    assert (Htag : a_tag (ent_of_elem v) = e_tag v) by (apply ent_tag_pub0; auto).
    destruct (expired now v) eqn:Hx.
    { (* expired: dropped *)
      rewrite remove_nth_mid.
      destruct (IH que' inf pids (dq - 1)%Z di (evs ++ [EvDropped v DExpired]) rs Hq') as
        (inf2 & ainf2 & que2 & rs2 & drops2 & x & y & Heq & Hx' & Hy & Hf2 & Hq2 & Hss & Hle & Hrw); auto; [simpl in Hn; lia|].
      exists inf2, ainf2, que2, rs2, ((v, DExpired) :: drops2), (x - 1)%Z, y.
      rewrite Heq. cbn [map fst snd length app]. rewrite <- !app_assoc. cbn [app].
      split; [replace (dq - 1 + x)%Z with (dq + (x - 1))%Z by lia; reflexivity|].
      split; [lia|]. split; [auto|]. split; [auto|]. split; [auto|].
      split; [constructor; auto|]. split; [lia|].
      intros i0 h0 d0 nq ni. rewrite <- Htag. rewrite rw_expired by assumption.
      destruct (Hrw i0 h0 (d0 ++ [a_tag (ent_of_elem v)]) (nq - 1)%Z ni) as (h1 & d1 & Hw).
      exists h1, d1. rewrite Hw. replace (nq - 1 + x)%Z with (nq + (x - 1))%Z by lia. reflexivity. }
    rewrite Hb.
    assert (Hsz : asize (a_v5 s) (ent_of_elem v) = msg_total_bytes (a_v5 s) m).
    { rewrite (ent_pub v m Hb). reflexivity. }
    assert (Hqos : aqos (ent_of_elem v) = m_qos m).
    { rewrite (ent_pub v m Hb). reflexivity. }
    destruct (a_limit s <? msg_total_bytes (a_v5 s) m) eqn:Hlim.
    { (* oversize: dropped *)
      rewrite remove_nth_mid.
      destruct (IH que' inf pids (dq - 1)%Z di (evs ++ [EvDropped v DExceedsMax]) rs Hq') as
        (inf2 & ainf2 & que2 & rs2 & drops2 & x & y & Heq & Hx' & Hy & Hf2 & Hq2 & Hss & Hle & Hrw); auto; [simpl in Hn; lia|].
      exists inf2, ainf2, que2, rs2, ((v, DExceedsMax) :: drops2), (x - 1)%Z, y.
      rewrite Heq. cbn [map fst snd length app]. rewrite <- !app_assoc. cbn [app].
      split; [replace (dq - 1 + x)%Z with (dq + (x - 1))%Z by lia; reflexivity|].
      split; [lia|]. split; [auto|]. split; [auto|]. split; [auto|].
      split; [constructor; auto|]. split; [lia|].
      intros i0 h0 d0 nq ni. rewrite <- Htag. rewrite rw_oversize; [|congruence|congruence].
      destruct (Hrw i0 h0 (d0 ++ [a_tag (ent_of_elem v)]) (nq - 1)%Z ni) as (h1 & d1 & Hw).
      exists h1, d1. rewrite Hw. replace (nq - 1 + x)%Z with (nq + (x - 1))%Z by lia. reflexivity. }
    destruct (m_qos m =? 0) eqn:Hq0.
    { (* QoS 0: handed out and removed *)
      apply N.eqb_eq in Hq0. rewrite remove_nth_mid.
      destruct (IH que' inf pids (dq - 1)%Z di evs (rs ++ [v]) Hq') as
        (inf2 & ainf2 & que2 & rs2 & drops2 & x & y & Heq & Hx' & Hy & Hf2 & Hq2 & Hss & Hle & Hrw); auto; [simpl in Hn; lia|].
      exists inf2, ainf2, que2, (v :: rs2), drops2, (x - 1)%Z, y.
      rewrite Heq. cbn [map fst snd length app]. rewrite <- !app_assoc. cbn [app].
      split; [replace (dq - 1 + x)%Z with (dq + (x - 1))%Z by lia; reflexivity|].
      split; [lia|]. split; [auto|]. split; [auto|]. split; [auto|].
      split; [constructor; auto|]. split; [lia|].
      intros i0 h0 d0 nq ni. unfold oelem_of at 1. rewrite Hb, Hpid, Hq0, <- Htag.
      rewrite rw_qos0; [|congruence|congruence|congruence].
      destruct (Hrw i0 (h0 ++ [a_tag (ent_of_elem v)]) d0 (nq - 1)%Z ni) as (h1 & d1 & Hw).
      exists h1, d1. rewrite Hw. replace (nq - 1 + x)%Z with (nq + (x - 1))%Z by lia. reflexivity. }
    (* QoS > 0: gets the next id and becomes in flight *)
    apply N.eqb_neq in Hq0.
    destruct pids as [|p pids']; [simpl in Hn; lia|].
    inversion Hp as [|? ? Hp0 Hp']; subst.
    rewrite replace_nth_mid.
    change (if a_ifexp s =? 0 then with_body (QPub (set_pid p m)) v
            else with_expiry (Some (now + a_ifexp s)) (with_body (QPub (set_pid p m)) v))
      with (hand now (a_ifexp s) p m v).
    set (v' := hand now (a_ifexp s) p m v).
    replace (inf ++ v' :: que') with ((inf ++ [v']) ++ que') by (rewrite <- app_assoc; reflexivity).
    replace (S (length inf)) with (length (inf ++ [v'])) by (rewrite app_length; simpl; lia).
    destruct (IH que' (inf ++ [v']) pids' dq (di + 1)%Z evs (rs ++ [v']) Hq') as
      (inf2 & ainf2 & que2 & rs2 & drops2 & x & y & Heq & Hx' & Hy & Hf2 & Hq2 & Hss & Hle & Hrw); auto; [simpl in Hn; lia|].
    exists (v' :: inf2), (ahand now (a_ifexp s) p (ent_of_elem v) :: ainf2), que2, (v' :: rs2), drops2, x, (y + 1)%Z.
    rewrite Heq. cbn [map fst snd length app]. rewrite <- !app_assoc. cbn [app].
    split; [replace (di + 1 + y)%Z with (di + (y + 1))%Z by lia; reflexivity|]. split; [lia|]. split; [lia|].
    split; [constructor; auto; apply inf_rel_hand; auto|]. split; [auto|].
    split; [rewrite <- Htag; constructor; auto|]. split; [lia|].
    intros i0 h0 d0 nq ni.
    assert (Hov : oelem_of v' = OPub (a_tag (ent_of_elem v)) p (aqos (ent_of_elem v))).
    { rewrite Htag, Hqos. unfold v', hand, oelem_of. destruct (a_ifexp s =? 0); reflexivity. }
    rewrite Hov. rewrite rw_qos1; [|congruence|congruence|congruence].
    destruct (Hrw (i0 ++ [ahand now (a_ifexp s) p (ent_of_elem v)]) (h0 ++ [a_tag (ent_of_elem v)]) d0 nq (ni + 1)%Z) as (h1 & d1 & Hw).
    exists h1, d1. rewrite Hw, <- app_assoc. replace (ni + 1 + y)%Z with (ni + (y + 1))%Z by lia. reflexivity.
Qed.
End ReadLoop.

Lemma split_evs_gen drops dq di : forall acc,
  (fix go (l : list oev) (acc : list (N * dropreason)) {struct l} : option (list (N * dropreason) * Z * Z) :=
     match l with
     | [OvQueue dq; OvInflight di] => Some (acc, dq, di)
     | OvDropped t r :: l' => go l' (acc ++ [(t, r)])
     | _ => None
     end)
    (map oev_of (map (fun dr : elem * dropreason => EvDropped (fst dr) (snd dr)) drops ++ [EvQueue dq; EvInflight di])) acc
  = Some (acc ++ map (fun dr : elem * dropreason => (e_tag (fst dr), snd dr)) drops, dq, di).
Proof.
  induction drops as [|[d r] drops IH]; intros acc.
  - simpl. rewrite app_nil_r. reflexivity.
  - cbn [map app fst snd oev_of]. rewrite IH, <- app_assoc. reflexivity.
Qed.

Lemma split_evs_eq drops dq di :
  split_evs (map oev_of (map (fun dr : elem * dropreason => EvDropped (fst dr) (snd dr)) drops ++ [EvQueue dq; EvInflight di]))
  = Some (map (fun dr : elem * dropreason => (e_tag (fst dr), snd dr)) drops, dq, di).
Proof. unfold split_evs. rewrite split_evs_gen. reflexivity. Qed.

Lemma forallb_nz pids : forallb (fun p => negb (p =? 0)) pids = true -> Forall (fun p => p <> 0) pids.
Proof.
  induction pids as [|p r IH]; simpl; intros H; constructor.
  - apply andb_true_iff in H. destruct H as [H _]. apply negb_true_iff, N.eqb_neq in H. auto.
  - apply IH. apply andb_true_iff in H. tauto.
Qed.

Lemma read_sim q seen s now pids : Rx q seen s -> wf_step q seen (ORead now pids) = true ->
  step_sim q seen s (ORead now pids).
Proof.
  intros (inf & que & H) Hwf. pose proof (R_len_inf _ _ _ _ _ H) as Hli. destruct H.
  simpl in Hwf.
  apply andb_true_iff in Hwf; destruct Hwf as [Hwf Hnif].
  apply andb_true_iff in Hwf; destruct Hwf as [Hwf Hnd].
  apply andb_true_iff in Hwf; destruct Hwf as [Hdr H].
  apply forallb_nz in H.
  pose proof (R_dr0 Hdr) as Hrem.
  assert (Hcur : q_cur q = length inf) by lia.
  unfold step_sim. simpl. unfold q_read. rewrite Hdr. simpl.
  destruct (q_closed q) eqn:Hcl.
  { simpl. split; [discriminate|]. rewrite R_fdr0, R_fcl0, Hdr. simpl.
    eexists; split; [reflexivity|]. exists inf, que. constructor; auto; congruence. }
  destruct (q_cur q =? length (q_l q))%nat eqn:Hbl.
  { apply Nat.eqb_eq in Hbl. rewrite R_l0, app_length in Hbl.
    assert (que = []) by (destruct que; [reflexivity|simpl in Hbl; lia]). subst que.
    simpl. split; [discriminate|]. rewrite R_fdr0, R_fcl0, Hdr, R_aq0. simpl.
    eexists; split; [reflexivity|]. exists inf, []. constructor; auto; congruence. }
  apply Nat.eqb_neq in Hbl.
  assert (Hque : que <> []).
  { intros ->. rewrite R_l0, app_nil_r in Hbl. lia. }
  rewrite R_l0, Hcur, <- R_lim0, <- R_v6, <- R_ifexp0.
  destruct (read_loop_sim now s (Nat.min (length (inf ++ que)) (length pids)) que inf pids 0%Z 0%Z [] [] R_que0)
    as (inf2 & ainf2 & que2 & rs2 & drops2 & x & y & Heq & Hx & Hy & Hf2 & Hq2 & Hss & Hle & Hrw); auto; [lia|].
  rewrite Heq. cbn [fst snd app]. split; [discriminate|].
  cbn [oout_of step_ok]. unfold read_ok.
  rewrite R_fdr0, R_fcl0, Hdr. cbn [negb orb].
  assert (Hm : forall X : option ast, match a_q s with [] => None | _ :: _ => X end = X).
  { intros X. rewrite R_aq0. destruct que; [congruence|reflexivity]. }
  rewrite Hm, split_evs_eq.
  destruct (Hrw (a_inf s) (a_handed s) (a_dropped s) 0%Z 0%Z) as (h1 & d1 & Hw).
  rewrite <- R_aq0 in Hw. rewrite Hw, !Z.eqb_refl. cbn [andb].
  eexists; split; [reflexivity|].
  exists (inf ++ inf2), que2.
  pose proof (Forall2_length' _ _ _ Hf2) as Hl2.
  constructor; cbn [upd q_set q_l q_cur q_drained q_closed q_max q_limit q_v5 q_ifexp
                    a_inf a_rem a_q a_cq a_ci a_limit a_v5 a_drained a_closed a_max a_ifexp]; auto; try congruence.
  - apply Forall2_app; auto.
  - rewrite !app_length. lia.
  - rewrite !app_length. lia.
  - eapply tags_ok_subseq; [exact R_tags0|].
    rewrite R_aq0, !map_app, !map_ent_tag, <- app_assoc by assumption.
    apply subseq_app; [apply subseq_refl|assumption].
  - rewrite R_cq0, R_aq0, !app_length, !map_length. lia.
  - rewrite R_ci0, !app_length. lia.
  - rewrite R_aq0 in R_len0. rewrite !app_length, !map_length in *. lia.
Qed.

(* ---- Add ---- *)
Ltac splits := repeat match goal with |- _ /\ _ => split end.
Lemma inf_rel_expired now e a : inf_rel e a -> aexpired now a = expired now e.
Proof. intros (_ & _ & Hx & _). unfold aexpired, expired. rewrite Hx. reflexivity. Qed.

(* the first expired in-flight entry *)
Lemma fei_spec now que : Forall (fun e => is_pub0 e = true) que ->
  forall inf ainf, Forall2 inf_rel inf ainf -> forall i,
  match first_expired_inflight now (inf ++ que) i with
  | None => existsb (aexpired now) ainf = false
  | Some j => exists k e a, j = (i + k)%nat /\ nth_error inf k = Some e /\ nth_error ainf k = Some a /\
                inf_rel e a /\ expired now e = true /\ aexpired now a = true /\
                existsb (aexpired now) ainf = true /\ existsb (aexpired now) (firstn k ainf) = false
  end.
Proof.
  intros Hq inf ainf H. induction H as [|e a inf ainf Hea H IH]; intros i.
  - simpl. destruct que as [|e r]; simpl; auto. inversion Hq; subst.
    rewrite (is_pub0_id e) by assumption. reflexivity.
  - simpl. pose proof Hea as (Hid & _). apply N.eqb_neq in Hid. rewrite Hid.
    rewrite (inf_rel_expired now e a Hea).
    destruct (expired now e) eqn:Hx.
    + exists 0%nat, e, a. simpl. rewrite (inf_rel_expired now e a Hea), Hx.
      splits; auto; lia.
    + specialize (IH (S i)). destruct (first_expired_inflight now (inf ++ que) (S i)) as [j|].
      * destruct IH as (k & e' & a' & Hj & Hn1 & Hn2 & Hr & Hx1 & Hx2 & Hx3 & Hx4).
        exists (S k), e', a'. simpl. rewrite (inf_rel_expired now e a Hea), Hx. simpl.
        splits; auto; lia.
      * simpl. auto.
Qed.

Definition vidx (now t : N) : list aent -> nat -> option nat :=
  fix ix (l : list aent) (i : nat) : option nat :=
    match l with
    | [] => None
    | a :: r => if (if t =? 0 then a_rel a && aexpired now a else a_tag a =? t) then Some i else ix r (S i)
    end.

Lemma vidx_tag now t : t <> 0 -> forall l k a i, NoDup (map a_tag l) -> nth_error l k = Some a -> a_tag a = t ->
  vidx now t l i = Some (i + k)%nat.
Proof.
  intros Ht. apply N.eqb_neq in Ht. induction l as [|x r IH]; intros [|k] a i Hn Hk Hta; simpl in *; try discriminate; rewrite Ht.
  - inversion Hk; subst. rewrite N.eqb_refl. f_equal. lia.
  - inversion Hn; subst. destruct (a_tag x =? a_tag a) eqn:Hx.
    + apply N.eqb_eq in Hx. exfalso. apply H1. rewrite Hx. apply in_map. eapply nth_error_In; eauto.
    + rewrite (IH k a (S i)); auto. f_equal. lia.
Qed.

Lemma vidx_rel now : forall l k a i, existsb (aexpired now) (firstn k l) = false -> nth_error l k = Some a ->
  a_rel a = true -> aexpired now a = true -> vidx now 0 l i = Some (i + k)%nat.
Proof.
  induction l as [|x r IH]; intros [|k] a i Hf Hk Hr Hx; simpl in *; try discriminate.
  - inversion Hk; subst. rewrite Hr, Hx. simpl. f_equal. lia.
  - apply orb_false_iff in Hf. destruct Hf as [Hf1 Hf2]. rewrite Hf1, andb_false_r.
    rewrite (IH k a (S i)); auto. f_equal. lia.
Qed.

Lemma find_tag_nth : forall (l : list aent) k a, NoDup (map a_tag l) -> nth_error l k = Some a ->
  find_tag (a_tag a) l = Some a /\ remove_tag (a_tag a) l = remove_nth k l.
Proof.
  induction l as [|x r IH]; intros [|k] a Hn Hk; simpl in *; try discriminate.
  - inversion Hk; subst. rewrite N.eqb_refl. auto.
  - inversion Hn; subst. destruct (a_tag x =? a_tag a) eqn:Hx.
    + apply N.eqb_eq in Hx. exfalso. apply H1. rewrite Hx. apply in_map. eapply nth_error_In; eauto.
    + destruct (IH k a H2 Hk) as [-> ->]. auto.
Qed.

(* the scan of the queued part *)
Lemma add_scan_skip now : forall l1 l2 i q0, Forall (fun e => e_id e <> 0) l1 ->
  add_scan now (l1 ++ l2) i q0 = add_scan now l2 (i + length l1)%nat q0.
Proof.
  induction l1 as [|e r IH]; intros l2 i q0 H; simpl.
  - rewrite Nat.add_0_r. reflexivity.
  - inversion H; subst. unfold e_id in H2. destruct (e_body e) as [m|p].
    + apply N.eqb_neq in H2. rewrite H2. simpl. rewrite IH by assumption. f_equal. lia.
    + rewrite IH by assumption. f_equal. lia.
Qed.

Lemma add_scan_spec now : forall que i q0, Forall (fun e => is_pub0 e = true) que ->
  match add_scan now que i q0 with
  | SVictim j DExpired => exists k d, j = (i + k)%nat /\ nth_error que k = Some d /\ expired now d = true /\
                                     existsb (expired now) que = true
  | SVictim j DFull => existsb (expired now) que = false /\
      match q0 with
      | Some j0 => j = j0
      | None => exists k d, j = (i + k)%nat /\ nth_error que k = Some d /\ eqos d = 0
      end
  | SVictim _ _ => False
  | SNone => existsb (expired now) que = false /\ q0 = None /\ existsb (fun e => eqos e =? 0) que = false
  end.
Proof.
  induction que as [|e r IH]; intros i q0 H; simpl.
  - destruct q0; auto.
  - inversion H as [|? ? He Hr]; subst. destruct (pub0_inv e He) as (m & Hb & Hp).
    rewrite Hb. apply N.eqb_eq in Hp. rewrite Hp. simpl.
    destruct (expired now e) eqn:Hx.
    + exists 0%nat, e. simpl. splits; auto; lia.
    + assert (Hq : eqos e = m_qos m) by (unfold eqos; rewrite Hb; reflexivity).
      rewrite Hq. destruct (m_qos m =? 0) eqn:Hq0; simpl.
      * destruct q0 as [j0|].
        -- specialize (IH (S i) (Some j0) Hr). destruct (add_scan now r (S i) (Some j0)) as [|j [| | |]]; auto.
           ++ destruct IH as (_ & Hc & _). discriminate.
           ++ destruct IH as (k & d & Hj & Hn & Hxd & Hex). exists (S k), d. simpl. splits; auto; lia.
        -- specialize (IH (S i) (Some i) Hr). destruct (add_scan now r (S i) (Some i)) as [|j [| | |]]; auto.
           ++ destruct IH as (_ & Hc & _). discriminate.
           ++ destruct IH as [Hex Hj]. split; auto. exists 0%nat, e. simpl. apply N.eqb_eq in Hq0. splits; auto; lia.
           ++ destruct IH as (k & d & Hj & Hn & Hxd & Hex). exists (S k), d. simpl. splits; auto; lia.
      * specialize (IH (S i) q0 Hr). destruct (add_scan now r (S i) q0) as [|j [| | |]]; auto.
        -- destruct IH as [Hex Hj]. split; auto. destruct q0 as [j0|]; auto.
           destruct Hj as (k & d & Hj & Hn & Hqd). exists (S k), d. simpl. splits; auto; lia.
        -- destruct IH as (k & d & Hj & Hn & Hxd & Hex). exists (S k), d. simpl. splits; auto; lia.
Qed.

Lemma first_queued_skip : forall l1 l2 i, Forall (fun e => e_id e <> 0) l1 ->
  first_queued (l1 ++ l2) i = first_queued l2 (i + length l1)%nat.
Proof.
  induction l1 as [|e r IH]; intros l2 i H; simpl.
  - rewrite Nat.add_0_r. reflexivity.
  - inversion H; subst. apply N.eqb_neq in H2. rewrite H2, IH by assumption. f_equal. lia.
Qed.

Lemma existsb_map {A B} (f : B -> bool) (g : A -> B) l : existsb f (map g l) = existsb (fun x => f (g x)) l.
Proof. induction l; simpl; congruence. Qed.

Lemma existsb_ext' {A} (f g : A -> bool) l : (forall x, f x = g x) -> existsb f l = existsb g l.
Proof. intros H. induction l; simpl; congruence. Qed.

Lemma ent_qos e : aqos (ent_of_elem e) = eqos e.
Proof. unfold ent_of_elem, eqos, aqos. destruct (e_body e); reflexivity. Qed.

Lemma tags_ok_weaken seen t T : tags_ok seen T -> tags_ok (t :: seen) T.
Proof. intros [Hn Hi]. split; auto. intros x Hx. destruct (Hi x Hx). split; auto. right; auto. Qed.

Lemma inf_ids inf ainf : Forall2 inf_rel inf ainf -> Forall (fun e => e_id e <> 0) inf.
Proof. intros H. induction H as [|e a l al Hea H IH]; constructor; auto. destruct Hea; auto. Qed.

Lemma subseq_nil {A} (l : list A) : subseq [] l.
Proof. induction l; constructor; auto. Qed.

Lemma tags_split seen (ainf aq : list aent) : tags_ok seen (map a_tag (ainf ++ aq)) ->
  NoDup (map a_tag ainf) /\ NoDup (map a_tag aq) /\ (forall a, In a ainf -> a_tag a <> 0).
Proof.
  intros [Hn Hi]. rewrite map_app in *. splits.
  - eapply subseq_NoDup; [|exact Hn]. rewrite <- (app_nil_r (map a_tag ainf)) at 1.
    apply subseq_app; [apply subseq_refl|apply subseq_nil].
  - eapply subseq_NoDup; [|exact Hn]. change (map a_tag aq) with ([] ++ map a_tag aq) at 1.
    apply subseq_app; [apply subseq_nil|apply subseq_refl].
  - intros a Ha. apply Hi. apply in_or_app. left. apply in_map. assumption.
Qed.

Lemma Forall_skipn' {A} (P : A -> Prop) l : Forall P l -> forall n, Forall P (skipn n l).
Proof. intros H. induction H; intros [|n]; simpl; auto. Qed.

Lemma add_ok_expinf now e s t i v :
  (length (a_inf s) + length (a_q s) <? a_max s)%nat = false ->
  existsb (aexpired now) (a_inf s) = true ->
  vidx now t (a_inf s) 0 = Some i -> nth_error (a_inf s) i = Some v -> aexpired now v = true ->
  add_ok now e [OvInflight (-1); OvDropped t DExpiredInflight] s =
  Some (upd s (remove_nth i (a_inf s))
              (if (i <? length (a_inf s) - a_rem s)%nat then a_rem s else (a_rem s - 1)%nat)
              (a_q s ++ [ent_of_elem e]) (a_added s ++ [a_tag (ent_of_elem e)]) (a_handed s)
              (a_dropped s ++ [t]) (a_cq s) (a_ci s - 1)%Z).
Proof.
  intros H1 H2 H3 H4 H5. unfold add_ok. rewrite H1, H2. unfold vidx in H3. cbv zeta.
  rewrite H3, H4, H5. reflexivity.
Qed.

Lemma R_drop_queued q seen s inf que e k d ad ha dr :
  R q seen s inf que -> is_pub0 e = true -> e_tag e <> 0 -> ~ In (e_tag e) seen ->
  nth_error que k = Some d ->
  R (q_set (remove_nth (length inf + k) (q_l q) ++ [e])
           (if (length inf + k <? q_cur q)%nat then (q_cur q - 1)%nat else q_cur q) (q_drained q) q)
    (e_tag e :: seen)
    (upd s (a_inf s) (a_rem s) (remove_nth k (a_q s) ++ [ent_of_elem e]) ad ha dr (a_cq s) (a_ci s))
    inf (remove_nth k que ++ [e]).
Proof.
  intros H Hpub Htag Hns Hk. pose proof (R_len_inf _ _ _ _ _ H) as Hli. destruct H.
  pose proof (nth_error_lt _ _ _ Hk) as Hkl.
  assert (Hc : (length inf + k <? q_cur q)%nat = false) by (apply Nat.ltb_ge; lia).
  rewrite Hc.
  assert (Hlr : length (remove_nth k (a_q s)) = (length (a_q s) - 1)%nat).
  { apply remove_nth_length. rewrite R_aq0, map_length. assumption. }
  assert (Hlq : length (a_q s) = length que) by (rewrite R_aq0, map_length; reflexivity).
  constructor; simpl; auto.
  - rewrite R_l0, remove_nth_app2, <- app_assoc. reflexivity.
  - apply Forall_app. split; [apply Forall_remove_nth; auto|constructor; auto].
  - rewrite R_aq0, map_app, map_remove_nth. reflexivity.
  - rewrite app_assoc, map_app. simpl. rewrite ent_tag_pub0 by assumption.
    apply tags_ok_snoc; auto. eapply tags_ok_subseq; [exact R_tags0|].
    rewrite !map_app. apply subseq_app; [apply subseq_refl|].
    rewrite map_remove_nth. apply subseq_remove_nth.
  - rewrite R_cq0, app_length, Hlr. simpl. lia.
  - rewrite app_length, Hlr. simpl. lia.
Qed.

Lemma R_drop_new q seen s inf que t ad ha dr :
  R q seen s inf que ->
  R q (t :: seen) (upd s (a_inf s) (a_rem s) (a_q s) ad ha dr (a_cq s) (a_ci s)) inf que.
Proof.
  intros H. destruct H. constructor; simpl; auto. apply tags_ok_weaken. assumption.
Qed.

Lemma add_sim q seen s now e : Rx q seen s -> wf_step q seen (OAdd now e) = true ->
  step_sim q seen s (OAdd now e).
Proof.
  intros (inf & que & H) Hwf. pose proof (R_len_inf _ _ _ _ _ H) as Hli.
  pose proof H as HR. destruct H.
  simpl in Hwf.
  apply andb_true_iff in Hwf; destruct Hwf as [Hwf Hfresh].
  apply andb_true_iff in Hwf; destruct Hwf as [Hpub Htag].
  apply negb_true_iff in Hfresh. apply negb_true_iff, N.eqb_neq in Htag.
  assert (Hns : ~ In (e_tag e) seen) by (rewrite <- memN_In; congruence).
  destruct (pub0_inv e Hpub) as (m & Hb & Hpid).
  assert (Hte : a_tag (ent_of_elem e) = e_tag e) by (apply ent_tag_pub0; auto).
  assert (Hll : length (q_l q) = (length (a_inf s) + length (a_q s))%nat).
  { rewrite R_l0, R_aq0, app_length, map_length. lia. }
  assert (Hlq : length (a_q s) = length que) by (rewrite R_aq0, map_length; reflexivity).
  pose proof (inf_ids _ _ R_inf0) as Hids.
  destruct (tags_split _ _ _ R_tags0) as (Hnd_inf & Hnd_q & Hnz_inf).
  unfold step_sim. simpl. unfold q_add.
  destruct (q_max q <=? length (q_l q))%nat eqn:Hfull.
  2:{ (* there is room *)
    apply Nat.leb_gt in Hfull. simpl. split; [discriminate|].
    unfold add_ok.
    assert (Hlt : (length (a_inf s) + length (a_q s) <? a_max s)%nat = true) by (apply Nat.ltb_lt; lia).
    rewrite Hlt. eexists; split; [reflexivity|]. exists inf, (que ++ [e]).
    constructor; simpl; auto.
    - rewrite R_l0, app_assoc. reflexivity.
    - apply Forall_app. split; auto.
    - rewrite R_aq0, map_app. reflexivity.
    - rewrite app_assoc, map_app. simpl. rewrite Hte. apply tags_ok_snoc; auto.
    - rewrite R_cq0, app_length. simpl. lia.
    - rewrite app_length. simpl. lia. }
  apply Nat.leb_le in Hfull.
  assert (Hnlt : (length (a_inf s) + length (a_q s) <? a_max s)%nat = false) by (apply Nat.ltb_ge; lia).
  unfold add_victim.
  pose proof (fei_spec now que R_que0 inf (a_inf s) R_inf0 0%nat) as Hfei. rewrite <- R_l0 in Hfei.
  destruct (first_expired_inflight now (q_l q) 0) as [j|].
  - (* an expired in-flight entry *)
    destruct Hfei as (k & d & a & Hj & Hnd & Hna & Hda & Hxd & Hxa & Hex & Hpre). simpl in Hj. subst j.
    pose proof (nth_error_lt _ _ _ Hnd) as Hk.
    assert (Hnl : nth_error (q_l q) k = Some d) by (rewrite R_l0, nth_error_app1; auto).
    rewrite Hnl. simpl. split; [discriminate|].
    assert (Hvi : vidx now (e_tag d) (a_inf s) 0 = Some k).
    { pose proof Hda as (_ & _ & _ & Hbd). destruct (e_body d) as [md|pd].
      - destruct Hbd as (_ & _ & Htd). rewrite <- Htd.
        apply (vidx_tag now (a_tag a)) with (a := a) (i := 0%nat) (k := k); auto.
        apply Hnz_inf. eapply nth_error_In; eauto.
      - destruct Hbd as (Hrel & Htd). rewrite Htd.
        apply (vidx_rel now) with (a := a) (i := 0%nat) (k := k); auto. }
    rewrite (add_ok_expinf now e s (e_tag d) k a); auto.
    eexists; split; [reflexivity|]. exists (remove_nth k inf), (que ++ [e]).
    assert (Hlr : length (remove_nth k (a_inf s)) = (length (a_inf s) - 1)%nat) by (apply remove_nth_length; lia).
    rewrite <- R_cur0.
    constructor; simpl; auto; rewrite ?Hlr.
    + rewrite R_l0, remove_nth_app1, <- app_assoc by assumption. reflexivity.
    + apply Forall2_remove_nth. assumption.
    + apply Forall_app. split; auto.
    + rewrite R_aq0, map_app. reflexivity.
    + destruct (Nat.ltb_spec k (q_cur q)); lia.
    + destruct (Nat.ltb_spec k (q_cur q)); lia.
    + intros Hd. apply R_dr0 in Hd. destruct (Nat.ltb_spec k (q_cur q)); lia.
    + rewrite app_assoc, map_app. simpl. rewrite Hte. apply tags_ok_snoc; auto.
      eapply tags_ok_subseq; [exact R_tags0|]. apply tags_remove_inf.
    + rewrite R_cq0, app_length. simpl. lia.
    + rewrite R_ci0. lia.
    + rewrite app_length. simpl. lia.
  - (* no expired in-flight entry *)
    destruct (q_drained q && (q_cur q =? length (q_l q))%nat) eqn:Hdc.
    + (* nothing queued: the newcomer is dropped *)
      apply andb_true_iff in Hdc. destruct Hdc as [Hd Hc]. apply Nat.eqb_eq in Hc.
      apply R_dr0 in Hd.
      assert (que = []) by (destruct que; [reflexivity|simpl in *; lia]). subst que.
      simpl. split; [discriminate|]. unfold add_ok. rewrite Hnlt, Hfei, R_aq0. simpl.
      rewrite Hte, N.eqb_refl. eexists; split; [reflexivity|]. exists inf, [].
      rewrite <- R_aq0 at 1. apply R_drop_new. assumption.
    + (* scan of the queued part *)
      assert (Hskip : skipn (q_cur q) (q_l q) = skipn (q_cur q) inf ++ que).
      { rewrite R_l0, skipn_app. replace (q_cur q - length inf)%nat with 0%nat by lia. reflexivity. }
      assert (Hsl : (q_cur q + length (skipn (q_cur q) inf) = length inf)%nat) by (rewrite skipn_length; lia).
      rewrite Hskip, add_scan_skip, first_queued_skip, Hsl by (apply Forall_skipn'; assumption).
      assert (Hxq : existsb (aexpired now) (a_q s) = existsb (expired now) que).
      { rewrite R_aq0, existsb_map. apply existsb_ext'. apply ent_expired. }
      assert (Hqq : existsb (fun a => aqos a =? 0) (a_q s) = existsb (fun e => eqos e =? 0) que).
      { rewrite R_aq0, existsb_map. apply existsb_ext'. intros x. rewrite ent_qos. reflexivity. }
      assert (Hvq : forall k d, nth_error que k = Some d ->
                find_tag (e_tag d) (a_q s) = Some (ent_of_elem d) /\
                remove_tag (e_tag d) (a_q s) = remove_nth k (a_q s) /\
                nth_error (q_l q) (length inf + k) = Some d).
      { intros k d Hk. assert (Hpd : is_pub0 d = true).
        { rewrite Forall_forall in R_que0. apply R_que0. eapply nth_error_In; eauto. }
        rewrite <- (ent_tag_pub0 d Hpd).
        destruct (find_tag_nth (a_q s) k (ent_of_elem d) Hnd_q) as [Hf Hr].
        { rewrite R_aq0. apply map_nth_error. assumption. }
        splits; auto. rewrite R_l0, nth_error_app2 by lia.
        replace (length inf + k - length inf)%nat with k by lia. assumption. }
      pose proof (add_scan_spec now que (length inf) None R_que0) as Hsc.
      destruct (add_scan now que (length inf) None) as [|j r].
      * (* nothing expired, no QoS 0 queued *)
        destruct Hsc as (Hnx & _ & Hnq). rewrite Hb.
        assert (Hqe : aqos (ent_of_elem e) = m_qos m) by (rewrite ent_qos; unfold eqos; rewrite Hb; reflexivity).
        destruct (m_qos m =? 0) eqn:Hq0.
        -- (* QoS 0 newcomer is dropped *)
           simpl. split; [discriminate|]. unfold add_ok.
           rewrite Hnlt, Hfei, Hxq, Hnx, Hqq, Hnq, Hqe, Hq0, Hte, N.eqb_refl.
           destruct (a_q s) eqn:Haq; (eexists; split; [reflexivity|]); exists inf, que;
             rewrite <- Haq; apply R_drop_new; assumption.
        -- destruct que as [|d que'].
           ++ (* nothing queued *)
              simpl. split; [discriminate|]. unfold add_ok.
              rewrite Hnlt, Hfei, Hxq, Hnx, Hqq, Hnq, R_aq0. simpl. rewrite Hte, N.eqb_refl.
              eexists; split; [reflexivity|]. exists inf, [].
              rewrite <- R_aq0 at 1. apply R_drop_new. assumption.
           ++ (* the oldest queued message is dropped *)
              inversion R_que0 as [|? ? Hpd Hq']; subst.
              simpl first_queued. rewrite (is_pub0_id d Hpd). simpl.
              destruct (Hvq 0%nat d eq_refl) as (Hf & Hr & Hn). rewrite Nat.add_0_r in Hn.
              rewrite Hn. simpl. split; [discriminate|]. unfold add_ok.
              rewrite Hnlt, Hfei, Hxq, Hnx, Hqq, Hnq, Hqe, Hq0.
              destruct (a_q s) as [|o rest] eqn:Haq; [simpl in R_aq0; discriminate|].
              simpl in R_aq0. inversion R_aq0 as [[Ho Hrest]].
              rewrite (ent_tag_pub0 d Hpd), N.eqb_refl.
              eexists; split; [reflexivity|]. exists inf, (que' ++ [e]).
              pose proof (R_drop_queued q seen s inf (d :: que') e 0%nat d
                            (a_added s ++ [a_tag (ent_of_elem e)]) (a_handed s) (a_dropped s ++ [e_tag d])
                            HR Hpub Htag Hns eq_refl) as HR'.
              rewrite Haq, Nat.add_0_r in HR'. simpl remove_nth in HR'.
              rewrite Hrest in HR'. exact HR'.
      * destruct r; try contradiction.
        -- (* a queued QoS 0 message is dropped *)
           destruct Hsc as (Hnx & k & d & Hj & Hk & Hqd). subst j.
           destruct (Hvq k d Hk) as (Hf & Hr & Hn).
           rewrite Hn. simpl. split; [discriminate|]. unfold add_ok.
           assert (Heq : existsb (fun e => eqos e =? 0) que = true).
           { apply existsb_exists. exists d. split; [eapply nth_error_In; eauto|]. rewrite Hqd. reflexivity. }
           rewrite Hnlt, Hfei, Hxq, Hnx, Hqq, Heq, Hf, ent_qos, Hqd, Hr. simpl.
           eexists; split; [reflexivity|]. exists inf, (remove_nth k que ++ [e]).
           apply R_drop_queued with (d := d); assumption.
        -- (* an expired queued message is dropped *)
           destruct Hsc as (k & d & Hj & Hk & Hxd & Hex). subst j.
           destruct (Hvq k d Hk) as (Hf & Hr & Hn).
           rewrite Hn. simpl. split; [discriminate|]. unfold add_ok.
           rewrite Hnlt, Hfei, Hxq, Hex, Hf, ent_expired, Hxd, Hr.
           eexists; split; [reflexivity|]. exists inf, (remove_nth k que ++ [e]).
           apply R_drop_queued with (d := d); assumption.
Qed.

(* ------------------------------------------------------------------ *)
(* 4. every step, then every history                                   *)
(* ------------------------------------------------------------------ *)

Lemma step_sim_all q seen s o : Rx q seen s -> wf_step q seen o = true -> step_sim q seen s o.
Proof.
  intros HR Hwf. destruct o as [now e|now pids|now n|pid|e|c v lim|].
  - apply add_sim; assumption.
  - apply read_sim; assumption.
  - apply readinflight_sim; assumption.
  - apply remove_sim; assumption.
  - apply replace_sim; assumption.
  - apply init_sim; assumption.
  - apply close_sim; assumption.
Qed.

(* the list of seen tags at the end of a run *)
Fixpoint seen_run (q : queue) (seen : list N) (ops : list qop) : list N :=
  match ops with
  | [] => seen
  | o :: r => let '(q', out) := q_step q o in
              match out with RPanic => seen_step seen o | _ => seen_run q' (seen_step seen o) r end
  end.

Lemma run_sim : forall ops q seen s, Rx q seen s -> wf_run q seen ops = true ->
  trace_ok s ops (map oout_of (snd (q_run q ops))) = true /\
  ~ In RPanic (snd (q_run q ops)) /\
  exists s', Rx (fst (q_run q ops)) (seen_run q seen ops) s'.
Proof.
  induction ops as [|o r IH]; intros q seen s HR Hwf.
  - simpl. splits; auto. exists s. assumption.
  - simpl in Hwf. apply andb_true_iff in Hwf. destruct Hwf as [Hwf1 Hwf2].
    destruct (step_sim_all q seen s o HR Hwf1) as (Hnp & s' & Hok & HR').
    simpl. destruct (q_step q o) as [q' out] eqn:Hs. simpl in Hnp, Hok, HR'.
    pose proof (R_inv_ok _ _ _ HR') as Hinv.
    assert (Hrest : wf_run q' (seen_step seen o) r = true) by (destruct out; auto; congruence).
    destruct (IH q' (seen_step seen o) s' HR' Hrest) as (Ht & Hn & s'' & HR'').
    destruct (q_run q' r) as [q'' outs] eqn:Hr. simpl in Ht, Hn, HR''.
    destruct out; try congruence; simpl; simpl in Hok; rewrite Hok, Hinv; simpl;
      (splits; [assumption| intros [Hc|Hc]; [discriminate|contradiction] | exists s''; assumption]).
Qed.

Lemma R_init max ifexp : Rx (q_new max ifexp) [] (a_new max ifexp).
Proof.
  exists [], []. constructor; simpl; auto; try lia. split; [constructor|intros t []].
Qed.

(* (1) no panic for well-formed callers *)
Lemma q_no_panic max ifexp ops : (1 <= max)%nat ->
  wf_run (q_new max ifexp) [] ops = true -> ~ In RPanic (snd (q_run (q_new max ifexp) ops)).
Proof.
  intros _ Hwf. destruct (run_sim ops _ _ _ (R_init max ifexp) Hwf) as (_ & Hn & _). assumption.
Qed.

(* (2) refinement of the abstract queue of the statement *)
Theorem q_refines_abstract max ifexp ops : (1 <= max)%nat ->
  wf_run (q_new max ifexp) [] ops = true ->
  c10_ok max ifexp ops (map oout_of (model_outs max ifexp ops)) = true.
Proof.
  intros _ Hwf. unfold c10_ok, model_outs.
  destruct (run_sim ops _ _ _ (R_init max ifexp) Hwf) as (Ht & _ & _). assumption.
Qed.

(* the simulation step in the form: the abstract queue accepts the model's output, its invariant
   holds afterwards, and the relation is re-established *)
Corollary q_step_refines q seen s o : Rx q seen s -> wf_step q seen o = true ->
  snd (q_step q o) <> RPanic /\
  exists s', step_ok s o (oout_of (snd (q_step q o))) = Some s' /\ inv_ok s' = true /\
             Rx (fst (q_step q o)) (seen_step seen o) s'.
Proof.
  intros HR Hwf. destruct (step_sim_all q seen s o HR Hwf) as (Hnp & s' & Hok & HR').
  split; auto. exists s'. splits; auto. eapply R_inv_ok; eauto.
Qed.

(* ------------------------------------------------------------------ *)
(* 5. the shape invariant of the model, stated on the model alone      *)
(* ------------------------------------------------------------------ *)

Definition is_pub (e : elem) : bool := match e_body e with QPub _ => true | QRel _ => false end.
Definition pub_tags (l : list elem) : list N := map e_tag (filter is_pub l).

(* l = in-flight ++ queued; in-flight entries carry an id, queued ones are PUBLISH without id;
   the cursor is inside the in-flight part, at its end once drained; tags of PUBLISH entries are
   distinct, non-zero and were given to Add; PUBREL entries carry tag 0 *)
Definition shape (q : queue) (seen : list N) : Prop :=
  exists inf que,
    q_l q = inf ++ que /\
    Forall (fun e => e_id e <> 0) inf /\
    Forall (fun e => is_pub0 e = true) que /\
    (q_cur q <= length inf)%nat /\
    (q_drained q = true -> q_cur q = length inf) /\
    NoDup (pub_tags (q_l q)) /\
    (forall t, In t (pub_tags (q_l q)) -> t <> 0 /\ In t seen) /\
    Forall (fun e => is_pub e = false -> e_tag e = 0) (q_l q).

Lemma pub_tags_inf inf ainf : Forall2 inf_rel inf ainf -> subseq (pub_tags inf) (map a_tag ainf).
Proof.
  intros H. induction H as [|e a l al Hea H IH]; simpl; [constructor|].
  unfold pub_tags in *. simpl. destruct Hea as (_ & _ & _ & Hb). unfold is_pub at 1.
  destruct (e_body e) as [m|p]; simpl.
  - destruct Hb as (_ & _ & <-). constructor. assumption.
  - constructor. assumption.
Qed.

Lemma pub_tags_que que : Forall (fun e => is_pub0 e = true) que -> pub_tags que = map e_tag que.
Proof.
  intros H. induction H as [|e l He H IH]; simpl; auto. unfold pub_tags in *. simpl.
  destruct (pub0_inv e He) as (m & Hb & _). unfold is_pub at 1. rewrite Hb. simpl. congruence.
Qed.

Lemma Rx_shape q seen s : Rx q seen s -> shape q seen.
Proof.
  intros (inf & que & H). pose proof (R_len_inf _ _ _ _ _ H) as Hli. destruct H.
  assert (Hss : subseq (pub_tags (q_l q)) (map a_tag (a_inf s ++ a_q s))).
  { rewrite R_l0, R_aq0, map_app, map_ent_tag by assumption. unfold pub_tags.
    rewrite filter_app, map_app. apply subseq_app; [apply pub_tags_inf; assumption|].
    fold (pub_tags que). rewrite pub_tags_que by assumption. apply subseq_refl. }
  destruct (tags_ok_subseq _ _ _ R_tags0 Hss) as [Hnd Hin].
  exists inf, que. splits; auto.
  - eapply inf_ids; eauto.
  - lia.
  - intros Hd. apply R_dr0 in Hd. lia.
  - rewrite R_l0. apply Forall_app. split.
    + clear - R_inf0. induction R_inf0 as [|e a l al Hea H IH]; constructor; auto.
      destruct Hea as (_ & _ & _ & Hb). unfold is_pub. destruct (e_body e); [discriminate|tauto].
    + eapply Forall_impl; [|exact R_que0]. intros e He Hp.
      destruct (pub0_inv e He) as (m & Hb & _). unfold is_pub in Hp. rewrite Hb in Hp. discriminate.
Qed.

Theorem q_shape max ifexp ops : wf_run (q_new max ifexp) [] ops = true ->
  shape (fst (q_run (q_new max ifexp) ops)) (seen_run (q_new max ifexp) [] ops).
Proof.
  intros Hwf. destruct (run_sim ops _ _ _ (R_init max ifexp) Hwf) as (_ & _ & s' & HR).
  eapply Rx_shape; eauto.
Qed.

(* ------------------------------------------------------------------ *)
(* 6. concrete histories                                               *)
(* ------------------------------------------------------------------ *)

Definition xm (qos : N) : msg :=
  {| m_dup := false; m_qos := qos; m_retained := false; m_topic := [116]; m_payload := [49]; m_pid := 0;
     m_ctype := []; m_corr := []; m_expiry := 0; m_pfmt := 0; m_resp := []; m_subids := []; m_uprops := [] |}.
Definition xpub (tag qos : N) (exp : option N) : elem :=
  {| e_tag := tag; e_at := 0; e_expiry := exp; e_body := QPub (xm qos) |}.
Definition xrel (p : N) : elem := {| e_tag := 0; e_at := 0; e_expiry := None; e_body := QRel p |}.
Definition xouts max ifexp ops := map oout_of (model_outs max ifexp ops).

(* non-vacuity: add, full-queue drop, read, replace, remove, init(false), partial replays *)
Definition ex_hist : list qop :=
  [OInit true false 1000; OReadInflight 0 10;
   OAdd 0 (xpub 1 1 None); OAdd 0 (xpub 2 1 None); OAdd 0 (xpub 3 0 None);
   OAdd 0 (xpub 4 1 None);                       (* full: the queued QoS 0 message 3 is dropped *)
   ORead 0 [5; 6; 7];
   OReplace (xrel 5); ORemove 6;
   OAdd 1 (xpub 8 1 None);
   OInit false false 1000;
   OReadInflight 100 1;
   OAdd 105 (xpub 9 1 None);                     (* full: expired in-flight 4, not yet replayed, is dropped *)
   OReadInflight 106 5; OReadInflight 106 5;
   ORead 107 [6; 9]; OClose].

Example ex_hist_wf : wf_run (q_new 3 10) [] ex_hist = true.
Proof. vm_compute. reflexivity. Qed.

Example ex_hist_outs : xouts 3 10 ex_hist =
  [XUnit; XReadInflight []; XAdd [OvQueue 1]; XAdd [OvQueue 1]; XAdd [OvQueue 1];
   XAdd [OvDropped 3 DFull];
   XRead [OPub 1 5 1; OPub 2 6 1; OPub 4 7 1] [OvQueue 0; OvInflight 3];
   XReplace true; XRemove [OvQueue (-1); OvInflight (-1)];
   XAdd [OvQueue 1];
   XUnit;
   XReadInflight [ORel 5];
   XAdd [OvInflight (-1); OvDropped 4 DExpiredInflight];
   XReadInflight []; XReadInflight [];
   XRead [OPub 8 6 1; OPub 9 9 1] [OvQueue 0; OvInflight 2]; XUnit].
Proof. vm_compute. reflexivity. Qed.

Example ex_hist_ok : c10_ok 3 10 ex_hist (xouts 3 10 ex_hist) = true.
Proof. apply q_refines_abstract; [lia|apply ex_hist_wf]. Qed.

(* regression: with the first version of C10O.add_ok (rem' := min (a_rem s) (length inf')) this
   history was REJECTED by the oracle although the model (and the Go code) behave as the statement
   says: the expired in-flight entry 2, not yet replayed, is sacrificed while the replay is in
   progress (cursor = 1), and the replay continues with entry 3 *)
Definition regress_hist : list qop :=
  [OInit true false 1000; OReadInflight 0 10;
   OAdd 0 (xpub 1 1 None); OAdd 0 (xpub 2 1 None); OAdd 0 (xpub 3 1 None);
   ORead 0 [5; 6; 7]; OInit false false 1000; OReadInflight 100 1;
   OAdd 105 (xpub 4 1 None); OReadInflight 106 5].

Example regress_wf : wf_run (q_new 3 10) [] regress_hist = true.
Proof. vm_compute. reflexivity. Qed.

Example regress_outs : xouts 3 10 regress_hist =
  [XUnit; XReadInflight []; XAdd [OvQueue 1]; XAdd [OvQueue 1]; XAdd [OvQueue 1];
   XRead [OPub 1 5 1; OPub 2 6 1; OPub 3 7 1] [OvQueue 0; OvInflight 3];
   XUnit; XReadInflight [OPub 1 5 1];
   XAdd [OvInflight (-1); OvDropped 2 DExpiredInflight];
   XReadInflight [OPub 3 7 1]].
Proof. vm_compute. reflexivity. Qed.

Example regress_ok : c10_ok 3 10 regress_hist (xouts 3 10 regress_hist) = true.
Proof. vm_compute. reflexivity. Qed.

(* the rungs of the drop ladder, max = 2 *)
Definition ladder_pre : list qop := [OInit true false 1000; OReadInflight 0 10].

(* expired queued message first, even behind a QoS 0 one *)
Example ladder_expired_queued :
  xouts 2 0 (ladder_pre ++ [OAdd 0 (xpub 1 0 None); OAdd 0 (xpub 2 1 (Some 50)); OAdd 100 (xpub 3 1 None)]) =
  [XUnit; XReadInflight []; XAdd [OvQueue 1]; XAdd [OvQueue 1]; XAdd [OvDropped 2 DExpired]].
Proof. vm_compute. reflexivity. Qed.

(* then a queued QoS 0 message, even if it is not the oldest *)
Example ladder_queued_qos0 :
  xouts 2 0 (ladder_pre ++ [OAdd 0 (xpub 1 1 None); OAdd 0 (xpub 2 0 None); OAdd 0 (xpub 3 1 None)]) =
  [XUnit; XReadInflight []; XAdd [OvQueue 1]; XAdd [OvQueue 1]; XAdd [OvDropped 2 DFull]].
Proof. vm_compute. reflexivity. Qed.

(* then the oldest queued message *)
Example ladder_oldest :
  xouts 2 0 (ladder_pre ++ [OAdd 0 (xpub 1 1 None); OAdd 0 (xpub 2 1 None); OAdd 0 (xpub 3 1 None)]) =
  [XUnit; XReadInflight []; XAdd [OvQueue 1]; XAdd [OvQueue 1]; XAdd [OvDropped 1 DFull]].
Proof. vm_compute. reflexivity. Qed.

(* a QoS 0 newcomer is dropped itself *)
Example ladder_newcomer_qos0 :
  xouts 2 0 (ladder_pre ++ [OAdd 0 (xpub 1 1 None); OAdd 0 (xpub 2 1 None); OAdd 0 (xpub 3 0 None)]) =
  [XUnit; XReadInflight []; XAdd [OvQueue 1]; XAdd [OvQueue 1]; XAdd [OvDropped 3 DFull]].
Proof. vm_compute. reflexivity. Qed.

(* nothing queued (everything in flight): the newcomer is dropped; an expired in-flight PUBREL
   is sacrificed first and reported with tag 0 *)
Example ladder_nothing_queued :
  xouts 2 10 (ladder_pre ++ [OAdd 0 (xpub 1 1 None); OAdd 0 (xpub 2 1 None); ORead 0 [5; 6];
                            OAdd 1 (xpub 3 1 None); OReplace (xrel 5); OAdd 100 (xpub 4 1 None);
                            OReplace {| e_tag := 0; e_at := 0; e_expiry := Some 150; e_body := QRel 5 |};
                            OAdd 200 (xpub 5 1 None)]) =
  [XUnit; XReadInflight []; XAdd [OvQueue 1]; XAdd [OvQueue 1];
   XRead [OPub 1 5 1; OPub 2 6 1] [OvQueue 0; OvInflight 2];
   XAdd [OvDropped 3 DFull]; XReplace true;
   XAdd [OvInflight (-1); OvDropped 2 DExpiredInflight];
   XReplace true;
   XAdd [OvInflight (-1); OvDropped 0 DExpiredInflight]].
Proof. vm_compute. reflexivity. Qed.
