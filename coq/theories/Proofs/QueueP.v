(* Proofs about the model of the mem session queue (Model/Queue.v), for all histories:
   raw invariants (bound, cursor), shape invariant, absence of panics for well-formed
   callers, and refinement of the abstract queue of the C10 oracle (Oracle/C10O.v). *)
From Coq Require Import List NArith ZArith Bool Arith Lia.
Import ListNotations.
From GM Require Import Base.Topic Base.Msg Model.Queue Oracle.C10O.
Open Scope N_scope.

(* ------------------------------------------------------------------ *)
(* 0. list helpers                                                     *)
(* ------------------------------------------------------------------ *)

Lemma remove_nth_length_le {A} (l : list A) : forall i, (length (remove_nth i l) <= length l)%nat.
Proof. induction l as [|x r IH]; intros [|i]; simpl; auto. specialize (IH i). lia. Qed.

Lemma remove_nth_length {A} (l : list A) : forall i, (i < length l)%nat ->
  length (remove_nth i l) = (length l - 1)%nat.
Proof.
  induction l as [|x r IH]; intros [|i] Hi; simpl in *; try lia.
  rewrite IH by lia. lia.
Qed.

Lemma replace_nth_length {A} (y : A) (l : list A) : forall i, length (replace_nth i y l) = length l.
Proof. induction l as [|x r IH]; intros [|i]; simpl; auto. Qed.

Lemma nth_error_lt {A} (l : list A) i x : nth_error l i = Some x -> (i < length l)%nat.
Proof. intros H. apply nth_error_Some. congruence. Qed.

Lemma remove_nth_app1 {A} (a b : list A) : forall i, (i < length a)%nat ->
  remove_nth i (a ++ b) = remove_nth i a ++ b.
Proof.
  induction a as [|x r IH]; intros [|i] Hi; simpl in *; try lia; auto.
  rewrite IH by lia. reflexivity.
Qed.

Lemma remove_nth_app2 {A} (a b : list A) : forall k,
  remove_nth (length a + k) (a ++ b) = a ++ remove_nth k b.
Proof. induction a as [|x r IH]; intros k; simpl; auto. rewrite IH. reflexivity. Qed.

Lemma replace_nth_app1 {A} (y : A) (a b : list A) : forall i, (i < length a)%nat ->
  replace_nth i y (a ++ b) = replace_nth i y a ++ b.
Proof.
  induction a as [|x r IH]; intros [|i] Hi; simpl in *; try lia; auto.
  rewrite IH by lia. reflexivity.
Qed.

Lemma replace_nth_mid {A} (y x : A) (a b : list A) :
  replace_nth (length a) y (a ++ x :: b) = a ++ y :: b.
Proof. induction a as [|z r IH]; simpl; auto. rewrite IH. reflexivity. Qed.

Lemma remove_nth_mid {A} (x : A) (a b : list A) :
  remove_nth (length a) (a ++ x :: b) = a ++ b.
Proof. induction a as [|z r IH]; simpl; auto. rewrite IH. reflexivity. Qed.

Lemma nth_error_mid {A} (a b : list A) : nth_error (a ++ b) (length a) = hd_error b.
Proof. induction a as [|z r IH]; simpl; auto. Qed.

Lemma map_remove_nth {A B} (f : A -> B) (l : list A) : forall i,
  map f (remove_nth i l) = remove_nth i (map f l).
Proof. induction l as [|x r IH]; intros [|i]; simpl; auto. rewrite IH. reflexivity. Qed.

Lemma Forall2_remove_nth {A B} (P : A -> B -> Prop) (l : list A) (m : list B) :
  Forall2 P l m -> forall i, Forall2 P (remove_nth i l) (remove_nth i m).
Proof.
  intros H. induction H as [|x y l m Hxy H IH]; intros [|i]; simpl; auto.
Qed.

Lemma Forall2_replace_nth {A B} (P : A -> B -> Prop) (l : list A) (m : list B) x y :
  Forall2 P l m -> P x y -> forall i, Forall2 P (replace_nth i x l) (replace_nth i y m).
Proof.
  intros H Hp. induction H as [|x0 y0 l m Hxy H IH]; intros [|i]; simpl; auto.
Qed.

Lemma Forall_remove_nth {A} (P : A -> Prop) (l : list A) :
  Forall P l -> forall i, Forall P (remove_nth i l).
Proof.
  intros H. induction H as [|x l Hx H IH]; intros [|i]; simpl; auto.
Qed.

Lemma Forall2_length' {A B} (P : A -> B -> Prop) l m : Forall2 P l m -> length l = length m.
Proof. intros H. induction H; simpl; auto. Qed.

Lemma Forall2_nth {A B} (P : A -> B -> Prop) l m : Forall2 P l m ->
  forall i x, nth_error l i = Some x -> exists y, nth_error m i = Some y /\ P x y.
Proof.
  intros H. induction H as [|x0 y0 l m Hxy H IH]; intros [|i] x Hn; simpl in *; try discriminate.
  - inversion Hn; subst. eauto.
  - eauto.
Qed.

(* subsequences *)
Inductive subseq {A} : list A -> list A -> Prop :=
| ss_nil : subseq [] []
| ss_keep x l m : subseq l m -> subseq (x :: l) (x :: m)
| ss_skip x l m : subseq l m -> subseq l (x :: m).

Lemma subseq_refl {A} (l : list A) : subseq l l.
Proof. induction l; constructor; auto. Qed.

Lemma subseq_in {A} (l m : list A) : subseq l m -> forall x, In x l -> In x m.
Proof.
  intros H. induction H as [|x l m H IH|x l m H IH]; intros y Hy; simpl in *; auto.
  destruct Hy as [->|Hy]; auto.
Qed.

Lemma subseq_NoDup {A} (l m : list A) : subseq l m -> NoDup m -> NoDup l.
Proof.
  intros H. induction H as [|x l m H IH|x l m H IH]; intros Hn; auto.
  - inversion Hn; subst. constructor; auto. intros Hi. eapply subseq_in in Hi; eauto.
  - inversion Hn; subst. auto.
Qed.

Lemma subseq_app {A} (a b c d : list A) : subseq a b -> subseq c d -> subseq (a ++ c) (b ++ d).
Proof. intros H. induction H; intros Hc; simpl; auto; constructor; auto. Qed.

Lemma subseq_remove_nth {A} (l : list A) : forall i, subseq (remove_nth i l) l.
Proof.
  induction l as [|x r IH]; intros [|i]; simpl; try constructor; auto using subseq_refl.
Qed.

Lemma subseq_trans {A} (a b c : list A) : subseq a b -> subseq b c -> subseq a c.
Proof.
  intros Hab Hbc. revert a Hab. induction Hbc as [|x l m H IH|x l m H IH]; intros a Hab.
  - auto.
  - inversion Hab; subst; constructor; auto.
  - constructor; auto.
Qed.

(* ------------------------------------------------------------------ *)
(* 1. raw invariants: no hypothesis on the caller                      *)
(* ------------------------------------------------------------------ *)

Lemma q_run_fst_ind (P : queue -> Prop) :
  (forall q o, P q -> P (fst (q_step q o))) ->
  forall ops q, P q -> P (fst (q_run q ops)).
Proof.
  intros Hstep. induction ops as [|o r IH]; intros q Hq; simpl; auto.
  specialize (Hstep q o Hq). destruct (q_step q o) as [q' out] eqn:Hs. simpl in Hstep.
  specialize (IH q' Hstep).
  destruct (q_run q' r) as [q'' outs] eqn:Hr. simpl in IH.
  destruct out; simpl; auto.
Qed.

Definition raw_inv (M : nat) (q : queue) : Prop :=
  q_max q = M /\ (length (q_l q) <= M)%nat /\ (q_cur q <= length (q_l q))%nat.

Lemma read_loop_raw now : forall n pids l cur limit v5 ifexp dq di evs rs l' cur' dq' di' evs' rs',
  read_loop now n pids l cur limit v5 ifexp dq di evs rs = Some (l', cur', dq', di', evs', rs') ->
  (cur <= length l)%nat -> (length l' <= length l)%nat /\ (cur' <= length l')%nat.
Proof.
  induction n as [|k IH]; intros pids l cur limit v5 ifexp dq di evs rs l' cur' dq' di' evs' rs' H Hc; simpl in H.
  - inversion H; subst. auto.
  - destruct (nth_error l cur) as [v|] eqn:Hn.
    2:{ inversion H; subst. auto. }
    pose proof (nth_error_lt _ _ _ Hn) as Hlt.
    pose proof (remove_nth_length l cur Hlt) as Hrl.
    destruct (expired now v) eqn:Hx.
    { apply IH in H; [|lia]. lia. }
    destruct (e_body v) as [m|p] eqn:Hb; [|discriminate].
    destruct (limit <? msg_total_bytes v5 m) eqn:Hlim.
    { apply IH in H; [|lia]. lia. }
    destruct (m_qos m =? 0) eqn:Hq.
    { apply IH in H; [|lia]. lia. }
    destruct pids as [|p pids']; [discriminate|].
    apply IH in H; rewrite replace_nth_length in *; lia.
Qed.

Lemma rif_loop_raw now ifexp : forall n l cur rs l' cur' dr rs',
  rif_loop now n l cur ifexp rs = (l', cur', dr, rs') ->
  (cur <= length l)%nat -> length l' = length l /\ (cur' <= length l')%nat.
Proof.
  induction n as [|k IH]; intros l cur rs l' cur' dr rs' H Hc; simpl in H.
  - inversion H; subst. auto.
  - destruct (nth_error l cur) as [e|] eqn:Hn.
    2:{ inversion H; subst. auto. }
    pose proof (nth_error_lt _ _ _ Hn) as Hlt.
    destruct (e_id e =? 0) eqn:Hid.
    { inversion H; subst. auto. }
    apply IH in H; rewrite replace_nth_length in *; lia.
Qed.

Lemma find_id_bound pid : forall l n i j, find_id pid l n i = Some j ->
  (i <= j)%nat /\ (j - i < n)%nat /\ (j - i < length l)%nat.
Proof.
  induction l as [|e r IH]; intros [|k] i j H; simpl in H; try discriminate.
  destruct (e_id e =? pid) eqn:He.
  - inversion H; subst. simpl. lia.
  - apply IH in H. simpl. lia.
Qed.

Lemma q_step_raw M q o : raw_inv M q -> raw_inv M (fst (q_step q o)).
Proof.
  intros (Hm & Hl & Hc). destruct o as [now e|now pids|now n|pid|e|c v lim|]; simpl.
  - (* Add *)
    unfold q_add. destruct (q_max q <=? length (q_l q))%nat eqn:Hfull.
    + destruct (add_victim now e q) as [|r|i r]; simpl; try (repeat split; auto; fail).
      destruct (nth_error (q_l q) i) as [d|] eqn:Hn; simpl; [|repeat split; auto].
      pose proof (nth_error_lt _ _ _ Hn) as Hlt.
      repeat split; simpl; auto; rewrite app_length, remove_nth_length by auto; simpl; try lia.
      destruct (i <? q_cur q)%nat; lia.
    + apply Nat.leb_gt in Hfull. repeat split; simpl; auto; rewrite app_length; simpl; lia.
  - (* Read *)
    unfold q_read. destruct (negb (q_drained q)); simpl; [repeat split; auto|].
    destruct (q_closed q); simpl; [repeat split; auto|].
    destruct (q_cur q =? length (q_l q))%nat; simpl; [repeat split; auto|].
    destruct (read_loop _ _ _ _ _ _ _ _ _ _ _ _) as [[[[[[l' cur'] dq] di] evs] rs]|] eqn:Hr; simpl; [|repeat split; auto].
    apply read_loop_raw in Hr; auto. repeat split; simpl; auto; lia.
  - (* ReadInflight *)
    unfold q_read_inflight.
    destruct ((length (q_l q) =? 0)%nat || (q_cur q =? length (q_l q))%nat); simpl; [repeat split; auto|].
    destruct (rif_loop _ _ _ _ _ _) as [[[l' cur'] dr] rs] eqn:Hr. simpl.
    apply rif_loop_raw in Hr; auto. repeat split; simpl; auto; lia.
  - (* Remove *)
    unfold q_remove. destruct (find_id pid (q_l q) (q_cur q) 0) as [i|] eqn:Hf; simpl; [|repeat split; auto].
    apply find_id_bound in Hf.
    repeat split; simpl; auto; rewrite remove_nth_length by lia; lia.
  - (* Replace *)
    unfold q_replace. destruct (find_id (e_id e) (q_l q) (q_cur q) 0) as [i|] eqn:Hf; simpl; [|repeat split; auto].
    repeat split; simpl; auto; rewrite replace_nth_length; lia.
  - repeat split; simpl; auto; try lia. destruct c; simpl; lia.
  - repeat split; simpl; auto.
Qed.

Lemma q_run_raw max ifexp ops : raw_inv max (fst (q_run (q_new max ifexp) ops)).
Proof.
  apply q_run_fst_ind with (P := raw_inv max).
  - intros q o. apply q_step_raw.
  - repeat split; simpl; lia.
Qed.

Lemma q_bounded max ifexp ops : (1 <= max)%nat ->
  (length (q_l (fst (q_run (q_new max ifexp) ops))) <= max)%nat.
Proof. intros _. apply (q_run_raw max ifexp ops). Qed.

Lemma q_cursor_in_range max ifexp ops :
  (q_cur (fst (q_run (q_new max ifexp) ops)) <= length (q_l (fst (q_run (q_new max ifexp) ops))))%nat.
Proof. apply (q_run_raw max ifexp ops). Qed.
